"""C12 — cone orders are their cones' preorders; bundled cones have the stated geometry.

Real `PolyhedralConeOrder.dominates` / `OrderingCone.is_inside` / `OrderingCone.__eq__` and the bundled
constructors (`ComponentwiseOrder`, `ConeTheta2DOrder`, `ConeOrder3D`, `ConeOrder3DIceCream`) from /repo
against

* the exact Lean relation `VOPy.dominates` / `VOPy.inCone` (Model/Basic.lean) on dyadic-lattice vectors and
  integer/dyadic cone rows (the float path `a - b`, `x @ W.T`, `>= 0` is exact there) — EQUALITY, ties
  and boundary points included;
* the preorder laws the theorems of Props/C12.lean prove for the model, sampled on the real code;
* the `Float` instance of the `RealLike` constructor terms of Model/ConeFormulas.lean (1e-12), and the
  angle semantics the theorems state, re-checked on the exported floats by exact rational sign tests 1e-6 rad
  away from the boundary.
"""
import math
import struct
from fractions import Fraction

import numpy as np

from harness import core
from harness.cones import EXACT_CONES, real_order

TITLE = "cone order relation, preorder laws and bundled cone constructors vs Lean model"
RULE = ("cases: dom = (cone with integer/dyadic rows, dyadic-lattice pair a,b) with shapes random / equal / "
        "facet-tie / inside / outside / mixed-facets; batch = 2-D and broadcast calls, list input, plus exhaustive "
        "small lattices of difference vectors per cone in chunks of 64; laws = "
        "(a,b,c,t,s) chains built from cone elements; ctor2d = theta in 1..179 (int and float, both branches, "
        "exactly 90) + random theta, with probe directions; ctor3d = the three kinds; ice = K in 3..64 x theta; "
        "eq = OrderingCone.__eq__ pairs; comp = ComponentwiseOrder(dim 2..5); dtype = cone matrix handed to the real "
        "constructor as int64/int32 array, nested int list, float32 or Fortran-order float64 array with fractional "
        "quarter-lattice vectors (single, list, batched, float32 inputs); extreme = exactly representable dyadic "
        "pairs: ordinary differences (2^-10..1) at common offsets 2^10..2^20, tiny differences 2^-20..2^-40 near the "
        "origin, translation and scaling (2^+-30, 2^+-20) laws on the real code, float/int/list/float32 W; meta = "
        "metamorphic translation / 2^k-scaling invariance of dominates (single and same-shape batched calls) on cones "
        "with non-dyadic entries (bundled acute/obtuse, theta-cones incl. rational-tangent angles, ice-cream, user "
        "float matrices, N>m), differences weighted onto facets of the ideal cone, all sums asserted exact; "
        "non-trivial when a pair is numerically on a facet of the stored W; helper = public geometry helpers "
        "called directly on existing objects (order.compute_ice_cream_cone(K, theta) positional/keyword with (K, theta) "
        "other than the object's own; get_2d_w(theta) repeatedly) checked like the constructor matrices. non-trivial: dom/batch = not all "
        "facet values strictly of one sign or a tie present; laws = at least one implication premise true; "
        "ctor* = always (distinct parameters); distinct by the full case")
ASSUMPTIONS = [
    "relation checks use dyadic-lattice vectors and integer/dyadic cone rows so the float path is exact",
    "constructor matrices are compared with the Float evaluation of the same RealLike term at 1e-12; "
    "angle semantics are re-checked 1e-6 rad away from the facet boundaries (float rounding not modelled)",
]

TOL = 1e-12
DELTA = 1e-6  # angular margin (rad) of the sign tests

# extra exact cones (beyond harness/cones.py): more dimensions, N > m, dyadic rows, non-pointed, zero row
EXTRA_CONES = {
    "orthant4": ([[1, 0, 0, 0], [0, 1, 0, 0], [0, 0, 1, 0], [0, 0, 0, 1]], True),
    "orthant5": ([[1 if i == j else 0 for j in range(5)] for i in range(5)], True),
    "dyadic2": ([[0.5, -0.25], [-0.25, 0.5]], True),
    "fivefacet2": ([[1, 0], [0, 1], [2, -1], [-1, 2], [1, 1]], True),
    "line2": ([[1, -1], [-1, 1]], False),
    "zerorow2": ([[0, 0], [1, 0]], False),
    "halfspace3": ([[1, 1, 1]], False),
    "sixfacet3": ([[1, 0, 0], [0, 1, 0], [0, 0, 1], [1, 1, -1], [1, -1, 1], [-1, 1, 1]], True),
    "mixed4": ([[1, -1, 0, 0], [0, 1, -1, 0], [0, 0, 1, -1], [0, 0, 0, 1], [1, 1, 1, 1]], True),
    "ray1": ([[1]], True),
}
ALL_CONES = dict(EXACT_CONES)
ALL_CONES.update(EXTRA_CONES)


# ----------------------------------------------------------------------------- helpers
def _bits_to_float(s):
    return struct.unpack("<d", struct.pack("<Q", int(s)))[0]


def _parse_fmat(s):
    if s.startswith("bad") or s == "":
        raise RuntimeError(f"Lean driver answered {s!r}")
    return [] if s == "_" else [[_bits_to_float(t) for t in r.split(",")] for r in s.split(";")]


def _ask(ctx, op, *args):
    ans = ctx.ask(op, *args)
    if ans.startswith("bad"):
        raise RuntimeError(f"Lean driver rejected: C12 {op} {' '.join(a[:80] for a in args)}")
    return ans


def _close(x, y, tol=TOL):
    return abs(x - y) <= tol + tol * abs(y)


def _blist(res):
    return [bool(t) for t in np.asarray(res).ravel().tolist()]


def _rank_q(W):
    M = [[core.frac(x) for x in r] for r in W]
    rank, rows, cols = 0, len(M), len(M[0]) if M else 0
    for c in range(cols):
        piv = next((r for r in range(rank, rows) if M[r][c] != 0), None)
        if piv is None:
            continue
        M[rank], M[piv] = M[piv], M[rank]
        for r in range(rows):
            if r != rank and M[r][c] != 0:
                f = M[r][c] / M[rank][c]
                M[r] = [x - f * y for x, y in zip(M[r], M[rank])]
        rank += 1
    return rank


def _kernel_vec(W):
    """a non-zero integer-ish kernel vector of W (exact), or None if ker W = 0"""
    m = len(W[0])
    M = [[core.frac(x) for x in r] for r in W]
    piv_cols, rank = [], 0
    for c in range(m):
        piv = next((r for r in range(rank, len(M)) if M[r][c] != 0), None)
        if piv is None:
            continue
        M[rank], M[piv] = M[piv], M[rank]
        pv = M[rank][c]
        M[rank] = [x / pv for x in M[rank]]
        for r in range(len(M)):
            if r != rank and M[r][c] != 0:
                f = M[r][c]
                M[r] = [x - f * y for x, y in zip(M[r], M[rank])]
        piv_cols.append(c)
        rank += 1
    free = [c for c in range(m) if c not in piv_cols]
    if not free:
        return None
    v = [Fraction(0)] * m
    v[free[0]] = Fraction(1)
    for i, c in enumerate(piv_cols):
        v[c] = -M[i][free[0]]
    den = 1
    for x in v:
        den = den * x.denominator // math.gcd(den, x.denominator)
    return [float(x * den) for x in v]


def _facet_vals(W, d):
    return [sum(core.frac(w) * core.frac(x) for w, x in zip(r, d)) for r in W]


def _in_cone_q(W, d):
    return all(v >= 0 for v in _facet_vals(W, d))


def _lat(rng, m, lo=-8, hi=8, p=None):
    """m lattice coordinates k / 2**p with small |k| (ties and facet hits are frequent)"""
    p = rng.choice([0, 0, 1, 2]) if p is None else p
    return [core.dyadic(rng, lo, hi, p) for _ in range(m)]


def _cone_element(rng, W, m, tries=60):
    """a lattice vector with W d >= 0 (rejection sampling; falls back to 0)"""
    for _ in range(tries):
        d = _lat(rng, m)
        if _in_cone_q(W, d):
            return d
    return [0.0] * m


def _on_facet(rng, W, m):
    """a lattice vector with w_i . d = 0 for a random facet i (d = |w|^2 e - (w.e) w)"""
    w = W[rng.randrange(len(W))]
    e = _lat(rng, m, p=rng.choice([0, 1]))
    ww = sum(x * x for x in w)
    we = sum(x * y for x, y in zip(w, e))
    d = [ww * y - we * x for x, y in zip(w, e)]
    if rng.random() < 0.5:
        d = [-x for x in d]
    return [float(x) for x in d]


# ----------------------------------------------------------------------------- generation
def _gen_dom(ctx, rng, cname):
    W, _ = ALL_CONES[cname]
    m = len(W[0])
    shape = rng.choice(["random", "random", "equal", "facet", "facet", "inside", "outside", "smallint"])
    a = _lat(rng, m)
    if shape == "random":
        b = _lat(rng, m)
    elif shape == "smallint":
        a = [float(rng.randint(-1, 1)) for _ in range(m)]
        b = [float(rng.randint(-1, 1)) for _ in range(m)]
    elif shape == "equal":
        b = list(a)
    elif shape == "facet":
        d = _on_facet(rng, W, m)
        b = [x - y for x, y in zip(a, d)]
    elif shape == "inside":
        d = _cone_element(rng, W, m)
        b = [x - y for x, y in zip(a, d)]
    else:
        d = _cone_element(rng, W, m)
        b = [x + y for x, y in zip(a, d)]
    return {"kind": "dom", "cone": cname, "W": W, "a": a, "b": b, "shape": shape}


def _gen_batch(ctx, rng, cname):
    W, _ = ALL_CONES[cname]
    m = len(W[0])
    n = rng.choice([0, 1, 2, 3, 5, 8, 17])
    A = [_lat(rng, m) for _ in range(n)]
    B = []
    for i in range(n):
        r = rng.random()
        if r < 0.25:
            B.append(list(A[i]))
        elif r < 0.5:
            d = _on_facet(rng, W, m)
            B.append([x - y for x, y in zip(A[i], d)])
        elif r < 0.7:
            d = _cone_element(rng, W, m)
            B.append([x - y for x, y in zip(A[i], d)])
        else:
            B.append(_lat(rng, m))
    return {"kind": "batch", "cone": cname, "W": W, "A": A, "B": B, "single": _lat(rng, m)}


def _gen_laws(ctx, rng, cname):
    W, pointed = ALL_CONES[cname]
    m = len(W[0])
    a = _lat(rng, m)
    shape = rng.choice(["chain", "chain", "facetchain", "random", "cycle"])
    if shape == "chain":
        d1, d2 = _cone_element(rng, W, m), _cone_element(rng, W, m)
    elif shape == "facetchain":
        d1, d2 = _on_facet(rng, W, m), _cone_element(rng, W, m)
    elif shape == "cycle":
        k = _kernel_vec(W)
        d1 = k if k is not None else [0.0] * m
        d2 = [-x for x in d1] if rng.random() < 0.5 else _cone_element(rng, W, m)
    else:
        d1, d2 = _lat(rng, m), _lat(rng, m)
    b = [x - y for x, y in zip(a, d1)]
    c = [x - y for x, y in zip(b, d2)]
    return {"kind": "laws", "cone": cname, "W": W, "pointed": pointed, "a": a, "b": b, "c": c,
            "t": _lat(rng, m, lo=-8, hi=8), "s": rng.choice([0.25, 0.5, 2.0, 3.0, 5.0, 8.0]), "shape": shape}


DTYPE_MODES = ["int64", "int32", "pylist", "float32", "float64F"]


def _mode_ok(mode, W):
    integral = all(float(x).is_integer() for r in W for x in r)
    if mode in ("int64", "int32", "pylist"):
        return integral
    if mode == "float32":
        return all(float(np.float32(x)) == float(x) for r in W for x in r)
    return True


def _frac_vec(rng, m):
    """quarter-lattice vector with at least one non-integer coordinate (when m allows)"""
    v = [rng.randint(-12, 12) / 4.0 for _ in range(m)]
    if all(float(x).is_integer() for x in v):
        v[rng.randrange(m)] += rng.choice([0.25, 0.5, 0.75])
    return v


def _gen_dtype(rng, cname, mode):
    W, _ = ALL_CONES[cname]
    m = len(W[0])
    A, B = [], []
    for shape in ["smallneg", "smallpos", "random", "random", "facet", "inside", "scaled"]:
        a = _frac_vec(rng, m)
        if shape == "smallneg":      # a - b has every coordinate in (-1, 0): truncation would give 0
            d = [-rng.choice([0.25, 0.5, 0.75]) for _ in range(m)]
        elif shape == "smallpos":    # every coordinate in (0, 1)
            d = [rng.choice([0.25, 0.5, 0.75]) for _ in range(m)]
        elif shape == "facet":
            d = [x / 4.0 for x in _on_facet(rng, W, m)]
        elif shape == "inside":
            d = [x / 4.0 for x in _cone_element(rng, W, m)]
        elif shape == "scaled":      # a cone element scaled below 1: scaling invariance under truncation
            d = [x / 8.0 for x in _cone_element(rng, W, m, tries=20)]
            d = [round(x * 4) / 4.0 for x in d]
        else:
            d = [x - y for x, y in zip(a, _frac_vec(rng, m))]
        A.append(a)
        B.append([x - y for x, y in zip(a, d)])
    return {"kind": "dtype", "cone": cname, "W": W, "mode": mode, "A": A, "B": B}


EXTREME_SHAPES = ["offset-mixed", "offset-facet", "offset-cone", "tiny", "tiny-facet", "tiny-mixed", "swap"]


def _pow2(e):
    return float(2.0 ** e)


def _gen_extreme(rng, cname, shape):
    """a, b near the origin with difference d; t a large common offset; sexp the scaling exponent"""
    W, pointed = ALL_CONES[cname]
    m = len(W[0])
    modes = [mo for mo in ("float64F", "int64", "pylist", "float32") if _mode_ok(mo, W)]
    mode = rng.choice(["float64"] * 2 + modes)
    e_off = rng.randint(10, 20)
    if rng.random() < 0.5:
        t = [_pow2(e_off)] * m
    else:
        t = [rng.choice([-1, 1]) * rng.randint(1, 7) * _pow2(rng.randint(10, e_off)) for _ in range(m)]
        t = [x if abs(x) <= _pow2(20) else math.copysign(_pow2(20), x) for x in t]
    if shape == "offset-mixed":       # ordinary-size coordinates 2^-10 .. 1 of mixed sign
        d = [rng.choice([-1, 1, 1]) * rng.randint(0, 3) * _pow2(-rng.randint(0, 10)) for _ in range(m)]
    elif shape == "offset-facet":     # on a facet, scaled down to 2^-10 .. 2^-4
        d = [x * _pow2(-rng.randint(4, 10)) for x in _on_facet(rng, W, m)]
    elif shape == "offset-cone":      # cone element plus one small coordinate pushed the other way
        d = [x * _pow2(-rng.randint(0, 3)) for x in _cone_element(rng, W, m)]
        i = rng.randrange(m)
        d[i] = d[i] - rng.choice([1, 1, -1]) * _pow2(-rng.randint(6, 10))
    elif shape == "tiny":             # all coordinates k * 2^-e, e in 20..40
        e = rng.randint(20, 40)
        d = [rng.randint(-4, 4) * _pow2(-e) for _ in range(m)]
    elif shape == "tiny-facet":
        e = rng.randint(20, 36)
        d = [x * _pow2(-e) for x in _on_facet(rng, W, m)]
    elif shape == "tiny-mixed":       # ordinary cone element with one tiny coordinate perturbation
        d = _cone_element(rng, W, m)
        i = rng.randrange(m)
        d[i] = d[i] - rng.choice([1, 1, -1]) * _pow2(-rng.randint(20, 40))
    else:                             # "swap": +delta on one coordinate, -delta on another (antisymmetry probe)
        d = [0.0] * m
        de = _pow2(-rng.randint(4, 10))
        if m >= 2:
            i, j = rng.sample(range(m), 2)
            d[i], d[j] = de, -de
        else:
            d[0] = -de
    a = [rng.randint(-8, 8) / 4.0 for _ in range(m)] if rng.random() < 0.7 else [0.0] * m
    b = [x - y for x, y in zip(a, d)]
    return {"kind": "extreme", "cone": cname, "W": W, "pointed": pointed, "mode": mode, "a": a, "b": b, "t": t,
            "sexp": rng.choice([30, -30, 30, 20, -20]), "shape": shape}


# ---- metamorphic stream: cones with NON-dyadic float entries; differences on facets of the ideal cone
_META_MATS = [
    # (float matrix as a user would write it, integer rows spanning the same ideal facets)
    ([[0.1, -0.2, 0.4], [0.4, 0.1, -0.2], [-0.2, 0.4, 0.1]], [[1, -2, 4], [4, 1, -2], [-2, 4, 1]]),
    ([[0.3, -0.1], [-0.1, 0.3]], [[3, -1], [-1, 3]]),
    ([[0.6, 0.8], [0.8, -0.6]], [[3, 4], [4, -3]]),
    ([[1 / 3, -2 / 3, 2 / 3], [2 / 3, 1 / 3, -2 / 3], [-2 / 3, 2 / 3, 1 / 3]], [[1, -2, 2], [2, 1, -2], [-2, 2, 1]]),
    ([[2 / 7, 3 / 7, 6 / 7], [6 / 7, 2 / 7, 3 / 7], [3 / 7, 6 / 7, 2 / 7], [0.1, 0.1, 0.1]],
     [[2, 3, 6], [6, 2, 3], [3, 6, 2], [1, 1, 1]]),
    ([[0.7, 0.1], [0.1, 0.7], [0.3, 0.3]], [[7, 1], [1, 7], [1, 1]]),
    ([[0.1, 0.0, 0.0, 0.3], [0.0, 0.7, -0.1, 0.0], [0.0, -0.1, 0.7, 0.0], [-0.3, 0.0, 0.0, 1.1]],
     [[1, 0, 0, 3], [0, 7, -1, 0], [0, -1, 7, 0], [-3, 0, 0, 11]]),
]
_META_TAN = [(1, 2), (1, 3), (2, 3), (1, 4), (3, 4), (1, 5), (2, 5), (3, 5), (0, 1), (-1, 2), (-1, 3), (-2, 3),
             (-3, 4), (-1, 5), (-2, 5), (5, 12), (-5, 12), (8, 15)]


def _meta_specs():
    """[(constructor spec, integer rows of the ideal cone or None)]"""
    specs = [({"type": "cone3d", "cone_type": "acute"}, [[1, -2, 4], [4, 1, -2], [-2, 4, 1]]),
             ({"type": "cone3d", "cone_type": "obtuse"}, [[5, 2, 8], [8, 5, 2], [2, 8, 5]]),
             ({"type": "cone3d", "cone_type": "right"}, [[1, 0, 0], [0, 1, 0], [0, 0, 1]])]
    for Wf, R in _META_MATS:
        specs.append(({"type": "matrix", "W": Wf}, R))
    for pq in _META_TAN:
        # tan(pi/4 - theta/2) = p/q  =>  ideal rows (-p, q), (q, -p)
        th = math.degrees(2 * (math.pi / 4 - math.atan2(pq[0], pq[1])))
        specs.append(({"type": "theta", "theta": th}, [[-pq[0], pq[1]], [pq[1], -pq[0]]]))
    for th in (90, 45, 60, 120, 135, 30.5):
        R = [[0, 1], [1, 0]] if th == 90 else None
        specs.append(({"type": "theta", "theta": th}, R))
    for K, th in ((8, 30), (3, 45), (16, 60), (5, 10.5)):
        specs.append(({"type": "ice", "K": K, "theta": th}, None))
    for cname in ("threefacet2", "acute3", "pyramid3", "halfplane2"):
        specs.append(({"type": "matrix", "W": [[float(x) for x in r] for r in ALL_CONES[cname][0]]},
                      ALL_CONES[cname][0]))
    return specs


def _meta_dim(spec):
    if spec["type"] == "theta":
        return 2
    if spec["type"] in ("cone3d", "ice"):
        return 3
    return len(spec["W"][0])


def _small_on_facet(rng, R, m):
    """small dyadic vector exactly orthogonal to one ideal (integer) row, oriented into the ideal cone if possible"""
    for _ in range(30):
        w = R[rng.randrange(len(R))]
        e = [rng.randint(-3, 3) for _ in range(m)]
        ww = sum(x * x for x in w)
        we = sum(x * y for x, y in zip(w, e))
        d = [ww * y - we * x for x, y in zip(w, e)]
        g = 0
        for x in d:
            g = math.gcd(g, abs(int(x)))
        if g == 0:
            continue
        d = [int(x) // g for x in d]
        if max(abs(x) for x in d) > 40:
            continue
        for sgn in (1, -1):
            dd = [sgn * x for x in d]
            if all(sum(a * b for a, b in zip(r, dd)) >= 0 for r in R):
                k = rng.choice([1, 1, 2, 3]) * 2.0 ** (-rng.choice([0, 0, 1, 2]))
                return [k * x for x in dd]
    return [0.0] * m


def _gen_meta(rng, spec, R):
    m = _meta_dim(spec)
    D = []
    for _ in range(5):
        r = rng.random()
        if R is not None and r < 0.75:
            D.append(_small_on_facet(rng, R, m))
        elif r < 0.9:
            D.append([rng.randint(-4, 4) / 2.0 for _ in range(m)])
        else:
            D.append([rng.randint(0, 6) / 2.0 for _ in range(m)])
    base = [[0.0] * m] + [[rng.randint(-3, 3) / 2.0 for _ in range(m)] for _ in range(2)] + \
           [[rng.randint(-13, 13) / 4.0 for _ in range(m)]]
    T = []
    for _ in range(5):
        if rng.random() < 0.5:
            e = rng.randint(-3, 10)
            T.append([rng.randint(-7, 7) * 2.0 ** e for _ in range(m)])
        else:
            T.append([rng.randint(-7, 7) * 2.0 ** rng.randint(-3, 10) for _ in range(m)])
    T.append([rng.randint(-3, 3) / 2.0 for _ in range(m)])
    return {"kind": "meta", "ctor": spec, "D": D, "base": base, "T": T,
            "ks": sorted(set(rng.randint(-10, 10) for _ in range(3)))}


def _probe_offsets(rng, n=6):
    return [rng.uniform(-math.pi, math.pi) for _ in range(n)]


def gen(ctx):
    rng = ctx.rng
    names = sorted(ALL_CONES)
    thorough = ctx.tier == "thorough"
    w0 = ctx.worker == 0
    # ---- structured constructor sweeps (split over workers by index)
    k = 0

    def mine():
        nonlocal k
        k += 1
        return k % ctx.nworkers == ctx.worker

    for dim in range(1, 7):
        if mine():
            yield {"kind": "comp", "dim": dim,
                   "pairs": [[_lat(rng, dim), _lat(rng, dim)] for _ in range(12)]}
    for kind in ["acute", "right", "obtuse"]:
        if mine():
            yield {"kind": "ctor3d", "cone_type": kind, "probes": [_lat(rng, 3) for _ in range(8)]}
    for deg in range(1, 180):
        if mine():
            yield {"kind": "ctor2d", "theta": deg, "offsets": _probe_offsets(rng)}
        if mine():
            yield {"kind": "ctor2d", "theta": float(deg), "offsets": _probe_offsets(rng)}
    for th in [90, 90.0, 89.99999999999999, 90.00000000000001, 0.5, 179.5, 1e-3, 179.999, 45.5, 120.25]:
        if mine():
            yield {"kind": "ctor2d", "theta": th, "offsets": _probe_offsets(rng)}
    ice_thetas = [30, 45, 60, 10, 80, 5, 85, 22.5] if not thorough else \
        [1, 5, 10, 15, 20, 22.5, 30, 40, 45, 50, 60, 70, 75, 80, 85, 89]
    for K in range(3, 65):
        ths = ice_thetas if thorough else [ice_thetas[(K - 3) % len(ice_thetas)], ice_thetas[(K * 5) % len(ice_thetas)]]
        for th in dict.fromkeys(ths):
            if mine():
                yield {"kind": "ice", "K": K, "theta": th, "bs": [rng.uniform(0, 2 * math.pi) for _ in range(6)]}
    # ---- exhaustive small lattices: every difference vector with coordinates in a small range (all ties included)
    import itertools
    for cname in names:
        W, _ = ALL_CONES[cname]
        m = len(W[0])
        if thorough:
            r, den = {1: 16, 2: 6, 3: 3, 4: 2, 5: 1}[m], (2 if m <= 3 else 1)
        else:
            r, den = {1: 4, 2: 3, 3: 1, 4: 1, 5: 1}[m], 1
        pts = [[t / den for t in p] for p in itertools.product(range(-r, r + 1), repeat=m)]
        for i in range(0, len(pts), 64):
            if mine():
                chunk = pts[i:i + 64]
                yield {"kind": "batch", "cone": cname, "W": W, "A": chunk, "B": [[0.0] * m for _ in chunk],
                       "single": [0.0] * m, "shape": "lattice"}
    # ---- cone matrix given with other dtypes / containers (integer arrays, nested int lists, float32):
    #      fractional (quarter-lattice) vectors must still be judged by the facet inequalities of W
    for cname in names:
        for mode in DTYPE_MODES:
            if _mode_ok(mode, ALL_CONES[cname][0]) and mine():
                yield _gen_dtype(rng, cname, mode)
    for _ in range(ctx.n(250, 20000)):
        cname = rng.choice(names)
        modes = [m for m in DTYPE_MODES if _mode_ok(m, ALL_CONES[cname][0])]
        yield _gen_dtype(rng, cname, rng.choice(modes))
    # ---- extreme magnitudes (all exactly representable dyadics): ordinary differences at large common offsets,
    #      tiny differences near the origin, translation by |t| <= 2^20 and scaling by 2^+-30 on the real code
    for cname in names:
        for shape in EXTREME_SHAPES:
            if mine():
                yield _gen_extreme(rng, cname, shape)
    for _ in range(ctx.n(500, 40000)):
        yield _gen_extreme(rng, rng.choice(names), rng.choice(EXTREME_SHAPES))
    # ---- public geometry helpers called directly, as a user can, on EXISTING objects built with other parameters
    #      (fixed cases in every run, then random ones)
    fixed_helper = [
        {"kind": "helper", "own": [60, 4], "calls": [[4, 60], [6, 30], [3, 45], [8, 20], [5, 72.5], [12, 85]],
         "thetas": [30, 90, 120.5, 30]},
        {"kind": "helper", "own": [30, 6], "calls": [[6, 60], [3, 30], [7, 1], [64, 45.0]], "thetas": [90, 91, 89, 90.0]},
        {"kind": "helper", "own": [85.5, 3], "calls": [[3, 10], [16, 85.5], [5, 44]], "thetas": [1, 179, 45]},
    ]
    for c in fixed_helper:
        if mine():
            yield c
    for _ in range(ctx.n(12, 800)):
        own = [rng.choice([10, 30, 45, 60, 75, rng.uniform(1, 89)]), rng.randint(3, 8)]
        calls = [[rng.randint(3, 24 if not thorough else 64), rng.choice([rng.uniform(0.5, 89.5), float(rng.randint(1, 89))])]
                 for _ in range(4)]
        yield {"kind": "helper", "own": own, "calls": calls,
               "thetas": [rng.choice([rng.uniform(0.5, 179.5), float(rng.randint(1, 179)), rng.randint(1, 179)])
                          for _ in range(4)]}
    # ---- metamorphic translation / power-of-two scaling invariance on cones with non-dyadic entries (bundled
    #      acute/obtuse, theta-cones, ice-cream, user float matrices), weighted to differences on ideal facets
    specs = _meta_specs()
    for spec, R in specs:
        if mine():
            yield _gen_meta(rng, spec, R)
    for _ in range(ctx.n(220, 12000)):
        spec, R = specs[rng.randrange(len(specs))] if rng.random() < 0.8 else rng.choice(specs[:3 + len(_META_MATS)])
        yield _gen_meta(rng, spec, R)
    # ---- OrderingCone.__eq__
    for _ in range(ctx.n(40, 1500)):
        cname = rng.choice(names)
        W = [[float(x) for x in r] for r in ALL_CONES[cname][0]]
        mode = rng.choice(["same", "tiny", "big", "other", "sign", "shape"])
        B = [list(r) for r in W]
        if mode == "tiny":
            i, j = rng.randrange(len(B)), rng.randrange(len(B[0]))
            B[i][j] += rng.choice([1e-10, -1e-10, 1e-9])
        elif mode == "big":
            i, j = rng.randrange(len(B)), rng.randrange(len(B[0]))
            B[i][j] += rng.choice([1e-3, -1e-2, 0.5, 1.0])
        elif mode == "sign":
            i = rng.randrange(len(B))
            B[i] = [-x for x in B[i]]
        elif mode == "other":
            same_shape = [n for n in names if len(ALL_CONES[n][0]) == len(W) and len(ALL_CONES[n][0][0]) == len(W[0])]
            B = [[float(x) for x in r] for r in ALL_CONES[rng.choice(same_shape)][0]]
        elif mode == "shape":
            diff = [n for n in names if len(ALL_CONES[n][0]) != len(W) or len(ALL_CONES[n][0][0]) != len(W[0])]
            B = [[float(x) for x in r] for r in ALL_CONES[rng.choice(diff)][0]]
        yield {"kind": "eq", "A": W, "B": B, "mode": mode}
    # ---- relation: single pairs, batches, laws
    for _ in range(ctx.n(2000, 200000)):
        yield _gen_dom(ctx, rng, rng.choice(names))
    for _ in range(ctx.n(250, 12000)):
        yield _gen_batch(ctx, rng, rng.choice(names))
    for _ in range(ctx.n(600, 60000)):
        yield _gen_laws(ctx, rng, rng.choice(names))
    # ---- random constructor parameters
    for _ in range(ctx.n(60, 6000)):
        th = rng.choice([rng.uniform(0.01, 179.99), rng.uniform(89.9, 90.1), float(rng.randint(1, 359)) / 2])
        yield {"kind": "ctor2d", "theta": th, "offsets": _probe_offsets(rng)}
    for _ in range(ctx.n(10, 600)):
        yield {"kind": "ice", "K": rng.randint(3, 64 if thorough else 24), "theta": rng.uniform(0.5, 89.5),
               "bs": [rng.uniform(0, 2 * math.pi) for _ in range(6)]}
    if w0:
        ctx.info("exact cones: " + ", ".join(names))


# ----------------------------------------------------------------------------- relation cases
def _run_dom(ctx, case):
    W = case["W"]
    order = real_order(W)
    cone = order.ordering_cone
    a, b = np.array(case["a"], dtype=float), np.array(case["b"], dtype=float)
    ws = core.qmat(W)
    exp = _ask(ctx, "dom", ws, core.qvec(a), core.qvec(b)) == "1"
    d = a - b
    if (_ask(ctx, "inside", ws, core.qvec(d)) == "1") != exp:
        raise RuntimeError("Lean model: dominates W a b differs from inCone W (a - b) on exact a - b")
    ctx.count("dom_shape_" + case.get("shape", "?"))
    ctx.count("dom_" + ("true" if exp else "false"))
    calls = []
    try:
        calls.append(("dominates(a,b)", _blist(order.dominates(a.copy(), b.copy()))))
        calls.append(("is_inside(1-D array)", _blist(cone.is_inside(d.copy()))))
        calls.append(("is_inside(list)", _blist(cone.is_inside(d.tolist()))))
        calls.append(("is_inside(1xm array)", _blist(cone.is_inside(d.reshape(1, -1)))))
        calls.append(("is_inside(list of list)", _blist(cone.is_inside([d.tolist()]))))
        calls.append(("dominates(1xm,1xm)", _blist(order.dominates(a.reshape(1, -1), b.reshape(1, -1)))))
    except Exception as e:
        ctx.violation("dom-crash:" + core.exc_key(e), f"dominates/is_inside raised {type(e).__name__}: {e}", case)
        return
    for what, got in calls:
        if got != [exp]:
            ctx.violation("dom-value", f"{what} = {got} but the facet inequalities W(a-b) >= 0 give {[exp]}",
                          case, detail={"call": what, "impl": got, "model": [exp],
                                        "facet_values": [str(v) for v in _facet_vals(W, d.tolist())]})
            break
    vals = _facet_vals(W, d.tolist())
    tie = any(v == 0 for v in vals)
    if tie:
        ctx.count("dom_with_facet_tie")
    nontrivial = tie or (any(v > 0 for v in vals) and any(v < 0 for v in vals)) or exp
    ctx.case_done(case, nontrivial, canon=["dom", W, case["a"], case["b"]])


def _run_batch(ctx, case):
    W = case["W"]
    m = len(W[0])
    order = real_order(W)
    cone = order.ordering_cone
    A = np.array(case["A"], dtype=float).reshape(-1, m)
    B = np.array(case["B"], dtype=float).reshape(-1, m)
    s = np.array(case["single"], dtype=float)
    n = len(A)
    ws = core.qmat(W)
    ctx.count("batch_n_%d" % n if case.get("shape") != "lattice" else "batch_lattice_chunks")
    try:
        checks = []
        exp = core.parse_bools(_ask(ctx, "domB", ws, core.qmat(A), core.qmat(B)))
        checks.append(("dominates(A,B)", _blist(order.dominates(A.copy(), B.copy())), exp))
        D = A - B
        expi = core.parse_bools(_ask(ctx, "insideB", ws, core.qmat(D)))
        if expi != exp:
            raise RuntimeError("Lean model: domB differs from insideB on the exact differences")
        checks.append(("is_inside(2-D array)", _blist(cone.is_inside(D.copy())), exp))
        if n > 0:
            checks.append(("is_inside(list of lists)", _blist(cone.is_inside(D.tolist())), exp))
            S = np.tile(s, (n, 1))
            e1 = core.parse_bools(_ask(ctx, "domB", ws, core.qmat(A), core.qmat(S)))
            checks.append(("dominates(A, b) broadcast", _blist(order.dominates(A.copy(), s.copy())), e1))
            e2 = core.parse_bools(_ask(ctx, "domB", ws, core.qmat(S), core.qmat(B)))
            checks.append(("dominates(a, B) broadcast", _blist(order.dominates(s.copy(), B.copy())), e2))
            # batched call agrees with single calls
            singles = [_blist(order.dominates(A[i].copy(), B[i].copy()))[0] for i in range(n)]
            checks.append(("single calls row by row", singles, exp))
            # a caller building a dominance table keeps every answer and reads them after the last call: an
            # answer must not change because the same order / cone was asked something else afterwards
            held = [order.dominates(A[i].copy(), B[i].copy()) for i in range(n)]
            held_in = [cone.is_inside(D[i].copy()) for i in range(n)]
            held_l = [cone.is_inside(D[i].tolist()) for i in range(n)]
            late = {"dominates(a, b)": [_blist(h)[0] for h in held], "is_inside(1-D array)": [_blist(h)[0] for h in held_in],
                    "is_inside(list)": [_blist(h)[0] for h in held_l]}
            for what_l, vals in late.items():
                if vals != exp and singles == exp:
                    ctx.violation("answer-changes-after-later-call", f"{what_l}: the answers of {n} single-vector calls, "
                                  "kept by the caller and read after the last call, are no longer the facet-inequality "
                                  "verdicts they were when returned (a later call on the same order overwrote them)",
                                  case, detail={"call": what_l, "read_late": vals, "model": exp})
                    break
    except RuntimeError:
        raise
    except Exception as e:
        ctx.violation("batch-crash:" + core.exc_key(e), f"batched dominates/is_inside raised {type(e).__name__}: {e}", case)
        return
    for what, got, want in checks:
        if got != want:
            ctx.violation("batch-value", f"{what} = {got} but the facet inequalities give {want}", case,
                          detail={"call": what, "impl": got, "model": want})
            break
    ctx.case_done(case, n > 0 and (any(exp) and not all(exp) or n == 1), canon=["batch", W, case["A"], case["B"], case["single"]])


def _run_laws(ctx, case):
    W = case["W"]
    order = real_order(W)
    a, b, c, t = (np.array(case[k], dtype=float) for k in ("a", "b", "c", "t"))
    s = float(case["s"])
    pointed = case.get("pointed")
    if pointed is None:
        pointed = _rank_q(W) == len(W[0])

    def dom(x, y):
        return bool(order.dominates(x.copy(), y.copy())[0])

    ctx.count("laws_shape_" + case.get("shape", "?"))
    try:
        ab, bc, ac, ba = dom(a, b), dom(b, c), dom(a, c), dom(b, a)
        fired = 0
        for x in (a, b, c):
            if not dom(x, x):
                ctx.violation("law-refl", "dominates(x, x) is False", case, detail={"x": x.tolist()})
                return
        if ab and bc:
            fired += 1
            ctx.count("laws_trans_premise")
            if not ac:
                ctx.violation("law-trans", "a dominates b, b dominates c, but a does not dominate c", case)
                return
        for (x, y, r) in ((a, b, ab), (b, c, bc), (a, c, ac)):
            if dom(x + t, y + t) != r:
                ctx.violation("law-translation", "dominates(x+t, y+t) != dominates(x, y)", case,
                              detail={"x": x.tolist(), "y": y.tolist()})
                return
            if dom(s * x, s * y) != r:
                ctx.violation("law-scaling", "dominates(s*x, s*y) != dominates(x, y) for s > 0", case,
                              detail={"x": x.tolist(), "y": y.tolist()})
                return
            if bool(order.ordering_cone.is_inside(x - y)[0]) != r:
                ctx.violation("law-diff", "dominates(x, y) != is_inside(x - y)", case)
                return
        if ab and ba:
            ctx.count("laws_antisym_premise")
            if pointed and not np.array_equal(a, b):
                ctx.violation("law-antisym", "pointed cone: a and b dominate each other but a != b", case)
                return
            if np.array_equal(a, b):
                pass
            else:
                fired += 1
                ctx.count("laws_nonpointed_cycle")
        if not pointed:
            k = _kernel_vec(W)
            kk = np.array(k, dtype=float)
            if not (dom(a + kk, a) and dom(a, a + kk)):
                ctx.violation("law-nonpointed", "ker W != 0: a and a + k (W k = 0) must dominate each other", case,
                              detail={"k": k})
                return
            fired += 1
    except Exception as e:
        ctx.violation("laws-crash:" + core.exc_key(e), f"dominates raised {type(e).__name__}: {e}", case)
        return
    ctx.case_done(case, fired > 0, canon=["laws", W, case["a"], case["b"], case["c"], case["t"], case["s"]])


# ----------------------------------------------------------------------------- constructors
def _cmp_matrix(ctx, case, key, name, Wimpl, Wmodel):
    """(F) implementation's matrix vs Float evaluation of the RealLike term"""
    Wimpl = np.asarray(Wimpl, dtype=float)
    ok = Wimpl.ndim == 2 and Wimpl.shape == (len(Wmodel), len(Wmodel[0]) if Wmodel else 0)
    worst = 0.0
    if ok:
        for ri, rm in zip(Wimpl.tolist(), Wmodel):
            for x, y in zip(ri, rm):
                if not (math.isfinite(x) and math.isfinite(y)) or not _close(x, y):
                    ok = False
                if math.isfinite(x) and math.isfinite(y):
                    worst = max(worst, abs(x - y))
    if not ok:
        ctx.violation(key, f"{name}: constructor matrix differs from the model term (tol 1e-12)", case, kind="F",
                      detail={"impl": Wimpl.tolist(), "model": Wmodel, "max_abs_diff": worst})
    return ok


def _run_ctor2d(ctx, case):
    from vopy.order import ConeTheta2DOrder
    from vopy.ordering_cone import ConeTheta2D

    th = case["theta"]
    ctx.count("ctor2d_branch_" + ("le90" if th <= 90 else "gt90"))
    try:
        order = ConeTheta2DOrder(th)
        cone = order.ordering_cone
        W = np.array(cone.W, dtype=float)
        W2 = np.array(ConeTheta2D(th).W, dtype=float)
    except Exception as e:
        ctx.violation("ctor2d-crash:" + core.exc_key(e), f"ConeTheta2DOrder({th!r}) raised {type(e).__name__}: {e}", case)
        return
    if W.shape != (2, 2) or not np.isfinite(W).all():
        ctx.violation("ctor2d-shape", f"ConeTheta2DOrder({th!r}).ordering_cone.W is not a finite 2x2 matrix", case,
                      detail={"W": W.tolist()})
        return
    if not np.array_equal(W, W2):
        ctx.violation("ctor2d-inconsistent", "ConeTheta2DOrder(θ).ordering_cone.W != ConeTheta2D(θ).W", case, kind="F")
    Wm = _parse_fmat(_ask(ctx, "theta2d", core.q(float(th))))
    _cmp_matrix(ctx, case, "ctor2d-term", f"get_2d_w({th!r})", W, Wm)
    # closed form the theorems prove the term equal to (inward unit normals of the rays at pi/4 -+ theta/2);
    # compared for every theta, exactly 90 included (where the real-number term is singular)
    Wc = _parse_fmat(_ask(ctx, "theta2dclosed", core.q(float(th))))
    _cmp_matrix(ctx, case, "ctor2d-closed", f"get_2d_w({th!r}) vs closed form (-sin a, cos a), (sin b, -cos b)", W, Wc)
    # --- angle semantics on the exported floats: direction at angle pi/4 + psi is inside iff |psi| <= theta/2
    half = math.radians(float(th)) / 2
    probes = [(0.0, True), (math.pi, False), (half - DELTA, True), (-(half - DELTA), True),
              (half + DELTA, False), (-(half + DELTA), False)]
    for psi in case.get("offsets", []):
        if not (-math.pi < psi <= math.pi) or abs(abs(psi) - half) < 10 * DELTA:
            ctx.count("ctor2d_probe_borderline_skipped")
            continue
        probes.append((psi, abs(psi) <= half))
    dirs = [[math.cos(math.pi / 4 + psi), math.sin(math.pi / 4 + psi)] for psi, _ in probes]
    expd = [e for _, e in probes]
    D = np.array(dirs, dtype=float)
    model = core.parse_bools(_ask(ctx, "insideB", core.qmat(W), core.qmat(D)))
    try:
        impl = _blist(cone.is_inside(D.copy()))
        impl_dom = _blist(order.dominates(D.copy(), np.zeros(2)))
    except Exception as e:
        ctx.violation("ctor2d-inside-crash:" + core.exc_key(e), f"is_inside raised {type(e).__name__}", case)
        return
    if model != expd:
        bad = [i for i in range(len(expd)) if model[i] != expd[i]]
        ctx.violation("ctor2d-angle", f"θ-cone W (θ={th!r}): direction at angle π/4{offs_fmt(dirs, bad)} should be "
                      f"{'inside' if expd[bad[0]] else 'outside'} (|ψ| ≤ θ/2 ⇔ inside) by the exact facet inequalities",
                      case, detail={"W": W.tolist(), "dirs": dirs, "expected": expd, "exact": model})
    elif impl != expd or impl_dom != expd:
        ctx.violation("ctor2d-inside", "is_inside/dominates on probe directions disagrees with the angle semantics",
                      case, detail={"dirs": dirs, "expected": expd, "impl": impl, "impl_dom": impl_dom})
    # unit rows (stated by get_2d_w's docstring and the theorem; the property only needs the cone) -> F
    for r in W.tolist():
        nsq = sum(core.frac(x) ** 2 for x in r)
        if abs(float(nsq) - 1.0) > 1e-12:
            ctx.violation("ctor2d-norm", "θ-cone row is not a unit vector", case, kind="F", detail={"row": r})
            break
    ctx.case_done(case, True, canon=["ctor2d", repr(th)])


def offs_fmt(dirs, bad):
    return " (probe #%d, direction %r)" % (bad[0], dirs[bad[0]])


def _run_ctor3d(ctx, case):
    from vopy.order import ConeOrder3D

    kind = case["cone_type"]
    try:
        order = ConeOrder3D(kind)
        W = np.array(order.ordering_cone.W, dtype=float)
    except Exception as e:
        ctx.violation("ctor3d-crash:" + core.exc_key(e), f"ConeOrder3D({kind!r}) raised {type(e).__name__}: {e}", case)
        return
    Wm = _parse_fmat(_ask(ctx, "cone3d", kind))
    _cmp_matrix(ctx, case, "ctor3d-term", f"ConeOrder3D({kind!r})", W, Wm)
    if W.shape != (3, 3):
        ctx.violation("ctor3d-shape", "3-D cone matrix is not 3x3", case)
        return
    for r in W.tolist():
        nsq = sum(core.frac(x) ** 2 for x in r)
        if abs(float(nsq) - 1.0) > 1e-12:
            ctx.violation("ctor3d-norm", f"ConeOrder3D({kind!r}): facet normal {r} is not a unit vector", case)
            return
    diag = _facet_vals(W.tolist(), [1.0, 1.0, 1.0])
    if not all(v > Fraction(1, 1000) for v in diag):
        ctx.violation("ctor3d-diagonal", f"ConeOrder3D({kind!r}): the diagonal (1,1,1) is not strictly inside", case,
                      detail={"W.1": [float(v) for v in diag]})
        return
    try:
        ins = _blist(order.ordering_cone.is_inside(np.ones(3))) + _blist(order.dominates(np.ones(3), np.zeros(3))) \
            + _blist(order.dominates(np.zeros(3), np.ones(3)))
    except Exception as e:
        ctx.violation("ctor3d-inside-crash:" + core.exc_key(e), f"is_inside raised {type(e).__name__}", case)
        return
    if ins != [True, True, False]:
        ctx.violation("ctor3d-diagonal", "is_inside(1,1,1)/dominates((1,1,1),0)/dominates(0,(1,1,1)) != True/True/False",
                      case, detail={"impl": ins})
    # rows are cyclic permutations of the first row
    r0 = W[0].tolist()
    if not (np.allclose(W[1], [r0[2], r0[0], r0[1]], rtol=0, atol=1e-15)
            and np.allclose(W[2], [r0[1], r0[2], r0[0]], rtol=0, atol=1e-15)):
        ctx.violation("ctor3d-cyclic", "rows are not cyclic shifts of the first row", case, kind="F")
    # name semantics (exact rational, on lattice probes away from facets): acute ⊆ orthant ⊆ obtuse
    for p in case.get("probes", []):
        v = _facet_vals(W.tolist(), p)
        if min(abs(x) for x in v) < Fraction(1, 10 ** 9):
            continue
        inside = all(x > 0 for x in v)
        orth = all(t >= 0 for t in p)
        if kind == "acute" and inside and not orth:
            ctx.violation("ctor3d-name", "acute cone contains a point outside the orthant", case, detail={"p": p})
        if kind == "right" and inside != orth and all(t != 0 for t in p):
            ctx.violation("ctor3d-name", "right cone is not the orthant", case, detail={"p": p})
        if kind == "obtuse" and orth and not inside:
            ctx.violation("ctor3d-name", "obtuse cone misses a point of the orthant", case, detail={"p": p})
    ctx.case_done(case, True, canon=["ctor3d", kind])


_U = math.sqrt(0.5)
_ROT = [[(1 + _U) / 2, -(1 - _U) / 2, 0.5], [-(1 - _U) / 2, (1 + _U) / 2, 0.5], [-0.5, -0.5, _U]]


def _rot(v):
    return [sum(r[j] * v[j] for j in range(3)) for r in _ROT]


def _run_ice(ctx, case):
    import vopy.ordering_cone as oc
    from vopy.order import ConeOrder3DIceCream

    K, th = int(case["K"]), case["theta"]
    ctx.count("ice_K_%s" % ("3-8" if K <= 8 else "9-24" if K <= 24 else "25-64"))
    stub = K > 8  # OrderingCone.__init__ solves K small programs for alpha (irrelevant here; 4 s for K = 64)
    saved = oc.get_alpha_vec
    try:
        if stub:
            oc.get_alpha_vec = lambda W: np.ones(len(W))
        order = ConeOrder3DIceCream(th, K)
    except Exception as e:
        ctx.violation("ice-crash:" + core.exc_key(e), f"ConeOrder3DIceCream({th!r}, {K}) raised {type(e).__name__}: {e}", case)
        return
    finally:
        oc.get_alpha_vec = saved
    cone = order.ordering_cone
    W = np.array(cone.W, dtype=float)
    Wm = _parse_fmat(_ask(ctx, "icecream", str(K), core.q(float(th))))
    _cmp_matrix(ctx, case, "ice-term", f"compute_ice_cream_cone({K}, {th!r})", W, Wm)
    if W.shape != (K, 3) or not np.isfinite(W).all():
        ctx.violation("ice-shape", f"ice-cream cone matrix is not a finite {K}x3 matrix", case)
        return
    # the model's rotation / axis are the ones the expected semantics below uses
    Rm = _parse_fmat(_ask(ctx, "icerot"))
    ax = _parse_fmat(_ask(ctx, "iceaxis"))[0]
    if not all(_close(x, y) for rr, rm in zip(_ROT, Rm) for x, y in zip(rr, rm)) or \
            not all(_close(x, y) for x, y in zip(ax, _rot([0, 0, 1]))):
        raise RuntimeError("model rotation/axis differs from the harness's closed form")
    t = math.radians(float(th))
    axis = _rot([0.0, 0.0, 1.0])
    # every facet normal makes angle pi/2 - theta with the axis  (w . axis = sin theta for unit w)
    for i, r in enumerate(W.tolist()):
        nrm = math.sqrt(sum(x * x for x in r))
        ca = sum(x * y for x, y in zip(r, axis)) / nrm
        if abs(ca - math.sin(t)) > 1e-11:
            ctx.violation("ice-angle", f"facet {i}: angle between normal and rotated axis is not π/2 − θ", case,
                          detail={"cos_angle": ca, "sin_theta": math.sin(t)})
            return
    # tangency by sign tests: points of the circular cone of half-angle θ−δ are inside every facet; the
    # point at half-angle θ+δ opposite facet i violates facet i
    def pt(psi, b):
        return _rot([math.sin(psi) * math.cos(b), math.sin(psi) * math.sin(b), math.cos(psi)])

    ang = [2 * math.pi * i / K for i in range(K)]
    inside_pts = [pt(t - DELTA, a + math.pi) for a in ang] + [pt(t - DELTA, b) for b in case.get("bs", [])] + [axis]
    outside_pts = [pt(t + DELTA, a + math.pi) for a in ang]
    P = np.array(inside_pts + outside_pts, dtype=float)
    model = core.parse_bools(_ask(ctx, "insideB", core.qmat(W), core.qmat(P)))
    expd = [True] * len(inside_pts) + [False] * len(outside_pts)
    try:
        impl = _blist(cone.is_inside(P.copy()))
    except Exception as e:
        ctx.violation("ice-inside-crash:" + core.exc_key(e), f"is_inside raised {type(e).__name__}", case)
        return
    if model != expd:
        bad = [i for i in range(len(expd)) if model[i] != expd[i]][0]
        ctx.violation("ice-tangent", "a point of the circular cone of half-angle θ−1e-6 about the rotated axis is cut off, "
                      "or the point at half-angle θ+1e-6 opposite a facet is not cut off (exact facet inequalities)",
                      case, detail={"point": P[bad].tolist(), "expected_inside": expd[bad]})
        return
    # facet i itself must cut off its outside point (tangent facet, not another one)
    for i in range(K):
        v = _facet_vals([W[i].tolist()], outside_pts[i])[0]
        if not v < 0:
            ctx.violation("ice-tangent", f"facet {i} does not cut off the point at half-angle θ+1e-6 opposite it", case)
            return
    if impl != expd:
        ctx.violation("ice-inside", "is_inside on probe points disagrees with the exact facet inequalities", case,
                      detail={"impl": impl, "expected": expd})
    # observation (not part of C12): the axis is (1/2, 1/2, sqrt2/2), 9.74 deg off the diagonal, so narrow
    # ice-cream cones do not contain (1,1,1)
    if not all(v >= 0 for v in _facet_vals(W.tolist(), [1.0, 1.0, 1.0])):
        ctx.count("ice_diagonal_not_inside_info")
    ctx.case_done(case, True, canon=["ice", K, repr(th)])


def _run_eq(ctx, case):
    import vopy.ordering_cone as oc
    from vopy.ordering_cone import OrderingCone

    A, B = np.array(case["A"], dtype=float), np.array(case["B"], dtype=float)
    ctx.count("eq_mode_" + case.get("mode", "?"))
    saved = oc.get_alpha_vec
    try:
        oc.get_alpha_vec = lambda W: np.ones(len(W))  # alpha is irrelevant for __eq__
        ca, cb = OrderingCone(A.copy()), OrderingCone(B.copy())
    finally:
        oc.get_alpha_vec = saved
    ans = _ask(ctx, "allclose", core.qmat(A), core.qmat(B))
    try:
        got = ca == cb
        got_self = ca == ca
        got_other = (ca == "cone", ca == None)  # noqa: E711
        got_ne = ca != cb
    except Exception as e:
        if ans == "shape":
            ctx.count("eq_shape_mismatch_raises_info")
            ctx.case_done(case, False)
            return
        ctx.violation("eq-crash:" + core.exc_key(e), f"OrderingCone.__eq__ raised {type(e).__name__}", case)
        return
    if ans == "shape":
        ctx.count("eq_shape_mismatch_info")
        ctx.case_done(case, False)
        return
    exp = ans == "1"
    if bool(got) != exp or bool(got_ne) == exp:
        ctx.violation("eq-value", f"OrderingCone.__eq__ = {got}, != = {got_ne}; allclose(W1, W2) in exact arithmetic = {exp}",
                      case, kind="F")
    if got_self is not True and not bool(got_self):
        ctx.violation("eq-self", "cone != itself", case, kind="F")
    if any(bool(x) for x in got_other):
        ctx.violation("eq-nonobject", "OrderingCone equals a non-cone object", case, kind="F")
    ctx.count("eq_" + ("true" if exp else "false"))
    ctx.case_done(case, True, canon=["eq", case["A"], case["B"]])


def _run_comp(ctx, case):
    from vopy.order import ComponentwiseOrder

    dim = int(case["dim"])
    try:
        order = ComponentwiseOrder(dim)
        W = np.array(order.ordering_cone.W, dtype=float)
    except Exception as e:
        ctx.violation("comp-crash:" + core.exc_key(e), f"ComponentwiseOrder({dim}) raised {type(e).__name__}: {e}", case)
        return
    ident = core.parse_qmat(_ask(ctx, "ident", str(dim)))
    if W.shape != (dim, dim) or [[core.frac(x) for x in r] for r in W.tolist()] != ident:
        ctx.violation("comp-matrix", f"ComponentwiseOrder({dim}).ordering_cone.W is not the identity", case,
                      detail={"W": W.tolist()})
        return
    if order.ordering_cone.dim != dim:
        ctx.violation("comp-dim", "ordering_cone.dim differs from dim", case, kind="F")
    for a, b in case.get("pairs", []):
        a, b = np.array(a, dtype=float), np.array(b, dtype=float)
        for x, y in ((a, b), (a, a), (np.maximum(a, b), b), (np.maximum(a, b), a)):
            exp = bool(np.all(x >= y))
            got = _blist(order.dominates(x.copy(), y.copy()))
            mod = _ask(ctx, "dom", core.qmat(W), core.qvec(x), core.qvec(y)) == "1"
            if mod != exp:
                raise RuntimeError("Lean model: dominates (identMat m) differs from componentwise >=")
            if got != [exp]:
                ctx.violation("comp-value", "ComponentwiseOrder.dominates differs from componentwise a >= b", case,
                              detail={"a": x.tolist(), "b": y.tolist(), "impl": got})
                return
    ctx.case_done(case, True, canon=["comp", dim])


_dtype_cache = {}


def _order_with_dtype(mode, W):
    """PolyhedralConeOrder(OrderingCone(W given as <mode>)) by the real constructors (cached)"""
    from vopy.order import PolyhedralConeOrder
    from vopy.ordering_cone import OrderingCone

    key = (mode, tuple(tuple(float(x) for x in r) for r in W))
    if key not in _dtype_cache:
        if mode == "int64":
            arg = np.array([[int(x) for x in r] for r in W], dtype=np.int64)
        elif mode == "int32":
            arg = np.array([[int(x) for x in r] for r in W], dtype=np.int32)
        elif mode == "pylist":
            arg = [[int(x) for x in r] for r in W]
        elif mode == "float32":
            arg = np.array(W, dtype=np.float32)
        elif mode == "float64F":
            arg = np.asfortranarray(np.array(W, dtype=np.float64))
        else:
            raise RuntimeError(f"unknown dtype mode {mode}")
        _dtype_cache[key] = PolyhedralConeOrder(OrderingCone(arg))
    return _dtype_cache[key]


def _run_dtype(ctx, case):
    W, mode = case["W"], case["mode"]
    m = len(W[0])
    ctx.count("dtype_mode_" + mode)
    try:
        order = _order_with_dtype(mode, W)
    except Exception as e:
        ctx.violation("dtype-ctor-crash:" + core.exc_key(e),
                      f"OrderingCone(W as {mode}) raised {type(e).__name__}: {e}", case)
        return
    cone = order.ordering_cone
    Wst = np.asarray(cone.W)
    if Wst.shape != (len(W), m) or [[core.frac(x) for x in r] for r in Wst.tolist()] != \
            [[core.frac(x) for x in r] for r in W]:
        ctx.violation("dtype-W", f"OrderingCone(W as {mode}).W differs from the matrix it was given", case, kind="F",
                      detail={"stored": Wst.tolist()})
        return
    ws = core.qmat(Wst.tolist())      # the facet inequalities of the EXPORTED W decide
    A = np.array(case["A"], dtype=float).reshape(-1, m)
    B = np.array(case["B"], dtype=float).reshape(-1, m)
    D = A - B
    exp = core.parse_bools(_ask(ctx, "domB", ws, core.qmat(A), core.qmat(B)))
    if core.parse_bools(_ask(ctx, "insideB", ws, core.qmat(D))) != exp:
        raise RuntimeError("Lean model: domB differs from insideB on the exact differences")
    n = len(A)
    try:
        checks = [
            ("dominates(A, B) batched", _blist(order.dominates(A.copy(), B.copy()))),
            ("is_inside(2-D float64 array)", _blist(cone.is_inside(D.copy()))),
            ("is_inside(list of lists)", _blist(cone.is_inside(D.tolist()))),
            ("is_inside(2-D float32 array)", _blist(cone.is_inside(D.astype(np.float32)))),
            ("dominates(a, b) one by one", [_blist(order.dominates(A[i].copy(), B[i].copy()))[0] for i in range(n)]),
            ("is_inside(list) one by one", [_blist(cone.is_inside(D[i].tolist()))[0] for i in range(n)]),
            ("is_inside(1-D array) one by one", [_blist(cone.is_inside(D[i].copy()))[0] for i in range(n)]),
        ]
    except Exception as e:
        ctx.violation("dtype-crash:" + core.exc_key(e),
                      f"dominates/is_inside with W given as {mode} raised {type(e).__name__}: {e}", case)
        return
    for what, got in checks:
        if got != exp:
            i = next((j for j in range(min(len(got), n)) if got[j] != exp[j]), 0)
            ctx.violation("dtype-value", f"cone matrix given as {mode}: {what} = {got} but the facet inequalities "
                          f"W(a-b) >= 0 of the stored W give {exp}", case,
                          detail={"call": what, "impl": got, "model": exp, "a": A[i].tolist(), "b": B[i].tolist(),
                                  "facet_values": [str(v) for v in _facet_vals(W, D[i].tolist())]})
            break
    frac = bool(np.any(D != np.trunc(D)))
    if frac:
        ctx.count("dtype_fractional_difference")
    ctx.case_done(case, frac, canon=["dtype", mode, W, case["A"], case["B"]])


def _exact_vec_op(x, y, op):
    """float result of x op y (elementwise) and whether every coordinate is exact"""
    r = op(np.array(x, dtype=float), np.array(y, dtype=float))
    ok = all(op(core.frac(u), core.frac(v)) == core.frac(w) for u, v, w in zip(x, y, r.tolist()))
    return r, ok


def _run_extreme(ctx, case):
    import operator

    W, mode = case["W"], case["mode"]
    m = len(W[0])
    ctx.count("extreme_shape_" + case.get("shape", "?"))
    order = real_order(W) if mode == "float64" else _order_with_dtype(mode, W)
    cone = order.ordering_cone
    ws = core.qmat(np.asarray(cone.W).tolist())
    a, b, t = (np.array(case[k], dtype=float) for k in ("a", "b", "t"))
    s = float(2.0 ** int(case["sexp"]))
    d, ok_d = _exact_vec_op(a, b, operator.sub)
    at, ok_at = _exact_vec_op(a, t, operator.add)
    bt, ok_bt = _exact_vec_op(b, t, operator.add)
    dt, ok_dt = _exact_vec_op(at, bt, operator.sub)
    # every float operation on the code path must be exact for equality to be demanded
    vals = _facet_vals(W, d.tolist())
    exact_prod = all(core.frac(float(v)) == v and core.frac(float(v * core.frac(s))) == v * core.frac(s) for v in vals)
    if not (ok_d and ok_at and ok_bt and ok_dt and exact_prod and np.array_equal(dt, d)):
        ctx.count("extreme_not_exact_skipped")
        ctx.case_done(case, False)
        return
    exp = _ask(ctx, "dom", ws, core.qvec(a), core.qvec(b)) == "1"
    exp_rev = _ask(ctx, "dom", ws, core.qvec(b), core.qvec(a)) == "1"
    # the model on the translated / scaled data (exact rationals): must agree with itself (theorems), checked anyway
    if (_ask(ctx, "dom", ws, core.qvec(at), core.qvec(bt)) == "1") != exp or \
            (_ask(ctx, "dom", ws, core.qvec(s * a), core.qvec(s * b)) == "1") != exp:
        raise RuntimeError("Lean model: dominates not invariant under exact translation / scaling")
    ctx.count("extreme_" + ("true" if exp else "false"))
    try:
        got = [
            ("dominates(a, b)", _blist(order.dominates(a.copy(), b.copy())), [exp], "extreme-value"),
            ("is_inside(a - b)", _blist(cone.is_inside(d.copy())), [exp], "extreme-value"),
            ("dominates(a + t, b + t)  [translation by the large common offset t]",
             _blist(order.dominates(at.copy(), bt.copy())), [exp], "extreme-translation"),
            ("dominates(s*a, s*b)  [scaling by s = 2^%d]" % int(case["sexp"]),
             _blist(order.dominates(s * a, s * b)), [exp], "extreme-scaling"),
            ("dominates(s*(a+t), s*(b+t))", _blist(order.dominates(s * at, s * bt)), [exp], "extreme-scaling"),
            ("dominates(b + t, a + t)", _blist(order.dominates(bt.copy(), at.copy())), [exp_rev], "extreme-translation"),
            ("batched dominates([a, a+t, s*a, b+t], [b, b+t, s*b, a+t])",
             _blist(order.dominates(np.array([a, at, s * a, bt]), np.array([b, bt, s * b, at]))),
             [exp, exp, exp, exp_rev], "extreme-batch"),
            ("dominates(a+t, b+t) with list-built float arrays", _blist(order.dominates(np.array(at.tolist()),
                                                                                        np.array(bt.tolist()))), [exp],
             "extreme-translation"),
        ]
    except Exception as e:
        ctx.violation("extreme-crash:" + core.exc_key(e), f"dominates raised {type(e).__name__}: {e}", case)
        return
    for what, g, want, key in got:
        if g != want:
            ctx.violation(key, f"{what} = {g} but the facet inequalities W(a-b) >= 0 give {want} "
                          f"(a - b = {d.tolist()}, exactly the same difference after translation)", case,
                          detail={"call": what, "impl": g, "model": want, "a+t": at.tolist(), "b+t": bt.tolist(),
                                  "facet_values": [str(v) for v in vals]})
            return
    pointed = case.get("pointed")
    if pointed is None:
        pointed = _rank_q(W) == m
    if pointed and not np.array_equal(a, b):
        both = _blist(order.dominates(at.copy(), bt.copy()))[0] and _blist(order.dominates(bt.copy(), at.copy()))[0]
        if both:
            ctx.violation("extreme-antisym", "pointed cone: a+t and b+t dominate each other but differ", case)
            return
    ctx.case_done(case, bool(np.any(d != 0)), canon=["extreme", mode, W, case["a"], case["b"], case["t"], case["sexp"]])


def _ice_matrix_geometry(ctx, case, W, K, th, label):
    """(R) checks of a K x 3 facet matrix claimed to be the ice-cream cone of half-angle th: every facet normal makes
    angle pi/2 - th with the rotated axis (1/2, 1/2, sqrt2/2); exact sign tests: points at half-angle th - 1e-6 about
    the axis satisfy every facet, the point at th + 1e-6 opposite facet i is cut off by facet i."""
    W = np.asarray(W, dtype=float)
    if W.ndim != 2 or W.shape != (K, 3) or not np.isfinite(W).all():
        ctx.violation("helper-ice-shape", f"{label}: not a finite {K}x3 matrix (shape {W.shape})", case)
        return False
    t = math.radians(float(th))
    axis = _rot([0.0, 0.0, 1.0])
    for i, r in enumerate(W.tolist()):
        nrm = math.sqrt(sum(x * x for x in r))
        ca = sum(x * y for x, y in zip(r, axis)) / nrm if nrm > 0 else float("nan")
        if not abs(ca - math.sin(t)) <= 1e-11:
            tilt = math.degrees(math.asin(max(-1.0, min(1.0, ca)))) if ca == ca else float("nan")
            ctx.violation("helper-ice-tangent", f"{label}: facet {i} is not tangent to the circular cone of the GIVEN "
                          f"half-angle {th!r} deg about the rotated axis (its normal makes angle 90 - {tilt:.6g} deg with the "
                          f"axis, i.e. it is tangent to half-angle {tilt:.6g} deg)", case,
                          detail={"facet": i, "cos_angle": ca, "sin_theta": math.sin(t)})
            return False

    def pt(psi, b):
        return _rot([math.sin(psi) * math.cos(b), math.sin(psi) * math.sin(b), math.cos(psi)])

    ang = [2 * math.pi * i / K for i in range(K)]
    inside_pts = [pt(t - DELTA, a + math.pi) for a in ang] + [axis]
    outside_pts = [pt(t + DELTA, a + math.pi) for a in ang]
    P = np.array(inside_pts + outside_pts, dtype=float)
    model = core.parse_bools(_ask(ctx, "insideB", core.qmat(W), core.qmat(P)))
    expd = [True] * len(inside_pts) + [False] * len(outside_pts)
    if model != expd:
        bad = [i for i in range(len(expd)) if model[i] != expd[i]][0]
        ctx.violation("helper-ice-tangent", f"{label}: a point of the circular cone of half-angle θ−1e-6 is cut off, or the "
                      "point at half-angle θ+1e-6 opposite a facet is not cut off (exact facet inequalities)", case,
                      detail={"point": P[bad].tolist(), "expected_inside": expd[bad]})
        return False
    for i in range(K):
        if not _facet_vals([W[i].tolist()], outside_pts[i])[0] < 0:
            ctx.violation("helper-ice-tangent", f"{label}: facet {i} does not cut off the point opposite it", case)
            return False
    return True


def _run_helper(ctx, case):
    """Public geometry helpers called directly on existing objects: `order.compute_ice_cream_cone(K, theta)`
    (positional and keyword) on an order built with other parameters; `get_2d_w(theta)` called repeatedly."""
    import vopy.ordering_cone as oc
    from vopy.order import ConeOrder3DIceCream, ConeTheta2DOrder
    from vopy.utils import get_2d_w

    th0, K0 = case["own"][0], int(case["own"][1])
    saved = oc.get_alpha_vec
    try:
        if K0 > 8:
            oc.get_alpha_vec = lambda W: np.ones(len(W))
        order = ConeOrder3DIceCream(th0, K0)
    except Exception as e:
        ctx.violation("helper-ctor-crash:" + core.exc_key(e), f"ConeOrder3DIceCream({th0!r}, {K0}) raised {type(e).__name__}", case)
        return
    finally:
        oc.get_alpha_vec = saved
    W_own = np.array(order.ordering_cone.W, dtype=float, copy=True)
    for K, th in case.get("calls", []):
        K = int(K)
        label = f"ConeOrder3DIceCream({th0!r}, {K0}).compute_ice_cream_cone({K}, {th!r})"
        ctx.count("helper_ice_calls")
        try:
            W_pos = np.array(order.compute_ice_cream_cone(K, th), dtype=float)
            W_kw = np.array(order.compute_ice_cream_cone(theta=th, K=K), dtype=float)
        except Exception as e:
            ctx.violation("helper-ice-crash:" + core.exc_key(e), f"{label} raised {type(e).__name__}: {e}", case)
            return
        if not _ice_matrix_geometry(ctx, case, W_pos, K, th, label):
            return
        if not _ice_matrix_geometry(ctx, case, W_kw, K, th, label + " [keyword call]"):
            return
        Wm = _parse_fmat(_ask(ctx, "icecream", str(K), core.q(float(th))))
        _cmp_matrix(ctx, case, "helper-ice-term", label, W_pos, Wm)
        _cmp_matrix(ctx, case, "helper-ice-term", label + " [keyword call]", W_kw, Wm)
        if K <= 6:   # a freshly constructed cone of those parameters (real alpha computation: keep K small)
            try:
                W_new = np.array(ConeOrder3DIceCream(th, K).ordering_cone.W, dtype=float)
            except Exception as e:
                ctx.violation("helper-ctor-crash:" + core.exc_key(e), f"ConeOrder3DIceCream({th!r}, {K}) raised", case)
                return
            _cmp_matrix(ctx, case, "helper-ice-vs-fresh", label + " vs freshly constructed cone", W_pos, W_new.tolist())
    if not np.array_equal(np.asarray(order.ordering_cone.W, dtype=float), W_own):
        ctx.violation("helper-ice-mutates", "calling compute_ice_cream_cone changed the order's own ordering_cone.W", case, kind="F")
    # get_2d_w called directly, repeatedly, interleaved (no hidden state); vs fresh ConeTheta2DOrder and the model term
    seen = {}
    for th in case.get("thetas", []):
        ctx.count("helper_get2dw_calls")
        try:
            W = np.array(get_2d_w(th), dtype=float)
            W_obj = np.array(ConeTheta2DOrder(th).ordering_cone.W, dtype=float)
        except Exception as e:
            ctx.violation("helper-2d-crash:" + core.exc_key(e), f"get_2d_w({th!r}) raised {type(e).__name__}: {e}", case)
            return
        key = repr(float(th))
        if key in seen and not np.array_equal(seen[key], W):
            ctx.violation("helper-2d-stateful", f"get_2d_w({th!r}) returned different matrices on repeated calls", case)
            return
        seen[key] = W
        if W.shape != (2, 2) or not np.isfinite(W).all():
            ctx.violation("helper-2d-shape", f"get_2d_w({th!r}) is not a finite 2x2 matrix", case)
            return
        Wm = _parse_fmat(_ask(ctx, "theta2d", core.q(float(th))))
        _cmp_matrix(ctx, case, "helper-2d-term", f"get_2d_w({th!r})", W, Wm)
        _cmp_matrix(ctx, case, "helper-2d-vs-fresh", f"get_2d_w({th!r}) vs ConeTheta2DOrder({th!r}).ordering_cone.W", W, W_obj.tolist())
        half = math.radians(float(th)) / 2
        probes = [(0.0, True), (math.pi, False), (half - DELTA, True), (-(half - DELTA), True),
                  (half + DELTA, False), (-(half + DELTA), False)]
        dirs = [[math.cos(math.pi / 4 + psi), math.sin(math.pi / 4 + psi)] for psi, _ in probes]
        model = core.parse_bools(_ask(ctx, "insideB", core.qmat(W), core.qmat(np.array(dirs))))
        if model != [e for _, e in probes]:
            ctx.violation("helper-2d-angle", f"get_2d_w({th!r}): directions within θ/2 of the diagonal are not exactly the "
                          "cone's directions (exact facet inequalities on probe directions)", case,
                          detail={"W": W.tolist(), "exact": model, "expected": [e for _, e in probes]})
            return
    ctx.case_done(case, True, canon=["helper", case["own"], case.get("calls"), case.get("thetas")])


_meta_cache = {}


def _meta_order(spec):
    import json

    import vopy.ordering_cone as oc
    from vopy.order import ConeOrder3D, ConeOrder3DIceCream, ConeTheta2DOrder, PolyhedralConeOrder
    from vopy.ordering_cone import OrderingCone

    key = json.dumps(spec, sort_keys=True)
    if key not in _meta_cache:
        saved = oc.get_alpha_vec
        try:
            if spec["type"] == "ice" and int(spec["K"]) > 8:
                oc.get_alpha_vec = lambda W: np.ones(len(W))
            if spec["type"] == "cone3d":
                o = ConeOrder3D(spec["cone_type"])
            elif spec["type"] == "theta":
                o = ConeTheta2DOrder(spec["theta"])
            elif spec["type"] == "ice":
                o = ConeOrder3DIceCream(spec["theta"], int(spec["K"]))
            elif spec["type"] == "matrix":
                o = PolyhedralConeOrder(OrderingCone(np.array(spec["W"], dtype=float)))
            else:
                raise RuntimeError(f"unknown cone spec {spec}")
        finally:
            oc.get_alpha_vec = saved
        _meta_cache[key] = o
    return _meta_cache[key]


def _exact_rows(X, Y, op):
    """row-wise float X op Y and a mask of the rows where every coordinate is exact"""
    R = op(X, Y)
    ok = [all(op(core.frac(u), core.frac(v)) == core.frac(w) for u, v, w in zip(x, y, r))
          for x, y, r in zip(X.tolist(), Y.tolist(), R.tolist())]
    return R, np.array(ok, dtype=bool)


def _run_meta(ctx, case):
    """(R) metamorphic: with a-b, a+t, b+t and (a+t)-(b+t) all exact in float64 (asserted with Fractions), the
    unchanged code hands the bit-identical difference to is_inside for (a, b) and (a+t, b+t), whatever the rounding of
    W — so dominates must give the same answer; likewise for (2^k a, 2^k b)."""
    import operator

    spec = case["ctor"]
    ctx.count("meta_cone_" + spec["type"] + ("_" + spec["cone_type"] if spec["type"] == "cone3d" else ""))
    try:
        order = _meta_order(spec)
    except Exception as e:
        ctx.violation("meta-ctor-crash:" + core.exc_key(e), f"constructor {spec} raised {type(e).__name__}: {e}", case)
        return
    Wst = np.asarray(order.ordering_cone.W, dtype=float)
    m = Wst.shape[1]
    Dl = [d for d in case["D"] for _ in case["base"]]
    Bl = [b for _ in case["D"] for b in case["base"]]
    D0 = np.array(Dl, dtype=float).reshape(-1, m)
    B = np.array(Bl, dtype=float).reshape(-1, m)
    A, okA = _exact_rows(B, D0, operator.add)
    Dab, okD = _exact_rows(A, B, operator.sub)
    keep = okA & okD & np.all(Dab == D0, axis=1)
    A, B, D0 = A[keep], B[keep], D0[keep]
    n = len(A)
    if n == 0:
        ctx.case_done(case, False)
        return
    fired = 0
    try:
        ref1 = [_blist(order.dominates(A[i].copy(), B[i].copy()))[0] for i in range(n)]
        refB = _blist(order.dominates(A.copy(), B.copy()))
        # on-facet bookkeeping: some facet value of the stored W within rounding distance of zero
        knife = [any(abs(float(v)) <= 1e-13 * (1 + float(np.abs(D0[i]).sum())) for v in _facet_vals(Wst.tolist(), D0[i].tolist()))
                 for i in range(n)]
        ctx.count("meta_pairs", n)
        ctx.count("meta_pairs_on_facet", sum(knife))
        for t in case["T"]:
            tv = np.array(t, dtype=float)
            Tm = np.tile(tv, (n, 1))
            At, ok1 = _exact_rows(A, Tm, operator.add)
            Bt, ok2 = _exact_rows(B, Tm, operator.add)
            Dt, ok3 = _exact_rows(At, Bt, operator.sub)
            ok = ok1 & ok2 & ok3 & np.all(Dt == D0, axis=1)
            for i in range(n):
                if not ok[i]:
                    ctx.count("meta_translation_not_exact_skipped")
                    continue
                fired += 1
                got = _blist(order.dominates(At[i].copy(), Bt[i].copy()))[0]
                if got != ref1[i]:
                    ctx.violation("translation-variant",
                                  f"dominates(a+t, b+t) = {got} but dominates(a, b) = {ref1[i]} although a-b = (a+t)-(b+t) = "
                                  f"{D0[i].tolist()} exactly (a = {A[i].tolist()}, b = {B[i].tolist()}, t = {t}); cone {spec}",
                                  case, detail={"a": A[i].tolist(), "b": B[i].tolist(), "t": t, "on_facet": knife[i],
                                                "facet_values": [float(v) for v in _facet_vals(Wst.tolist(), D0[i].tolist())]})
                    return
            if ok.all():
                gotB = _blist(order.dominates(At.copy(), Bt.copy()))
                if gotB != refB:
                    i = next(j for j in range(n) if gotB[j] != refB[j])
                    ctx.violation("translation-variant-batched",
                                  f"batched dominates(A+t, B+t)[{i}] = {gotB[i]} but dominates(A, B)[{i}] = {refB[i]} for the same "
                                  f"batch translated by t = {t} (row difference {D0[i].tolist()} unchanged exactly); cone {spec}",
                                  case, detail={"a": A[i].tolist(), "b": B[i].tolist(), "t": t, "on_facet": knife[i]})
                    return
            else:
                ctx.count("meta_batch_translation_not_exact_skipped")
        for k in case.get("ks", []):
            sc = float(2.0 ** int(k))
            for i in range(n):
                fired += 1
                got = _blist(order.dominates(sc * A[i], sc * B[i]))[0]
                if got != ref1[i]:
                    ctx.violation("scaling-variant",
                                  f"dominates(2^{k} a, 2^{k} b) = {got} but dominates(a, b) = {ref1[i]} "
                                  f"(a = {A[i].tolist()}, b = {B[i].tolist()}); cone {spec}", case,
                                  detail={"a": A[i].tolist(), "b": B[i].tolist(), "k": k, "on_facet": knife[i]})
                    return
            gotB = _blist(order.dominates(sc * A, sc * B))
            if gotB != refB:
                i = next(j for j in range(n) if gotB[j] != refB[j])
                ctx.violation("scaling-variant-batched",
                              f"batched dominates(2^{k} A, 2^{k} B)[{i}] = {gotB[i]} but dominates(A, B)[{i}] = {refB[i]}; cone {spec}",
                              case, detail={"a": A[i].tolist(), "b": B[i].tolist(), "k": k, "on_facet": knife[i]})
                return
    except Exception as e:
        ctx.violation("meta-crash:" + core.exc_key(e), f"dominates raised {type(e).__name__}: {e}", case)
        return
    ctx.case_done(case, fired > 0 and any(knife), canon=["meta", spec, case["D"], case["base"], case["T"], case.get("ks")])


_RUN = {"helper": _run_helper, "meta": _run_meta, "extreme": _run_extreme, "dtype": _run_dtype, "dom": _run_dom, "batch": _run_batch, "laws": _run_laws, "ctor2d": _run_ctor2d, "ctor3d": _run_ctor3d,
        "ice": _run_ice, "eq": _run_eq, "comp": _run_comp}


def run_case(ctx, case):
    ctx.count("kind_" + case["kind"])
    _RUN[case["kind"]](ctx, case)
