"""C10 — "is covered" decides  ∃ z∈R₁ ∃ z'∈R₂ : z' dominates z by the slack.

Real `vopy.confidence_region.confidence_region_is_covered` on real region objects and real orders
against *certified* verdicts of the Lean model (`Model/Covered.lean`): every `1`/`0` the driver
returns has been accepted by a checker with a Lean soundness theorem (`Props/C10.lean`) —
feasible witness / Farkas multipliers for rectangles, exact KKT projection for balls, witness pair
or separating multiplier (proposed numerically here, verified there) for general ellipsoids.

The code and the model are compared on ROBUST configurations only: the model decides with every
facet inequality tightened / relaxed by tau = 1e-6 · scale · max(1, max‖w‖); "covered with +tau" must be
answered True by the code, "not covered even with −tau" must be answered False.  Everything in
between is `borderline` (counted, not compared); `inconclusive` model answers are counted.
Rectangle and ball verdicts are *decisions* (`rect_isCovered_iff`, `rect_band_iff`, `ball_band_iff` in
`Props/C10.lean`: Fourier–Motzkin and the active-set search are complete): an `inconclusive` answer of
`rect` / `ball` on a well-formed case is reported as (F) `model-rect-inconclusive` /
`model-ball-inconclusive`.  How often the fast (Kohler-pruned) search alone gives no accepted certificate
is counted (`rect_fast_inconclusive_info`, expected 0); on a sample of small cases the complete fallback
(`rectfm`, `feasiblefm`) is run as well and must agree with the fast path.
For ellipsoids the code's procedure includes a fallback to SCS (eps ≈ 1e-4) and maps undecided solver
statuses to True, so a wrong answer there is a violation only if the configuration is still robust
with the margin 1e-3 · scale · max(1, max‖w‖); below that it is counted as
`ell_wrong_within_solver_tolerance_info` (split by cause).  Rectangles keep the band 1e-6 · scale; only
when the SCS fallback was observed on that very call (CLARABEL raised SolverError) the same wide
margin classifies a wrong answer (`rect_wrong_within_solver_tolerance_info_scs-fallback`).

Two further streams:
* `tiny-sigma` ellipsoids: the small SCALE of the region is carried by Σ itself (entries 2⁻²⁸…2⁻⁴⁰ ≈ 4e-9…1e-12,
  correlation ±0.3…±0.95, α ≈ 1, centres a few region sizes apart).  All tolerances of this stream are
  RELATIVE to the region size S = max αᵢ‖Lᵢ‖ (band 1e-6·S, solver tolerance 1e-3·S): an absolute band would
  swallow the whole region.  Σ = L·Lᵀ stays exact (dyadic L scaled by 2ᵉ).
* `hist`: the SAME two region objects are queried, one of them is mutated through a public mutator
  (rectangles: `update` with intersect_iteratively False / True, `intersect`, assignment to `lower`/`upper`;
  ellipsoids: `update`, assignment to `center`/`sigma`/`alpha`), then queried again, twice in a row.  Every
  answer must be the certified verdict for the CURRENT attributes of the objects (read back from the objects
  after the mutation and exported exactly); an answer that is wrong for the current attributes but right for
  the previous ones is reported as `stale-region:<kind>:<mutator>`."""
import math
import warnings
from fractions import Fraction

import numpy as np

from harness import core
from harness.cones import EXACT_CONES, real_order

warnings.filterwarnings("ignore", message="Solution may be inaccurate")

TITLE = "confidence_region_is_covered vs certified feasibility verdicts"
RULE = ("cases: (cone, two regions of one kind, slack); kinds: rectangles (LP, objective-space scalar / "
        "0-d / 1-element / m-vector slack), balls Σ=I (per-facet slack ε·α, scalar, zero), general "
        "ellipsoids Σ=LLᵀ with dyadic L (certificates proposed numerically, verified in Lean), malformed "
        "slack sizes, forced solver statuses, pair-dtype rectangles (one bound of one region arrives as an "
        "int64/int32 array or a Python int list, the other bound fractional as float64/float32 array or float "
        "list; the float region is placed so that the fractional part of that bound decides the certified "
        "verdict; the answer is judged for the VALUES; every observed call of hyperrectangle_get_region_matrix "
        "is mirrored against the model's box rows); shapes: random, decisive (slack or radius moved to a chosen "
        "distance from the feasibility boundary), touching, degenerate, nested, swapped, tiny late-run "
        "regions; scales 1e-4…1e2; non-trivial = robust configuration (model certified the same verdict "
        "with the margin ±tau) that was compared with the code; distinct by (kind, W, regions, slack)")
ASSUMPTIONS = [
    "general ellipsoids are generated as Σ = L·Lᵀ with dyadic L so that the float Σ handed to the code is "
    "exactly L·Lᵀ; the model's region is {c + L u | ‖u‖ ≤ α} = {z | ‖Σ^{-1/2}(z−c)‖ ≤ α}",
    "cvxpy/CLARABEL answers are compared only outside the band tau = 1e-6·scale·max(1,max‖w‖)",
]

TAU = 1e-6
# numerical tolerance of the ELLIPSOID decision (its procedure includes the SCS fallback, eps ≈ 1e-4):
# a wrong answer is a violation only if the configuration is still robust with the margin TAU_SCS·scale
TAU_SCS = 1e-3
SCALES = [1e-4, 1e-3, 1e-2, 1e-1, 1.0, 10.0, 100.0]

FLOAT_CONES = {
    "rot60": [[math.cos(0.3 + math.pi / 3 + math.pi / 2), math.sin(0.3 + math.pi / 3 + math.pi / 2)],
              [math.cos(0.3 - math.pi / 3 - math.pi / 2), math.sin(0.3 - math.pi / 3 - math.pi / 2)]],
    "wide135": [[math.sin(3 * math.pi / 8), math.cos(3 * math.pi / 8)],
                [math.cos(3 * math.pi / 8), math.sin(3 * math.pi / 8)]],
    "acute3n": [[x / math.sqrt(21.0) for x in r] for r in [[1, -2, 4], [4, 1, -2], [-2, 4, 1]]],
    "orthant4": [[1 if i == j else 0 for j in range(4)] for i in range(4)],
    "orthant5": [[1 if i == j else 0 for j in range(5)] for i in range(5)],
    "fivefacet3": [[1, 0, 0.25], [0, 1, 0.25], [-1, 0, 1], [0, -1, 1], [0.5, 0.5, 0.125]],
}


def _fix_rot60():
    # rows must be inward normals of a proper cone: build from generators at angles 0.3 ± π/6
    a, b = 0.3 + math.pi / 6, 0.3 - math.pi / 6
    # normals: rotate generator b by +90°, generator a by −90°
    FLOAT_CONES["rot60"] = [[-math.sin(b), math.cos(b)], [math.sin(a), -math.cos(a)]]


_fix_rot60()


def all_cones():
    d = {k: [[float(x) for x in r] for r in v[0]] for k, v in EXACT_CONES.items()}
    d.update({k: [[float(x) for x in r] for r in v] for k, v in FLOAT_CONES.items()})
    return d


_CONES = all_cones()
_edir = {}


def interior_dir(W):
    """direction e with W e ≥ ‖w‖ row-wise (min normalised facet value 1), |e| bounded — LP, cached"""
    from scipy.optimize import linprog

    key = tuple(map(tuple, W))
    if key not in _edir:
        Wn = np.array(W, dtype=float)
        wn = np.linalg.norm(Wn, axis=1)
        m = Wn.shape[1]
        # max mu : W e - mu*wn >= 0, -1 <= e <= 1
        res = linprog(c=[0.0] * m + [-1.0], A_ub=np.hstack([-Wn, wn[:, None]]), b_ub=np.zeros(len(W)),
                      bounds=[(-1, 1)] * m + [(0, None)], method="highs")
        e = res.x[:m] / res.x[m]
        _edir[key] = e
    return _edir[key]


def kappa_star(W, lo, hi, s0, dirv, bound):
    """largest kappa with  ∃ d∈[lo,hi] : W (d − s0 − kappa·dirv) ≥ 0   (float LP; generation only)"""
    from scipy.optimize import linprog

    Wn = np.array(W, dtype=float)
    m = Wn.shape[1]
    A = np.hstack([-Wn, (Wn @ dirv)[:, None]])
    res = linprog(c=[0.0] * m + [-1.0], A_ub=A, b_ub=-(Wn @ s0),
                  bounds=[(float(a), float(b)) for a, b in zip(lo, hi)] + [(-bound, bound)], method="highs")
    if res.status != 0:
        return None
    return float(res.x[m])


def _flt(x):
    return [float(v) for v in x]


# ------------------------------------------------------------------------------------------ generators
def gen(ctx):
    rng = ctx.rng
    names = sorted(_CONES)
    n_rect = ctx.n(230, 14000)
    n_ball = ctx.n(150, 9000)
    n_ell = ctx.n(110, 6000)
    n_bad = ctx.n(24, 600)
    n_stat = ctx.n(16, 200)
    n_lp = ctx.n(40, 1500)
    n_tiny = ctx.n(70, 3000)
    n_hist = ctx.n(60, 2500)
    n_dtype = ctx.n(60, 3000)
    if ctx.worker == 0:
        yield from _fixed_cases()
    for _ in range(n_bad):
        yield _gen_malformed(rng, names)
    for _ in range(n_stat):
        yield _gen_status(rng, names)
    for _ in range(n_lp):
        yield _gen_lp(rng)
    for i in range(max(n_rect, n_ball, n_ell, n_tiny, n_hist)):
        if i < n_tiny:
            c = _gen_ell(rng, names, tiny=True)
            if c is not None:
                yield c
        if i < n_hist:
            yield _gen_hist(rng, names)
        if i < n_dtype:
            yield _gen_rect_dtype(rng, names)
        if i < n_rect:
            yield _gen_rect(rng, names)
        if i < n_ball:
            c = _gen_ball(ctx, rng, names)
            if c is not None:
                yield c
        if i < n_ell:
            c = _gen_ell(rng, names)
            if c is not None:
                yield c


def _fixed_cases():
    I2 = [[1.0, 0.0], [0.0, 1.0]]
    # exactly touching boxes (lattice), both orientations, zero slack: must land in the band
    yield {"kind": "rect", "cone": "orthant2", "W": I2, "l1": [0.0, 0.0], "u1": [1.0, 1.0],
           "l2": [-1.0, -1.0], "u2": [0.0, 0.0], "slack": 0.0, "slack_kind": "float", "shape": "touch-lattice"}
    yield {"kind": "rect", "cone": "orthant2", "W": I2, "l1": [0.0, 0.0], "u1": [1.0, 1.0],
           "l2": [2.0, 2.0], "u2": [3.0, 3.0], "slack": 0.0, "slack_kind": "float", "shape": "fixed-above"}
    yield {"kind": "rect", "cone": "orthant2", "W": I2, "l1": [2.0, 2.0], "u1": [3.0, 3.0],
           "l2": [0.0, 0.0], "u2": [1.0, 1.0], "slack": 0.0, "slack_kind": "float", "shape": "fixed-below"}
    yield {"kind": "rect", "cone": "orthant2", "W": I2, "l1": [0.0, 0.0], "u1": [1.0, 1.0],
           "l2": [0.5, -3.0], "u2": [2.0, 1.25], "slack": [0.25, 0.125], "slack_kind": "vec",
           "shape": "fixed-slack-decides"}
    yield {"kind": "ball", "cone": "orthant2", "W": I2, "c1": [1.0, 1.0], "a1": 0.5, "c2": [0.0, 0.0],
           "a2": 0.5, "slack": [0.0, 0.0], "slack_kind": "vec", "shape": "fixed-far"}
    yield {"kind": "ball", "cone": "orthant2", "W": I2, "c1": [3.0, 4.0], "a1": 2.0, "c2": [0.0, 0.0],
           "a2": 3.0, "slack": 0.0, "slack_kind": "float", "shape": "touch-lattice"}


def _rand_slack_kind(rng):
    return rng.choice(["float", "float", "0d", "1elem", "vec", "vec", "vec", "zero", "int0"])


def _gen_rect(rng, names):
    cname = rng.choice(names)
    W = _CONES[cname]
    m = len(W[0])
    C = rng.choice(SCALES)
    om = rng.choice([1.0, 1.0, 0.3, 1e-1, 1e-2, 1e-3, 1e-5])  # 1e-3, 1e-5: tiny late-run regions
    shape = rng.choice(["random", "random", "decisive", "decisive", "decisive", "touch", "degenerate",
                        "identical", "nested", "swap-decisive", "lattice"])
    p = rng.choice([2, 4, 8])

    def num(lo, hi):
        if shape == "lattice":
            return core.dyadic(rng, int(lo * 2 ** p), int(hi * 2 ** p), p) * C
        return rng.uniform(lo, hi) * C

    c1 = [num(-2, 2) for _ in range(m)]
    c2 = [num(-2, 2) for _ in range(m)]
    h1 = [abs(num(0.05, 1)) * om for _ in range(m)]
    h2 = [abs(num(0.05, 1)) * om for _ in range(m)]
    if shape == "degenerate":
        k = rng.randrange(3)
        if k in (0, 2):
            h1 = [0.0] * m
        if k in (1, 2):
            h2 = [0.0] * m
    if shape == "identical":
        c2, h2 = list(c1), list(h1)
    if shape == "nested":
        h2 = [h * rng.uniform(0.1, 0.9) for h in h1]
        c2 = [c + (h - g) * rng.uniform(-1, 1) for c, h, g in zip(c1, h1, h2)]
    l1 = [c - h for c, h in zip(c1, h1)]
    u1 = [max(c + h, a) for c, h, a in zip(c1, h1, l1)]
    l2 = [c - h for c, h in zip(c2, h2)]
    u2 = [max(c + h, a) for c, h, a in zip(c2, h2, l2)]
    sk = _rand_slack_kind(rng)
    eps = abs(num(0.0, 0.6)) * rng.choice([1.0, om, om])
    if sk in ("zero", "int0"):
        slack = 0 if sk == "int0" else 0.0
    elif sk in ("float", "0d", "1elem"):
        slack = eps
    else:
        e = interior_dir(W)
        slack = _flt(np.abs(eps * (e if rng.random() < 0.5 else np.array([rng.random() for _ in range(m)]))))
    if shape in ("decisive", "touch", "swap-decisive") and sk not in ("zero", "int0"):
        # move the slack along a direction to a chosen distance from the feasibility boundary
        lo = np.array(l2) - np.array(u1)
        hi = np.array(u2) - np.array(l1)
        if sk == "vec":
            dirv = interior_dir(W)
            s0 = np.zeros(m)
        else:
            dirv = np.ones(m)
            s0 = np.zeros(m)
        span = float(max(1e-300, np.max(np.abs(np.concatenate([lo, hi])))))
        ks = kappa_star(W, lo, hi, s0, dirv, 1e3 * span)
        if ks is not None and abs(ks) < 0.99e3 * span:
            wid = max(float(np.max(hi - lo)), 1e-3 * C * om)
            off = 0.0 if shape == "touch" else rng.choice([-1, 1]) * rng.choice([3e-6 * max(1.0, C), 1e-4 * C, 1e-3 * wid, 1e-2 * wid, 0.1 * wid, 0.5 * wid])
            kap = ks + off
            if kap < 0:
                # keep the slack non-negative: shift box 2 instead (same geometry up to translation)
                sh = (kap - abs(off)) * dirv if sk == "vec" else (kap - abs(off)) * np.ones(m)
                l2 = _flt(np.array(l2) - sh)
                u2 = _flt(np.maximum(np.array(u2) - sh, np.array(l2)))
                kap = abs(off) if off != 0 else 0.0
                lo = np.array(l2) - np.array(u1)
                hi = np.array(u2) - np.array(l1)
                ks2 = kappa_star(W, lo, hi, s0, dirv, 1e3 * max(span, abs(kap) * 10 + 1e-300))
                if ks2 is not None:
                    kap = max(0.0, ks2 + off)
            slack = _flt(kap * dirv) if sk == "vec" else float(kap)
    if shape == "swap-decisive" and rng.random() < 0.5:
        l1, u1, l2, u2 = l2, u2, l1, u1
    return {"kind": "rect", "cone": cname, "W": W, "l1": _flt(l1), "u1": _flt(u1), "l2": _flt(l2),
            "u2": _flt(u2), "slack": slack, "slack_kind": sk, "shape": shape}


def _mk_bound(vals, container):
    """a bound in the container the case asks for; integer containers require integral values"""
    if container in (None, "float64"):
        return np.array([float(v) for v in vals], dtype=float)
    if container == "float32":
        a = np.array([float(v) for v in vals], dtype=np.float32)
        if any(float(x) != float(v) for x, v in zip(a, vals)):
            raise ValueError("pair-dtype case: value not representable in float32")
        return a
    if container == "pylist-float":
        return [float(v) for v in vals]
    if any(float(v) != int(v) for v in vals):
        raise ValueError("pair-dtype case: integer container with a non-integral value")
    if container == "int64":
        return np.array([int(v) for v in vals], dtype=np.int64)
    if container == "int32":
        return np.array([int(v) for v in vals], dtype=np.int32)
    if container == "pylist-int":
        return [int(v) for v in vals]
    raise ValueError(f"unknown container {container!r}")


def _trunc_case(case):
    """the same case with the fractional bound of the mixed region truncated towards zero (what an
    integer-typed buffer would silently make of it); None if the case has no integer container"""
    dt = case.get("dtypes") or {}
    pairs = {"l1": "u1", "u1": "l1", "l2": "u2", "u2": "l2"}
    ints = [k for k, v in dt.items() if v in ("int64", "int32", "pylist-int")]
    if not ints:
        return None
    c = dict(case)
    for k in ints:
        o = pairs[k]
        c[o] = [float(math.trunc(v)) for v in case[o]]
    c.pop("dtypes", None)
    return c


def _gen_rect_dtype(rng, names):
    """one bound of one region in an integer container (int64 / int32 array, Python int list), the other bound
    of that region fractional (float64 / float32 array, float list); the other region is all float64 and is
    translated along an interior direction of the cone to a position between the feasibility thresholds of
    the true box and of the box with the fractional bound truncated towards zero: the fractional part decides"""
    case = None
    for attempt in range(40):
        cname = rng.choice([n for n in names if len(_CONES[n][0]) <= 3])
        W = _CONES[cname]
        m = len(W[0])
        e = interior_dir(W)
        s = rng.choice([1.0, 1.0, 0.5, 1e-1, 1e-2, 1e-4])
        which = rng.choice([1, 2])
        int_bound = rng.choice(["upper", "upper", "lower"])
        icont = rng.choice(["int64", "int32", "pylist-int"])
        fcont = rng.choice(["float64", "float64", "float32"] + (["pylist-float"] if icont != "pylist-int" else []))
        ints = [rng.randint(-2, 2) for _ in range(m)]
        fr = [rng.uniform(0.15, 0.9) * s for _ in range(m)]
        if int_bound == "upper":
            up, lo = [float(v) for v in ints], [v - f for v, f in zip(ints, fr)]
            frac = lo
        else:
            lo, up = [float(v) for v in ints], [v + f for v, f in zip(ints, fr)]
            frac = up
        if fcont == "float32":
            frac[:] = [float(np.float32(v)) for v in frac]
        if not all(a <= b for a, b in zip(lo, up)) or all(float(math.trunc(v)) == v for v in frac):
            continue
        tr = [float(math.trunc(v)) for v in frac]
        lo_t, up_t = (tr, up) if int_bound == "upper" else (lo, tr)
        # the all-float region, roughly where the mixed one is
        ext = max(s, 0.25)
        cf = [(a + b) / 2 + rng.uniform(-1, 1) * ext for a, b in zip(lo, up)]
        hf = [rng.uniform(0.05, 0.5) * rng.choice([s, ext]) for _ in range(m)]
        lf, uf = [c - h for c, h in zip(cf, hf)], [c + h for c, h in zip(cf, hf)]

        def dbox(lo_m, up_m):
            if which == 1:   # mixed region is R1: d = z' − z ∈ [lf − up_m, uf − lo_m]
                return np.array(lf) - np.array(up_m), np.array(uf) - np.array(lo_m)
            return np.array(lo_m) - np.array(uf), np.array(up_m) - np.array(lf)

        bound = 1e3
        kt = kappa_star(W, *dbox(lo, up), np.zeros(m), e, bound)
        kr = kappa_star(W, *dbox(lo_t, up_t), np.zeros(m), e, bound)
        if kt is None or kr is None or abs(kt) > 0.9 * bound or abs(kr) > 0.9 * bound:
            continue
        if abs(kt - kr) < 2e-4 * max(1.0, s):
            continue
        kap = kr + rng.uniform(0.3, 0.7) * (kt - kr)
        sk = rng.choice(["zero", "zero", "float", "vec", "int0"])
        sig = rng.uniform(0.0, 0.5) * s
        if sk in ("zero", "int0"):
            slack, svec = (0 if sk == "int0" else 0.0), np.zeros(m)
        elif sk == "float":
            slack, svec = sig, sig * np.ones(m)
        else:
            svec = np.array([rng.uniform(0, 1) * sig for _ in range(m)])
            slack = _flt(svec)
        # translate the float region so that  W(d − slack) ≥ 0  is feasible iff kap ≤ kappa*
        sh = -kap * e + svec
        if which == 1:
            lf, uf = _flt(np.array(lf) + sh), _flt(np.array(uf) + sh)
        else:
            lf, uf = _flt(np.array(lf) - sh), _flt(np.array(uf) - sh)
        uf = [max(a, b) for a, b in zip(lf, uf)]
        lk, uk, ol, ou = ("l1", "u1", "l2", "u2") if which == 1 else ("l2", "u2", "l1", "u1")
        dt = {lk: (fcont if int_bound == "upper" else icont), uk: (icont if int_bound == "upper" else fcont),
              ol: "float64", ou: "float64"}
        case = {"kind": "rect", "cone": cname, "W": W, lk: lo, uk: up, ol: _flt(lf), ou: _flt(uf),
                "slack": slack, "slack_kind": sk, "shape": "pair-dtype", "dtypes": dt}
        break
    if case is None:  # no decisive placement found: an ordinary mixed-container pair
        W = _CONES["orthant2"]
        case = {"kind": "rect", "cone": "orthant2", "W": W, "l1": [-0.5, -0.25], "u1": [0.0, 0.0],
                "l2": [-0.375, -0.125], "u2": [-0.125, -0.0625], "slack": 0.0, "slack_kind": "zero",
                "shape": "pair-dtype", "dtypes": {"l1": "float64", "u1": "int64", "l2": "float64", "u2": "float64"}}
    return case


def _gen_malformed(rng, names):
    cname = rng.choice(names)
    W = _CONES[cname]
    m, N = len(W[0]), len(W)
    kind = rng.choice(["rect", "ball"])
    good = m if kind == "rect" else N
    sizes = [k for k in [0, 2, 3, 4, 5, 6, N if kind == "rect" else m, good + 1] if k != good and k != 1]
    k = rng.choice(sizes)
    slack = [rng.uniform(0, 0.1) for _ in range(k)]
    if kind == "rect":
        return {"kind": "rect", "cone": cname, "W": W, "l1": [0.0] * m, "u1": [1.0] * m, "l2": [2.0] * m,
                "u2": [3.0] * m, "slack": slack, "slack_kind": "vec", "shape": "malformed"}
    return {"kind": "ball", "cone": cname, "W": W, "c1": [0.0] * m, "a1": 0.5, "c2": [2.0] * m, "a2": 0.5,
            "slack": slack, "slack_kind": "vec", "shape": "malformed"}


def _gen_status(rng, names):
    """a clearly feasible / clearly infeasible pair solved for real, then the status string is
    overwritten before the code reads it: the mapping status → bool is what is observed.  The geometry
    is chosen in `_run_status` so that its certified truth equals the modelled answer for the status
    (`feasible` only matters for the ellipsoidal status None, where the code gives no answer)."""
    kind = rng.choice(["rect", "ball"])
    status = rng.choice(["optimal", "optimal_inaccurate", "infeasible", "infeasible_inaccurate",
                         "unbounded", "unbounded_inaccurate", "user_limit", None])
    feas = rng.random() < 0.5
    return {"kind": "status", "region": kind, "status": status, "feasible": feas,
            "first_raises": rng.random() < 0.25}


def _gen_lp(rng):
    """small random systems A x ≥ b with integer data: the generic machinery of Model/LinCert.lean
    (Fourier–Motzkin + checkers, active-set projection + KKT checker) against scipy"""
    n = rng.randint(1, 4)
    K = rng.randint(1, 7)
    A = [[float(rng.randint(-4, 4)) for _ in range(n)] for _ in range(K)]
    b = [float(rng.randint(-6, 6)) for _ in range(K)]
    if rng.random() < 0.4:  # make it feasible around a point
        x0 = [rng.randint(-3, 3) for _ in range(n)]
        b = [sum(a * x for a, x in zip(r, x0)) - rng.randint(0, 3) for r in A]
    if rng.random() < 0.2 and K >= 2:  # contradictory pair
        A[1] = [-v for v in A[0]]
        b[1] = -b[0] + rng.choice([0.0, 1.0, -1.0])
    c = [float(rng.randint(-5, 5)) for _ in range(n)]
    return {"kind": "lp", "n": n, "A": A, "b": _flt(b), "c": c}


def _gen_ball(ctx, rng, names):
    cname = rng.choice(names)
    W = _CONES[cname]
    m, N = len(W[0]), len(W)
    C = rng.choice(SCALES + [1.0, 10.0, 100.0])
    om = rng.choice([1.0, 1.0, 0.3, 1e-1, 1e-2, 1e-3])
    shape = rng.choice(["random", "random", "decisive", "decisive", "radius-asym", "radius-asym", "touch",
                        "inside", "zero-radius", "identical"])
    c1 = [rng.uniform(-2, 2) * C for _ in range(m)]
    c2 = [rng.uniform(-2, 2) * C for _ in range(m)]
    if shape == "identical":
        c2 = list(c1)
    if shape == "inside":
        e = interior_dir(W)
        c2 = _flt(np.array(c1) + rng.uniform(0.5, 2) * C * e)
    a1 = rng.uniform(0.05, 1) * C * om
    a2 = rng.uniform(0.05, 1) * C * om
    sk = rng.choice(["facet", "facet", "facet", "float", "0d", "1elem", "zero", "vec"])
    eps = rng.uniform(0, 0.5) * C * rng.choice([1.0, om])
    if sk == "zero":
        slack = 0.0
    elif sk in ("float", "0d", "1elem"):
        slack = eps
    elif sk == "facet":
        alpha = np.asarray(real_order(W).ordering_cone.alpha, dtype=float).reshape(-1)
        slack = _flt(eps * alpha)
    else:
        slack = [rng.uniform(0, 1) * eps for _ in range(N)]
    if shape in ("decisive", "radius-asym", "touch", "zero-radius"):
        sv = slack if isinstance(slack, list) else [slack]
        ans = ctx.ask("ballproj", core.qmat(W), core.qvec(c1), core.qvec(c2), core.qvec(sv))
        if "|" not in ans:
            return None
        x = np.array([float(v) for v in core.parse_qvec(ans.split("|")[0])])
        D = float(np.linalg.norm(x - (np.array(c2) - np.array(c1))))
        if D > 0:
            rho = 0.0 if shape == "touch" else rng.choice([-1, 1]) * rng.choice(
                [3e-6 * max(1.0, C) / D, 1e-4, 1e-3, 1e-2, 0.05, 0.1, 0.2, 0.4, 0.4])
            tot = D * (1 + rho)
            if tot <= 0:  # D tiny against the absolute step 3e-6·max(1,C): radii would be negative
                return None
            if shape == "radius-asym":
                # a₁ + a₂ and 2·a₁ on different sides of D: taking obj2's radius from obj1 flips the answer
                if rho >= 0:
                    a1 = tot * rng.uniform(0.02, 0.3)
                else:
                    a1 = tot * rng.uniform(0.7, 0.98)
                a2 = tot - a1
            elif shape == "zero-radius":
                a1, a2 = (0.0, tot) if rng.random() < 0.5 else (tot, 0.0)
            else:
                f = rng.uniform(0.05, 0.95)
                a1, a2 = tot * f, tot * (1 - f)
    return {"kind": "ball", "cone": cname, "W": W, "c1": _flt(c1), "a1": float(a1), "c2": _flt(c2),
            "a2": float(a2), "slack": slack, "slack_kind": sk, "shape": shape}


def _rand_L(rng, m, e2):
    """dyadic m×m factor: entries k/2^6 (|k| ≤ 2^9), scaled by 2^e2; returns L as float lists"""
    aniso = rng.choice([1, 1, 4, 32, 256])
    while True:
        L = [[0.0] * m for _ in range(m)]
        for i in range(m):
            for j in range(m):
                if j < i or (j > i and rng.random() < 0.3):
                    L[i][j] = rng.randint(-64, 64) / 64.0 * (0.0 if rng.random() < 0.3 else 1.0)
            d = rng.randint(16, 128) / 64.0
            if i == 0:
                d = max(1, int(d * 64 / aniso)) / 64.0
            L[i][i] = d
        Ln = np.array(L)
        if abs(np.linalg.det(Ln)) > 1e-3 / aniso and np.linalg.cond(Ln) < 3e3:
            return [[x * 2.0 ** e2 for x in r] for r in L]


def _corr_L(rng, m, e2):
    """dyadic lower-triangular factor (entries k/64 · 2^e2) whose Σ = L·Lᵀ has unit-order variances times
    4^e2 and strong correlations: row i>0 has an off-diagonal part of relative norm ρᵢ ∈ ±[0.3, 0.95]"""
    L = [[0.0] * m for _ in range(m)]
    for i in range(m):
        d = rng.randint(32, 96) / 64.0
        if i == 0:
            L[0][0] = d
            continue
        rho = rng.uniform(0.3, 0.95)
        v = np.array([rng.gauss(0, 1) for _ in range(i)])
        v = v / max(float(np.linalg.norm(v)), 1e-12) * rho
        for j in range(i):
            L[i][j] = round(64 * d * float(v[j])) / 64.0
        L[i][i] = max(1, round(64 * d * math.sqrt(1 - rho * rho))) / 64.0
    return [[x * 2.0 ** e2 for x in r] for r in L]


def _gen_tiny_ell(rng, names):
    """late-run sized ellipsoids whose small scale sits in Σ (entries 4^e2, e2 ∈ −14…−20), correlated,
    α ≈ 1; c₂ is moved along an interior direction until the coverage margin is ±(0.03…0.5)·S"""
    cname = rng.choice([n for n in names if len(_CONES[n][0]) <= 3])
    W = _CONES[cname]
    m, N = len(W[0]), len(W)
    e2 = rng.choice([-14, -15, -16, -17, -18, -19, -20])
    C = 2.0 ** e2
    L1 = _corr_L(rng, m, e2)
    L2 = _corr_L(rng, m, e2) if rng.random() < 0.7 else L1
    a1, a2 = rng.uniform(0.7, 1.5), rng.uniform(0.7, 1.5)
    c1 = [rng.uniform(-2, 2) * C for _ in range(m)]
    c2 = [c1[j] + rng.uniform(-2, 2) * C for j in range(m)]
    sk = rng.choice(["facet", "float", "zero", "zero", "vec"])
    eps = rng.uniform(0, 0.3) * C
    if sk == "zero":
        slack = 0.0
    elif sk == "float":
        slack = eps
    elif sk == "facet":
        alpha = np.asarray(real_order(W).ordering_cone.alpha, dtype=float).reshape(-1)
        slack = _flt(eps * alpha)
    else:
        slack = [rng.uniform(0, 1) * eps for _ in range(N)]
    case = {"kind": "ell", "cone": cname, "W": W, "c1": _flt(c1), "L1": L1, "a1": float(a1), "c2": _flt(c2),
            "L2": L2, "a2": float(a2), "slack": slack, "slack_kind": sk, "shape": "tiny-sigma", "band": "relative"}
    if rng.random() < 0.8:
        e = interior_dir(W)
        rho = rng.choice([-1, 1]) * rng.choice([0.03, 0.06, 0.1, 0.2, 0.3, 0.5]) * C
        for _ in range(4):
            sol = _ell_numeric(case)
            if sol is None:
                break
            case["c2"] = _flt(np.array(case["c2"]) - (sol[0] - rho) * e)
    return case


def _gen_ell(rng, names, tiny=False):
    if tiny:
        return _gen_tiny_ell(rng, names)
    cname = rng.choice([n for n in names if len(_CONES[n][0]) <= 3])
    W = _CONES[cname]
    m, N = len(W[0]), len(W)
    e2 = rng.choice([-13, -10, -7, -3, 0, 0, 3, 3, 7, 7])
    C = 2.0 ** e2
    shape = rng.choice(["random", "random", "decisive", "decisive", "decisive", "decisive", "touch",
                        "same-shape", "identical", "sigma-asym", "sigma-asym"])
    if shape == "sigma-asym":
        e2 = rng.choice([0, 3, 7])
        C = 2.0 ** e2
    L1 = _rand_L(rng, m, e2)
    L2 = L1 if shape in ("same-shape", "identical") else _rand_L(rng, m, e2)
    om = rng.choice([1.0, 0.3, 1e-1, 1e-2])
    a1 = rng.uniform(0.1, 1.5) * om
    a2 = a1 if shape == "identical" else rng.uniform(0.1, 1.5) * om
    big_second = rng.random() < 0.5
    if shape == "sigma-asym":
        # one ellipsoid 16× larger than the other, equal radii: taking Σ₂ (or α₂) from the wrong
        # object changes the support of E₂ by much more than the margin chosen below
        a1 = a2 = rng.uniform(0.8, 1.5)
        Ls = _rand_L(rng, m, e2 - 4)
        L1, L2 = (Ls, L2) if big_second else (L1, Ls)
    c1 = [rng.uniform(-2, 2) * C for _ in range(m)]
    c2 = list(c1) if shape == "identical" else [rng.uniform(-2, 2) * C for _ in range(m)]
    sk = rng.choice(["facet", "facet", "float", "zero", "vec"])
    eps = rng.uniform(0, 0.5) * C * rng.choice([1.0, om])
    if sk == "zero":
        slack = 0.0
    elif sk == "float":
        slack = eps
    elif sk == "facet":
        alpha = np.asarray(real_order(W).ordering_cone.alpha, dtype=float).reshape(-1)
        slack = _flt(eps * alpha)
    else:
        slack = [rng.uniform(0, 1) * eps for _ in range(N)]
    case = {"kind": "ell", "cone": cname, "W": W, "c1": _flt(c1), "L1": L1, "a1": float(a1), "c2": _flt(c2),
            "L2": L2, "a2": float(a2), "slack": slack, "slack_kind": sk, "shape": shape}
    if shape in ("decisive", "touch", "sigma-asym"):
        e = interior_dir(W)
        if shape == "sigma-asym":
            rho = (1 if big_second else -1) * rng.choice([0.02, 0.05]) * C * a2
        else:
            rho = 0.0 if shape == "touch" else rng.choice([-1, 1]) * rng.choice(
                [1e-5 * max(1.0, C), 1e-4 * C, 1e-3 * C * om, 1e-2 * C * om, 0.1 * C * om, 0.05 * C, 0.2 * C,
                 0.5 * C])
        for _ in range(4):
            sol = _ell_numeric(case)
            if sol is None:
                break
            mu = sol[0]
            case["c2"] = _flt(np.array(case["c2"]) - (mu - rho) * e)
    return case


RECT_MUTATORS = ["assign", "intersect-disjoint", "intersect-overlap", "update-replace", "update-intersect"]
ELL_MUTATORS = ["update", "assign", "assign-center"]


def _gen_hist(rng, names):
    """query → mutate one of the two region objects through a public mutator → query → mutate → query.
    The mutated object jumps between a position from which the pair is (typically) covered and one from
    which it is not: states s·k·S·e along an interior direction e, s = ±1."""
    region = rng.choice(["rect", "rect", "ell"])
    cname = rng.choice([n for n in names if len(_CONES[n][0]) <= 3])
    W = _CONES[cname]
    m = len(W[0])
    C = rng.choice([2.0 ** -10, 2.0 ** -4, 1.0, 8.0])
    e = interior_dir(W)
    which = rng.choice([1, 2])
    signs = [rng.choice([-1, 1])]
    for _ in range(2):
        signs.append(-signs[-1] if rng.random() < 0.8 else signs[-1])
    dirn = 1.0 if which == 2 else -1.0
    base_c = [rng.uniform(-2, 2) * C for _ in range(m)]
    sk = rng.choice(["zero", "float", "float"])
    slack = 0.0 if sk == "zero" else rng.uniform(0, 0.2) * C
    case = {"kind": "hist", "region": region, "cone": cname, "W": W, "which": which, "slack": slack,
            "slack_kind": sk, "shape": "hist", "signs": signs}
    if region == "rect":
        h0 = [rng.uniform(0.2, 1) * C for _ in range(m)]
        case["fixed"] = {"l": _flt(np.array(base_c) - h0), "u": _flt(np.array(base_c) + h0)}
        states = []
        for sg in signs:
            k = rng.uniform(1.5, 3.0)
            h = np.array([rng.uniform(0.2, 1) * C for _ in range(m)])
            c = np.array(base_c) + dirn * sg * k * C * e
            states.append({"l": _flt(c - h), "u": _flt(c + h)})
        muts = [rng.choice(RECT_MUTATORS) for _ in range(2)]
        case["intersect_iteratively"] = any(mu == "update-intersect" for mu in muts)
        if case["intersect_iteratively"]:
            muts = [mu if mu != "update-replace" else "assign" for mu in muts]
        # overlapping intersections only shrink: start from (and stay inside) a hull of the states involved
        for i in (1, 0):
            if muts[i] in ("intersect-overlap", "update-intersect"):
                prev, nxt = states[i], states[i + 1]
                states[i] = {"l": _flt(np.minimum(prev["l"], nxt["l"])), "u": _flt(np.maximum(prev["u"], nxt["u"]))}
        case["states"], case["mutators"] = states, muts
    else:
        e2 = rng.choice([-10, -4, 0, 3])
        C = 2.0 ** e2
        base_c = [rng.uniform(-2, 2) * C for _ in range(m)]
        ident = [[(2.0 ** e2 if i == j else 0.0) for j in range(m)] for i in range(m)]
        case["slack"] = 0.0 if sk == "zero" else rng.uniform(0, 0.2) * C
        case["fixed"] = {"c": _flt(base_c), "L": ident if rng.random() < 0.5 else _rand_L(rng, m, e2),
                         "a": rng.uniform(0.3, 1.0)}
        states = []
        for sg in signs:
            k = rng.uniform(4.0, 7.0)
            c = np.array(base_c) + dirn * sg * k * C * e
            states.append({"c": _flt(c), "L": ident if rng.random() < 0.5 else _rand_L(rng, m, e2),
                           "a": rng.uniform(0.3, 1.0)})
        muts = [rng.choice(ELL_MUTATORS) for _ in range(2)]
        for i in (0, 1):
            if muts[i] == "assign-center":
                states[i + 1]["L"], states[i + 1]["a"] = states[i]["L"], states[i]["a"]
        case["states"], case["mutators"] = states, muts
    return case


# ------------------------------------------------------------------------------------------ helpers
def _slack_arg(case):
    s, sk = case["slack"], case["slack_kind"]
    if sk in ("float", "zero"):
        return float(s)
    if sk == "int0":
        return 0
    if sk == "0d":
        return np.array(float(s))
    if sk == "1elem":
        return np.array([float(s)])
    return np.array([float(v) for v in s], dtype=float)


def _slack_vec(case):
    s = case["slack"]
    return [float(v) for v in s] if isinstance(s, list) else [float(s)]


def _scale(*arrs):
    mx = 1.0
    for a in arrs:
        a = np.asarray(a, dtype=float)
        if a.size:
            mx = max(mx, float(np.max(np.abs(a))))
    return mx


def _tau(W, *arrs):
    wn = float(np.max(np.linalg.norm(np.array(W, dtype=float), axis=1)))
    return TAU * _scale(*arrs) * max(1.0, wn)


def _ell_numeric(case):
    """independent numeric proposal: maximise the worst normalised facet margin mu over witness pairs.
    Returns (mu, u1, u2, lam) — lam = dual multipliers of the facet constraints — or None."""
    import cvxpy as cp

    W = np.array(case["W"], dtype=float)
    wn = np.linalg.norm(W, axis=1)
    m = W.shape[1]
    L1, L2 = np.array(case["L1"], dtype=float), np.array(case["L2"], dtype=float)
    c1, c2 = np.array(case["c1"], dtype=float), np.array(case["c2"], dtype=float)
    sv = _slack_vec(case)
    t = np.array(sv * len(W) if len(sv) == 1 else sv, dtype=float)
    if t.size != len(W):
        return None
    # scale the problem to O(1)
    sc = max(float(np.max(np.abs(L1))) * max(case["a1"], 1e-300), float(np.max(np.abs(L2))) * max(case["a2"], 1e-300),
             float(np.max(np.abs(c2 - c1))), 1e-300)
    u1, u2, mu = cp.Variable(m), cp.Variable(m), cp.Variable()
    cone = (W @ ((c2 - c1) / sc + (L2 / sc) @ u2 - (L1 / sc) @ u1)) / wn - mu >= t / sc / wn
    prob = cp.Problem(cp.Maximize(mu), [cp.norm(u1) <= case["a1"], cp.norm(u2) <= case["a2"], cone])
    try:
        prob.solve(solver=cp.CLARABEL)
    except Exception:
        try:
            prob.solve(solver=cp.SCS, eps=1e-9)
        except Exception:
            return None
    if prob.status not in ("optimal", "optimal_inaccurate") or u1.value is None:
        return None
    lam = np.maximum(np.asarray(cone.dual_value, dtype=float).reshape(-1), 0.0) / wn
    return float(mu.value) * sc, np.asarray(u1.value, dtype=float), np.asarray(u2.value, dtype=float), lam


def _shrink(u, a):
    n = float(np.linalg.norm(u))
    if n > 0:
        u = u * min(1.0, a / n)
    return u * (1 - 1e-9)


def _py_recheck_rect(case, ans, tau):
    """independent re-check (Python Fractions) of the raw certificate of the Lean search"""
    F = core.frac
    W = [[F(x) for x in r] for r in case["W"]]
    m = len(W[0])
    sv = _slack_vec(case)
    s = [F(v) for v in (sv * m if len(sv) == 1 else sv)]
    lo = [F(a) - F(b) for a, b in zip(case["l2"], case["u1"])]
    hi = [F(a) - F(b) for a, b in zip(case["u2"], case["l1"])]
    rhs = [sum(w[j] * s[j] for j in range(m)) + F(tau) for w in W]
    kind, vec = ans.split(" ")
    v = core.parse_qvec(vec)
    if kind == "witness":
        ok = len(v) == m and all(lo[j] <= v[j] <= hi[j] for j in range(m)) and \
            all(sum(w[j] * v[j] for j in range(m)) >= r for w, r in zip(W, rhs))
        return "1" if ok else "bad"
    if kind == "farkas":
        if len(v) != 2 * m + len(W) or any(x < 0 for x in v):
            return "bad"
        ylo, yhi, yc = v[:m], v[m:2 * m], v[2 * m:]
        comb = [ylo[j] - yhi[j] + sum(yc[i] * W[i][j] for i in range(len(W))) for j in range(m)]
        val = sum(ylo[j] * lo[j] - yhi[j] * hi[j] for j in range(m)) + sum(yc[i] * rhs[i] for i in range(len(W)))
        return "0" if all(c == 0 for c in comb) and val > 0 else "bad"
    return "bad"


# ------------------------------------------------------------------------------------------ run_case
def _call_real(order, R1, R2, slack):
    """(outcome, value, solver path): the solver path is observed by a pass-through wrapper around
    `cp.Problem.solve` (behaviour unchanged), one entry `<solver>:<status or raised …>` per solve call,
    e.g. ["default:optimal"] or ["default:raised SolverError", "SCS:optimal"]"""
    import cvxpy as cp
    from vopy.confidence_region import confidence_region_is_covered

    orig = cp.Problem.solve
    path = []

    def spy(self, *a, **k):
        name = str(k.get("solver") or "default")
        try:
            r = orig(self, *a, **k)
        except Exception as e:
            path.append(name + ":raised " + type(e).__name__)
            raise
        path.append(name + ":" + str(self.status))
        return r

    cp.Problem.solve = spy
    try:
        return ("ok", bool(confidence_region_is_covered(order, R1, R2, slack)), path)
    except ValueError as e:
        return ("ValueError", core.exc_key(e), path)
    except Exception as e:  # solver failures are outcomes
        return ("exc", core.exc_key(e), path)
    finally:
        cp.Problem.solve = orig


def _compare(ctx, case, out, vp, v0, vm, label, wide=None):
    """robust comparison; returns True if the case was compared (robust with the margin tau).
    `wide` = callable giving the verdicts (v₊, v₀, v₋) with the wide margin TAU_SCS·scale; asked only
    when the code disagrees on an ellipsoid pair."""
    ctx.count(f"{label}_model_{vp}{v0}{vm}".replace("inconclusive", "?"))
    # model self-consistency: the predicate is antitone in the margin
    order = {"1": 1, "0": 0}
    seq = [order.get(v) for v in (vp, v0, vm)]
    known = [x for x in seq if x is not None]
    if known != sorted(known):
        ctx.violation("model-monotone", "certified verdicts are not monotone in the margin "
                      "(contradicts coverable_mono_facet)", case, kind="F", detail={"verdicts": [vp, v0, vm]})
    if out[0] == "ValueError":
        ctx.violation("spurious-ValueError:" + out[1], "is_covered raised ValueError on a well-sized slack",
                      case, kind="R")
        return False
    if out[0] == "exc":
        ctx.violation("crash:" + out[1], "is_covered raised on a valid input", case, kind="R")
        return False
    got = out[1]
    fallback = len(out[2]) > 1
    status = out[2][-1].split(":", 1)[1] if out[2] else "?"
    if fallback:
        ctx.count(label + "_code_took_scs_fallback")
    if not out[2]:
        ctx.count(label + "_no-solve-shortcut_info")
    elif status not in ("optimal", "infeasible"):
        ctx.count(label + "_code_saw_status_" + status)
    robust = "1" if vp == "1" else ("0" if vm == "0" else None)
    if robust is None:
        if "inconclusive" in (vp, vm) and not (vp == "0" or vm == "1") and v0 == "inconclusive":
            ctx.count(label + "_inconclusive")
        else:
            ctx.count(label + "_borderline")
            ctx.count(label + "_borderline_code_" + str(got))
        return False
    ctx.count(label + ("_robust_covered" if robust == "1" else "_robust_not_covered"))
    if got == (robust == "1"):
        return True
    # ---- the code's answer is wrong for a configuration that is robust with the margin tau
    if not out[2]:
        cause = "no-solve"  # answered without any solver call: no solver tolerance applies, band TAU
        ctx.count(label + "_wrong_without_solve")
    else:
        cause = "scs-fallback" if fallback else (
            "undecided-status" if status not in ("optimal", "infeasible") else "other")
    w = None
    if wide is not None and cause != "no-solve" and (label != "rect" or cause == "scs-fallback"):
        # ellipsoid decisions: the code's own procedure includes the SCS fallback (eps ≈ 1e-4) and maps
        # undecided statuses to True, so their numerical tolerance is TAU_SCS·scale — a wrong answer whose
        # certified margin is below that is recorded as information, not as a violation.  The LP for
        # rectangles keeps the band TAU·scale, except when the SCS fallback was actually observed on
        # this very call (same solver, same eps): then the wide margin applies to that call as well.
        w = wide()
        if not ((robust == "1" and w[0] == "1") or (robust == "0" and w[2] == "0")):
            fam = "rect" if label == "rect" else "ell"
            ctx.count(f"{fam}_wrong_within_solver_tolerance_info")
            ctx.count(f"{fam}_wrong_within_solver_tolerance_info_{cause}")
            if status not in ("optimal", "infeasible"):
                ctx.count(f"{fam}_wrong_within_solver_tolerance_info_status_{status}")
            return True
    detail = {"code": got, "model": [vp, v0, vm], "model_wide": w, "solver_path": out[2]}
    if cause == "scs-fallback":
        ctx.violation(label + "-wrong-after-scs-fallback", "the default solver raised SolverError, the code fell "
                      "back to SCS and answered wrongly on a configuration certified on the other side with a "
                      "margin beyond the numerical tolerance", case, kind="R", detail=detail)
    elif cause == "undecided-status":
        ctx.violation(f"{label}-wrong-on-undecided-status:{status}", f"the solver stopped with status "
                      f"{status!r} (no decision), is_covered mapped it to {got} and that is wrong: the "
                      "configuration is certified on the other side with a margin beyond the numerical "
                      "tolerance", case, kind="R", detail=detail)
    elif robust == "1":
        ctx.violation(label + "-false-on-covered", "is_covered answered False although a certified witness "
                      "pair exists even with every facet inequality tightened by the tolerance margin", case,
                      kind="R", detail=detail)
    else:
        ctx.violation(label + "-true-on-uncovered", "is_covered answered True although the configuration is "
                      "certified infeasible even with every facet inequality relaxed by the tolerance margin",
                      case, kind="R", detail=detail)
    return True


def _run_rect(ctx, case):
    from vopy.confidence_region import RectangularConfidenceRegion

    W = case["W"]
    m = len(W[0])
    order = real_order(W)
    l1, u1, l2, u2 = (np.array(case[k], dtype=float) for k in ("l1", "u1", "l2", "u2"))
    dt = case.get("dtypes") or {}
    for k in dt:
        ctx.count(f"rect_container_{dt[k]}")
    try:
        R1 = RectangularConfidenceRegion(m, _mk_bound(case["l1"], dt.get("l1")), _mk_bound(case["u1"], dt.get("u1")))
        R2 = RectangularConfidenceRegion(m, _mk_bound(case["l2"], dt.get("l2")), _mk_bound(case["u2"], dt.get("u2")))
    except Exception as e:
        if not dt or isinstance(e, ValueError) and "pair-dtype case" in str(e):
            raise
        ctx.violation("crash:" + core.exc_key(e), "RectangularConfidenceRegion rejects bounds given in an "
                      "integer / float32 / list container", case, kind="R")
        ctx.case_done(case, False)
        return
    sv = _slack_vec(case)
    tau = _tau(W, l1, u1, l2, u2, sv)
    # observe (pass-through) every call is_covered makes to hyperrectangle_get_region_matrix, if it makes any
    import vopy.confidence_region as _cr

    helper_calls = []
    orig_helper = getattr(_cr, "hyperrectangle_get_region_matrix", None)
    if orig_helper is not None:
        def _spy_helper(lower, upper):
            r = orig_helper(lower, upper)
            try:
                helper_calls.append(([core.frac(v) for v in np.asarray(lower).reshape(-1)],
                                     [core.frac(v) for v in np.asarray(upper).reshape(-1)],
                                     np.array(r[0]), np.array(r[1])))
            except Exception:
                pass
            return r
        _cr.hyperrectangle_get_region_matrix = _spy_helper
    try:
        out = _call_real(order, R1, R2, _slack_arg(case))
    finally:
        if orig_helper is not None:
            _cr.hyperrectangle_get_region_matrix = orig_helper
    if not helper_calls:
        ctx.count("rect_region_matrix_helper_not_called_info")
    for lo_f, up_f, A_got, b_got in helper_calls:
        # (F) mirror: the helper's (A, b) must be the model's box rows [I; −I], [l; −u] of the exact values
        ctx.count("rect_region_matrix_mirrored")
        fq = lambda v: ",".join(str(x.numerator) if x.denominator == 1 else f"{x.numerator}/{x.denominator}" for x in v) or "_"
        ans_h = ctx.ask("boxrows", fq(lo_f), fq(up_f))
        A_m, b_m = ans_h.split("|")
        A_m, b_m = core.parse_qmat(A_m), core.parse_qvec(b_m)
        try:
            ok = (A_got.shape == (len(A_m), len(lo_f)) and b_got.reshape(-1).shape == (len(b_m),)
                  and all(core.frac(A_got[i, j]) == A_m[i][j] for i in range(len(A_m)) for j in range(len(lo_f)))
                  and all(core.frac(x) == y for x, y in zip(b_got.reshape(-1), b_m)))
        except Exception:
            ok = False
        if not ok:
            ctx.violation("helper-region-matrix", "hyperrectangle_get_region_matrix(lower, upper), as called by "
                          "is_covered, is not the matrix form [I; −I] z ≥ [lower; −upper] of the VALUES it was given "
                          "(model: axisRows of rectSys)", case, kind="F",
                          detail={"lower": [str(x) for x in lo_f], "upper": [str(x) for x in up_f],
                                  "boundary": [str(core.frac(x)) for x in b_got.reshape(-1)][:12],
                                  "boundary_dtype": str(b_got.dtype), "model_boundary": [str(x) for x in b_m]})
            break
    args = (core.qmat(W), core.qvec(l1), core.qvec(u1), core.qvec(l2), core.qvec(u2), core.qvec(sv))
    ans = ctx.ask("rect", *args, core.q(tau))
    if ans == "ValueError":
        ctx.count("rect_malformed")
        if out[0] != "ValueError":
            ctx.violation("rect-no-ValueError", "wrong-size slack accepted by the rectangular is_covered",
                          case, kind="F", detail={"code": out})
        ctx.case_done(case, False)
        return
    vs = ans.split(",")
    if len(vs) != 3:
        raise RuntimeError(f"driver answered {ans!r}")
    wellformed = all(len(r) == m for r in W) and all(len(case[k]) == m for k in ("l1", "u1", "l2", "u2"))
    # totality (rect_isCovered_iff / rect_band_iff): never inconclusive on a well-formed case
    if wellformed and "inconclusive" in vs:
        ctx.violation("model-rect-inconclusive", "the rectangle verdict is `inconclusive` on a well-formed case "
                      "(contradicts rect_isCovered_iff / rect_band_iff)", case, kind="F", detail={"verdicts": vs})
    fast = ctx.ask("rectfast", *args, core.q(tau)).split(",")
    if "inconclusive" in fast:
        ctx.count("rect_fast_inconclusive_info")
    elif fast != vs:
        ctx.violation("model-rect-fast-vs-final", "rectVerdict differs from a conclusive rectVerdictFast", case,
                      kind="F", detail={"fast": fast, "final": vs})
    if m <= 2 and len(W) <= 3 and hash_bit(case) == 0:
        # the complete fallback (plain Fourier–Motzkin on the full 2m-variable LP) on its own
        fm = ctx.ask("rectfm", *args, "0")
        ctx.count("rect_fallback_crosscheck")
        if fm != vs[1]:
            ctx.violation("model-rect-fallback-vs-fast", "the complete search (feasibleFM on rectSys) and the fast "
                          "path disagree or the complete search is inconclusive", case, kind="F",
                          detail={"fallback": fm, "verdict": vs[1]})
    # independent re-check of the raw certificates of the search (t = 0)
    raw = ctx.ask("rectcert", *args, "0")
    chk = _py_recheck_rect(case, raw, 0.0)
    if chk != vs[1]:
        if vs[1] == "inconclusive":
            ctx.count("rect_cert_lift_failed_info")
        else:
            ctx.violation("model-cert-recheck", "Lean certificate fails the independent Fraction re-check",
                          case, kind="F", detail={"raw": raw[:200], "recheck": chk, "driver": vs[1]})
    else:
        ctx.count("rect_cert_recheck_ok")
    nt = _compare(ctx, case, out, *vs, "rect",
                  wide=lambda: ctx.ask("rect", *args, core.q(tau * TAU_SCS / TAU)).split(","))
    tc = _trunc_case(case)
    if tc is not None:
        tv = ctx.ask("rect", core.qmat(W), core.qvec(tc["l1"]), core.qvec(tc["u1"]), core.qvec(tc["l2"]),
                     core.qvec(tc["u2"]), core.qvec(sv), core.q(tau)).split(",")
        if nt and len(tv) == 3 and ((vs[0] == "1" and tv[2] == "0") or (vs[2] == "0" and tv[0] == "1")):
            ctx.count("rect_dtype_fraction_decides")
    if nt and case["slack_kind"] not in ("zero", "int0") and any(v != 0 for v in sv):
        z = ctx.ask("rect", *args[:5], "0", core.q(tau)).split(",")
        if len(z) == 3 and z[1] in "01" and vs[1] in "01" and z[1] != vs[1]:
            ctx.count("rect_slack_decisive")
    ctx.case_done(case, nt, canon=["rect", W, case["l1"], case["u1"], case["l2"], case["u2"], sv,
                                   sorted(dt.items())])


def _run_ball(ctx, case):
    from vopy.confidence_region import EllipsoidalConfidenceRegion

    W = case["W"]
    m = len(W[0])
    order = real_order(W)
    c1, c2 = np.array(case["c1"], dtype=float), np.array(case["c2"], dtype=float)
    a1, a2 = float(case["a1"]), float(case["a2"])
    E1 = EllipsoidalConfidenceRegion(m, c1.copy(), np.eye(m), a1)
    E2 = EllipsoidalConfidenceRegion(m, c2.copy(), np.eye(m), a2)
    sv = _slack_vec(case)
    tau = _tau(W, c1, c2, [a1, a2], sv)
    out = _call_real(order, E1, E2, _slack_arg(case))
    ans = ctx.ask("ball", core.qmat(W), core.qvec(c1), core.q(a1), core.qvec(c2), core.q(a2), core.qvec(sv),
                  core.q(tau))
    if ans == "ValueError":
        ctx.count("ball_malformed")
        if out[0] != "ValueError":
            ctx.violation("ell-no-ValueError", "wrong-size slack accepted by the ellipsoidal is_covered",
                          case, kind="F", detail={"code": out})
        ctx.case_done(case, False)
        return
    vs = ans.split(",")
    if len(vs) != 3:
        raise RuntimeError(f"driver answered {ans!r}")
    # totality (ball_band_iff): never inconclusive when the guard holds
    if "inconclusive" in vs and a1 >= 0 and a2 >= 0 and len(c1) == len(c2) == m and all(len(r) == m for r in W):
        ctx.violation("model-ball-inconclusive", "the ball verdict is `inconclusive` although the guard holds "
                      "(contradicts ball_band_iff)", case, kind="F", detail={"verdicts": vs})
    wide = ctx.ask("ball", core.qmat(W), core.qvec(c1), core.q(a1), core.qvec(c2), core.q(a2), core.qvec(sv),
                   core.q(tau * TAU_SCS / TAU)).split(",")
    nt = _compare(ctx, case, out, *vs, "ball", wide=lambda: wide)
    if wide[0] == "1" or wide[2] == "0":
        ctx.count("ball_robust_beyond_solver_tolerance")
    # cross-check of the two model paths: ball (KKT) vs general-ellipsoid certificates with L = I
    if hash_bit(case) == 0:
        I = [[1.0 if i == j else 0.0 for j in range(m)] for i in range(m)]
        ecase = dict(case, kind="ell", L1=I, L2=I)
        ev = _ell_verdicts(ctx, ecase, tau)
        for a, b in zip(vs, ev):
            if a in "01" and b in "01" and a != b:
                ctx.violation("model-ball-vs-ell", "ball (KKT) verdict and ellipsoid-certificate verdict differ",
                              case, kind="F", detail={"ball": vs, "ell": ev})
        ctx.count("ball_ell_crosscheck")
    if nt and case["shape"] == "radius-asym":
        ctx.count("ball_radius_asym_robust")
    ctx.case_done(case, nt, canon=["ball", W, case["c1"], a1, case["c2"], a2, sv])


def hash_bit(case):
    import hashlib
    import json

    return int(hashlib.sha1(json.dumps(case, sort_keys=True, default=str).encode()).hexdigest()[:2], 16) % 4


def _ell_verdicts(ctx, case, tau, taus=None):
    """verdicts for a general ellipsoid pair at the per-facet margins `taus` (default +tau, 0, −tau) from
    numerically proposed, Lean-verified certificates (one numeric solve)"""
    taus = [tau, 0.0, -tau] if taus is None else taus
    W = case["W"]
    sv = _slack_vec(case)
    base = [core.qmat(W), core.qvec(case["c1"]), core.qmat(case["L1"]), core.q(case["a1"]),
            core.qvec(case["c2"]), core.qmat(case["L2"]), core.q(case["a2"]), core.qvec(sv)]
    if len(sv) not in (1, len(W)):
        return [ctx.ask("ell", *base, "0", "_", "_", "_")] * len(taus)
    sol = _ell_numeric(case)
    if sol is None:
        ctx.count("ell_numeric_failed")
        return ["inconclusive"] * len(taus)
    mu, u1, u2, lam = sol
    u1q, u2q = core.qvec(_shrink(u1, case["a1"])), core.qvec(_shrink(u2, case["a2"]))
    lamq = core.qvec(lam)
    out = []
    for t in taus:
        out.append(ctx.ask("ell", *base, core.q(t), u1q, u2q, lamq))
    return out


def _run_ell(ctx, case):
    from vopy.confidence_region import EllipsoidalConfidenceRegion

    W = case["W"]
    m = len(W[0])
    order = real_order(W)
    c1, c2 = np.array(case["c1"], dtype=float), np.array(case["c2"], dtype=float)
    L1, L2 = np.array(case["L1"], dtype=float), np.array(case["L2"], dtype=float)
    S1, S2 = L1 @ L1.T, L2 @ L2.T
    # Σ = L Lᵀ must be exact in floating point (dyadic L): checked with Fractions
    for L, S in ((L1, S1), (L2, S2)):
        Lf = [[core.frac(x) for x in r] for r in L]
        for i in range(m):
            for j in range(m):
                if sum(Lf[i][k] * Lf[j][k] for k in range(m)) != core.frac(S[i, j]):
                    ctx.count("ell_sigma_inexact_skipped")
                    ctx.case_done(case, False)
                    return
    a1, a2 = float(case["a1"]), float(case["a2"])
    E1 = EllipsoidalConfidenceRegion(m, c1.copy(), S1, a1)
    E2 = EllipsoidalConfidenceRegion(m, c2.copy(), S2, a2)
    sv = _slack_vec(case)
    tau = _tau(W, c1, c2, a1 * L1, a2 * L2, sv)
    if case.get("band") == "relative":
        # tiny regions: every tolerance relative to the region size (an absolute band would swallow the region)
        tau = TAU * max(float(np.max(np.abs(a1 * L1))), float(np.max(np.abs(a2 * L2)))) * \
            max(1.0, float(np.max(np.linalg.norm(np.array(W, dtype=float), axis=1))))
        ctx.count("ell_tiny_sigma_maxentry_1e%d" % int(math.floor(math.log10(max(float(np.max(np.abs(S1))),
                                                                                   float(np.max(np.abs(S2))))))))
    out = _call_real(order, E1, E2, _slack_arg(case))
    tw = tau * TAU_SCS / TAU
    v5 = _ell_verdicts(ctx, case, tau, [tw, tau, 0.0, -tau, -tw])
    vs, wide = v5[1:4], [v5[0], v5[2], v5[4]]
    if vs[0] == "ValueError":
        if out[0] != "ValueError":
            ctx.violation("ell-no-ValueError", "wrong-size slack accepted by the ellipsoidal is_covered",
                          case, kind="F", detail={"code": out})
        ctx.case_done(case, False)
        return
    nt = _compare(ctx, case, out, *vs, "ell", wide=lambda: wide)
    if wide[0] == "1" or wide[2] == "0":
        ctx.count("ell_robust_beyond_solver_tolerance")
        if case.get("band") == "relative":
            ctx.count("ell_tiny_sigma_robust_beyond_solver_tolerance")
    ctx.case_done(case, nt, canon=["ell", W, case["c1"], case["L1"], a1, case["c2"], case["L2"], a2, sv])


def _status_maps_to(region, status):
    """the modelled mapping solver status → answer of `is_covered` (None = no answer: the ellipsoidal
    code raises on `"infeasible" in None`)"""
    if region == "rect":
        return status is None or status == "optimal"
    return None if status is None else ("infeasible" not in status)


def _run_status(ctx, case):
    """force the status string the code reads after a real solve; the observed mapping status → bool
    must be the modelled one (rectangles: True iff status is None or "optimal"; ellipsoids: False iff
    the status contains "infeasible").

    A status is only ever forced on a configuration whose CERTIFIED truth (Lean verdict, with margin)
    equals the answer the modelled mapping gives for that status, so a sound implementation cannot
    disagree with the expectation however it reaches its verdict (e.g. a witness shortcut that never
    calls the solver).  The `feasible` field of the case is used only where the mapping gives no
    answer (ellipsoids, status None)."""
    import cvxpy as cp
    from vopy.confidence_region import EllipsoidalConfidenceRegion, RectangularConfidenceRegion

    W = [[1.0, 0.0], [0.0, 1.0]]
    order = real_order(W)
    forced = case["status"]
    region = case["region"]
    expect = _status_maps_to(region, forced)
    truth = bool(case["feasible"]) if expect is None else expect
    # region 2 sits 2 above region 1 (coverable) or 2 below it (not coverable): margins ≥ 1
    p1, p2 = (np.array([0.0, 0.0]), np.array([2.0, 2.0])) if truth else \
        (np.array([2.0, 2.0]), np.array([0.0, 0.0]))
    tau = core.q(1e-3)
    if region == "rect":
        R1 = RectangularConfidenceRegion(2, p1.copy(), p1 + 0.5)
        R2 = RectangularConfidenceRegion(2, p2.copy(), p2 + 0.5)
        cert = ctx.ask("rect", core.qmat(W), core.qvec(p1), core.qvec(p1 + 0.5), core.qvec(p2),
                       core.qvec(p2 + 0.5), "0", tau).split(",")
    else:
        R1 = EllipsoidalConfidenceRegion(2, p1.copy(), np.eye(2), 0.25)
        R2 = EllipsoidalConfidenceRegion(2, p2.copy(), np.eye(2), 0.25)
        cert = ctx.ask("ball", core.qmat(W), core.qvec(p1), core.q(0.25), core.qvec(p2), core.q(0.25), "0",
                       tau).split(",")
    if len(cert) != 3 or not ((truth and cert[0] == "1") or (not truth and cert[2] == "0")):
        raise RuntimeError(f"status case: the model did not certify the intended truth: {cert}")
    orig = cp.Problem.solve
    calls = {"n": 0, "first_raised": False}

    def fake(self, *a, **k):
        calls["n"] += 1
        if case["first_raises"] and calls["n"] == 1:
            calls["first_raised"] = True
            raise cp.error.SolverError("forced by the harness")
        r = orig(self, *a, **k)
        self._status = forced
        return r

    cp.Problem.solve = fake
    try:
        out = _call_real(order, R1, R2, 0.0)
    finally:
        cp.Problem.solve = orig
    ctx.count(f"status_{region}_{forced}")
    if calls["n"] == 0:
        # the implementation answered without any solve: the forced status never existed, only the
        # certified truth counts — a wrong verdict here is a property violation like any other
        if out[:2] == ("ok", truth):
            ctx.count("no-solve-shortcut_info")
        else:
            lab = "rect" if region == "rect" else "ball"
            key = lab + ("-false-on-covered" if truth else "-true-on-uncovered") if out[0] == "ok" else \
                ("crash:" + str(out[1]))
            ctx.violation(key, "is_covered answered without calling the solver and the answer contradicts the "
                          "certified verdict (margin ≥ 1e-3)", case, kind="R",
                          detail={"code": out[:2], "certified": cert})
        ctx.case_done(case, False)
        return
    if calls["first_raised"]:
        # the first solve was invoked and raised SolverError: the documented fallback is a second solve
        ctx.count("status_fallback_scs_path")
        if calls["n"] != 2:
            ctx.violation("status-no-fallback", "SolverError of the first solve did not lead to the SCS retry",
                          case, kind="F", detail={"calls": calls["n"], "out": out[:2]})
    if expect is None:
        # ellipsoids with status None: `"infeasible" in None` raises TypeError in the code; an outcome, not compared
        ctx.count("status_ell_None_outcome_" + out[0])
    elif out[:2] != ("ok", expect):
        ctx.violation(f"status-map:{region}:{forced}", "mapping of the solver status to the boolean "
                      "answer differs from the modelled one (the forced status agrees with the certified "
                      "truth of this configuration)", case, kind="F",
                      detail={"code": out[:2], "expected": expect, "certified": cert})
    ctx.case_done(case, False)


def _run_lp(ctx, case):
    """model-only consistency: certified feasibility and nearest point vs scipy (no VOPy code involved;
    a disagreement is a broken model, reported as (F))"""
    from scipy.optimize import linprog, minimize

    n, A, b, c = case["n"], np.array(case["A"], dtype=float), np.array(case["b"], dtype=float), \
        np.array(case["c"], dtype=float)
    K = len(b)
    an = np.maximum(np.linalg.norm(A, axis=1), 1e-12)
    # max mu : A x − mu·‖a‖ ≥ b, |x| ≤ 1e3, mu ≤ 1
    res = linprog(c=[0.0] * n + [-1.0], A_ub=np.hstack([-A, an[:, None]]), b_ub=-b,
                  bounds=[(-1e3, 1e3)] * n + [(None, 1.0)], method="highs")
    ans = ctx.ask("feasible", str(n), core.qmat(A), core.qvec(b))
    ctx.count("lp_feasible_" + ans)
    # the complete search (plain Fourier–Motzkin): never inconclusive (feasibleFM_complete), same answer
    fm = ctx.ask("feasiblefm", str(n), core.qmat(A), core.qvec(b))
    ctx.count("lp_feasiblefm_" + fm)
    if fm not in ("0", "1"):
        ctx.violation("model-fm-incomplete", "plain Fourier–Motzkin gave no accepted certificate on a well-formed "
                      "system (contradicts feasible_complete)", case, kind="F", detail={"feasiblefm": fm})
    elif ans in ("0", "1") and fm != ans:
        ctx.violation("model-fm-vs-fast", "the pruned and the plain Fourier–Motzkin searches certify opposite "
                      "answers", case, kind="F", detail={"feasible": ans, "feasiblefm": fm})
    if ans not in ("0", "1"):
        ctx.count("lp_fast_inconclusive_info")
        ans = fm
    if res.status == 0:
        mu = -res.fun
        if (mu > 1e-6 and ans == "0") or (mu < -1e-6 and ans == "1"):
            ctx.violation("model-lp-vs-scipy", "LinCert.feasible disagrees with scipy's LP solver", case,
                          kind="F", detail={"lean": ans, "scipy_margin": mu})
    # certificates must be rejected when tampered with
    if ans == "1":
        # nearest point of the polyhedron to c: checked KKT pair vs a numeric solve
        zeros = ",".join(["0"] * n)
        pr = ctx.ask("ballproj", core.qmat(A), zeros, core.qvec(c), core.qvec(b))
        if "|" not in pr:
            ctx.violation("model-nearest-incomplete", "the active-set search found no accepted KKT point on a "
                          "certified non-empty polyhedron (contradicts nearest_complete)", case, kind="F",
                          detail={"ballproj": pr})
        if "|" in pr:
            x = np.array([float(v) for v in core.parse_qvec(pr.split("|")[0])])
            lam = pr.split("|")[1]
            ok = ctx.ask("chkkkt", str(n), core.qmat(A), core.qvec(b), core.qvec(c), pr.split("|")[0], lam)
            bad = ctx.ask("chkkkt", str(n), core.qmat(A), core.qvec(b), core.qvec(c + 1.0), pr.split("|")[0], lam)
            if ok != "ok" or (bad == "ok" and float(np.linalg.norm(x - c)) > 0):
                ctx.violation("model-kkt-checker", "checkKKT accepts a tampered certificate or rejects its own",
                              case, kind="F", detail={"ok": ok, "tampered": bad})
            r = minimize(lambda y: float(np.sum((y - c) ** 2)), x0=x, jac=lambda y: 2 * (y - c),
                         constraints=[{"type": "ineq", "fun": lambda y: A @ y - b, "jac": lambda y: A}],
                         method="SLSQP", options={"ftol": 1e-14, "maxiter": 200})
            if r.success and float(np.sum((r.x - c) ** 2)) < float(np.sum((x - c) ** 2)) - 1e-6 * (1 + float(np.sum((x - c) ** 2))):
                ctx.violation("model-nearest-vs-scipy", "a numerically feasible point is closer than the "
                              "certified nearest point", case, kind="F",
                              detail={"lean": x.tolist(), "scipy": r.x.tolist()})
            ctx.count("lp_nearest_checked")
        else:
            ctx.count("lp_nearest_" + pr)
    ctx.case_done(case, False)


def _hist_verdict(ctx, case, region, W, cur, sv):
    """certified verdicts for the CURRENT attributes: (robust verdict or None, triple).  Rectangles: band
    1e-6·scale; ellipsoids: the solver-tolerance band 1e-3·scale (the states are many region sizes apart)."""
    if region == "rect":
        (l1, u1), (l2, u2) = cur
        tau = _tau(W, l1, u1, l2, u2, sv)
        ans = ctx.ask("rect", core.qmat(W), core.qvec(l1), core.qvec(u1), core.qvec(l2), core.qvec(u2),
                      core.qvec(sv), core.q(tau))
        vs = ans.split(",")
    else:
        (c1, L1, a1), (c2, L2, a2) = cur
        ec = {"W": W, "c1": _flt(c1), "L1": L1, "a1": a1, "c2": _flt(c2), "L2": L2, "a2": a2, "slack": case["slack"]}
        tau = _tau(W, c1, c2, a1 * np.array(L1), a2 * np.array(L2), sv) * TAU_SCS / TAU
        vs = _ell_verdicts(ctx, ec, tau)
    if len(vs) != 3:
        return None, vs
    return ("1" if vs[0] == "1" else ("0" if vs[2] == "0" else None)), vs


def _run_hist(ctx, case):
    from vopy.confidence_region import EllipsoidalConfidenceRegion, RectangularConfidenceRegion

    W = case["W"]
    m = len(W[0])
    order = real_order(W)
    region, which = case["region"], case["which"]
    sv = _slack_vec(case)
    states, muts = case["states"], case["mutators"]
    arr = lambda v: np.array(v, dtype=float)
    if region == "rect":
        fixed = RectangularConfidenceRegion(m, arr(case["fixed"]["l"]), arr(case["fixed"]["u"]))
        mob = RectangularConfidenceRegion(m, arr(states[0]["l"]), arr(states[0]["u"]),
                                          intersect_iteratively=bool(case.get("intersect_iteratively")))
    else:
        f = case["fixed"]
        fixed = EllipsoidalConfidenceRegion(m, arr(f["c"]), arr(f["L"]) @ arr(f["L"]).T, float(f["a"]))
        mob = EllipsoidalConfidenceRegion(m, arr(states[0]["c"]), arr(states[0]["L"]) @ arr(states[0]["L"]).T,
                                          float(states[0]["a"]))
    R1, R2 = (mob, fixed) if which == 1 else (fixed, mob)
    curL = states[0].get("L")

    def current():
        if region == "rect":
            return [(np.asarray(R.lower, dtype=float).copy(), np.asarray(R.upper, dtype=float).copy())
                    for R in (R1, R2)]
        Ls = (curL, case["fixed"]["L"]) if which == 1 else (case["fixed"]["L"], curL)
        return [(np.asarray(R.center, dtype=float).copy(), Lx, float(R.alpha)) for R, Lx in zip((R1, R2), Ls)]

    prev_robust = None
    nontrivial = False
    for step in range(len(states)):
        if step > 0:
            mu, st = muts[step - 1], states[step]
            ctx.count(f"hist_{region}_mutator_{mu}")
            if region == "rect":
                L, U = arr(st["l"]), arr(st["u"])
                if mu == "assign":
                    mob.lower = L.copy()
                    mob.upper = U.copy()
                elif mu in ("intersect-disjoint", "intersect-overlap"):
                    mob.intersect(L.copy(), U.copy())
                else:  # update-replace / update-intersect (the constructor flag decides)
                    mob.update((L + U) / 2, np.diag(((U - L) / 2) ** 2), np.array(1.0))
            else:
                c, Lm, a = arr(st["c"]), arr(st["L"]), float(st["a"])
                if mu == "update":
                    mob.update(c.copy(), Lm @ Lm.T, a)
                    curL = st["L"]
                elif mu == "assign":
                    mob.center, mob.sigma, mob.alpha = c.copy(), Lm @ Lm.T, a
                    curL = st["L"]
                else:
                    mob.center = c.copy()
        cur = current()
        if region == "ell":
            ok = all(np.array_equal(np.asarray(R.sigma, dtype=float), arr(c_[1]) @ arr(c_[1]).T)
                     for R, c_ in zip((R1, R2), cur))
            if not ok:
                ctx.count("hist_ell_sigma_untracked_skipped")
                break
        out = _call_real(order, R1, R2, _slack_arg(case))
        robust, vs = _hist_verdict(ctx, case, region, W, cur, sv)
        ctx.count(f"hist_{region}_step{step}_" + ("borderline" if robust is None else "robust"))
        if out[0] != "ok":
            ctx.violation(f"hist-{region}-crash:" + out[1], "is_covered raised on a valid region pair after a "
                          "public mutation", case, kind="R", detail={"step": step, "out": out[:2]})
            break
        if robust is not None:
            nontrivial = True
            if step > 0 and prev_robust is not None and prev_robust != robust:
                ctx.count(f"hist_{region}_verdict_flipped_by_mutation")
            if out[1] != (robust == "1"):
                mu = muts[step - 1] if step > 0 else "none"
                detail = {"step": step, "code": out[1], "model_current": vs, "model_previous": prev_robust,
                          "current_attributes": [[_flt(np.ravel(x)) if not isinstance(x, float) else x for x in c_]
                                                 for c_ in cur], "solver_path": out[2]}
                if step > 0 and prev_robust is not None and prev_robust != robust:
                    ctx.violation(f"stale-region:{region}:{mu}", "after a public mutation of a region object "
                                  "is_covered still answers for the region as it was before the mutation (wrong "
                                  "for the current attributes, certified with margin)", case, kind="R",
                                  detail=detail)
                else:
                    ctx.violation(f"hist-{region}-wrong:{mu}", "is_covered is wrong for the current attributes of "
                                  "the region objects (certified with margin)", case, kind="R", detail=detail)
        prev_robust = robust
    ctx.case_done(case, nontrivial, canon=["hist", region, W, which, case["fixed"], states, muts, sv])


def run_case(ctx, case):
    kind = case["kind"]
    ctx.count("kind_" + kind)
    if kind == "status":
        return _run_status(ctx, case)
    if kind == "hist":
        ctx.count("cone_" + case["cone"])
        return _run_hist(ctx, case)
    if kind == "lp":
        return _run_lp(ctx, case)
    ctx.count(f"shape_{kind}_{case['shape']}")
    ctx.count("cone_" + case["cone"])
    ctx.count(f"slack_{kind}_{case['slack_kind']}")
    if kind == "rect":
        return _run_rect(ctx, case)
    if kind == "ball":
        return _run_ball(ctx, case)
    if kind == "ell":
        return _run_ell(ctx, case)
    raise ValueError(f"unknown case kind {kind!r}")
