"""C17 — cone constants α, u*, d₁ and β are the optima they are defined as.

Real `OrderingCone(W).alpha` (`vopy.utils.get_alpha_vec`, SOCP), `VOGP.compute_u_star` /
`VOGP_AD.compute_u_star` (SLSQP; called as unbound methods on `object.__new__(cls)` with `order` and
`m` set — the GP constructors are never run) and `ConeTheta2D.beta`, against *certified* bounds:

* the harness PROPOSES rational primal/dual certificates (non-negative least squares — Lawson–Hanson —
  for `α_n = dist(w_n, −cone(Wᵀ))` and the least-distance problem for `d₁`; exact rational repair of
  feasibility with `fractions.Fraction`);
* the Lean driver VERIFIES them (`Model/ConeConst.lean`, soundness theorems in `Props/C17.lean`) and
  returns certified `lo ≤ α_n ≤ hi`, `lo ≤ d₁ ≤ hi` and a certified bound on `‖u/‖u‖ − u*‖`;
* verdicts (R): α lies in its certified interval widened by 1e-7 (cvxpy tolerance);
  the code's own pair is feasible — `u*` has norm 1 (1e-9), lies in the cone (1e-9), `d₁·u*` satisfies `Wz ≥ 𝟙`
  (1e-6) — key `ustar-pair-infeasible`; `d₁` within 1e-3 (relative) of the certified interval and `u*` within 1e-3 of the
  certified optimal direction (solver-accuracy band for SLSQP; between 1e-7/1e-5 and 1e-3: `slsqp-suboptimal_info`); `β` equals the `RealLike` term at `Float` (1e-12) and `1/α` (1e-6).

Unverifiable proposals are `inconclusive` (counted, never a violation)."""
import math
from fractions import Fraction

import numpy as np

from harness import core

TITLE = "cone constants α, d₁, u*, β vs certified optima"
RULE = ("cases: bundled cones over their parameter ranges (ConeTheta2D θ=1°…179° and fractional angles, "
        "ice-cream K=3…32 × half-angles, ConeOrder3D kinds, componentwise 2…5) and random rational cones in "
        "2–4 dimensions with 1…m+3 unit-normalised float rows (shapes: generic, pythagorean, narrow, "
        "redundant, non-pointed); cones with NON-unit rows (integer rows of harness/cones.py as given, rational rows, "
        "and random/θ/ice-cream cones with every row scaled by its own factor from {0.1,0.4,0.5,2,3.7,10}) incl. the "
        "scaling law α_n(diag(c)W)=c_n·α_n(W) on the real code; integer-dtype matrices (int64/int32 arrays and nested int "
        "lists: identity 2…5, signed permutations, harness/cones.py rows, random integer rows) whose α must be a float "
        "array inside the certified interval; aliasing stream (several OrderingCone objects built from one re-used "
        "float64/int64/float32/Fortran caller array that is overwritten afterwards: cone.W must stay the private copy of "
        "the matrix given and cone.alpha must be certified for the cone.W the object holds); non-trivial = every α_n and d₁ got a certified interval of width ≤ 1e-9 "
        "and the direction certificate is ≤ 1e-6; distinct by the exact W matrix")
ASSUMPTIONS = [
    "cones have non-empty interior (every generated cone has an interior direction by construction)",
    "solver tolerance: α (cvxpy) is compared with its certified interval widened by 1e-7·max(1,‖w_n‖); d₁ and u* (SLSQP) "
    "within a 1e-3 solver-accuracy band of the certified optimum (excesses above 1e-7 / 1e-5 are counted as "
    "slsqp-suboptimal_info), while feasibility of the code's own pair (‖u*‖=1, u*∈C, W(d₁u*) ≥ 𝟙−1e-6) is exact",
    "compute_u_star calls that exceed a 5 s wall-clock budget are counted as inconclusive (SLSQP with ftol=1e-30 / maxiter=10**6 "
    "can iterate for minutes after reaching the optimum); after three overruns per class and process the routine is skipped",
]

TOL_BAND = Fraction(1, 10 ** 7)
TOL_DIR = Fraction(1, 10 ** 5)
TOL_SOLVER = Fraction(1, 10 ** 3)  # solver-accuracy band for the SLSQP outputs d₁ / u* (DESIGN §6)


def _suboptimal(ctx, what, excess, case, tag):
    """inside the solver-accuracy band: feasible but slightly sub-optimal SLSQP answer — information, bucketed"""
    ctx.count("slsqp-suboptimal_info")
    x = float(excess)
    bucket = next(b for b in ("1e-6", "1e-5", "1e-4", "1e-3") if x <= float(b))
    ctx.count(f"slsqp_suboptimal_{what}_excess_le_{bucket}")
    ctx.info(f"{tag}.compute_u_star {what} excess {x:.3g} on {str(case)[:120]}")
TOL_CERT_DIR = Fraction(1, 10 ** 6)
TOL_CERT_WIDTH = Fraction(1, 10 ** 9)

ICE_ANGLES = [10.0, 20.0, 30.0, 45.0, 60.0, 75.0, 85.0]


# ----------------------------------------------------------------------------- generators
def _rand_cone(rng, shape, normalise=True):
    m = rng.choice([2, 3, 4])
    while True:
        c = [rng.randint(-3, 3) for _ in range(m)]
        if any(c):
            break
    if shape == "nonpointed":
        n = rng.randint(1, m - 1)
    elif shape == "redundant":
        n = rng.randint(2, m + 1)
    else:
        n = rng.randint(m, m + 3)
    rows = []
    pyth = {2: [(3, 4), (5, 12), (8, 15), (1, 0), (0, 1)],
            3: [(2, 3, 6), (1, 2, 2), (4, 4, 7), (1, 0, 0), (0, 0, 1), (2, 6, 9)],
            4: [(1, 1, 1, 1), (2, 4, 5, 6), (1, 2, 2, 4), (1, 0, 0, 0), (2, 2, 3, 8 // 2)]}
    while len(rows) < n:
        if shape == "pythagorean":
            base = list(rng.choice(pyth[m]))
            rng.shuffle(base)
            w = [b * rng.choice([-1, 1]) for b in base]
        elif shape == "narrow" and rows:
            # nearly opposite to an existing row: a narrow cone
            k = rng.choice([6, 10, 16])
            w = [-k * r + rng.randint(-2, 2) for r in rows[0]]
        else:
            w = [rng.randint(-5, 5) for _ in range(m)]
        s = sum(a * b for a, b in zip(w, c))
        if not any(w) or s == 0:
            continue
        if s < 0:
            w = [-a for a in w]
        rows.append(w)
    if shape == "redundant":
        # add a duplicate row and a positive combination of two rows
        rows.append(list(rows[0]))
        a, b = rng.randint(1, 3), rng.randint(1, 3)
        rows.append([a * x + b * y for x, y in zip(rows[0], rows[1])])
        rng.shuffle(rows)
    if not normalise:
        # rational rows as given: integers over a power of two, norms far from 1
        den = rng.choice([1, 2, 4, 8])
        return [[float(t) / den for t in w] for w in rows]
    W = []
    for w in rows:
        v = np.array(w, dtype=float)
        v = v / np.linalg.norm(v)
        W.append([float(t) for t in v])
    return W


SCALES = [0.1, 0.4, 0.5, 2.0, 3.7, 10.0]
SHAPES = ["generic", "generic", "pythagorean", "narrow", "redundant", "nonpointed"]


def _nonunit_case(rng, src):
    """cones whose rows are NOT unit vectors: `W = diag(scale) · W0` (a different factor per row).
    α_n is defined for the rows as given; the certificates need no unit-norm assumption."""
    from harness.cones import EXACT_CONES

    if src == "scaled-random":
        W0 = _rand_cone(rng, rng.choice(SHAPES))
    elif src == "rational":
        W0 = _rand_cone(rng, rng.choice(SHAPES), normalise=False)
    elif src == "exact":
        name = rng.choice(sorted(EXACT_CONES))
        W0 = [[float(t) for t in r] for r in EXACT_CONES[name][0]]
    elif src == "scaled-theta":
        from vopy.utils import get_2d_w

        W0 = [[float(t) for t in r] for r in get_2d_w(float(rng.randint(5, 175)))]
    elif src == "scaled-ice":
        from vopy.order import ConeOrder3DIceCream

        o = object.__new__(ConeOrder3DIceCream)
        W0 = [[float(t) for t in r] for r in
              ConeOrder3DIceCream.compute_ice_cream_cone(o, rng.randint(3, 8), float(rng.choice(ICE_ANGLES)))]
    else:
        raise ValueError(src)
    if src in ("exact", "rational") and rng.random() < 0.4:
        scale = [1.0] * len(W0)  # the rows exactly as given
    else:
        scale = [rng.choice(SCALES) for _ in W0]
    return {"kind": "nonunit", "shape": src, "W0": W0, "scale": scale}


def gen(ctx):
    rng = ctx.rng
    k = 0

    def mine():
        nonlocal k
        k += 1
        return (k % ctx.nworkers) == ctx.worker

    # ---- aliasing: several cones from one re-used caller array (fixed cases in every run, then random)
    for c in _gen_alias_fixed():
        if mine():
            yield c
    for _ in range(ctx.n(12, 800)):
        yield _gen_alias_random(rng)
    # ---- structured: every bundled cone
    for d in range(2, 6):
        if mine():
            yield {"kind": "comp", "dim": d}
    for kind in ["acute", "right", "obtuse"]:
        if mine():
            yield {"kind": "cone3d", "type": kind}
    for th in range(1, 180):
        if mine():
            yield {"kind": "theta", "deg": float(th)}
    for th in [90, 90.0, 45, 0.5, 89.5, 90.5, 179.5, 89.99999, 90.00001, 60.25, 120.75]:
        if mine():
            yield {"kind": "theta", "deg": th}
    for K in range(3, 33):
        angs = ICE_ANGLES if ctx.tier == "thorough" else rng.sample(ICE_ANGLES, 2)
        for a in angs:
            if mine():
                yield {"kind": "ice", "K": K, "deg": a}
    # ---- random parameters of the bundled families
    for _ in range(ctx.n(20, 1400)):
        yield {"kind": "theta", "deg": rng.randint(1, 179 * 64 - 1) / 64.0 + 1 / 128.0}
    for _ in range(ctx.n(6, 700)):
        yield {"kind": "ice", "K": rng.randint(3, 32), "deg": rng.randint(5 * 8, 85 * 8) / 8.0}
    # ---- cones with non-unit rows: every integer-row cone of harness/cones.py as given, then scaled
    from harness.cones import EXACT_CONES

    for name in sorted(EXACT_CONES):
        if mine():
            W0 = [[float(t) for t in r] for r in EXACT_CONES[name][0]]
            yield {"kind": "nonunit", "shape": "exact", "W0": W0, "scale": [1.0] * len(W0)}
    for _ in range(ctx.n(36, 3000)):
        yield _nonunit_case(rng, rng.choice(["scaled-random", "scaled-random", "rational", "exact",
                                             "scaled-theta", "scaled-ice"]))
    # ---- one-dimensional objective spaces (m = 1, also K > m) and half-spaces: full pipeline; cones with
    # anti-parallel rows (equality constraints, empty interior): α only — α_n is still well defined (0 on the
    # equality rows) but `W z ≥ 𝟙` is infeasible, so d₁ / u* do not exist and compute_u_star is not called
    full = [[[1]], [[3]], [[-1]], [[-2], [-1]], [[1], [2]], [[1, 0]], [[0, 0, -1]]]
    empty = [[[1], [-1]], [[1, -1], [-1, 1], [1, 1]], [[1, 0], [-1, 0], [0, 1]], [[1, -1], [-1, 1]],
             [[1, 1, 0], [-1, -1, 0], [0, 0, 1]], [[1, 0, 0], [-1, 0, 0], [0, 1, 0], [0, -1, 0], [0, 0, 1]]]
    deg = [(W0, False) for W0 in full] + [(W0, True) for W0 in empty]
    for W0, ao in deg:
        if mine():
            yield {"kind": "nonunit", "shape": "empty-interior" if ao else "m1-halfspace",
                   "W0": [[float(t) for t in r] for r in W0], "scale": [1.0] * len(W0), "alpha_only": ao}
    for _ in range(ctx.n(6, 400)):
        W0, ao = rng.choice(deg)
        yield {"kind": "nonunit", "shape": "empty-interior" if ao else "m1-halfspace",
               "W0": [[float(t) for t in r] for r in W0], "scale": [rng.choice(SCALES) for _ in W0], "alpha_only": ao}
    # ---- integer-dtype cone matrices (what the class docstring passes: `np.array([[1, 0], [0, 1]])`)
    intw = []
    for d in range(2, 6):
        eye = [[1 if i == j else 0 for j in range(d)] for i in range(d)]
        for wt in ["int64", "list"] + (["int32"] if d <= 3 else []):
            intw.append({"kind": "intw", "shape": "eye", "W": eye, "wtype": wt})
    for name in sorted(EXACT_CONES):
        intw.append({"kind": "intw", "shape": "exact", "W": [[int(t) for t in r] for r in EXACT_CONES[name][0]],
                     "wtype": ["int64", "int32", "list"][len(intw) % 3]})
    for c in intw:
        if mine():
            yield c
    for _ in range(ctx.n(12, 1500)):
        d = rng.randint(2, 5)
        perm = list(range(d))
        rng.shuffle(perm)
        sp = [[(rng.choice([-1, 1]) if j == perm[i] else 0) for j in range(d)] for i in range(d)]
        if rng.random() < 0.5:
            yield {"kind": "intw", "shape": "signed-perm", "W": sp, "wtype": rng.choice(["int64", "int32", "list"])}
        else:
            rows = [[int(4 * t) for t in r] for r in _rand_cone(rng, rng.choice(SHAPES), normalise=False)]
            if all(any(r) for r in rows):
                yield {"kind": "intw", "shape": "random-int", "W": rows, "wtype": rng.choice(["int64", "int32", "list"])}
    # ---- random rational cones (unit-normalised rows)
    for _ in range(ctx.n(100, 9000)):
        shape = rng.choice(SHAPES)
        yield {"kind": "random", "shape": shape, "W": _rand_cone(rng, shape)}


# ----------------------------------------------------------------------------- exact helpers
def _F(x):
    return core.frac(x)


def _dot(a, b):
    return sum((x * y for x, y in zip(a, b)), Fraction(0))


def _sqrt_up(fr: Fraction, bits: int = 80) -> Fraction:
    """a rational >= sqrt(fr) (fr >= 0), within 2**-bits"""
    if fr <= 0:
        return Fraction(0)
    S = 1 << bits
    k = -((-fr.numerator * S * S) // fr.denominator)
    return Fraction(math.isqrt(k) + 1, S)


def _clean(v):
    """drop sub-1e-25 noise so exported rationals stay short; exactness is restored by the repair"""
    return [0.0 if abs(float(t)) < 1e-25 else float(t) for t in v]


def _qv(v):
    return ",".join(core.q(t) for t in v) if len(v) else "_"


def propose_d1(W, Wq):
    """Least-distance programming (Lawson–Hanson ch. 23): NNLS on E=[Wᵀ;𝟙ᵀ], f=e_{m+1}.
    Returns (z as Fractions exactly feasible, λ as Fractions ≥ 0) or None."""
    from scipy.optimize import nnls

    N, m = W.shape
    E = np.vstack([W.T, np.ones((1, N))])
    f = np.zeros(m + 1)
    f[m] = 1.0
    try:
        u, _ = nnls(E, f, maxiter=50 * (N + m))
    except Exception:
        return None
    r = E @ u - f
    if not np.all(np.isfinite(r)) or abs(r[m]) < 1e-13:
        return None
    z = -r[:m] / r[m]
    # polish on the active set (small equality-constrained QP): z = W_Aᵀ μ, W_A z = 1
    A = [i for i in range(N) if u[i] > 0]
    lam = u.copy()
    if A:
        WA = W[A]
        try:
            mu = np.linalg.lstsq(WA @ WA.T, np.ones(len(A)), rcond=None)[0]
            z2 = WA.T @ mu
            if np.all(mu >= 0) and np.all(W @ z2 >= 1 - 1e-9) and np.linalg.norm(z2) <= np.linalg.norm(z) * (1 + 1e-9):
                z = z2
                lam = np.zeros(N)
                lam[A] = mu
        except Exception:
            pass
    # exact rational solve on the active set: with rational data the optimum is rational, and then
    # the primal and dual values coincide exactly (zero duality gap)
    A = [i for i in range(N) if lam[i] > 0]
    if 0 < len(A) <= m:
        WA = [Wq[i] for i in A]
        G = [[_dot(a, b) for b in WA] for a in WA]
        mu = _solve_exact(G, [Fraction(1)] * len(A))
        if mu is not None and all(t >= 0 for t in mu):
            ze = [sum((mu[k] * WA[k][j] for k in range(len(A))), Fraction(0)) for j in range(m)]
            if all(_dot(w, ze) >= 1 for w in Wq):
                le = [Fraction(0)] * N
                for k, i in enumerate(A):
                    le[i] = mu[k]
                return ze, le
    zq = [_F(t) for t in _clean(z)]
    s = min(_dot(w, zq) for w in Wq)
    if s <= 0:
        return None
    if s < 1:
        zq = [t / s for t in zq]
    lamq = [_F(t) for t in _clean(np.maximum(lam, 0.0))]
    return zq, lamq


def _solve_exact(G, b):
    """Gaussian elimination over Fractions; None if singular"""
    n = len(G)
    M = [list(r) + [b[i]] for i, r in enumerate(G)]
    for c in range(n):
        p = next((r for r in range(c, n) if M[r][c] != 0), None)
        if p is None:
            return None
        M[c], M[p] = M[p], M[c]
        for r in range(n):
            if r != c and M[r][c] != 0:
                f = M[r][c] / M[c][c]
                M[r] = [a - f * t for a, t in zip(M[r], M[c])]
    return [M[i][n] / M[i][i] for i in range(n)]


def propose_alpha(W, Wq, n, interior):
    """NNLS for min_{λ≥0} ‖w_n + Wᵀλ‖; primal x = residual/‖residual‖ repaired exactly into the cone
    (pushed along the interior direction) and into the unit ball."""
    from scipy.optimize import nnls

    N, m = W.shape
    try:
        lam, _ = nnls(W.T, -W[n], maxiter=50 * (N + m))
    except Exception:
        return None, None
    lamq = [_F(t) for t in _clean(np.maximum(lam, 0.0))]
    r = W[n] + W.T @ lam
    nr = float(np.linalg.norm(r))
    if not np.isfinite(nr):
        return None, lamq
    if nr < 1e-12:
        return [Fraction(0)] * m, lamq
    xq = [_F(t) for t in _clean(r / nr)]
    slack = [_dot(w, xq) for w in Wq]
    if min(slack) < 0:
        if interior is None:
            return None, lamq
        ws = [_dot(w, interior) for w in Wq]
        delta = max((-s / c for s, c in zip(slack, ws) if s < 0), default=Fraction(0))
        xq = [a + delta * b for a, b in zip(xq, interior)]
    h = _sqrt_up(_dot(xq, xq))
    if h > 0:
        xq = [t / h for t in xq]
    return xq, lamq


# ----------------------------------------------------------------------------- real objects
def _build(case):
    """the real order object of the case (real constructors; α is computed inside OrderingCone)"""
    from vopy.order import (ComponentwiseOrder, ConeOrder3D, ConeOrder3DIceCream, ConeTheta2DOrder,
                            PolyhedralConeOrder)
    from vopy.ordering_cone import OrderingCone

    k = case["kind"]
    if k == "comp":
        return ComponentwiseOrder(case["dim"])
    if k == "cone3d":
        return ConeOrder3D(case["type"])
    if k == "theta":
        return ConeTheta2DOrder(case["deg"])
    if k == "ice":
        return ConeOrder3DIceCream(case["deg"], case["K"])
    if k == "random":
        return PolyhedralConeOrder(OrderingCone(np.array(case["W"], dtype=float)))
    if k == "intw":
        rows = [[int(t) for t in r] for r in case["W"]]
        wt = case["wtype"]
        arg = rows if wt == "list" else np.array(rows, dtype=np.int64 if wt == "int64" else np.int32)
        return PolyhedralConeOrder(OrderingCone(arg))
    if k == "nonunit":
        W0 = np.array(case["W0"], dtype=float)
        c = np.array(case["scale"], dtype=float)
        return PolyhedralConeOrder(OrderingCone(c[:, None] * W0))
    raise ValueError(k)


class _Timeout(Exception):
    pass


U_STAR_BUDGET_S = 5.0  # a normal call takes milliseconds
_timeouts = {}  # class name -> number of budget overruns in this process


def _u_star(cls, order, m):
    """unbound `compute_u_star` on an object built without the (GP-training) constructor, under a
    wall-clock budget: exceeding it is a recorded violation, not a hang"""
    import signal

    obj = object.__new__(cls)
    obj.order = order
    obj.m = m

    def on_alarm(signum, frame):
        raise _Timeout()

    old = signal.signal(signal.SIGALRM, on_alarm)
    signal.setitimer(signal.ITIMER_REAL, U_STAR_BUDGET_S)
    try:
        return cls.compute_u_star(obj)
    finally:
        signal.setitimer(signal.ITIMER_REAL, 0)
        signal.signal(signal.SIGALRM, old)


def _bits_to_float(s):
    import struct

    return struct.unpack("<d", struct.pack("<Q", int(s)))[0]


# ----------------------------------------------------------------------------- aliasing stream
def _alias_buffer(shape, dtype):
    if dtype == "fortran":
        return np.empty(shape, dtype=np.float64, order="F")
    return np.empty(shape, dtype={"float64": np.float64, "int64": np.int64, "float32": np.float32}[dtype])


def _gen_alias_fixed():
    from harness.cones import EXACT_CONES
    from vopy.utils import get_2d_w

    def rows(A):
        return [[float(t) for t in r] for r in A]

    acute = np.array([[1.0, -2, 4], [4, 1.0, -2], [-2, 4, 1.0]])
    acute /= np.linalg.norm(acute[0])
    obtuse = np.array([[1, 0.4, 1.6], [1.6, 1, 0.4], [0.4, 1.6, 1]]) / np.linalg.norm([1, 0.4, 1.6])
    ints = [EXACT_CONES[n][0] for n in ["orthant2", "acute2", "obtuse2", "skew2"]]
    return [
        {"kind": "alias", "dtype": "float64", "wrap": False, "final": "none",
         "seq": [rows(get_2d_w(t)) for t in (30.0, 60.0, 120.0)]},
        {"kind": "alias", "dtype": "float64", "wrap": False, "final": "scale", "seq": [rows(acute), rows(obtuse)]},
        {"kind": "alias", "dtype": "int64", "wrap": False, "final": "zero", "seq": [rows(W) for W in ints]},
        {"kind": "alias", "dtype": "float32", "wrap": True, "final": "scale",
         "seq": [rows(get_2d_w(t).astype(np.float32)) for t in (45.0, 135.0)]},
        {"kind": "alias", "dtype": "fortran", "wrap": True, "final": "zero",
         "seq": [rows(get_2d_w(t)) for t in (20.0, 90.0, 150.0)]},
        {"kind": "alias", "dtype": "float64", "wrap": True, "final": "overwrite",
         "seq": [[[1.0, 0.0, 0.0], [0.0, 1.0, 0.0], [0.0, 0.0, 1.0]], rows(acute)]},
    ]


def _gen_alias_random(rng):
    dtype = rng.choice(["float64", "float64", "fortran", "float32", "int64"])
    if dtype == "int64":
        W1 = [[float(int(4 * t)) for t in r] for r in _rand_cone(rng, rng.choice(SHAPES), normalise=False)]
        if not all(any(r) for r in W1):
            W1 = [[1.0, 0.0], [0.0, 1.0]]
    else:
        W1 = _rand_cone(rng, rng.choice(SHAPES))
        if dtype == "float32":
            W1 = [[float(np.float32(t)) for t in r] for r in W1]
    seq = [W1]
    for _ in range(rng.randint(1, 3)):
        # another cone of the same shape: rows reversed / re-signed and, for float buffers, re-scaled per row
        prev = seq[-1]
        nxt = [list(r) for r in reversed(prev)]
        j = rng.randrange(len(nxt[0]))
        nxt = [[(-t if k == j else t) for k, t in enumerate(r)] for r in nxt]
        if dtype != "int64":
            nxt = [[float(np.float32(c * t)) if dtype == "float32" else c * t for t in r]
                   for r, c in zip(nxt, [rng.choice([0.5, 1.0, 2.0]) for _ in nxt])]
        seq.append(nxt)
    return {"kind": "alias", "dtype": dtype, "wrap": rng.random() < 0.5,
            "final": rng.choice(["scale", "zero", "overwrite", "none"]), "seq": seq}


def _certify_alpha_for(ctx, case, W, alpha, key, what, extra):
    """rational certificates for α of the matrix `W` (float64 ndarray); raises `key` when `alpha[n]` is outside
    the certified interval (± solver tolerance).  Returns True iff every row was certified."""
    N, m = W.shape
    Wq = [[_F(t) for t in row] for row in W]
    ws = core.qmat(W)
    d1c = propose_d1(W, Wq) if np.any(W) else None
    interior = d1c[0] if d1c else None
    allok = True
    for n in range(N):
        xq, lamq = propose_alpha(W, Wq, n, interior)
        lo = ctx.ask("alo", ws, str(n), _qv(xq)) if xq is not None else "inconclusive"
        hi = ctx.ask("ahi", ws, str(n), _qv(lamq)) if lamq is not None else "inconclusive"
        if lo == "inconclusive" or hi == "inconclusive":
            ctx.count("inconclusive_alpha")
            allok = False
            continue
        ctx.count("alpha_rows_certified")
        band = TOL_BAND * max(Fraction(1), _sqrt_up(_dot(Wq[n], Wq[n]), 20))
        if ctx.ask("inband", lo, hi, core.q(band), core.q(alpha[n])) != "ok":
            ctx.violation(key, what, case, detail=dict(extra, row=n, alpha=repr(alpha[n]), lo=float(Fraction(lo)),
                                                       hi=float(Fraction(hi))))
            return False
    return allok


def _run_alias(ctx, case):
    """Several cones built from ONE caller-owned ndarray that is overwritten between and after the constructions.
    The cone must own its matrix (no aliasing), and `cone.alpha` must be the optimum for the `cone.W` the object holds
    NOW.  Only the caller's array is written to — never anything reached through the cone object."""
    from vopy.order import PolyhedralConeOrder
    from vopy.ordering_cone import OrderingCone

    dtype = case["dtype"]
    ctx.count("kind_alias_" + dtype)
    seq = [np.array(W, dtype=float) for W in case["seq"]]
    buf = _alias_buffer(seq[0].shape, dtype)
    built = []
    try:
        for Wk in seq:
            buf[...] = Wk
            cone = OrderingCone(buf)
            if case.get("wrap"):
                cone = PolyhedralConeOrder(cone).ordering_cone
            built.append((cone, np.array(cone.W, copy=True), buf.copy()))
    except Exception as e:
        ctx.violation("alpha-crash:" + core.exc_key(e), f"OrderingCone({dtype} ndarray) raised {type(e).__name__}: {e}", case)
        return
    fin = case.get("final", "none")
    if fin == "scale":
        buf *= 3
    elif fin == "zero":
        buf[...] = 0
    elif fin == "overwrite":
        buf[...] = buf[::-1].copy() * 2
    good = True
    for k, (cone, w_at, given) in enumerate(built):
        Wnow = np.asarray(cone.W)
        det = {"cone_index": k, "dtype": dtype, "W_given": given.tolist(), "W_now": Wnow.tolist()}
        same = Wnow.shape == w_at.shape and Wnow.dtype == w_at.dtype and np.array_equal(Wnow, w_at)
        if np.shares_memory(Wnow, buf) or not same:
            ctx.violation("cone-aliases-caller-array", "OrderingCone keeps a reference to the caller's ndarray: writing to the "
                          "caller's array after construction changed cone.W (cone.W must be a private copy, bit-for-bit the "
                          "matrix given at construction)", case, detail=det)
            good = False
        try:
            alpha = np.array(cone.alpha, dtype=float).reshape(-1)
        except Exception as e:
            ctx.violation("alpha-crash:" + core.exc_key(e), f"cone.alpha raised {type(e).__name__}: {e}", case)
            return
        if alpha.shape != (Wnow.shape[0],) or not np.all(np.isfinite(alpha)):
            ctx.violation("alpha-nonfinite", "alpha vector has the wrong shape or is not finite", case, detail=det)
            return
        ok = _certify_alpha_for(ctx, case, np.array(Wnow, dtype=float), alpha, "alpha-not-for-current-W",
                                "cone.alpha[n] is not the maximum of the n-th facet functional over the unit vectors of the "
                                "cone described by the cone.W the SAME object holds (certified interval ± 1e-7)", det)
        good = good and ok
        ctx.count("alias_cones_checked")
    ctx.count("fully_certified" if good else "partly_inconclusive")
    ctx.case_done(case, good, canon=[dtype, case["seq"], fin])


# ----------------------------------------------------------------------------- the check
def run_case(ctx, case):
    kind = case["kind"]
    if kind == "alias":
        return _run_alias(ctx, case)
    ctx.count("kind_" + kind + ("_" + case["shape"] if kind in ("random", "nonunit", "intw") else ""))
    try:
        order = _build(case)
        cone = order.ordering_cone
        W = np.array(cone.W, dtype=float)
        alpha_dtype = np.asarray(cone.alpha).dtype
        alpha = np.array(cone.alpha, dtype=float).reshape(-1)
    except Exception as e:
        ctx.violation("alpha-crash:" + core.exc_key(e), f"cone construction / get_alpha_vec raised {type(e).__name__}: {e}", case)
        return
    N, m = W.shape
    ctx.count(f"dim_{m}")
    ctx.count("rows_%s" % (N if N <= 8 else "9+"))
    if alpha.shape != (N,) or not np.all(np.isfinite(alpha)) or not np.all(np.isfinite(W)):
        ctx.violation("alpha-nonfinite", "alpha vector has the wrong shape or is not finite", case,
                      detail={"alpha": [repr(t) for t in alpha]})
        return
    if kind == "intw":
        ctx.count("wtype_" + case["wtype"])
    if not np.issubdtype(alpha_dtype, np.floating):
        # α_n is a real number (a maximum over the unit ball); an integer array can only hold its truncation
        ctx.violation("alpha-integer-dtype", f"OrderingCone.alpha has dtype {alpha_dtype} (cone matrix given with an "
                      "integer dtype): the stored α is the solver's value truncated to an integer", case,
                      detail={"alpha": [repr(t) for t in alpha], "dtype": str(alpha_dtype)})
    Wq = [[_F(t) for t in row] for row in W]
    ws = core.qmat(W)
    good = True

    # ---- d₁ certificates first (their primal point is the interior direction used for α)
    d1c = propose_d1(W, Wq)
    interior = d1c[0] if d1c else None
    d1lo = d1hi = None
    if d1c is None and case.get("alpha_only"):
        ctx.count("d1_infeasible_as_expected")  # empty interior: `W z ≥ 𝟙` has no solution, only α is defined
    elif d1c is None:
        ctx.count("inconclusive_d1_no_proposal")
        good = False
    else:
        zs, ls = _qv(d1c[0]), _qv(d1c[1])
        a_hi = ctx.ask("d1hi", ws, zs)
        a_lo = ctx.ask("d1lo", ws, ls)
        if a_hi == "inconclusive" or a_lo == "inconclusive":
            ctx.count("inconclusive_d1")
            good = False
        else:
            d1lo, d1hi = Fraction(a_lo), Fraction(a_hi)
            if d1hi - d1lo > TOL_CERT_WIDTH * max(1, d1hi):
                ctx.count("d1_interval_wide_info")
                good = False

    # ---- α_n
    for n in range(N):
        xq, lamq = propose_alpha(W, Wq, n, interior)
        lo = ctx.ask("alo", ws, str(n), _qv(xq)) if xq is not None else "inconclusive"
        hi = ctx.ask("ahi", ws, str(n), _qv(lamq)) if lamq is not None else "inconclusive"
        if lo == "inconclusive" or hi == "inconclusive":
            ctx.count("inconclusive_alpha")
            good = False
            continue
        ctx.count("alpha_rows_certified")
        if Fraction(hi) - Fraction(lo) > TOL_CERT_WIDTH * max(Fraction(1), _sqrt_up(_dot(Wq[n], Wq[n]), 20)):
            ctx.count("alpha_interval_wide_info")
            good = False
        band = TOL_BAND * max(Fraction(1), _sqrt_up(_dot(Wq[n], Wq[n]), 20))  # solver tolerance scales with ‖w_n‖
        if ctx.ask("inband", lo, hi, core.q(band), core.q(alpha[n])) != "ok":
            ctx.violation("alpha-not-optimum",
                          "OrderingCone.alpha[n] is outside the certified interval [w_n·x, ‖w_n+Wᵀλ‖] ± 1e-7 "
                          "for max{w_n·x | Wx ≥ 0, ‖x‖ ≤ 1}", case,
                          detail={"row": n, "alpha": repr(alpha[n]), "lo": float(Fraction(lo)), "hi": float(Fraction(hi))})
        if kind == "theta":
            # closed form of the theorem: sin θ for θ ≤ 90°, else 1 — must lie in the certified interval
            rad = math.radians(float(case["deg"]))
            cf = math.sin(rad) if float(case["deg"]) <= 90 else 1.0
            if ctx.ask("inband", lo, hi, "1/1000000000000", core.q(cf)) != "ok":
                ctx.violation("theta-closed-form", "certified α interval of get_2d_w(θ) does not contain the closed form "
                              "sin θ / 1 proved for unit normals with w₁·w₂ = −cos θ", case, kind="F",
                              detail={"row": n, "closed": cf, "lo": float(Fraction(lo)), "hi": float(Fraction(hi))})

    # ---- scaling law on the real code: α_n(diag(c)·W0) = c_n · α_n(W0) for c > 0
    if kind == "nonunit":
        from vopy.utils import get_alpha_vec

        try:
            a0 = np.array(get_alpha_vec(np.array(case["W0"], dtype=float)), dtype=float).reshape(-1)
        except Exception as e:
            ctx.violation("alpha-crash:" + core.exc_key(e), f"get_alpha_vec raised {type(e).__name__}: {e}", case)
            a0 = None
        if a0 is not None:
            for n in range(N):
                cn = float(case["scale"][n])
                if not abs(alpha[n] - cn * a0[n]) <= 1e-7 * max(1.0, cn, float(np.linalg.norm(W[n]))):
                    ctx.violation("alpha-scaling-law", "get_alpha_vec: α_n(diag(c)·W) ≠ c_n·α_n(W) (1e-7) — α_n is the maximum of "
                                  "the facet functional for the rows as given, hence positively homogeneous in row n and "
                                  "independent of the scale of the other rows", case,
                                  detail={"row": n, "c": cn, "alpha_scaled": repr(alpha[n]), "alpha_base": repr(a0[n])})
                    break
            ctx.count("scaling_law_checked")

    # ---- u*, d₁ from both copies of compute_u_star
    from vopy.algorithms.vogp import VOGP
    from vopy.algorithms.vogp_ad import VOGP_AD

    if case.get("alpha_only"):
        ctx.count("alpha_only_cases")
    for cls in (() if case.get("alpha_only") else (VOGP, VOGP_AD)):
        tag = cls.__name__
        if _timeouts.get(tag, 0) >= 3:
            # budget guard: the routine has already been reported as hanging three times in this
            # process; do not spend the whole run waiting for it (a replay starts afresh)
            ctx.count("ustar_skipped_after_timeouts")
            continue
        try:
            u, d = _u_star(cls, order, m)
            u = np.array(u, dtype=float).reshape(-1)
            d = float(d)
        except _Timeout:
            # Not a property violation: on the unchanged tree SLSQP reaches the optimum within a few
            # iterations but, with ftol=1e-30 and maxiter=10**6, may keep iterating for minutes (observed:
            # single-facet cones in 3-D, ~7 min, correct result).  Budget overrun = inconclusive.
            _timeouts[tag] = _timeouts.get(tag, 0) + 1
            ctx.count("ustar_budget_exceeded_info")
            ctx.info(f"{tag}.compute_u_star exceeded the {U_STAR_BUDGET_S:.0f} s budget on {str(case)[:160]}")
            good = False
            continue
        except Exception as e:
            ctx.violation(f"ustar-crash:{tag}:" + core.exc_key(e), f"{tag}.compute_u_star raised {type(e).__name__}: {e}", case)
            continue
        if u.shape != (m,) or not np.all(np.isfinite(u)) or not math.isfinite(d):
            ctx.violation(f"ustar-nonfinite:{tag}", f"{tag}.compute_u_star returned a non-finite u* or d₁", case,
                          detail={"u": [repr(t) for t in u], "d1": repr(d)})
            continue
        if d1c is None:
            continue
        ans = ctx.ask("ustar", ws, _qv(u), core.q(d), _qv(d1c[0]), _qv(d1c[1]))
        flags, _, cert = ans.partition(" ")
        det = {"u": [repr(t) for t in u], "d1": repr(d)}
        if len(flags) != 3 or not cert:
            raise RuntimeError("unexpected driver answer: " + ans[:200])
        # (R) the exact check that matters for VOGP's guarantee: the code's OWN pair is feasible —
        # ‖u*‖ = 1 ± 1e-9, W u* ≥ −1e-9 (u* in the cone) and W (d₁ u*) ≥ 𝟙 − 1e-6, all decided in exact arithmetic
        if flags != "111":
            why = [w for f, w in zip(flags, ["‖u*‖ ≠ 1 (1e-9)", "u* outside the cone (W u* < −1e-9)",
                                             "d₁·u* violates W z ≥ 𝟙 by more than 1e-6"]) if f != "1"]
            ctx.violation(f"ustar-pair-infeasible:{tag}", f"{tag}.compute_u_star: the returned pair (u*, d₁) is not a unit "
                          "vector of the cone with d₁·u* feasible: " + "; ".join(why), case, detail=dict(det, flags=flags))
        if d1lo is not None:
            tight = TOL_BAND * max(1, d1hi)
            loose = TOL_SOLVER * max(1, d1hi)
            if ctx.ask("inband", core.q(d1lo), core.q(d1hi), core.q(loose), core.q(d)) != "ok":
                ctx.violation(f"d1-not-optimum:{tag}", f"{tag}.compute_u_star: d₁ is outside the certified interval "
                              "[Σλ/‖Wᵀλ‖, ‖z‖] by more than 1e-3 (relative) for min{‖z‖ | Wz ≥ 𝟙}", case,
                              detail=dict(det, lo=float(d1lo), hi=float(d1hi)))
            elif ctx.ask("inband", core.q(d1lo), core.q(d1hi), core.q(tight), core.q(d)) != "ok":
                # solver-accuracy band: SLSQP may stop short (feasible, slightly too long z): conservative, not a violation
                dq = _F(d)
                _suboptimal(ctx, "d1", max(d1lo - dq, dq - d1hi) / max(1, d1hi), case, tag)
        if cert == "inconclusive":
            ctx.count("inconclusive_direction")
            good = False
            continue
        g, e, lo, bound = [Fraction(t) for t in cert.split(",")]
        if 2 * g / lo > TOL_CERT_DIR:
            ctx.count("inconclusive_direction_cert_wide")
            good = False
            continue
        ctx.count("direction_certified")
        # distance of unit directions: ‖û − u*‖ ≤ ‖û − ẑ‖ + ‖ẑ − u*‖, the second term ≤ 2g/lo by the verified
        # certificate (`unit_dir_dist`); the first is measured directly (the driver's `bound` = 2(e+g)/lo also charges
        # the radial difference |d₁ − ‖z‖|, which does not move the direction, and a factor 2)
        zf = np.array([float(t) for t in d1c[0]])
        dir_dist = float(np.linalg.norm(u / np.linalg.norm(u) - zf / np.linalg.norm(zf)))
        loose_bound = bound
        bound = _F(dir_dist) + 2 * g / lo
        det = dict(det, driver_bound=float(loose_bound))
        if bound > TOL_SOLVER:
            ctx.violation(f"ustar-not-optimal-direction:{tag}",
                          f"{tag}.compute_u_star: u* is farther than 1e-3 from the certified minimum-norm direction", case,
                          detail=dict(det, bound=float(bound), cert=float(2 * g / lo)))
        elif bound > TOL_DIR:
            _suboptimal(ctx, "direction", bound, case, tag)

    # ---- β of the 2-D θ-cone
    if kind == "theta":
        try:
            beta = float(cone.beta)
        except Exception as e:
            ctx.violation("beta-crash:" + core.exc_key(e), f"ConeTheta2D.beta raised {type(e).__name__}", case)
            beta = None
        if beta is not None:
            mb = _bits_to_float(ctx.ask("beta", core.q(float(case["deg"]))))
            if not (math.isfinite(beta) and abs(beta - mb) <= 1e-12 * max(1.0, abs(mb))):
                ctx.violation("beta-formula", "ConeTheta2D.beta differs from the model term coneBeta (1/sin θ below 90°, else 1)",
                              case, detail={"beta": repr(beta), "model": repr(mb)})
            for n in range(N):
                # α carries the solver's absolute error (≤ 1e-7): relative to 1/β that is 1e-7·β for thin cones
                if abs(beta * alpha[n] - 1.0) > 1e-6 + 2e-7 * beta:
                    ctx.violation("beta-not-reciprocal-alpha", "ConeTheta2D.beta is not 1/α_n of the same cone (1e-6)", case,
                                  detail={"beta": repr(beta), "alpha": repr(alpha[n]), "row": n})
            # hypothesis of the closed-form theorem: unit normals with w₁·w₂ = −cos θ
            hyp = max(abs(np.linalg.norm(W[0]) - 1), abs(np.linalg.norm(W[1]) - 1),
                      abs(float(W[0] @ W[1]) + math.cos(math.radians(float(case["deg"])))))
            if hyp > 1e-12:
                ctx.violation("theta-hypothesis", "get_2d_w(θ) rows are not unit normals with w₁·w₂ = −cos θ (1e-12)", case,
                              kind="F", detail={"defect": hyp})
    ctx.count("fully_certified" if good else "partly_inconclusive")
    ctx.case_done(case, good, canon=[[repr(t) for t in row] for row in W])
