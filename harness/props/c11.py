"""C11 — pessimistic rectangle comparison is sound, and complete for two-facet 2-D cones.

Real `confidence_region_check_dominates` → `RectangularConfidenceRegion.check_dominates` →
`is_pt_in_extended_polytope` → `line_seg_pt_intersect_at_dim` and the three
`compute_pessimistic_set` methods (VOGP, EpsilonPAL, VOGP_AD; called unbound on an object made with
`object.__new__`, never through the slow constructors) against the Lean model `Model/Pessimistic.lean`:

* (F, equality, every float input) `is_pt_in_extended_polytope(p, poly)` vs the `r64` instance of the
  model (`inpolyf`: every element-wise float operation rounded to binary64 in exact rational
  arithmetic) on the cone-transformed vertices computed with the code's own numpy expression, and
  `check_dominates` = conjunction of these over the vertices of R₁;
* (F, equality, dyadic data + integer-row cones, where `verts @ W.T` is exact) `check_dominates` vs
  `cdf`, `compute_pessimistic_set` vs `pessf`; the exact-arithmetic instance (`cd`, the object of the
  theorems) is also asked and divergences from the float instance are counted, not raised;
* (R) soundness, every cone/dimension/input: code answers True ⇒ the certificate-checked exact
  reference `ref` with the requirement relaxed by 1e-9·scale answers True;
* (R) completeness, 2×2 cones with det ≠ 0: reference holds with margin 1e-6·scale ⇒ code answers
  True; a miss that the `r64` mirror reproduces is the rounding defect `complete2x2-float-rounding`
  (the intersection's own coordinate comes out one ulp above the target; present in the original
  code, repaired by /repo commit 2e45ea6, regression cases in corpus/C11), any other miss is
  `complete2x2`;
* (R) histories: the same region objects are compared, mutated through every public mutator, compared again;
  answers must hold for the CURRENT bounds (keys `stale-region:check_dominates:<mutator>`,
  `stale-region:pess-set:<mutator>`);
* (R) pessimistic set: designs with no candidate dominator (relaxed reference False for every other
  active design) must be kept (all cones); for 2×2 cones designs with a margin-dominator must be dropped.
"""
import itertools
import math
from types import SimpleNamespace

import numpy as np

from harness import core
from harness.cones import EXACT_CONES, real_order

TITLE = "pessimistic rectangle comparison vs Lean model and exact per-vertex LP reference"
RULE = ("kinds: pair-exact (dyadic boxes, integer-row cones incl. N>m, N<m, 3-D; shapes identical / nested / "
        "overlap / touch-face / touch-vertex / shifted-in-cone / slanted-edge / degenerate / equal-coords / "
        "random; exhaustive {0,1,2}-lattice boxes in thorough), pair-float (bundled cone families, random "
        "angles, random N×m, data scales 1e-3…1e3, margin-targeted edge cases), pair-tie (3-D/4-D cones in which a "
        "box edge/diagonal keeps one W-coordinate constant while others move oppositely, R1 tied exactly to that "
        "constant just above the bounding-box corner of the segment), pair-dtype (bounds given as int64/int32 "
        "arrays or Python int lists with the other bound fractional float64/float32/list, non-orthant cones, "
        "filtered so that the fractional part decides the verdict), pess (2–7 designs, S/P split, three "
        "algorithm classes; mutual-domination shapes: identical regions, shared lower corners, default ±1e12 "
        "boxes, chains + cycles), seg (single intersections), hist (query – mutate – query histories on the same "
        "region objects of one design space: update with intersect_iteratively True/False, intersect overlapping/"
        "disjoint, assignment to lower/upper; every answer judged for the current bounds); non-trivial = per-vertex answers of R₁ are "
        "mixed or at least one goes through the edge path (pair), kept set is a proper non-empty subset "
        "(pess), an intersection point exists (seg); distinct by exact inputs")
ASSUMPTIONS = [
    "float mirror: element-wise numpy operations are IEEE binary64 round-to-nearest (modelled exactly by r64); "
    "the matrix product verts @ W.T is taken from numpy (not modelled) except on dyadic/integer inputs where it is exact",
    "soundness is compared against the exact reference relaxed by 1e-9*scale, completeness with margin 1e-6*scale",
]

TAU_C = 1e-6
TAU_S = 1e-9

EXTRA_EXACT = {
    "wide2": [[3, 1], [1, 3]],
    "narrow2": [[3, -2], [-2, 3]],
    "rot2": [[1, 1], [-1, 1]],
    "sing2": [[1, 2], [2, 4]],
    "zero2": [[0, 0], [1, 1]],
    "neg2": [[-1, 0], [0, -1]],
    "line3": [[1, 1, 1]],
    "five2": [[1, 0], [0, 1], [1, 1], [2, -1], [-1, 2]],
    # >= 3 objectives, one objective compared componentwise, the others through a rotated cone: a box edge or
    # diagonal keeps one W-coordinate constant while two others move in opposite directions
    "tie3a": [[1, 0, 0], [0, 1, 1], [0, -1, 1]],
    "tie3b": [[0, 1, 1], [1, 0, 0], [0, -1, 1]],
    "tie3c": [[1, 0, 1], [0, 1, 0], [-1, 0, 1]],
    "tie3d": [[1, 0, 0], [0, 2, 1], [0, -1, 2]],
    "tie3e": [[1, 0, 0], [0, 1, 1], [0, -1, 1], [0, 0, 1]],
    "tie4a": [[1, 0, 0, 0], [0, 1, 0, 0], [0, 0, 1, 1], [0, 0, -1, 1]],
    "tie4b": [[1, 1, 0, 0], [-1, 1, 0, 0], [0, 0, 1, 1], [0, 0, -1, 1]],
}
TIE_CONES = ["tie3a", "tie3b", "tie3c", "tie3d", "tie3e", "tie4a", "tie4b"]


def exact_cone(name):
    if name in EXACT_CONES:
        return EXACT_CONES[name][0]
    return EXTRA_EXACT[name]


_stub_cache = {}


def order_for(W):
    """real PolyhedralConeOrder(OrderingCone(W)); for matrices the real constructor rejects, a stub with
    the only attribute check_dominates reads (counted)."""
    key = tuple(tuple(float(x) for x in r) for r in W)
    try:
        return real_order([list(r) for r in key]), True
    except Exception:
        if key not in _stub_cache:
            _stub_cache[key] = SimpleNamespace(ordering_cone=SimpleNamespace(W=np.array(key, dtype=float)))
        return _stub_cache[key], False


def named_order(spec):
    """bundled cone families built by the real constructors"""
    from vopy import order as vo

    kind = spec[0]
    key = ("named",) + tuple(spec)
    if key not in _stub_cache:
        if kind == "comp":
            o = vo.ComponentwiseOrder(int(spec[1]))
        elif kind == "theta":
            o = vo.ConeTheta2DOrder(float(spec[1]))
        elif kind == "c3d":
            o = vo.ConeOrder3D(spec[1])
        elif kind == "ice":
            o = vo.ConeOrder3DIceCream(float(spec[1]), int(spec[2]))
        else:
            raise ValueError(kind)
        _stub_cache[key] = o
    return _stub_cache[key]


# ------------------------------------------------------------------------------------- generators
def _dy(rng, lo, hi, p):
    return core.dyadic(rng, lo, hi, p)


def _cone_dir_exact(rng, W, m, p):
    """a dyadic vector c with W c >= 0 (0 if none found quickly)"""
    for _ in range(20):
        c = [_dy(rng, -6, 6, p) for _ in range(m)]
        if all(sum(w[k] * c[k] for k in range(m)) >= 0 for w in W):
            return c
    return [0.0] * m


def _mixed_pair(rng, W, V):
    """two vertices whose cone-transformed difference has entries of both signs if there is such a pair
    (then points just 'above' the segment are reached through the edge path only), else any two"""
    pairs = [(a, b) for a in V for b in V if a is not b]
    if not pairs:
        return V[0], V[0]
    rng.shuffle(pairs)
    for a, b in pairs[:12]:
        dv = [sum(float(w[k]) * (float(b[k]) - float(a[k])) for k in range(len(a))) for w in W]
        if any(t > 0 for t in dv) and any(t < 0 for t in dv):
            return a, b
    return pairs[0]


def gen_pair_exact(rng, cname=None):
    names = list(EXACT_CONES) + list(EXTRA_EXACT)
    cname = cname or rng.choice(names)
    W = exact_cone(cname)
    m = len(W[0])
    p = rng.choice([0, 1, 2, 4])
    shape = rng.choice(["identical", "nested", "overlap", "touch-face", "touch-vertex", "shifted", "slanted",
                        "slanted", "degenerate", "equal-coords", "random", "random", "point-point"])
    widths = [0, 1, 1, 2, 3, 5, 7]

    def box(zero_ok=True):
        l = [_dy(rng, -8, 8, p) for _ in range(m)]
        w = [rng.choice(widths if zero_ok else widths[1:]) / 2 ** p for _ in range(m)]
        return l, [a + b for a, b in zip(l, w)]

    l2, u2 = box()
    l1, u1 = box()
    if shape == "identical":
        l1, u1 = list(l2), list(u2)
    elif shape == "nested":
        l2, u2 = box(False)
        l1 = [a + rng.choice([0, 1]) * (b - a) / 4 for a, b in zip(l2, u2)]
        u1 = [b - rng.choice([0, 1]) * (b - a) / 4 for a, b in zip(l2, u2)]
        if rng.random() < 0.5:
            l1, u1, l2, u2 = l2, u2, l1, u1
    elif shape == "overlap":
        l1 = [a + (b - a) / 2 for a, b in zip(l2, u2)]
        u1 = [a + rng.choice(widths) / 2 ** p for a in l1]
    elif shape == "touch-face":
        k = rng.randrange(m)
        w1 = [b - a for a, b in zip(l1, u1)]
        l1 = list(l2)
        l1[k] = u2[k] if rng.random() < 0.5 else l2[k] - w1[k]
        u1 = [a + b for a, b in zip(l1, w1)]
    elif shape == "touch-vertex":
        w1 = [b - a for a, b in zip(l1, u1)]
        if rng.random() < 0.5:
            l1 = list(u2)
        else:
            l1 = [a - b for a, b in zip(l2, w1)]
        u1 = [a + b for a, b in zip(l1, w1)]
    elif shape == "shifted":
        c = _cone_dir_exact(rng, W, m, p)
        k = rng.choice([0, 1, 1, 2])
        w1 = [b - a for a, b in zip(l1, u1)]
        l1 = [a + k * cc for a, cc in zip(rng.choice([l2, u2]), c)]
        u1 = [a + b for a, b in zip(l1, w1)]
    elif shape == "slanted":
        # a point of a segment between two vertices of R2, pushed into the cone, as (part of) R1
        V = [list(v) for v in itertools.product(*[[a, b] for a, b in zip(l2, u2)])]
        a, b = _mixed_pair(rng, W, V)
        lam = rng.choice([1, 2, 3, 5, 7]) / 8
        y = [aa + lam * (bb - aa) for aa, bb in zip(a, b)]
        c = _cone_dir_exact(rng, W, m, p + 1)
        k = rng.choice([0, 1, 2])
        l1 = [yy + k * cc for yy, cc in zip(y, c)]
        if rng.random() < 0.6:
            u1 = list(l1)
        else:
            c2 = _cone_dir_exact(rng, W, m, p)
            u1 = [a + abs(b) for a, b in zip(l1, c2)]
    elif shape == "degenerate":
        for k in range(m):
            if rng.random() < 0.6:
                u1[k] = l1[k]
            if rng.random() < 0.6:
                u2[k] = l2[k]
    elif shape == "equal-coords":
        v = _dy(rng, -4, 4, p)
        l1 = [v] * m
        u1 = [v + rng.choice(widths) / 2 ** p] * m
        l2 = [v - rng.choice([0, 1, 2])] * m
        u2 = [l2[0] + rng.choice(widths) / 2 ** p] * m
    elif shape == "point-point":
        u1, u2 = list(l1), list(l2)
    return {"kind": "pair", "exact": True, "cone": cname, "l1": l1, "u1": u1, "l2": l2, "u2": u2,
            "shape": shape}


def _solve_exact(W, target):
    """x with (first m rows of W) x = target[:m], as Fractions; None if singular"""
    from fractions import Fraction as Fr

    m = len(W[0])
    A = [[Fr(W[i][j]) for j in range(m)] + [Fr(target[i])] for i in range(m)]
    for c in range(m):
        piv = next((r for r in range(c, m) if A[r][c] != 0), None)
        if piv is None:
            return None
        A[c], A[piv] = A[piv], A[c]
        A[c] = [v / A[c][c] for v in A[c]]
        for r in range(m):
            if r != c and A[r][c] != 0:
                A[r] = [a - A[r][c] * b for a, b in zip(A[r], A[c])]
    return [A[i][m] for i in range(m)]


def gen_pair_tie(rng):
    """constant-coordinate tie family (>= 3 objectives): a segment between two vertices of R2 along which one
    W-coordinate is constant while others move in opposite directions; R1 sits just above the componentwise
    minimum of the segment's end points (the lower corner of its bounding box in W-space, in general not a
    point of W R2) with that constant coordinate tied exactly, e.g. rect1.lower[0] == rect2.lower[0]."""
    from fractions import Fraction as Fr

    cname = rng.choice(TIE_CONES)
    W = exact_cone(cname)
    N, m = len(W), len(W[0])
    p = rng.choice([1, 2, 3])
    for _ in range(30):
        l2 = [_dy(rng, -6, 6, p) for _ in range(m)]
        u2 = [a + rng.choice([0, 0, 1, 2, 4, 6]) / 2 ** p for a in l2]
        V = [list(v) for v in itertools.product(*[[a, b] for a, b in zip(l2, u2)])]
        pairs = []
        for a in V:
            for b in V:
                da = [sum(Fr(w[k]) * (Fr(b[k]) - Fr(a[k])) for k in range(m)) for w in W]
                zero = [k for k in range(N) if da[k] == 0]
                if zero and any(t > 0 for t in da) and any(t < 0 for t in da):
                    pairs.append((a, b, zero))
        if not pairs:
            continue
        a, b, zero = rng.choice(pairs)
        Wa = [sum(Fr(w[k]) * Fr(a[k]) for k in range(m)) for w in W]
        Wb = [sum(Fr(w[k]) * Fr(b[k]) for k in range(m)) for w in W]
        corner = [min(x, y) for x, y in zip(Wa, Wb)]
        k0 = rng.choice(zero)
        delta = [Fr(0) if k == k0 else Fr(rng.choice([0, 0, 1, 1, 2, 3]), 2 ** (p + 1)) for k in range(N)]
        x = _solve_exact(W, [c + d for c, d in zip(corner, delta)])
        if x is None or any(v.denominator & (v.denominator - 1) for v in x) or any(v.denominator > 64 for v in x):
            continue
        l1 = [float(v) for v in x]
        u1 = list(l1)
        mode = rng.choice(["point", "point", "thin", "face"])
        if mode != "point":
            for k in range(m):
                if rng.random() < 0.5:
                    u1[k] = l1[k] + rng.choice([1, 1, 2]) / 2 ** (p + 2)
            if mode == "face":  # stretch the tied objective up to R2's upper bound, as rectangles sharing a face do
                for k in range(m):
                    if l1[k] == l2[k] and u2[k] > l1[k]:
                        u1[k] = u2[k]
        return {"kind": "pair", "exact": True, "cone": cname, "l1": l1, "u1": u1, "l2": l2, "u2": u2,
                "shape": "const-coord-tie"}
    c = gen_pair_exact(rng, cname)
    c["shape"] = "const-coord-tie"
    return c


INT_TYPES = ["int64", "int32", "pyint"]
FLT_TYPES = ["float64", "float32", "pyfloat"]


def _typed(v, t):
    """a bound vector in the container/dtype named t (values are exactly representable there)"""
    if t == "pyint":
        return [int(x) for x in v]
    if t == "pyfloat":
        return [float(x) for x in v]
    if t.startswith("int"):
        return np.array([int(x) for x in v], dtype=t)
    return np.array(v, dtype=t)


def gen_pair_dtype(ctx, rng):
    """rectangles whose bounds arrive in integer containers (int64 / int32 arrays, Python int lists) with the
    other bound fractional (float64 / float32 arrays, float lists): the comparison must be about the VALUES.
    Candidates are filtered with the exact reference so that in most cases the fractional part of a bound
    decides the verdict (the verdict for the values differs from the verdict for the bounds truncated towards
    zero), with non-orthant cones."""
    p = 3
    case = None
    for attempt in range(80):
        if rng.random() < 0.6:
            cname = rng.choice(["acute2", "obtuse2", "skew2", "rot2", "narrow2", "wide2", "threefacet2", "acute3",
                                "tie3a", "redundant2"])
            cone, W, exact = cname, np.array(exact_cone(cname), dtype=float), True
        else:
            cone = {"named": ["theta", rng.choice([20, 45, 60, 120, 150])]}
            W, exact = cone_W(cone), False
        m = W.shape[1]

        def box():
            l = [float(rng.randint(-3, 3)) for _ in range(m)]
            u = [a + rng.choice([0, 1, 2, 4, 5, 6, 7, 9, 12, 20]) / 2 ** p for a in l]
            tl = rng.choice(INT_TYPES)
            tu = rng.choice(FLT_TYPES)
            r = rng.random()
            if r < 0.25:  # integer upper, fractional lower
                u = [float(rng.randint(-2, 4)) for _ in range(m)]
                l = [b - rng.choice([0, 1, 3, 4, 7, 12]) / 2 ** p for b in u]
                tl, tu = rng.choice(FLT_TYPES), rng.choice(INT_TYPES)
            elif r < 0.35:  # both float: control
                tl = rng.choice(FLT_TYPES)
            return l, u, tl, tu

        l1, u1, t1l, t1u = box()
        l2, u2, t2l, t2u = box()
        if rng.random() < 0.4 and t1l in INT_TYPES and t1u in FLT_TYPES:  # R1 a thin box / point near R2
            k = rng.randrange(len(l1))
            u1 = list(l1)
            u1[k] = l1[k] + rng.choice([0, 3, 7]) / 2 ** p
        case = {"kind": "pair", "exact": exact, "cone": cone, "l1": l1, "u1": u1, "l2": l2, "u2": u2,
                "dtypes": [t1l, t1u, t2l, t2u], "shape": "dtype-random"}
        if any(t in INT_TYPES and any(x != int(x) for x in v)
               for t, v in zip((t1l, t1u, t2l, t2u), (l1, u1, l2, u2))):
            continue
        # does truncation towards zero of the float bounds (what a dtype-of-lower container would do) decide?
        tr = [[float(int(x)) for x in v] for v in (l1, u1, l2, u2)]
        if any(a > b for a, b in zip(tr[0], tr[1])) or any(a > b for a, b in zip(tr[2], tr[3])):
            continue
        ws = core.qmat(W)
        z = core.qvec([0] * W.shape[0])
        a = ctx.ask("ref", ws, *[core.qvec(v) for v in (l1, u1, l2, u2)], z)
        b = ctx.ask("ref", ws, *[core.qvec(v) for v in tr], z)
        if a in ("0", "1") and b in ("0", "1") and a != b:
            case["shape"] = "dtype-decisive"
            return case
        if attempt > 50 and rng.random() < 0.1:
            break
    return case


def gen_cone_float(rng):
    fam = rng.choice(["comp2", "comp3", "theta", "theta", "rand2", "rand2", "rand2", "c3d", "ice", "randNm",
                      "near-sing2"])
    if fam == "comp2":
        return {"named": ["comp", 2]}, 2
    if fam == "comp3":
        return {"named": ["comp", 3]}, 3
    if fam == "theta":
        return {"named": ["theta", rng.choice([10, 30, 45, 60, 90, 120, 135, 150, 170, round(rng.uniform(5, 175), 3)])]}, 2
    if fam == "c3d":
        return {"named": ["c3d", rng.choice(["acute", "right", "obtuse"])]}, 3
    if fam == "ice":
        return {"named": ["ice", rng.choice([30, 45, 60, 80]), rng.choice([3, 4, 5, 6])]}, 3
    if fam == "rand2":
        th = rng.uniform(0, 2 * math.pi)
        ang = rng.uniform(0.05, math.pi - 0.05)
        sc = [rng.choice([1, 1, 0.1, 7.5]) for _ in range(2)]
        return {"W": [[sc[0] * math.cos(th), sc[0] * math.sin(th)],
                      [sc[1] * math.cos(th + ang), sc[1] * math.sin(th + ang)]]}, 2
    if fam == "near-sing2":
        th = rng.uniform(0, 2 * math.pi)
        ang = rng.choice([1e-3, 1e-2, math.pi - 1e-2])
        return {"W": [[math.cos(th), math.sin(th)], [math.cos(th + ang), math.sin(th + ang)]]}, 2
    m = rng.choice([2, 3])
    N = rng.choice([1, 2, 3, 4])
    return {"W": [[rng.gauss(0, 1) for _ in range(m)] for _ in range(N)]}, m


def cone_W(cone):
    if "named" in cone:
        return np.array(named_order(cone["named"]).ordering_cone.W, dtype=float)
    return np.array(cone["W"], dtype=float)


def gen_pair_float(rng):
    cone, m = gen_cone_float(rng)
    W = cone_W(cone)
    scale = rng.choice([1e-3, 1, 1, 1, 30, 1e3])
    shape = rng.choice(["random", "near", "slanted", "slanted", "slanted", "degenerate", "nested", "in-cone"])

    def box(c, s, zero=False):
        l = [c[i] + scale * rng.uniform(-1, 1) for i in range(m)]
        w = [0.0 if (zero and rng.random() < 0.5) else scale * rng.uniform(0, s) for _ in range(m)]
        return l, [a + b for a, b in zip(l, w)]

    def cone_dir():
        # least-squares solve W c = positive vector; only kept if W c >= 0
        t = np.array([rng.uniform(0, 1) for _ in range(W.shape[0])])
        c = np.linalg.lstsq(W, t, rcond=None)[0]
        if np.all(W @ c >= 0):
            return [float(x) for x in c]
        return [0.0] * m

    l2, u2 = box([0.0] * m, 1)
    if shape == "random":
        l1, u1 = box([0.0] * m, 1)
    elif shape == "near":
        l1, u1 = box([x * rng.uniform(0, 0.1) for x in l2], 0.3)
    elif shape == "in-cone":
        c = cone_dir()
        k = scale * rng.uniform(0, 3)
        l1, u1 = box([k * x for x in c], 0.5)
    elif shape == "nested":
        l1 = [a + rng.uniform(0, 0.5) * (b - a) for a, b in zip(l2, u2)]
        u1 = [a + rng.uniform(0, 1) * (b - a) for a, b in zip(l1, u2)]
        if rng.random() < 0.5:
            l1, u1, l2, u2 = l2, u2, l1, u1
    elif shape == "degenerate":
        l1, u1 = box([0.0] * m, 1, zero=True)
        l2, u2 = box([0.0] * m, 1, zero=True)
    else:  # slanted: a point of a segment between two vertices of R2, pushed into the cone by a margin
        V = [np.array(v) for v in itertools.product(*[[a, b] for a, b in zip(l2, u2)])]
        va, vb = _mixed_pair(rng, W, V)
        lam = rng.uniform(0, 1)
        y = np.array(va) + lam * (np.array(vb) - np.array(va))
        c = np.array(cone_dir())
        k = scale * rng.choice([0.0, 1e-9, 1e-5, 1e-3, 0.05, 0.5])
        x = y + k * c
        l1 = [float(t) for t in x]
        if rng.random() < 0.6:
            u1 = list(l1)
        else:
            c2 = np.array(cone_dir())
            u1 = [float(a + abs(b) * scale * rng.uniform(0, 1)) for a, b in zip(l1, c2)]
    l1 = [float(a) for a in l1]
    u1 = [float(max(a, b)) for a, b in zip(l1, u1)]
    return {"kind": "pair", "exact": False, "cone": cone, "l1": l1, "u1": u1, "l2": [float(a) for a in l2],
            "u2": [float(max(a, b)) for a, b in zip(l2, u2)], "shape": shape}


def gen_pess(rng, exact):
    if exact:
        cname = rng.choice(list(EXACT_CONES) + list(EXTRA_EXACT))
        W = exact_cone(cname)
        m = len(W[0])
        cone = cname
    else:
        cone, m = gen_cone_float(rng)
    n = rng.randint(2, 7)
    p = rng.choice([0, 1, 2])
    L, U = [], []
    layout = rng.choice(["random", "chain", "cluster"])
    for i in range(n):
        if exact:
            if layout == "chain":
                l = [float(i + _dy(rng, -1, 1, p))] * m
            elif layout == "cluster":
                l = [_dy(rng, -2, 2, p) for _ in range(m)]
            else:
                l = [_dy(rng, -6, 6, p) for _ in range(m)]
            w = [rng.choice([0, 1, 1, 2, 3]) / 2 ** p for _ in range(m)]
        else:
            if layout == "chain":
                l = [0.4 * i + rng.uniform(-0.3, 0.3) for _ in range(m)]
            elif layout == "cluster":
                l = [rng.uniform(-0.3, 0.3) for _ in range(m)]
            else:
                l = [rng.uniform(-1, 1) for _ in range(m)]
            w = [rng.choice([0.0, rng.uniform(0, 0.5)]) for _ in range(m)]
        L.append(l)
        U.append([a + b for a, b in zip(l, w)])
    if rng.random() < 0.3:
        k, k2 = rng.randrange(n), rng.randrange(n)
        L[k], U[k] = list(L[k2]), list(U[k2])
    act = [i for i in range(n) if rng.random() < 0.8] or [0]
    S = [i for i in act if rng.random() < 0.6]
    P = [i for i in act if i not in S or rng.random() < 0.1]
    return {"kind": "pess", "exact": exact, "cone": cone, "L": L, "U": U, "S": S, "P": P,
            "algo": rng.choice(["VOGP", "EpsilonPAL", "VOGP_AD"]), "shape": layout}


def gen_pess_mutual(rng):
    """active designs that pessimistically dominate EACH OTHER (cycles): repeated designs with identical
    regions (one copy possibly already in P), different rectangles sharing a lower corner under the
    componentwise order, regions still at the default +-1e12 box, and chains feeding into such cycles.  By
    the definition every member of a cycle is excluded."""
    layout = rng.choice(["identical", "identical", "shared-lower", "default-box", "chain+cycle", "chain+cycle"])
    if layout == "shared-lower":
        cname = rng.choice(["orthant2", "orthant3"])
    elif rng.random() < 0.5:
        cname = rng.choice(["orthant2", "acute2", "obtuse2", "threefacet2", "orthant3", "acute3", "tie3a"])
    else:
        cname = rng.choice(list(EXACT_CONES) + list(EXTRA_EXACT))
    W = exact_cone(cname)
    m = len(W[0])
    p = rng.choice([0, 1, 2])
    n = rng.randint(2, 7)

    def box():
        l = [_dy(rng, -6, 6, p) for _ in range(m)]
        return l, [a + rng.choice([0, 1, 1, 2, 3]) / 2 ** p for a in l]

    L, U = [], []
    for _ in range(n):
        l, u = box()
        L.append(l)
        U.append(u)
    i, j = rng.sample(range(n), 2)
    if layout == "identical":
        L[j], U[j] = list(L[i]), list(U[i])
        if n > 2 and rng.random() < 0.3:  # a triple
            k = rng.choice([t for t in range(n) if t not in (i, j)])
            L[k], U[k] = list(L[i]), list(U[i])
    elif layout == "shared-lower":
        L[j] = list(L[i])
        U[j] = [a + rng.choice([0, 1, 2, 5]) / 2 ** p for a in L[j]]
    elif layout == "default-box":
        for k in range(n):
            if k in (i, j) or rng.random() < 0.4:
                L[k], U[k] = [-1e12] * m, [1e12] * m
    else:  # chain + cycle: a ladder of boxes shifted along a cone direction, its top rung duplicated
        c = _cone_dir_exact(rng, W, m, p)
        if not any(c):
            c = [1.0] * m if all(sum(w) >= 0 for w in W) else c
        l, u = box()
        for k in range(n):
            L[k] = [a + k * cc for a, cc in zip(l, c)]
            U[k] = [a + k * cc for a, cc in zip(u, c)]
        L[n - 1], U[n - 1] = list(L[n - 2]), list(U[n - 2])
        if n > 3 and rng.random() < 0.5:
            L[0], U[0] = list(L[1]), list(U[1])
        order_ = list(range(n))
        rng.shuffle(order_)
        L, U = [L[k] for k in order_], [U[k] for k in order_]
        i, j = order_.index(n - 1), order_.index(n - 2)
    act = sorted(set([i, j] + [k for k in range(n) if rng.random() < 0.8]))
    S = [k for k in act if rng.random() < 0.6]
    if rng.random() < 0.5 and j in S:
        S.remove(j)  # one member of the cycle already in P
    P = [k for k in act if k not in S or rng.random() < 0.1]
    return {"kind": "pess", "exact": True, "cone": cname, "L": L, "U": U, "S": S, "P": P,
            "algo": rng.choice(["VOGP", "EpsilonPAL", "VOGP_AD"]), "shape": "mutual-" + layout}


def gen_hist(rng):
    """HISTORY stream: the same region objects (held by one real design space) are compared, mutated through a
    public mutator, compared again.  Boxes are copies of a base box shifted along an integer direction inside
    the cone by varying amounts, so verdicts flip with clear margins."""
    cname = rng.choice(["orthant2", "acute2", "obtuse2", "skew2", "rot2", "wide2", "narrow2", "threefacet2",
                        "orthant2", "acute2", "orthant3", "acute3", "obtuse3", "tie3a"])
    W = exact_cone(cname)
    m = len(W[0])
    c = [0.0] * m
    for _ in range(50):
        c = [float(rng.randint(-2, 3)) for _ in range(m)]
        if any(c) and all(sum(w[k] * c[k] for k in range(m)) > 0 for w in W):
            break
    else:
        c = [1.0] * m
    p = rng.choice([0, 1, 2])
    base = [_dy(rng, -4, 4, p) for _ in range(m)]

    def box(t, wmax=3):
        l = [b + t * cc + _dy(rng, -1, 1, p) / 4 for b, cc in zip(base, c)]
        return l, [a + rng.choice([0, 1, 2, wmax]) / 2 ** p for a in l]

    n = rng.choice([2, 2, 3, 4])
    L, U = [], []
    for _ in range(n):
        l, u = box(rng.randint(-4, 4))
        L.append(l)
        U.append(u)
    steps = []
    for _ in range(rng.randint(2, 5)):
        op = rng.choice(["update", "update", "update", "intersect", "intersect", "intersect_wide", "assign",
                         "assign_lower", "assign_upper"])
        st = {"op": op, "target": rng.randrange(n)}
        if op == "update":
            t = rng.randint(-5, 5)
            st["mean"] = [b + t * cc for b, cc in zip(base, c)]
            sd = [rng.choice([0, 1, 2, 3, 8]) / 2 ** p for _ in range(m)]
            st["var"] = [x * x for x in sd]
            st["scale"] = rng.choice([1.0, 0.5, 2.0, 1.5])
        elif op in ("intersect", "assign"):
            st["lower"], st["upper"] = box(rng.randint(-5, 5))
            if op == "intersect" and rng.random() < 0.6:
                # clip the target's initial box: keeps a proper overlapping part unless it was moved meanwhile
                i0 = st["target"]
                st["lower"] = [a + rng.choice([-1, 0, 1, 2]) / 2 ** (p + 1) for a in L[i0]]
                st["upper"] = [max(a, b) + rng.choice([0, 1, 4]) / 2 ** (p + 1) for a, b in zip(st["lower"], U[i0])]
        elif op == "intersect_wide":  # a large box around everything moved a little: overlapping, clips one side
            t = rng.randint(-3, 3)
            st["lower"] = [b + t * cc - (0 if rng.random() < 0.5 else 40) for b, cc in zip(base, c)]
            st["upper"] = [a + 40 for a in st["lower"]]
        else:
            st["delta"] = [rng.choice([0, 1, 2, 6]) / 2 ** p for _ in range(m)]
        steps.append(st)
    act = sorted(set(rng.sample(range(n), rng.randint(2, n))))
    S = [i for i in act if rng.random() < 0.6]
    P = [i for i in act if i not in S]
    return {"kind": "hist", "exact": True, "cone": cname, "L": L, "U": U, "iter": [rng.random() < 0.6 for _ in range(n)],
            "steps": steps, "S": S, "P": P, "algo": rng.choice(["VOGP", "EpsilonPAL", "VOGP_AD"]), "shape": "hist"}


def gen_seg(rng):
    D = rng.choice([2, 3, 4])
    if rng.random() < 0.5:
        p = rng.choice([0, 1, 3])
        P1 = [_dy(rng, -9, 9, p) for _ in range(D)]
        P2 = [_dy(rng, -9, 9, p) for _ in range(D)]
        pt = [_dy(rng, -9, 9, p) for _ in range(D)]
    else:
        P1 = [rng.uniform(-1, 1) for _ in range(D)]
        P2 = [rng.uniform(-1, 1) for _ in range(D)]
        pt = [rng.uniform(-1, 1) for _ in range(D)]
    d = rng.randrange(D)
    r = rng.random()
    if r < 0.15:
        P2[d] = P1[d]
        if rng.random() < 0.5:
            pt[d] = P1[d]
    elif r < 0.6:
        pt[d] = P1[d] + rng.choice([0, 0.25, 0.5, rng.random(), 1]) * (P2[d] - P1[d])
    return {"kind": "seg", "P1": P1, "P2": P2, "p": pt, "d": d, "shape": "seg"}


def gen(ctx):
    rng = ctx.rng
    if ctx.tier == "thorough":
        # exhaustive {0,1,2}-lattice boxes (incl. degenerate) for the 2-D exact cones, worker-sharded
        iv = [(a, b) for a in range(3) for b in range(a, 3)]
        boxes = [((a[0], b[0]), (a[1], b[1])) for a in iv for b in iv]
        k = 0
        for cname in ["orthant2", "acute2", "obtuse2", "skew2", "threefacet2", "rot2", "narrow2"]:
            for (l1, u1) in boxes:
                for (l2, u2) in boxes:
                    k += 1
                    if k % ctx.nworkers != ctx.worker:
                        continue
                    yield {"kind": "pair", "exact": True, "cone": cname, "l1": list(map(float, l1)),
                           "u1": list(map(float, u1)), "l2": list(map(float, l2)), "u2": list(map(float, u2)),
                           "shape": "exhaustive"}
    for _ in range(ctx.n(60, 3000)):
        e = rng.choice([0, 1, 10, 60, 300, 1000, 1070])
        num = rng.randint(-2 ** 60, 2 ** 60) or 1
        den = rng.randint(1, 2 ** rng.choice([1, 20, 53, 64])) * 2 ** e
        if rng.random() < 0.3:
            num, den = rng.choice([-1, 1]) * (2 * rng.randint(0, 2 ** 53) + 1), 2 ** (54 + rng.choice([0, 3, 1020]))
        yield {"kind": "r64", "num": num, "den": den, "shape": "r64"}
    for _ in range(ctx.n(800, 50000)):
        r = rng.random()
        if r < 0.34:
            yield gen_pair_exact(rng)
        elif r < 0.41:
            yield gen_pair_tie(rng)
        elif r < 0.46:
            yield gen_pair_dtype(ctx, rng)
        elif r < 0.74:
            yield gen_pair_float(rng)
        elif r < 0.81:
            yield gen_pess(rng, True)
        elif r < 0.88:
            yield gen_pess(rng, False)
        elif r < 0.95:
            yield gen_pess_mutual(rng)
        else:
            yield gen_seg(rng)
    for _ in range(ctx.n(60, 4000)):
        yield gen_hist(rng)


# ------------------------------------------------------------------------------------- evaluation
def _rect(l, u):
    from vopy.confidence_region import RectangularConfidenceRegion

    return RectangularConfidenceRegion(len(l), np.array(l, dtype=float), np.array(u, dtype=float))


def _margins(W, data, tau):
    scale = max(1.0, max(abs(float(x)) for x in data))
    return [tau * float(np.abs(r).sum()) * scale for r in W]


def _order(case):
    cone = case["cone"]
    if isinstance(cone, str):
        o, real = order_for(exact_cone(cone))
    elif "named" in cone:
        o, real = named_order(cone["named"]), True
    else:
        o, real = order_for(cone["W"])
    return o, real


def _ref(ctx, ws, a, b, c, d, s):
    ans = ctx.ask("ref", ws, core.qvec(a), core.qvec(b), core.qvec(c), core.qvec(d), core.qvec(s))
    if ans not in ("0", "1"):
        ctx.count("ref_" + ans)
        return None
    return ans == "1"


def _is2x2(W):
    if W.shape != (2, 2):
        return False
    a, b, c, d = (core.frac(x) for x in W.ravel())
    return a * d - b * c != 0


def _mirror_codes(ctx, W, l1, u1, l2, u2):
    """per vertex of R1: answer code of the binary64 mirror on the numpy-transformed vertices"""
    from vopy.utils.utils import hyperrectangle_get_vertices

    V1 = hyperrectangle_get_vertices(np.array(l1, dtype=float), np.array(u1, dtype=float)) @ W.transpose()
    V2 = hyperrectangle_get_vertices(np.array(l2, dtype=float), np.array(u2, dtype=float)) @ W.transpose()
    v2s = core.qmat(V2)
    return [int(ctx.ask("inpolyf", core.qvec(p), v2s)) for p in V1]


def run_pair(ctx, case):
    from vopy.confidence_region import confidence_region_check_dominates
    from vopy.utils.utils import hyperrectangle_get_vertices, is_pt_in_extended_polytope

    order, real_ctor = _order(case)
    W = np.array(order.ordering_cone.W, dtype=float)
    l1, u1, l2, u2 = (list(map(float, case[k])) for k in ("l1", "u1", "l2", "u2"))
    ctx.count("pair_" + ("exact" if case["exact"] else "float"))
    ctx.count("shape_" + case["shape"])
    ctx.count("cone_%dx%d" % W.shape)
    if not real_ctor:
        ctx.count("order_stub_used")
    if "dtypes" in case:
        from vopy.confidence_region import RectangularConfidenceRegion

        t = case["dtypes"]
        ctx.count("dtype_" + "/".join(t))
        try:
            R1 = RectangularConfidenceRegion(len(l1), _typed(l1, t[0]), _typed(u1, t[1]))
            R2 = RectangularConfidenceRegion(len(l2), _typed(l2, t[2]), _typed(u2, t[3]))
        except Exception as e:
            ctx.violation("crash:" + core.exc_key(e), f"constructor raised {type(e).__name__}: {e}", case)
            return
    else:
        R1, R2 = _rect(l1, u1), _rect(l2, u2)
    try:
        real = bool(confidence_region_check_dominates(order, R1, R2))
    except Exception as e:
        ctx.violation("crash:" + core.exc_key(e), f"check_dominates raised {type(e).__name__}: {e}", case)
        return
    ws = core.qmat(W)
    q = [core.qvec(v) for v in (l1, u1, l2, u2)]
    # ---- (F) hyperrectangle_get_vertices on the bounds as given = the model's vertex list of the VALUES
    verts_ok = True
    for nm, R, lo_, up_ in (("R1", R1, l1, u1), ("R2", R2, l2, u2)):
        try:
            Vr = np.asarray(hyperrectangle_get_vertices(R.lower, R.upper))
            got = core.qmat(Vr) if Vr.size else "_"
            kind_ok = Vr.dtype.kind in "fiu"  # an all-integer rectangle may stay integer; the VALUES must be exact
        except Exception as e:
            got, kind_ok = "raised " + type(e).__name__, False
        want = ctx.ask("verts", core.qvec(lo_), core.qvec(up_))
        if got != want or not kind_ok:
            verts_ok = False
            ctx.violation("vertices-mirror", f"hyperrectangle_get_vertices({nm}.lower, {nm}.upper) is not the "
                          "numeric array of the 2^m vertices of the given bounds in itertools.product order", case, kind="F",
                          detail={"impl": got, "dtype_float": kind_ok, "model": want,
                                  "containers": case.get("dtypes")})
            break
    # ---- (F) element-wise mirror of is_pt_in_extended_polytope on the code's own transformed vertices
    V1 = hyperrectangle_get_vertices(R1.lower, R1.upper) @ W.transpose()
    V2 = hyperrectangle_get_vertices(R2.lower, R2.upper) @ W.transpose()
    v2s = core.qmat(V2)
    real_pts = [bool(is_pt_in_extended_polytope(p, V2)) for p in V1]
    codes = [int(ctx.ask("inpolyf", core.qvec(p), v2s)) for p in V1]
    mirror_pts = [c > 0 for c in codes]
    mirror_ok = real_pts == mirror_pts
    if not mirror_ok:
        ctx.violation("inpoly-mirror", "is_pt_in_extended_polytope differs from the binary64 mirror of the model "
                      "on the transformed vertices", case, kind="F",
                      detail={"impl": real_pts, "model": codes})
    if real != all(real_pts):
        ctx.violation("cd-vs-inpoly", "check_dominates is not the conjunction of is_pt_in_extended_polytope over "
                      "the transformed vertices of R1 against those of R2", case, kind="F",
                      detail={"impl": real, "per_vertex": real_pts})
    if 2 in codes:
        ctx.count("edge_path_used")
    # ---- (F) literal mirror of check_dominates where the matrix product is exact
    if case["exact"]:
        mf = ctx.ask("cdf", ws, *q)
        me = ctx.ask("cd", ws, *q)
        if mf != core.bools([real]):
            ctx.violation("cd-mirror", "check_dominates differs from the model (binary64 instance) on dyadic "
                          "data with an integer-row cone", case, kind="F", detail={"impl": real, "model": mf})
        if me != mf:
            ctx.count("exact_vs_float_model_differ_info")
        r0 = _ref(ctx, ws, l1, u1, l2, u2, [0.0] * W.shape[0])
        if r0 is not None and core.bools([r0]) != me:
            if W.shape[1] == 2 or (me == "1"):
                # contradicts checkDominates_iff_2d / checkDominates_sound_real (every bundled exact 2-D cone
                # has a non-zero element): the model or the reference is wrong
                ctx.violation("model-vs-reference", "exact model and certified reference disagree where the theorems "
                              "say they agree", case, kind="F", detail={"model": me, "reference": r0})
            else:
                ctx.count("exact_model_incomplete_%dx%d_info" % W.shape)
    # ---- (R) soundness / completeness against the certified exact reference
    data = l1 + u1 + l2 + u2
    lo = _ref(ctx, ws, l1, u1, l2, u2, [-x for x in _margins(W, data, TAU_S)])
    hi = _ref(ctx, ws, l1, u1, l2, u2, _margins(W, data, TAU_C))
    band = "borderline" if (lo is True and hi is False) else ("robust" if lo is not None and hi is not None else "inconclusive")
    ctx.count("ref_" + band)
    ctx.count("verdict_%s" % real)
    if real and lo is False:
        ctx.violation("unsound", "check_dominates answered True but some vertex of R1 dominates no point of R2 "
                      "(certified infeasible, even relaxed by 1e-9*scale)", case,
                      detail={"impl": real, "reference_relaxed": lo})
    if (not real) and hi is True and _is2x2(W):
        if mirror_ok and verts_ok:
            ctx.violation("complete2x2-float-rounding",
                          "2x2 cone: every vertex of R1 dominates a point of R2 with margin >= 1e-6*scale but "
                          "check_dominates answered False; reproduced by the binary64 mirror (the intersection "
                          "point's own coordinate rounds above the target in line_seg_pt_intersect_at_dim)",
                          case, detail={"impl": real, "reference_margin": hi, "per_vertex": codes})
        else:
            ctx.violation("complete2x2", "2x2 cone: every vertex of R1 dominates a point of R2 with margin >= "
                          "1e-6*scale but check_dominates answered False", case,
                          detail={"impl": real, "reference_margin": hi})
    if (not real) and hi is True and not _is2x2(W):
        ctx.count("incomplete_outside_2x2_info")
    nontrivial = len(set(codes)) > 1 or 2 in codes
    ctx.case_done(case, nontrivial, canon=["pair", ws] + q)


_ALGOS = {}


def _algo(name):
    if name not in _ALGOS:
        if name == "VOGP":
            from vopy.algorithms.vogp import VOGP as cls
        elif name == "EpsilonPAL":
            from vopy.algorithms.epal import EpsilonPAL as cls
        else:
            from vopy.algorithms.vogp_ad import VOGP_AD as cls
        _ALGOS[name] = cls
    return _ALGOS[name]


def run_pess(ctx, case):
    from vopy.design_space import FixedPointsDesignSpace

    order, _ = _order(case)
    W = np.array(order.ordering_cone.W, dtype=float)
    L, U = case["L"], case["U"]
    n, m = len(L), len(L[0])
    ctx.count("pess_" + ("exact" if case["exact"] else "float"))
    ctx.count("pess_algo_" + case["algo"])
    ds = FixedPointsDesignSpace(np.zeros((n, 1)), m, confidence_type="hyperrectangle")
    for i in range(n):
        ds.confidence_regions[i] = _rect(L[i], U[i])
    cls = _algo(case["algo"])
    obj = object.__new__(cls)
    obj.S, obj.P, obj.order, obj.design_space = set(case["S"]), set(case["P"]), order, ds
    try:
        real = sorted(int(i) for i in cls.compute_pessimistic_set(obj))
    except Exception as e:
        ctx.violation("pess-crash:" + core.exc_key(e), f"compute_pessimistic_set raised {type(e).__name__}: {e}", case)
        return
    act = sorted(set(case["S"]) | set(case["P"]))
    ws, Ls, Us = core.qmat(W), core.qmat(L), core.qmat(U)
    ctx.count("pess_shape_" + case.get("shape", "?"))
    # ---- (R) last clause of the property, with the real comparison as "pessimistically dominates":
    # the set is exactly {i active | no OTHER active j with check_dominates(R_j, R_i)} (cycles exclude all members)
    from vopy.confidence_region import confidence_region_check_dominates

    regs = ds.confidence_regions
    try:
        dom = {(j, i): bool(confidence_region_check_dominates(order, regs[j], regs[i]))
               for i in act for j in act if j != i}
    except Exception as e:
        ctx.violation("crash:" + core.exc_key(e), f"check_dominates raised {type(e).__name__}: {e}", case)
        return
    defn = [i for i in act if not any(dom[(j, i)] for j in act if j != i)]
    if any(dom[(j, i)] and dom[(i, j)] for i in act for j in act if i < j):
        ctx.count("pess_mutual_domination_present")
    if real != defn:
        kept = [i for i in real if i not in defn]
        lost = [i for i in defn if i not in real]
        ctx.violation("pess-set-definition",
                      "compute_pessimistic_set is not {i active | no other active j with check_dominates(R_j, R_i)}: "
                      + (f"returns {kept} although active design(s) "
                         f"{[j for j in act for i in kept[:1] if j != i and dom[(j, i)]]} pessimistically dominate it"
                         if kept else f"drops {lost} which no other active design pessimistically dominates"),
                      case, detail={"impl": real, "definition": defn})
    mirror_ok = True
    if case["exact"]:
        mf = core.parse_nats(ctx.ask("pessf", ws, Ls, Us, core.nats(act)))
        me = core.parse_nats(ctx.ask("pess", ws, Ls, Us, core.nats(act)))
        if mf != real:
            mirror_ok = False
            ctx.violation("pess-mirror", "compute_pessimistic_set differs from the model (binary64 instance) on "
                          "dyadic data with an integer-row cone", case, kind="F", detail={"impl": real, "model": mf})
        if me != mf:
            ctx.count("exact_vs_float_model_differ_info")
    # ---- (R) against the reference, pair by pair
    data = [x for r in L + U for x in r]
    sm = [-x for x in _margins(W, data, TAU_S)]
    sp = _margins(W, data, TAU_C)
    two = _is2x2(W)
    must_keep, must_drop = [], []
    for i in act:
        cand, sure = False, False
        for j in act:
            if j == i:
                continue
            lo = _ref(ctx, ws, L[j], U[j], L[i], U[i], sm)
            if lo is not False:
                cand = True
            if two and lo is True and _ref(ctx, ws, L[j], U[j], L[i], U[i], sp) is True:
                sure = True
                break
        if not cand:
            must_keep.append(i)
        if sure:
            must_drop.append(i)
    bad_keep = [i for i in must_keep if i not in real]
    bad_drop = [i for i in must_drop if i in real]
    bad_extra = [i for i in real if i not in act]
    if bad_keep or bad_extra:
        ctx.violation("pess-set-unsound", "pessimistic set drops a design that no other active design can "
                      "pessimistically dominate (or returns an inactive one)", case,
                      detail={"impl": real, "must_keep": must_keep, "dropped": bad_keep, "inactive": bad_extra})
    if bad_drop:
        # is every miss reproduced by the binary64 mirror (on the code's own transformed vertices)?
        rounding = mirror_ok and all(
            not all(c > 0 for c in _mirror_codes(ctx, W, L[j], U[j], L[i], U[i]))
            for i in bad_drop for j in act if j != i)
        key = "pess-set-incomplete-float-rounding" if rounding else "pess-set-incomplete"
        ctx.violation(key, "2x2 cone: pessimistic set keeps a design that another active design dominates "
                      "pessimistically with margin", case, detail={"impl": real, "must_drop": must_drop})
    ctx.count("pess_determined_designs", len(must_keep) + len(must_drop))
    ctx.count("pess_active_designs", len(act))
    ctx.case_done(case, 0 < len(real) < len(act), canon=["pess", ws, Ls, Us, act])


def _apply_step(region, st):
    """apply one public mutator to a live region object; returns the mutator's label"""
    from vopy.utils.utils import hyperrectangle_check_intersection

    op = st["op"]
    if op == "update":
        cov = np.diag(np.array(st["var"], dtype=float))
        region.update(np.array(st["mean"], dtype=float), cov, np.array(float(st["scale"])))
        return "update_intersect_iteratively" if region.intersect_iteratively else "update_replace"
    if op in ("intersect", "intersect_wide"):
        lo, up = np.array(st["lower"], dtype=float), np.array(st["upper"], dtype=float)
        overlap = hyperrectangle_check_intersection(np.array(region.lower, dtype=float),
                                                    np.array(region.upper, dtype=float), lo, up)
        region.intersect(lo, up)
        return "intersect_overlapping" if overlap else "intersect_disjoint"
    if op == "assign":
        region.lower = np.array(st["lower"], dtype=float)
        region.upper = np.array(st["upper"], dtype=float)
        return "assign_lower_upper"
    if op == "assign_lower":
        region.lower = np.array(region.lower, dtype=float) - np.array(st["delta"], dtype=float)
        return "assign_lower"
    if op == "assign_upper":
        region.upper = np.array(region.upper, dtype=float) + np.array(st["delta"], dtype=float)
        return "assign_upper"
    raise ValueError(op)


def run_hist(ctx, case):
    """compare, mutate through a public mutator, compare again on the SAME region objects: every answer of
    check_dominates / compute_pessimistic_set must be right for the CURRENT lower/upper read back from the
    objects (certified reference; and equal to the answer on freshly built regions with those bounds)."""
    from vopy.confidence_region import RectangularConfidenceRegion, confidence_region_check_dominates
    from vopy.design_space import FixedPointsDesignSpace

    order, _ = _order(case)
    W = np.array(order.ordering_cone.W, dtype=float)
    ws = core.qmat(W)
    n, m = len(case["L"]), len(case["L"][0])
    ds = FixedPointsDesignSpace(np.zeros((n, 1)), m, confidence_type="hyperrectangle")
    for i in range(n):
        ds.confidence_regions[i] = RectangularConfidenceRegion(
            m, np.array(case["L"][i], dtype=float), np.array(case["U"][i], dtype=float),
            intersect_iteratively=bool(case["iter"][i]))
    regs = ds.confidence_regions
    cls = _algo(case["algo"])
    obj = object.__new__(cls)
    obj.S, obj.P, obj.order, obj.design_space = set(case["S"]), set(case["P"]), order, ds
    act = sorted(set(case["S"]) | set(case["P"]))
    two = _is2x2(W)
    ctx.count("stream_hist")
    label = None
    verdicts = set()
    for k in range(len(case["steps"]) + 1):
        if k > 0:
            st = case["steps"][k - 1]
            try:
                label = _apply_step(regs[st["target"]], st)
            except Exception as e:
                ctx.violation("hist-crash:" + core.exc_key(e), f"mutator {st['op']} raised {type(e).__name__}: {e}", case)
                return
            ctx.count("hist_op_" + label)
        Lc = [[float(x) for x in r.lower] for r in regs]
        Uc = [[float(x) for x in r.upper] for r in regs]
        data = [x for r in Lc + Uc for x in r]
        sm = [-x for x in _margins(W, data, TAU_S)]
        sp = _margins(W, data, TAU_C)
        lo_t, hi_t = {}, {}
        for i in range(n):
            for j in range(n):
                if i == j:
                    continue
                try:
                    real = bool(confidence_region_check_dominates(order, regs[j], regs[i]))
                    fresh = bool(confidence_region_check_dominates(order, _rect(Lc[j], Uc[j]), _rect(Lc[i], Uc[i])))
                except Exception as e:
                    ctx.violation("hist-crash:" + core.exc_key(e), f"check_dominates raised {type(e).__name__}: {e}", case)
                    return
                lo = _ref(ctx, ws, Lc[j], Uc[j], Lc[i], Uc[i], sm)
                hi = _ref(ctx, ws, Lc[j], Uc[j], Lc[i], Uc[i], sp) if lo is True else (False if lo is False else None)
                lo_t[(j, i)], hi_t[(j, i)] = lo, hi
                verdicts.add(real)
                where = "construction" if k == 0 else "mutation through " + label
                det = {"query": k, "pair": [j, i], "impl": real, "fresh_objects": fresh, "lower": Lc, "upper": Uc}
                if real and lo is False:
                    ctx.violation("unsound" if k == 0 else "stale-region:check_dominates:" + label,
                                  f"after {where} check_dominates(R{j}, R{i}) answers True although for the regions' "
                                  "CURRENT bounds some vertex of the first dominates no point of the second "
                                  "(certified)", case, detail=det)
                elif (not real) and hi is True and two:
                    ctx.violation("complete2x2" if k == 0 else "stale-region:check_dominates:" + label,
                                  f"after {where} check_dominates(R{j}, R{i}) answers False although for the regions' "
                                  "CURRENT bounds every vertex of the first dominates a point of the second with "
                                  "margin (2x2 cone)", case, detail=det)
                elif real != fresh:
                    ctx.violation("stale-region-fresh:check_dominates:" + str(label),
                                  f"after {where} the answer on the live objects differs from the answer on freshly "
                                  "built regions with the same bounds", case, kind="F", detail=det)
                else:
                    ctx.count("hist_query_ok")
        try:
            rset = sorted(int(i) for i in cls.compute_pessimistic_set(obj))
        except Exception as e:
            ctx.violation("hist-crash:" + core.exc_key(e), f"compute_pessimistic_set raised {type(e).__name__}: {e}", case)
            return
        must_keep = [i for i in act if all(lo_t[(j, i)] is False for j in act if j != i)]
        must_drop = [i for i in act if two and any(hi_t[(j, i)] is True for j in act if j != i)]
        bad_keep = [i for i in must_keep if i not in rset]
        bad_drop = [i for i in must_drop if i in rset]
        if bad_keep or bad_drop:
            where = "construction" if k == 0 else "mutation through " + label
            key = ("pess-set-unsound" if bad_keep else "pess-set-incomplete") if k == 0 else "stale-region:pess-set:" + label
            ctx.violation(key, f"after {where} compute_pessimistic_set is wrong for the regions' CURRENT bounds: "
                          + (f"drops {bad_keep} which no other active design can dominate" if bad_keep else
                             f"keeps {bad_drop} which another active design dominates with margin"), case,
                          detail={"query": k, "impl": rset, "must_keep": must_keep, "must_drop": must_drop,
                                  "lower": Lc, "upper": Uc})
        else:
            ctx.count("hist_pess_ok")
    ctx.case_done(case, len(verdicts) > 1, canon=["hist", ws, case["L"], case["U"], case["iter"], case["steps"],
                                                   case["S"], case["P"], case["algo"]])


def run_seg(ctx, case):
    from vopy.utils.utils import line_seg_pt_intersect_at_dim

    P1, P2, p = (np.array(case[k], dtype=float) for k in ("P1", "P2", "p"))
    d = int(case["d"])
    ctx.count("seg_cases")
    try:
        r = line_seg_pt_intersect_at_dim(P1, P2, p, d)
    except Exception as e:
        ctx.violation("seg-crash:" + core.exc_key(e), f"line_seg_pt_intersect_at_dim raised {type(e).__name__}", case)
        return
    if r is None or not np.all(np.isfinite(r)):
        impl = "none"
        ctx.count("seg_none" if r is None else "seg_nan")
    else:
        impl = core.qvec(r)
    model = ctx.ask("segf", core.qvec(P1), core.qvec(P2), core.qvec(p), str(d))
    if impl != model:
        ctx.violation("seg-mirror", "line_seg_pt_intersect_at_dim differs from the binary64 mirror of the model",
                      case, kind="F", detail={"impl": impl, "model": model})
    ctx.case_done(case, impl != "none", canon=["seg", case["P1"], case["P2"], case["p"], d])


def run_case(ctx, case):
    kind = case.get("kind", "pair")
    if kind == "pair":
        run_pair(ctx, case)
    elif kind == "pess":
        run_pess(ctx, case)
    elif kind == "seg":
        run_seg(ctx, case)
    elif kind == "hist":
        run_hist(ctx, case)
    elif kind == "r64":
        # self-test of the rounding function against Python's correctly rounded int/int division
        from fractions import Fraction

        f = Fraction(case["num"], case["den"])
        want = core.q(float(f))
        got = ctx.ask("r64", f"{f.numerator}/{f.denominator}")
        if want != got:
            ctx.violation("r64-selftest", "model's binary64 rounding differs from Python's", case, kind="F",
                          detail={"python": want, "model": got})
        ctx.case_done(case, True)
    else:
        raise ValueError(f"unknown case kind {kind}")
