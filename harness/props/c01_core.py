"""Integration stream (C01 / C05): WHOLE runs through the executable decision core `Model/Core.lean`.

C02 / C03 recompute one round's transition from the exported regions, starting every round from the
implementation's own state.  This stream never resynchronises: it records the regions displayed after
every `run_one_step()` of a real run (PaVeBa: balls; PaVeBaGP-IH / PaVeBaPartialGP-rect / VOGP / ε-PAL:
rectangles; built by `harness.stubs.build`, histories scripted by `c01.run_history`), sends the whole
history to the Lean driver in one request (`pcore ball|rect`, `vcore`) and lets `Core.ballCore` /
`Core.rectCore` / `Core.vogpRectCore` — the functions the end-to-end theorems `paveba_ball_end_to_end`,
`paveba_rect_end_to_end`, `vogp_rect_end_to_end`, `epal_rect_end_to_end` are about — run from the initial
state `(all, ∅, ∅)` with oracles computed from those regions by the exact geometry models (C09, C10, C11)
and with its own table of displayed regions (only `S ∪ U` is refreshed).  After every round the model's
(S, P, U) must equal the implementation's (F), as long as every earlier round was *robust*: every oracle
answer among the living designs is the same with all facet thresholds moved by ±τ (τ = 1e-6·scale for
`is_dominated`, rectangular `is_covered` and the pessimistic test, 1e-3·scale for the SOCP of the
ellipsoidal `is_covered`).  After a non-robust round the comparison goes on only if the two states
still agree; otherwise the run is counted as `core_diverged_in_band_info` and left.  A drift anywhere —
geometry, slack, set logic, or the persistence of the regions of P ∖ U — shows as a mismatch in some
later round.

Also checked (F): the final state of `Core.*Core … T` itself equals the last state of the round-by-round
iteration; when the harness found the premise of the property true in every round (exact containment,
`c01.run_history`) and all rounds agreed, the core's own premise check (`pavebaPremiseAt` /
`vogpPremiseAt`: well-formed region containing the true mean, for every refreshed design) must say the
same — then the run is an instance of the end-to-end theorem and its conclusion is what `c01` / `c05`
evaluate at termination (R).
"""
from __future__ import annotations

import numpy as np

from harness import core, stubs

TAU = 1e-6
TAU_BALL_COV = 1e-3
BALL_ALGS = ("PaVeBa",)
RECT_ALGS = ("PaVeBaGP-IH", "PaVeBaPartialGP-rect")
VOGP_ALGS = ("VOGP", "EpsilonPAL")


def _wnorm(W):
    return max(1.0, float(np.max(np.abs(np.asarray(W, dtype=float)).sum(axis=1))))


class Recorder:
    """collects (displayed regions, implementation state) after every round of one real run"""

    def __init__(self, case):
        self.name = case["alg"]
        self.kind = ("ball" if self.name in BALL_ALGS else "rect" if self.name in RECT_ALGS
                     else "vogp" if self.name in VOGP_ALGS else None)
        self.rounds, self.states, self.ext = [], [], [1.0]
        self.usable = self.kind is not None
        self.slack = None
        self.W = None

    def on_round(self, alg, adv, before, active, t):
        if not self.usable:
            return
        regs = alg.design_space.confidence_regions
        if self.W is None:
            self.W = np.asarray(alg.order.ordering_cone.W, dtype=float)
            try:
                self.slack = stubs.expected_slack(alg)
            except Exception:
                self.usable = False
                return
        rows = []
        for i, r in enumerate(regs):
            if self.kind == "ball":
                if not hasattr(r, "sigma"):
                    self.usable = False
                    return
                sg = np.asarray(r.sigma, dtype=float)
                c = np.asarray(r.center, dtype=float).reshape(-1)
                if i in active and not np.array_equal(sg, np.eye(len(c))):
                    self.usable = False          # not a ball: outside this stream (C02/C03 cover ellipsoids)
                    self.why = "sigma_not_identity"
                    return
                a = float(np.asarray(r.alpha).reshape(-1)[0])
                rows.append(list(c) + [a])
                if i in active:
                    self.ext += [abs(float(x)) for x in c] + [abs(a)]
            else:
                if not hasattr(r, "lower"):
                    self.usable = False
                    return
                lo = np.asarray(r.lower, dtype=float).reshape(-1)
                hi = np.asarray(r.upper, dtype=float).reshape(-1)
                rows.append(list(lo) + list(hi))
                if i in active:
                    self.ext += [abs(float(x)) for x in lo] + [abs(float(x)) for x in hi]
        if not all(np.all(np.isfinite(np.asarray(r, dtype=float))) for r in rows):
            # a never-displayed region still holds its constructor value (±inf bounds): replace by a dummy row,
            # the model never reads rows of designs that have not been refreshed
            rows = [r if np.all(np.isfinite(np.asarray(r, dtype=float))) else [0.0] * len(r) for r in rows]
        self.rounds.append(rows)
        st = [sorted(int(i) for i in alg.S), sorted(int(i) for i in alg.P)]
        if self.kind != "vogp":
            st.append(sorted(int(i) for i in alg.U))
        self.states.append(st)

    # ------------------------------------------------------------------------------------------
    def finish(self, ctx, case, res):
        if not self.usable or not self.rounds:
            if self.kind is not None and getattr(self, "why", None):
                ctx.count("core_skipped_" + self.why)
            return
        name = self.name
        W = self.W
        wn = _wnorm(W)
        sl = self.slack
        sv = [abs(float(x)) for x in np.atleast_1d(np.asarray(sl["cov"], dtype=float)).reshape(-1)]
        scale = max(self.ext + sv) * wn
        Y = np.asarray(case["Y"], dtype=float)
        nsl = int(np.atleast_1d(np.asarray(sl["cov"], dtype=float)).size)
        if nsl != 1 and nsl != (len(W) if self.kind == "ball" else W.shape[1]):
            # the predicates' slack-size guard would raise as soon as is_covered is called (D6: C06's verdict);
            # this run simply never reached such a call
            ctx.count("core_skipped_slack_size_inadmissible_D6")
            return
        rounds_q = core.qmats(self.rounds)
        Wq = core.qmat(W)
        if self.kind == "vogp":
            slack_q = core.qvec(np.atleast_1d(np.asarray(sl["cov"], dtype=float)).reshape(-1))
            ans = ctx.ask("vcore", Wq, slack_q, core.q(TAU * scale), core.qmat(Y), rounds_q)
        else:
            slack_q = core.qvec(np.atleast_1d(np.asarray(sl["cov"], dtype=float)).reshape(-1))
            tc = (TAU_BALL_COV if self.kind == "ball" else TAU) * scale
            ans = ctx.ask("pcore", self.kind, Wq, slack_q, core.q(TAU * scale), core.q(tc), core.qmat(Y), rounds_q)
        if ans == "ValueError":
            # the model's slack guard fires although the real run went through without raising
            ctx.violation(f"core-guard:{name}", f"{name}: the real run completed {len(self.rounds)} rounds but the slack "
                          f"{slack_q} does not pass the size guard of the model's geometry predicates", case, kind="F")
            return
        parts = ans.split(" ")
        if ans == "bad-op" or len(parts) != 2:
            raise RuntimeError(f"driver answered {ans[:200]!r} to a core run of {name}")
        per = parts[0].split("|")
        if len(per) != len(self.rounds):
            raise RuntimeError(f"core run: {len(per)} rounds answered for {len(self.rounds)}")
        ctx.count("core_runs_" + name)
        nset = 2 if self.kind == "vogp" else 3
        compared, agreed_all, prem_all = 0, True, True
        for t, entry in enumerate(per):
            f = entry.split(";")
            model = [core.parse_nats(x) for x in f[:nset]]
            robust, prem = f[nset], f[nset + 1]
            impl = self.states[t]
            prem_all = prem_all and prem == "1"
            if robust != "1":
                ctx.count("core_rounds_borderline")
                if model != impl:
                    ctx.count("core_diverged_in_band_info")
                    agreed_all = False
                    break
                continue
            compared += 1
            if model != impl:
                agreed_all = False
                ctx.violation(f"core-run:{name}", f"{name}: running the whole history through the executable decision core "
                              f"(oracles computed from the displayed regions by the exact geometry models, own region table, "
                              f"from the initial state) gives different sets after round {t + 1}, although every oracle answer "
                              f"of every round so far is robust under ±τ", case, kind="F",
                              detail={"round": t + 1, "impl": impl, "model": model,
                                      "impl_prev": self.states[t - 1] if t else None})
                break
        ctx.count("core_rounds_compared", compared)
        if agreed_all:
            ctx.count("core_runs_agreed_to_the_end")
            last = per[-1].split(";")[:nset]
            if parts[1].split(";") != last:
                ctx.violation(f"core-final:{name}", f"{name}: Core.*Core … T differs from the iteration of its own step", case,
                              kind="F", detail={"final": parts[1], "last": last})
            if res.get("status") == "terminated":
                if prem_all:
                    ctx.count("core_theorem_instances")     # hypotheses of the end-to-end theorem hold for this run
                else:
                    # the harness decided containment for every refreshed design exactly; the core adds only
                    # well-formedness (dimension; positive radius / widths)
                    ctx.count("core_premise_wf_failed_info")


def recorder(case):
    r = Recorder(case)
    return r if r.kind is not None else None
