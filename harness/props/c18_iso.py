"""C18 extension families about state that must stay private (imported by c18.py; c18 helpers imported lazily).

* ``readonly`` — real `AdaptivelyDiscretizedDesignSpace` under refine / guarded-refine / region-update
  operations with calls of EVERY public read-only method interleaved (`visualize_design_space` on the
  Agg backend, `should_refine_design`, `calculate_design_vh`, `locate_points`).  Around each such call
  the arrays (`points`, `cells`, `point_depths`, region bounds, `cardinality`, scalar settings) are
  deep-compared with exact Fractions: (R) `readonly-method-mutates-state:<name>`.  The later
  refinements get the usual exact (R) checks (2^d new children, half side, centre, depth+1, parent's
  region, tiling) and the final arrays are compared with the model replay (F).
* ``twoinst`` — two `VOGP_AD` instances A and B (different depth_max / ε / problem) are built UP FRONT by
  the real constructor, then A is run until its ε-covering latch flips and B afterwards (or both are
  stepped round-robin).  Every step of each instance is observed with its own recorder, its own (R)
  checks (P only at max depth, tiling, leaves, set surgery) and its OWN model replay (F, latch per
  instance); around every step the *other* instance's complete state must not change and no mutable
  container may be shared: (R) `instances-share-state:<what>`.
"""
import numpy as np

from harness import core

MUTATORS = {"update", "refine_design", "generate_child_designs"}
READONLY = ["visualize_design_space", "should_refine_design", "calculate_design_vh", "locate_points"]


# ------------------------------------------------------------------------------------------ read-only methods
FIXED_READONLY = [
    {"kind": "readonly", "d": 2, "m": 2, "max_depth": 4, "shape": "fixed",
     "ops": [["V"], ["R", 0], ["V"], ["R", 1], ["U", 2, [0.5, -1.0], [1.5, 0.5]], ["V"], ["Q", 5, 1], ["V"],
             ["R", 3], ["Q", 9, 1], ["V"]]},
    {"kind": "readonly", "d": 2, "m": 3, "max_depth": 3, "shape": "fixed",
     "ops": [["Q", 0, 1], ["V"], ["Q", 4, 1], ["V"], ["Q", 8, 1], ["R", 2], ["V"]]},
    {"kind": "readonly", "d": 1, "m": 2, "max_depth": 5, "shape": "fixed",
     "ops": [["R", 0], ["V"], ["R", 2], ["V"], ["R", 3], ["V"]]},
    {"kind": "readonly", "d": 3, "m": 2, "max_depth": 3, "shape": "fixed",
     "ops": [["R", 0], ["V"], ["R", 8], ["V"]]},
]


def gen_readonly(ctx, rng, j):
    if j < len(FIXED_READONLY):
        return FIXED_READONLY[j]
    d = rng.choice([2, 2, 2, 1, 3])
    m = rng.choice([2, 2, 3])
    md = rng.randint(2, 6)
    depths, leaves, ops = [1], [0], []
    for _ in range(rng.randint(3, 10 if d < 3 else 5)):
        r = rng.random()
        if r < 0.35:
            ops.append(["V"])
            continue
        if r < 0.5:
            ops.append(["U", rng.randrange(len(depths)), [core.dyadic(rng, -8, 8, 2) for _ in range(m)],
                        [core.dyadic(rng, 0, 6, 1) for _ in range(m)]])
            continue
        i = rng.choice(leaves)
        if rng.random() < 0.5:
            b = int(rng.random() < 0.8)
            ops.append(["Q", i, b])
            if not (b and depths[i] < md):
                continue
        else:
            if depths[i] >= 7:
                continue
            ops.append(["R", i])
        leaves.remove(i)
        for _k in range(2 ** d):
            leaves.append(len(depths))
            depths.append(depths[i] + 1)
    ops.append(["V"])
    return {"kind": "readonly", "d": d, "m": m, "max_depth": md, "ops": ops, "shape": "random"}


def _full_state(c18, ds):
    snap = c18.snapshot(ds)
    snap["settings"] = (int(ds.domain_dim), int(ds.objective_dim), int(ds.max_depth), core.frac(ds.delta))
    return snap


def _state_diff(a, b):
    for k in ("cells", "points", "depths", "lowers", "uppers", "cardinality", "settings"):
        if a[k] != b[k]:
            if isinstance(a[k], list):
                n = min(len(a[k]), len(b[k]))
                at = next((i for i in range(n) if a[k][i] != b[k][i]), n)
                return f"{k}[{at}]: {a[k][at] if at < len(a[k]) else '-'} -> {b[k][at] if at < len(b[k]) else '-'}"
            return f"{k}: {a[k]} -> {b[k]}"
    return None


def _call_readonly(ctx, c18, ds, stub, name, rng_i, d, m):
    """call one public read-only method; returns nothing (exceptions of the method are information only)"""
    n = len(ds.points)
    i = rng_i % n
    try:
        if name == "visualize_design_space":
            import matplotlib.pyplot as plt

            plt.switch_backend("Agg")
            try:
                ds.visualize_design_space()
            finally:
                plt.close("all")
        elif name == "should_refine_design":
            stub.forced_std = 0.0 if rng_i % 2 else 1e9
            ds.should_refine_design(stub, i, np.ones(m))
        elif name == "calculate_design_vh":
            ds.calculate_design_vh(stub, i)
            ds.calculate_design_vh(stub, i, depth_offset=-1)
        elif name == "locate_points":
            ds.locate_points(np.array(ds.points[[i, (i + 1) % n]], dtype=float))
    except NotImplementedError:
        ctx.count("readonly_not_implemented_info:" + name)
    except Exception as e:
        ctx.count("readonly_raised_info:" + name + ":" + type(e).__name__)
    finally:
        stub.forced_std = None


def run_readonly(ctx, case):
    from harness.props import c18
    from vopy.design_space import AdaptivelyDiscretizedDesignSpace

    d, m, md = case["d"], case["m"], case["max_depth"]
    ctx.count("readonly_shape_" + case["shape"])
    ctx.count(f"readonly_d{d}")
    ds = AdaptivelyDiscretizedDesignSpace(d, m, c18.DELTA, md)
    stub = c18.scripted_gp_class()(d, m)
    scale = np.ones(m)
    unknown = sorted(nm for nm in dir(ds) if not nm.startswith("_") and callable(getattr(ds, nm))
                     and not isinstance(getattr(ds, nm), type)
                     and nm not in MUTATORS and nm not in READONLY)
    for nm in unknown:
        ctx.count("readonly_unknown_public_method_info:" + nm)
    tokens, answers, refined = [], [], []
    viol, ncalls, k = None, 0, 0
    for op in case["ops"]:
        k += 1
        try:
            if op[0] == "V":
                for nm in READONLY:
                    if not hasattr(ds, nm):
                        continue
                    before = _full_state(c18, ds)
                    _call_readonly(ctx, c18, ds, stub, nm, k + len(ds.points), d, m)
                    ncalls += 1
                    try:
                        after = _full_state(c18, ds)
                    except Exception as e:
                        viol = ("readonly-method-mutates-state:" + nm, f"after {nm}() the design-space arrays cannot "
                                f"be read any more: {type(e).__name__}: {e}")
                        break
                    diff = _state_diff(before, after)
                    if diff:
                        viol = ("readonly-method-mutates-state:" + nm, f"calling the read-only public method {nm}() "
                                f"changed the design space ({len(before['points'])} nodes): {diff}")
                        break
                if viol:
                    break
                continue
            if op[0] == "U":
                _, i, mean, sd = op
                if i >= len(ds.points):
                    break
                stub.forced_mean, stub.forced_stds = mean, sd
                ds.update(stub, scale, [i])
                stub.forced_mean = stub.forced_stds = None
                r = ds.confidence_regions[i]
                tokens.append(f"U:{i}:{core.qvec(np.atleast_1d(r.lower))}:{core.qvec(np.atleast_1d(r.upper))}")
                continue
            i = op[1]
            if i in refined or i >= len(ds.points):
                ctx.count("readonly_diverged")
                break
            if op[0] == "Q":
                stub.forced_std = 0.0 if op[2] else 1e9
                ans = bool(ds.should_refine_design(stub, i, scale))
                stub.forced_std = None
                answers.append(ans)
                tokens.append(f"Q:{i}:{op[2]}")
                if not ans:
                    continue
            else:
                tokens.append(f"R:{i}")
            before_n = len(ds.points)
            kids = [int(x) for x in ds.refine_design(i)]
        except Exception as e:
            viol = ("space-crash:" + core.exc_key(e), f"design-space operation {op[:2]} raised {type(e).__name__}: {e}")
            break
        refined.append(i)
        if kids != list(range(before_n, before_n + 2 ** d)) or len(ds.points) != before_n + 2 ** d:
            viol = ("child-indices", f"refine_design({i}) returned {kids}; arrays grew from {before_n} to {len(ds.points)}")
            break
        snap = c18.snapshot(ds)
        viol = c18.check_arrays(snap, d) or c18.check_children(snap, i, kids, d)
        if viol is None:
            viol = c18.check_tiling(snap, [j for j in range(len(snap["points"])) if j not in set(refined)], d)
        if viol:
            break
    if viol is None:
        snap = c18.snapshot(ds)
        n = len(snap["points"])
        leaves = [j for j in range(n) if j not in set(refined)]
        viol = c18.check_arrays(snap, d) or c18.check_tiling(snap, leaves, d)
        if viol is None and any(snap["points"][j] != [(lo + hi) / 2 for lo, hi in snap["cells"][j]] for j in range(n)):
            viol = ("point-not-centre", "a node's point is not the centre of its cell")
    if viol:
        ctx.violation(viol[0], viol[1], case, kind="R")
        ctx.case_done(case, True)
        return
    ans = ctx.ask("space", str(d), str(m), str(md), ";".join(tokens) if tokens else "_")
    if not ans.startswith("ok "):
        ctx.violation("space-model-undefined", f"model answers {ans!r} on an operation sequence the code executed",
                      case, kind="F")
    else:
        f = ans.split(" ")[1:]
        where = c18.diff_space(snap, c18.parse_space(f))
        if where:
            ctx.violation("space-arrays", f"design-space arrays differ from the model replay at {where}", case, kind="F")
        elif core.parse_bools(f[5]) != answers:
            ctx.violation("space-should-refine", "should_refine_design answers differ from the model", case, kind="F")
    ctx.count("readonly_calls", ncalls)
    ctx.case_done(case, ncalls > 0 and len(refined) >= 1)


# ------------------------------------------------------------------------------------------ two live instances
def _quad(d, out_dim, depth_max, shift=0.0):
    return {"name": "quad", "noise_var": 0.01, "depth_max": depth_max,
            "A": [[1.0 + 0.5 * j] * d for j in range(out_dim)],
            "T": [[0.25 + 0.5 * (j % 2) + shift] * d for j in range(out_dim)], "C": [0.0] * out_dim}


_STUB = {"kind": "stub", "s0": 1.0, "decay": 0.5, "ls": 0.5, "var": 1.0}

FIXED_TWOINST = [
    # A is finished after one round (the root is its finest level); B has not started yet
    {"kind": "twoinst", "mode": "sequential", "seed": 1, "shape": "fixed",
     "A": {"problem": _quad(2, 2, 1), "model": _STUB, "cone": "comp:2", "eps": 0.5, "contraction": 32, "rounds": 6},
     "B": {"problem": _quad(2, 2, 3, 0.125), "model": _STUB, "cone": "comp:2", "eps": 0.1, "contraction": 32, "rounds": 12}},
    # B is in mid-run (depth-2 nodes active) when A's latch flips
    {"kind": "twoinst", "mode": "interleaved", "seed": 2, "shape": "fixed",
     "A": {"problem": _quad(1, 2, 2), "model": _STUB, "cone": "comp:2", "eps": 0.25, "contraction": 32, "rounds": 12},
     "B": {"problem": _quad(1, 2, 4, 0.125), "model": _STUB, "cone": "theta:60", "eps": 0.05, "contraction": 4, "rounds": 16}},
    {"kind": "twoinst", "mode": "sequential", "seed": 3, "shape": "fixed",
     "A": {"problem": {"name": "BraninCurrin", "noise_var": 0.01, "depth_max": 2},
           "model": {"kind": "gp", "ls": 0.25, "cf": 0.5, "var": 0.5}, "cone": "comp:2", "eps": 0.4, "contraction": 32,
           "rounds": 12},
     "B": {"problem": {"name": "BraninCurrin", "noise_var": 0.01, "depth_max": 3},
           "model": {"kind": "gp", "ls": 0.25, "cf": 0.5, "var": 0.5}, "cone": "comp:2", "eps": 0.2, "contraction": 32,
           "rounds": 10}},
]


def gen_twoinst(ctx, rng, j):
    if j < len(FIXED_TWOINST):
        return FIXED_TWOINST[j]

    def one(dm_choices, rounds):
        d = rng.choice([1, 2, 2])
        out = 2
        stub = dict(_STUB, s0=rng.choice([0.5, 1.0, 2.0]), decay=rng.choice([0.5, 0.75]))
        return {"problem": _quad(d, out, rng.choice(dm_choices), rng.choice([0.0, 0.125])), "model": stub,
                "cone": rng.choice(["comp:2", "theta:60", "theta:90", "theta:120"]),
                "eps": rng.choice([0.05, 0.1, 0.25, 0.5]), "contraction": rng.choice([4, 32, 128]), "rounds": rounds}

    return {"kind": "twoinst", "mode": rng.choice(["sequential", "sequential", "interleaved"]),
            "seed": rng.randrange(10 ** 6), "shape": "random",
            "A": one([1, 1, 2, 2, 3], 14), "B": one([2, 3, 3, 4], 14)}


SHARED_DS = ["points", "cells", "point_depths", "confidence_regions"]


def _alg_state(c18, alg):
    return {"space": c18.snapshot(alg.design_space), "S": sorted(int(i) for i in alg.S),
            "P": sorted(int(i) for i in alg.P), "enable_epsilon_covering": bool(alg.enable_epsilon_covering),
            "sample_count": int(alg.sample_count), "round": int(alg.round),
            "max_discretization_depth": int(alg.max_discretization_depth)}


def _alg_diff(a, b):
    for k in ("enable_epsilon_covering", "S", "P", "sample_count", "round", "max_discretization_depth"):
        if a[k] != b[k]:
            return k, f"{a[k]} -> {b[k]}"
    for k in ("depths", "cells", "points", "lowers", "uppers", "cardinality"):
        if a["space"][k] != b["space"][k]:
            return ("point_depths" if k == "depths" else k), "design-space array changed"
    return None


def run_twoinst(ctx, case):
    import torch
    from harness.props import c18
    import vopy.algorithms.vogp_ad as vad

    np.random.seed(case["seed"])
    torch.manual_seed(case["seed"])
    ctx.count("twoinst_mode_" + case["mode"])
    ctx.count("twoinst_shape_" + case["shape"])
    built = {}
    for tag in ("A", "B"):
        spec = case[tag]
        saved = vad.get_gpytorch_model_w_known_hyperparams
        vad.get_gpytorch_model_w_known_hyperparams = c18.model_factory(
            spec["model"], lambda problem: (lambda X: problem.evaluate(np.array(X, dtype=float), noisy=False)))
        try:
            problem = c18.make_problem(spec["problem"])
            alg = vad.VOGP_AD(spec["eps"], c18.DELTA, problem, c18.make_order(spec["cone"]),
                              spec["problem"]["noise_var"], conf_contraction=spec["contraction"])
        except Exception as e:
            ctx.count("twoinst_ctor_crash_info:" + core.exc_key(e))
            ctx.case_done(case, False)
            return
        finally:
            vad.get_gpytorch_model_w_known_hyperparams = saved
        built[tag] = (alg, problem)
    A, B = built["A"][0], built["B"][0]

    def shared_containers():
        out = []
        if A.design_space is B.design_space:
            out.append("design_space")
        for nm in SHARED_DS:
            if getattr(A.design_space, nm, None) is getattr(B.design_space, nm, object()):
                out.append(nm)
        for nm in ("S", "P"):
            if getattr(A, nm) is getattr(B, nm):
                out.append(nm)
        return out

    def fail(key, what, detail=None):
        ctx.violation(key, what, case, kind="R", detail=detail)
        ctx.case_done(case, True)

    sh = shared_containers()
    if sh:
        return fail("instances-share-state:" + sh[0], f"two VOGP_AD instances built one after the other share the "
                    f"mutable object(s) {sh} (same Python object in both)")
    # a freshly built instance must be in the initial state whatever else is alive
    for tag, alg in (("A", A), ("B", B)):
        st = _alg_state(c18, alg)
        if st["S"] != [0] or st["P"] or st["enable_epsilon_covering"] or st["space"]["depths"] != [1]:
            return fail("instances-share-state:initial", f"instance {tag} is not in the initial state right after "
                        f"construction (S={st['S']}, P={st['P']}, latch={st['enable_epsilon_covering']}, "
                        f"point_depths={st['space']['depths']})")
    gens = {t: c18._observe_steps(ctx, case, built[t][0], built[t][1], case[t]["problem"]["depth_max"],
                                  case[t]["problem"]["name"], case[t]["model"]["kind"], finish=False,
                                  rounds=case[t]["rounds"], tag=t) for t in ("A", "B")}
    alive = {"A": True, "B": True}
    nviol0 = ctx.counters.get("violations_R", 0) + ctx.counters.get("violations_F", 0) + ctx.counters.get("known_finding_hits", 0)
    steps = {"A": 0, "B": 0}

    def step(t):
        """one observed round of instance t; False if the case is over (violation reported)"""
        o = "B" if t == "A" else "A"
        other = built[o][0]
        before = _alg_state(c18, other)
        try:
            next(gens[t])
            steps[t] += 1
        except StopIteration:
            alive[t] = False
        now = ctx.counters.get("violations_R", 0) + ctx.counters.get("violations_F", 0) + ctx.counters.get("known_finding_hits", 0)
        try:
            after = _alg_state(c18, other)
        except Exception as e:
            fail("instances-share-state:arrays", f"after a round of instance {t} the arrays of instance {o} cannot be read: {e}")
            return False
        diff = _alg_diff(before, after)
        if diff:
            fail("instances-share-state:" + diff[0], f"a round of instance {t} changed {diff[0]} of the other live "
                 f"instance {o} ({diff[1]}); {o} had done {steps[o]} rounds", detail={"stepped": t, "round": steps[t]})
            return False
        sh = shared_containers()
        if sh:
            fail("instances-share-state:" + sh[0], f"instances A and B share the mutable object(s) {sh}")
            return False
        if now != nviol0:
            ctx.case_done(case, True)
            return False
        return True

    if case["mode"] == "sequential":
        order = []
        while alive["A"] and not A.enable_epsilon_covering:
            if not step("A"):
                return
        if A.enable_epsilon_covering:
            ctx.count("twoinst_A_latched_before_B")
        while alive["B"]:
            if not step("B"):
                return
        while alive["A"]:
            if not step("A"):
                return
    else:
        while alive["A"] or alive["B"]:
            for t in ("A", "B"):
                if alive[t] and not step(t):
                    return
    ctx.count("twoinst_rounds", steps["A"] + steps["B"])
    if A.enable_epsilon_covering != B.enable_epsilon_covering:
        ctx.count("twoinst_latches_differ_at_end")
    ctx.case_done(case, steps["A"] >= 1 and steps["B"] >= 2)
