"""C16 — the empirical model reports per-design running statistics of all samples.

Real `vopy.models.EmpiricalMeanVarModel` driven through arbitrary add_sample / update / clear_data /
flag-toggle / predict histories, against

* (R) an independent accumulator written from the property's words (the samples added for a design
  since the last clear, as of the last update) whose exact mean / population variance is computed by
  the Lean definitions `Empirical.meanOf` / `Empirical.varOf` (driver op `stat`) — the statistics the
  theorems of `Props/C16.lean` say `predict` reports — plus: out-of-range adds are rejected, re-batched
  / permuted / interleaved histories with the same per-design multisets predict the same;
* (F) the Lean state machine `Empirical.run` replaying the same history (driver op `run`): exception
  enum of every call and every prediction.

Values are dyadic, so the sums inside `np.mean` / `np.var` are exact; the final division is compared
at 1e-12 relative, and *exactly* when the sample count of the design is a power of two.

Aliasing dimension (R): the observation array of every add_sample call is a slice of one preallocated
buffer that is refilled for the next call, and it, the index array/list and every array returned by
predict are overwritten with garbage right after the call; predictions must still be the statistics of
the values at the time of the call (`aliasing:add_sample-input`, `aliasing:predict-output`).
"""
from fractions import Fraction

import numpy as np

from harness import core

TITLE = "EmpiricalMeanVarModel histories vs Lean model / exact running statistics"
RULE = ("cases: histories of add_sample (indices as list/tuple/set/ndarray, repeated and interleaved "
        "designs, dyadic values), update, clear_data, flag toggles (as Auer/PaVeBa do), predict; shapes: "
        "single batch, interleaved rounds, clears (incl. empty clears), stale (update omitted), flags, "
        "rejected adds (index >= count, length mismatch), power-of-two counts, long PaVeBa-like runs, "
        "a fixed family of two/three live model objects driven interleaved (each must behave as if alone; "
        "no shared containers), a fixed family of tie cases (2/3/5 identical samples; single/split/interleaved; +-offset; int/float "
        "arrays; noise_var 0.25/1/4/0; tracked or not; then-one-different, two-distinct-then-duplicates), "
        "noise_var grid {0.0, 0, np 0.0, 1e-12, 0.25, 1, 4} (every 3rd case), large common offsets 2^20..2^30 / "
        "1e8 per (design, objective) with small dyadic spread (every 4th case), "
        "re-batched/permuted pairs of histories, quirks (negative indices, empty adds, multi-sample rows); "
        "non-trivial = some predicted design holds >= 2 samples that arrived in >= 2 different add calls, "
        "or an add is rejected between accepted ones; distinct by the full op list")
ASSUMPTIONS = ["sample values and noise_var are dyadic rationals of small height so float sums are exact",
               "indices are Python/numpy integers (float or bool indices are not exercised)"]

TOL = Fraction(1, 10 ** 12)


# ----------------------------------------------------------------------------- generators
def _val(rng, p):
    return core.dyadic(rng, -32, 32, p)


def _rows(rng, n, m, p):
    return [[_val(rng, p) for _ in range(m)] for _ in range(n)]


def _add(rng, m, count, p, size=None, kind=None, designs=None):
    pool = designs if designs else list(range(count))
    n = size if size is not None else rng.choice([1, 1, 2, 3, 4, 6])
    kind = kind or rng.choice(["list", "list", "ndarray", "tuple", "set"])
    if kind == "set":
        idx = rng.sample(pool, min(n, len(pool)))
        if rng.random() < 0.15 and len(idx) >= 1:
            idx.append(idx[0])          # duplicate collapses in the set: length mismatch
        n_y = len(idx)
    else:
        idx = [rng.choice(pool) for _ in range(n)]
        n_y = n
    return {"op": "add", "kind": kind, "idx": idx, "Y": _rows(rng, n_y, m, p)}


def _final(count, rng=None):
    allidx = list(range(count))
    if rng is not None:
        rng.shuffle(allidx)
    return [{"op": "update"}, {"op": "predict", "idx": allidx}]


def _history(rng, m, count, p, shape, thorough):
    ops = []
    if shape == "single":
        ops.append(_add(rng, m, count, p, size=rng.randint(1, 10)))
    elif shape == "interleaved":
        for _ in range(rng.randint(3, 14)):
            ops.append(_add(rng, m, count, p))
            r = rng.random()
            if r < 0.3:
                ops.append({"op": "update"})
            if r < 0.2:
                ops.append({"op": "predict", "idx": [rng.randrange(count) for _ in range(rng.randint(1, 4))]})
    elif shape == "clears":
        if rng.random() < 0.4:
            ops.append({"op": "clear"})                      # empty clear
        for _ in range(rng.randint(2, 10)):
            ops.append(_add(rng, m, count, p))
            r = rng.random()
            if r < 0.25:
                ops.append({"op": "clear"})
                if rng.random() < 0.3:
                    ops.append({"op": "clear"})
                if rng.random() < 0.5:                        # predict right after clear, update omitted
                    ops.append({"op": "predict", "idx": list(range(count))})
            elif r < 0.5:
                ops.append({"op": "update"})
                ops.append({"op": "predict", "idx": list(range(count))})
    elif shape == "stale":
        if rng.random() < 0.3:
            ops.append({"op": "predict", "idx": [0]})        # before any update
        ops.append(_add(rng, m, count, p, size=rng.randint(1, 5)))
        ops.append({"op": "update"})
        for _ in range(rng.randint(1, 5)):
            ops.append(_add(rng, m, count, p))
            ops.append({"op": "predict", "idx": list(range(count))})   # update omitted: stale statistics
    elif shape == "flags":
        style = rng.choice(["auer", "paveba", "random"])
        if style == "paveba":
            ops.append({"op": "flags", "tm": True, "tv": False})
        for _ in range(rng.randint(2, 8)):
            ops.append(_add(rng, m, count, p))
            if style == "auer":
                ops += [{"op": "update"}, {"op": "flags", "tm": True, "tv": False},
                        {"op": "predict", "idx": list(range(count))},
                        {"op": "flags", "tm": True, "tv": True},
                        {"op": "predict", "idx": list(range(count))}]
            elif style == "paveba":
                ops += [{"op": "update"}, {"op": "predict", "idx": list(range(count))}]
            else:
                if rng.random() < 0.5:
                    ops.append({"op": "flags", "tm": rng.random() < 0.6, "tv": rng.random() < 0.6})
                if rng.random() < 0.6:
                    ops.append({"op": "update"})
                if rng.random() < 0.6:
                    ops.append({"op": "predict", "idx": list(range(count))})
        if style != "auer" and rng.random() < 0.5:
            ops.append({"op": "flags", "tm": True, "tv": True})
    elif shape == "reject":
        for _ in range(rng.randint(2, 8)):
            r = rng.random()
            a = _add(rng, m, count, p, size=rng.randint(1, 5), kind=rng.choice(["list", "ndarray", "tuple"]))
            if r < 0.35:       # index == count or beyond, somewhere in the batch
                a["idx"][rng.randrange(len(a["idx"]))] = count + rng.choice([0, 0, 1, 5])
            elif r < 0.55:     # length mismatch, either way
                if rng.random() < 0.5 and len(a["Y"]) > 0:
                    a["Y"] = a["Y"][:-1]
                else:
                    a["Y"] = a["Y"] + _rows(rng, 1, m, p)
            ops.append(a)
            if rng.random() < 0.3:
                ops += [{"op": "update"}, {"op": "predict", "idx": list(range(count))}]
    elif shape == "pow2":
        designs = rng.sample(range(count), min(count, rng.randint(1, 3)))
        target = {d: rng.choice([1, 2, 4, 8, 16]) for d in designs}
        todo = [d for d, k in target.items() for _ in range(k)]
        rng.shuffle(todo)
        while todo:
            k = rng.randint(1, min(5, len(todo)))
            batch, todo = todo[:k], todo[k:]
            ops.append({"op": "add", "kind": rng.choice(["list", "ndarray"]), "idx": batch,
                        "Y": _rows(rng, len(batch), m, p)})
    elif shape == "long":
        # PaVeBa / Auer style: every round samples each active design once; the active set shrinks
        active = list(range(count))
        rounds = rng.randint(30, 120 if thorough else 60)
        as_set = rng.random() < 0.5
        for t in range(rounds):
            if len(active) > 1 and rng.random() < 0.05:
                active.remove(rng.choice(active))
            idx = list(active)
            ops.append({"op": "add", "kind": "set" if as_set else "list", "idx": idx,
                        "Y": _rows(rng, len(idx), m, min(p, 2))})
            ops.append({"op": "update"})
            if t % 10 == 9:
                ops.append({"op": "predict", "idx": list(active)})
    elif shape == "quirk":
        for _ in range(rng.randint(2, 7)):
            r = rng.random()
            a = _add(rng, m, count, p, kind=rng.choice(["list", "ndarray", "tuple"]))
            if r < 0.25:       # negative index: wraps, or IndexError in the middle of the loop
                a["idx"][rng.randrange(len(a["idx"]))] = -rng.randint(1, count + 2)
            elif r < 0.4:      # empty add
                a["idx"], a["Y"] = [], []
            elif r < 0.55:     # rows of 2m entries: stored as two samples
                a["Y"] = [row + [_val(rng, p) for _ in range(m)] for row in a["Y"]]
            elif r < 0.65 and m > 1:   # a row of the wrong length: ValueError in the middle of the loop
                k = rng.randrange(len(a["Y"]))
                a["Y"] = [row + ([_val(rng, p)] if i >= k else []) for i, row in enumerate(a["Y"])]
            ops.append(a)
            if rng.random() < 0.4:
                ops += [{"op": "update"}, {"op": "predict", "idx": list(range(count))}]
            if rng.random() < 0.15:
                ops.append({"op": "predict", "idx": [rng.choice([-1, -count, -count - 1, count, count + 3])]})
    else:
        raise ValueError(shape)
    return ops


SHAPES = ["single", "interleaved", "interleaved", "clears", "stale", "flags", "flags", "reject",
          "pow2", "long", "quirk", "perm"]


NOISE_GRID = [(0.0, "float"), (0, "int"), (0.0, "np"), (1e-12, "float"), (0.25, "float"), (1, "int"),
              (4.0, "np"), (0.0, "float")]
OFFSETS = [2.0 ** 20, 2.0 ** 24, 2.0 ** 30, -(2.0 ** 27), 1.0e8, 0.0]


def _apply_offsets(ops, off, m, count):
    """add the design's per-objective offset to every well-shaped sample row of every add"""
    for op in ops:
        if op["op"] != "add":
            continue
        order = list(set(op["idx"])) if op["kind"] == "set" else list(op["idx"])
        if len(order) != len(op["Y"]):
            continue
        op["Y"] = [[v + off[i][j] for j, v in enumerate(y)] if (0 <= i < count and len(y) == m) else y
                   for i, y in zip(order, op["Y"])]


def _noise_obj(case):
    form = case.get("noise_form", "float")
    if form == "int":
        return int(case["noise"])
    if form == "np":
        return np.float64(case["noise"])
    return float(case["noise"])


def _tie_cases(seed):
    """Deterministic structured family (own RNG sub-stream; the same shapes in every run): a design whose
    2 / 3 / 5 samples are ALL equal — population variance exactly 0, not the configured noise variance —
    delivered as one batch, split batches or interleaved with another design; with and without a large
    offset; integer and float sample arrays; noise_var 0.25 / 1 / 4 and 0 (control: both readings agree);
    variances tracked or not; then `all equal, then one different` and `two distinct, then duplicates`."""
    import random

    rng = random.Random(f"C16-ties:{seed}")
    k = 0
    for noise in (0.25, 1.0, 4.0, 0.0):
        for n_same in (2, 3, 5):
            for layout in ("single", "split", "interleaved"):
                k += 1
                m, count = 2 + k % 2, 3
                off = [0.0, 2.0 ** 24][k % 2]
                as_int = (k // 2) % 2 == 0
                tv0 = (k % 5) != 0
                tie = [float(rng.randint(-8, 8)) + off for _ in range(m)]
                if not as_int:
                    tie = [v + rng.choice([0.5, 0.25, -0.125]) for v in tie]
                other = [[float(rng.randint(-8, 8)) for _ in range(m)] for _ in range(n_same)]
                dt = "int" if as_int else "float"
                ops = []
                if layout == "single":
                    ops.append({"op": "add", "kind": "list", "idx": [0] * n_same + [1, 1], "dtype": dt,
                                "Y": [list(tie) for _ in range(n_same)] + other[:2]})
                elif layout == "split":
                    for _ in range(n_same):
                        ops += [{"op": "add", "kind": "ndarray", "idx": [0], "dtype": dt, "Y": [list(tie)]},
                                {"op": "update"}, {"op": "predict", "idx": [0, 1, 2]}]
                else:
                    for j in range(n_same):
                        idx, Y = ([0, 1], [list(tie), other[j]]) if j % 2 == 0 else ([1, 0], [other[j], list(tie)])
                        ops.append({"op": "add", "kind": "tuple", "idx": idx, "dtype": dt, "Y": Y})
                ops += [{"op": "update"}, {"op": "predict", "idx": [0, 1, 2]}]
                if not tv0:
                    ops += [{"op": "flags", "tm": True, "tv": True}, {"op": "update"},
                            {"op": "predict", "idx": [2, 1, 0]}]
                variant = k % 3
                if variant == 0:      # all equal, then one different sample
                    diff = list(tie)
                    diff[0] += 2.0
                    ops += [{"op": "add", "kind": "list", "idx": [0], "dtype": dt, "Y": [diff]},
                            {"op": "update"}, {"op": "predict", "idx": [0, 1, 2]}]
                elif variant == 1:    # two distinct (design 2), then duplicates of the first
                    a = [float(rng.randint(-4, 4)) + off for _ in range(m)]
                    b = [v + 1.0 for v in a]
                    ops += [{"op": "add", "kind": "list", "idx": [2, 2], "dtype": dt, "Y": [a, b]},
                            {"op": "update"}, {"op": "predict", "idx": [2]},
                            {"op": "add", "kind": "list", "idx": [2, 2, 2], "dtype": dt, "Y": [a, a, a]},
                            {"op": "update"}, {"op": "predict", "idx": [0, 1, 2]}]
                yield {"kind": "hist", "shape": "ties", "m": m, "count": count, "noise": noise,
                       "noise_form": "float", "tm": True, "tv": tv0, "y1d": False, "ops": ops}


def _multi_cases(seed):
    """Deterministic family (own RNG sub-stream, in every run): two or three live EmpiricalMeanVarModel
    objects in one process — same and different design_count / output_dim — with their calls interleaved
    (add to A, construct B, add to B, update both, clear B, predict A, ...).  Each object must behave as if it
    were alone."""
    import random

    rng = random.Random(f"C16-multi:{seed}")
    for k in range(8):
        nm = 2 if k % 3 else 3
        same = k % 2 == 0
        m0, c0 = rng.choice([1, 2, 3]), rng.randint(2, 5)
        specs = []
        for j in range(nm):
            m, count = (m0, c0) if same else (rng.choice([1, 2, 3]), rng.randint(1, 6))
            p = rng.choice([0, 1, 2])
            ops = [_add(rng, m, count, p, size=rng.randint(2, 5), kind="list")]
            ops += _history(rng, m, count, p, ["interleaved", "clears", "stale"][(k + j) % 3], False)
            if j == nm - 1:
                ops.insert(len(ops) // 2, {"op": "clear"})          # the later-built object is cleared in the middle
            ops += _final(count)
            specs.append({"m": m, "count": count, "noise": [0.25, 1.0, 4.0][(k + j) % 3], "noise_form": "float",
                          "tm": True, "tv": True, "y1d": False, "ops": ops})
        # schedule: A is built and gets its first samples, then B (then C) is built, then everything interleaves
        sched = [0, 0]
        left = [len(sp["ops"]) + 1 for sp in specs]
        left[0] -= 2
        for j in range(1, nm):
            sched += [j, j]
            left[j] -= 2
            sched.append(0 if left[0] > 0 else j)
            left[sched[-1]] -= 1
        pool = [j for j in range(nm) for _ in range(max(0, left[j]))]
        rng.shuffle(pool)
        sched += pool
        yield {"kind": "multi", "shape": "multi-instance", "specs": specs, "schedule": sched}


def _run_multi(ctx, case):
    specs = case["specs"]
    probes = [_Probe(ctx, True) for _ in specs]
    holders = [{} for _ in specs]
    gens = [_execute_gen(probes[j], sp, sp["ops"], f"model{j}", True, True, holders[j]) for j, sp in enumerate(specs)]
    done = [False] * len(specs)
    results = [None] * len(specs)

    def shared():
        live = [h["model"] for h in holders if "model" in h]
        for a in range(len(live)):
            for b in range(a + 1, len(live)):
                A, B = live[a], live[b]
                if A.design_samples is B.design_samples:
                    return "two model objects hold the same design_samples container"
                for x in A.design_samples:
                    for y in B.design_samples:
                        if x is y or (x.size and y.size and np.shares_memory(x, y)):
                            return "two model objects hold the same sample array"
                for attr in ("means", "variances"):
                    x, y = getattr(A, attr, None), getattr(B, attr, None)
                    if isinstance(x, np.ndarray) and isinstance(y, np.ndarray) and (x is y or np.shares_memory(x, y)):
                        return f"two model objects hold the same `{attr}` array"
        return None

    def advance(j):
        if done[j]:
            return
        try:
            next(gens[j])
        except StopIteration as e:
            done[j] = True
            results[j] = e.value

    for step, j in enumerate(list(case["schedule"]) + [j for j in range(len(specs)) for _ in range(10 ** 4)]):
        if all(done):
            break
        advance(j)
        why = shared()
        if why:
            ctx.violation("instances-share-state", why + " (every EmpiricalMeanVarModel must own its data)", case,
                          detail={"step": step})
            return
        for i, pr in enumerate(probes):
            if pr.failed is not None:
                key, what, kind, detail = pr.failed
                ctx.violation(key, f"with {len(specs)} live model objects driven interleaved, model {i}: " + what,
                              case, kind=kind, detail={"model": i, "step": step, "detail": detail})
                return
    ctx.case_done(case, True)


def gen(ctx):
    rng = ctx.rng
    thorough = ctx.tier == "thorough"
    if ctx.worker == 0:
        yield from _tie_cases(ctx.seed)
        yield from _multi_cases(ctx.seed)
    for k in range(ctx.n(300, 20000)):
        shape = SHAPES[k % len(SHAPES)] if k < 3 * len(SHAPES) else rng.choice(SHAPES)
        m = rng.choice([1, 2, 2, 3, 4])
        count = rng.randint(1, 8) if shape != "long" else rng.randint(2, 12 if thorough else 6)
        p = rng.choice([0, 1, 2, 3])
        noise, noise_form = rng.randint(1, 32) / 16.0, "float"
        if k % 3 == 0:      # configuration grid incl. the noise-free setting and int / numpy-scalar forms
            noise, noise_form = NOISE_GRID[(k // 3) % len(NOISE_GRID)]
        base = {"m": m, "count": count, "noise": noise, "noise_form": noise_form, "shape": shape,
                "tm": True, "tv": True, "y1d": bool(m == 1 and rng.random() < 0.3)}
        off = None
        if k % 4 == 1:      # large common offset per (design, objective), small exactly representable spread
            off = [[rng.choice(OFFSETS) for _ in range(m)] for _ in range(count)]
            base["offsets"] = True
        if shape == "perm":
            n = rng.randint(2, 16)
            pairs = [[rng.randrange(count), [_val(rng, p) for _ in range(m)]] for _ in range(n)]
            if off is not None:
                pairs = [[i, [v + off[i][j] for j, v in enumerate(y)]] for i, y in pairs]
            perm = list(range(n))
            rng.shuffle(perm)

            def cuts():
                c, left = [], n
                while left > 0:
                    k_ = rng.randint(1, min(left, 5))
                    c.append(k_)
                    left -= k_
                return c
            base.update({"kind": "perm", "pairs": pairs, "perm": perm, "cutsA": cuts(), "cutsB": cuts(),
                         "updates_between": rng.random() < 0.5})
            yield base
            continue
        if shape == "flags" and rng.random() < 0.3:
            base["tm"], base["tv"] = rng.random() < 0.7, rng.random() < 0.5
        ops = _history(rng, m, count, p, shape, thorough)
        ops += _final(count, rng)
        if shape in ("flags", "stale") and rng.random() < 0.5:
            ops += [{"op": "flags", "tm": True, "tv": True}] + _final(count)
        if off is not None:
            _apply_offsets(ops, off, m, count)
        base.update({"kind": "hist", "ops": ops})
        yield base


# ----------------------------------------------------------------------------- execution
def _container(kind, idx):
    if kind == "list":
        return list(idx), list(idx)
    if kind == "tuple":
        return tuple(idx), list(idx)
    if kind == "ndarray":
        return np.array(idx, dtype=int), list(idx)
    if kind == "set":
        s = set(idx)
        return s, list(s)       # the model is told the iteration order the zip will see
    raise ValueError(kind)


def _ints(l):
    return ",".join(str(int(i)) for i in l) if l else "_"


def _is_pow2(n):
    return n >= 1 and (n & (n - 1)) == 0


def _near(x, ref, scale, exact):
    try:
        fx = core.frac(x)
    except (ValueError, OverflowError):
        return False
    if exact:
        return fx == ref
    return abs(fx - ref) <= TOL * max(1, scale)


class _Probe:
    """ctx stand-in for one execution: captures the first violation instead of reporting it; counters
    and notes are forwarded only when `forward` is set (the aliasing re-runs are silent)."""

    def __init__(self, ctx, forward):
        self._ctx, self._fw, self.failed = ctx, forward, None

    def ask(self, *a):
        return self._ctx.ask(*a)

    def count(self, key, k=1):
        if self._fw:
            self._ctx.count(key, k)

    def info(self, msg):
        if self._fw:
            self._ctx.info(msg)

    def violation(self, key, what, case, kind="R", detail=None):
        if self.failed is None:
            self.failed = (key, what, kind, detail)


GARBAGE = 977.125


EPS = Fraction(1, 2 ** 52)


def _tol_mean(ref):
    """np.mean: exact sum (dyadic values), one rounding in the division"""
    return TOL + 4 * EPS * abs(ref)


def _tol_var(ref, mean_ref):
    """np.var (two-pass): the mean is off by at most eps*|mean|; the deviations are then exact, so the result
    is off by that error squared plus ordinary relative rounding.  (A one-pass E[y^2]-E[y]^2 is off by
    ~eps*mean^2, far outside this band when the samples share a large offset.)"""
    return TOL * max(1, abs(ref)) + 4 * (EPS * abs(mean_ref)) ** 2


def _within(x, ref, tol, exact=False):
    try:
        fx = core.frac(x)
    except (ValueError, OverflowError):
        return False
    return fx == ref if exact else abs(fx - ref) <= tol


def _execute(ctx, case, ops, tag=""):
    """One history with the aliasing dimension switched on: (a) every array handed to add_sample (the
    observation buffer — one preallocated array refilled for each call — and an index array / list) is
    overwritten with garbage right after the call, (b) every array returned by predict is overwritten
    after it has been copied.  If that run violates the property it is repeated silently without (a)/(b)
    to tell an aliasing defect (keys `aliasing:add_sample-input`, `aliasing:predict-output`) from an
    ordinary one."""
    pr = _Probe(ctx, True)
    r = _execute_raw(pr, case, ops, tag, scrub=True, mutate=True)
    if pr.failed is None:
        return r
    key, what, kind, detail = pr.failed
    if kind == "R":
        plain = _Probe(ctx, False)
        _execute_raw(plain, case, ops, tag, scrub=False, mutate=False)
        if plain.failed is None:
            only_in = _Probe(ctx, False)
            _execute_raw(only_in, case, ops, tag, scrub=True, mutate=False)
            if only_in.failed is not None:
                key2 = "aliasing:add_sample-input"
                what2 = ("the model keeps a reference to an array passed to add_sample: overwriting the caller's "
                         "buffer after the call changes a later prediction (" + what + ")")
            else:
                key2 = "aliasing:predict-output"
                what2 = ("the model hands out its internal arrays from predict: overwriting a returned array "
                         "changes a later prediction (" + what + ")")
            ctx.violation(key2, what2, case, kind="R", detail={"first_failure": key, "detail": detail})
            return None
    ctx.violation(key, what, case, kind=kind, detail=detail)
    return None


def _execute_raw(ctx, case, ops, tag, scrub, mutate):
    g = _execute_gen(ctx, case, ops, tag, scrub, mutate)
    try:
        while True:
            next(g)
    except StopIteration as e:
        return e.value


def _execute_gen(ctx, case, ops, tag, scrub, mutate, holder=None):
    """Run one history on the real class, the Lean state machine (F) and the accumulator (R); a generator
    that pauses after the construction and after every call, so that several live model objects can be
    driven interleaved (`multi` cases).  Returns the list of (idx, means, covs) of the successful predictions."""
    from vopy.models import EmpiricalMeanVarModel

    m, count, noise = case["m"], case["count"], case["noise"]
    try:
        model = EmpiricalMeanVarModel(1, m, _noise_obj(case), count, track_means=case["tm"],
                                      track_variances=case["tv"])
    except Exception as e:
        ctx.violation("init-crash:" + core.exc_key(e), "constructor raised", case)
        return None
    tm, tv = case["tm"], case["tv"]
    held = [[] for _ in range(count)]       # property's words: samples added for design d since the last clear
    add_call = [[] for _ in range(count)]   # which add call each held sample came from (non-triviality)
    snap_m = snap_v = "unset"               # as of the last update (None = flag was off at that update)
    snap_calls = None
    determined = True                        # False once a quirk left a state the property does not describe
    snap_det = True
    tokens, lean_ops, preds = [], [], []
    nontrivial = False
    stat_cache = {}
    buf = np.full((64, m), GARBAGE)

    def stat(samples):
        key = core.qmat(samples)
        if key not in stat_cache:
            ans = ctx.ask("stat", str(m), core.q(noise), key).split(" ")
            stat_cache[key] = (core.parse_qvec(ans[0]), core.parse_qmat(ans[1]))
        return stat_cache[key]

    if holder is not None:
        holder["model"] = model
    for k, op in enumerate(ops):
        yield k
        kind = op["op"]
        if kind == "add":
            cont, order = _container(op["kind"], op["idx"])
            Y = op["Y"]
            if case.get("y1d") and m == 1 and all(len(r) == 1 for r in Y):
                Yarr = np.array([r[0] for r in Y], dtype=float)
            else:
                try:
                    Yarr = np.array(Y, dtype=float).reshape(len(Y), -1) if Y else np.empty((0, m))
                except ValueError:      # ragged rows (quirk): numpy object array of row arrays
                    Yarr = np.empty(len(Y), dtype=object)
                    for i_, r in enumerate(Y):
                        Yarr[i_] = np.array(r, dtype=float)
            int_rows = op.get("dtype") == "int" and Yarr.dtype != object
            if int_rows:
                Yarr = Yarr.astype(np.int64)        # integer observation array (values are integers)
            lean_ops.append("A:" + _ints(order) + ":" + core.qmat(Y))
            # classify from the property's point of view
            if len(order) != len(Y):
                cls = "mismatch"
            elif any(i >= count for i in order):
                cls = "oob"
            elif len(order) == 0:
                cls = "empty"
            elif any(i < 0 for i in order) or any(len(r) != m for r in Y):
                cls = "quirk"
            else:
                cls = "clean"
            ctx.count("add_" + cls)
            ctx.count("container_" + op["kind"])
            if scrub and not int_rows and Yarr.dtype != object and Yarr.ndim == 2 and Yarr.shape[0] <= len(buf) \
                    and Yarr.shape[1] == m:
                buf[:len(Yarr)] = Yarr          # the caller's single observation buffer, refilled each call
                Yarr = buf[:len(Yarr)]
                ctx.count("add_from_reused_buffer")
            try:
                model.add_sample(cont, Yarr)
                tok = "ok"
            except Exception as e:
                tok = type(e).__name__
                err = e
            if scrub:                           # the caller reuses its arrays: fill them with garbage
                if Yarr.dtype == object:
                    for a_ in Yarr:
                        a_.fill(GARBAGE)
                else:
                    Yarr.fill(977 if int_rows else GARBAGE)
                buf.fill(GARBAGE)
                if isinstance(cont, np.ndarray):
                    cont.fill(0)
                elif isinstance(cont, list):
                    cont[:] = [0] * len(cont)
                elif isinstance(cont, set):
                    cont.clear()
            tokens.append((tok, cls))
            if cls == "clean":
                if tok != "ok":
                    ctx.violation("add-crash:" + core.exc_key(err), f"add_sample raised {tok} on in-range "
                                  "indices and well-shaped samples", case, detail={"op": k, "tag": tag})
                    return None
                for i, y in zip(order, Y):
                    held[i].append(y)
                    add_call[i].append(k)
            elif cls == "oob":
                if tok == "ok":
                    ctx.violation("oob-accepted", "add_sample accepted a design index >= design_count",
                                  case, detail={"op": k, "indices": order, "count": count, "tag": tag})
                    return None
                if any(t == ("ok", "clean") for t in tokens):
                    nontrivial = True
            elif cls == "quirk":
                determined = False
            # mismatch / empty: nothing is added according to the property either
        elif kind == "clear":
            lean_ops.append("C")
            try:
                model.clear_data()
                tokens.append(("ok", "clear"))
            except Exception as e:
                ctx.violation("clear-crash:" + core.exc_key(e), "clear_data raised", case)
                return None
            held = [[] for _ in range(count)]
            add_call = [[] for _ in range(count)]
            determined = True
        elif kind == "update":
            lean_ops.append("U")
            try:
                model.update()
                tokens.append(("ok", "update"))
            except Exception as e:
                ctx.violation("update-crash:" + core.exc_key(e), "update raised", case)
                return None
            snap_m = [list(h) for h in held] if tm else None
            snap_v = [list(h) for h in held] if tv else None
            snap_calls = [list(c) for c in add_call]
            snap_det = determined
        elif kind == "flags":
            lean_ops.append("F:" + core.bools([op["tm"], op["tv"]]))
            tm, tv = bool(op["tm"]), bool(op["tv"])
            model.track_means, model.track_variances = tm, tv
            tokens.append(("ok", "flags"))
        elif kind == "predict":
            idx = op["idx"]
            lean_ops.append("P:" + _ints(idx))
            X = np.array([[0.5, float(i)] for i in idx]).reshape(len(idx), 2)
            in_range = all(0 <= i < count for i in idx)
            # does the property determine this prediction?
            must_work = in_range and (not tm or isinstance(snap_m, list)) and (not tv or isinstance(snap_v, list)) \
                and ((not tm and not tv) or snap_det)
            try:
                mu, cov = model.predict(X)
                tok = "ok"
            except Exception as e:
                tok = type(e).__name__
                err = e
            if tok != "ok":
                if must_work:
                    ctx.violation("predict-crash:" + core.exc_key(err), f"predict raised {tok}", case,
                                  detail={"op": k, "tag": tag})
                    return None
                tokens.append((tok, "predict-undetermined"))
                ctx.count("predict_raises_" + tok)
                continue
            mu_raw, cov_raw = mu, cov
            mu, cov = np.array(mu, copy=True), np.array(cov, copy=True)
            if mutate:                          # the caller scribbles over what predict returned
                for a_ in (mu_raw, cov_raw):
                    if isinstance(a_, np.ndarray) and a_.flags.writeable and a_.dtype != object:
                        a_.fill(GARBAGE)
            tokens.append(("ok", "predict", mu, cov, must_work))
            preds.append((list(idx), mu, cov))
            if not must_work:
                ctx.count("predict_undetermined")
                continue
            if mu.shape != (len(idx), m) or cov.shape != (len(idx), m, m):
                ctx.violation("predict-shape", f"predict returned shapes {mu.shape}, {cov.shape}", case,
                              detail={"op": k, "tag": tag})
                return None
            # ---- (R): the prediction is the running statistic of the accumulator
            for pos, d in enumerate(idx):
                if tm:
                    S = snap_m[d]
                    ref, _ = stat(S)
                    ok = all(_within(mu[pos, j], ref[j], _tol_mean(ref[j]), _is_pow2(len(S)) or len(S) == 0)
                             for j in range(m))
                    what = ("zero mean for a design without samples" if not S else
                            "arithmetic mean of all samples added for the design (as of the last update)")
                    key = "mean-unsampled" if not S else "mean"
                    if len(set(snap_calls[d])) >= 2:
                        nontrivial = True
                else:
                    ok = all(core.frac(mu[pos, j]) == 0 for j in range(m))
                    what, key = "zero mean when means are untracked", "mean-untracked"
                if not ok and tm and determined and S != held[d]:
                    # the literal property value ("all samples ever added", update or not) is never an (R)
                    # violation; the difference to the model (statistics as of the last update) is left to (F)
                    refl, _ = stat(held[d])
                    if all(_within(mu[pos, j], refl[j], _tol_mean(refl[j])) for j in range(m)):
                        ok = True
                        ctx.count("mean_matches_live_not_last_update_info")
                if not ok:
                    ctx.violation(key, "predicted mean is not the " + what, case,
                                  detail={"op": k, "design": d, "impl": [float(x) for x in mu[pos]],
                                          "samples": (snap_m[d] if tm else None), "tag": tag})
                    return None
                if tv:
                    S = snap_v[d]
                    mref, ref = stat(S)
                    ok = all(_within(cov[pos, a, b], ref[a][b], _tol_var(ref[a][b], mref[a]),
                                     _is_pow2(len(S)) or len(S) < 2)
                             for a in range(m) for b in range(m))
                    what = ("noise_var * I for a design with fewer than two samples" if len(S) < 2 else
                            "diagonal matrix of per-objective population variances (as of the last update)")
                    key = "var-lt2" if len(S) < 2 else "var"
                    ctx.count("var_pop" if len(S) >= 2 else "var_noise")
                else:
                    ok = all(core.frac(cov[pos, a, b]) == (1 if a == b else 0) for a in range(m) for b in range(m))
                    what, key = "identity covariance when variances are untracked", "var-untracked"
                if not ok and tv and determined and S != held[d]:
                    mrefl, refl = stat(held[d])
                    if all(_within(cov[pos, a, b], refl[a][b], _tol_var(refl[a][b], mrefl[a]))
                           for a in range(m) for b in range(m)):
                        ok = True
                        ctx.count("var_matches_live_not_last_update_info")
                if not ok:
                    ctx.violation(key, "predicted covariance is not the " + what, case,
                                  detail={"op": k, "design": d, "impl": np.asarray(cov[pos]).tolist(),
                                          "samples": (snap_v[d] if tv else None), "tag": tag})
                    return None
                n_ = len(snap_m[d]) if tm else (len(snap_v[d]) if tv else 0)
                ctx.count("pred_n0" if n_ == 0 else "pred_n1" if n_ == 1 else "pred_pow2" if _is_pow2(n_) else "pred_other")
        else:
            raise ValueError(kind)

    # ---- (F): the Lean state machine replays the same history
    ans = ctx.ask("run", str(m), str(count), core.q(noise), core.bools([case["tm"], case["tv"]]),
                  "@".join(lean_ops) if lean_ops else "_")
    lt = ans.split(" ") if lean_ops else []
    if len(lt) != len(tokens):
        ctx.violation("driver-answer", f"driver answered {ans[:200]!r}", case, kind="F")
        return None
    quirky = any(t[1] in ("quirk", "empty", "predict-undetermined") for t in tokens)
    for k, (t, l) in enumerate(zip(tokens, lt)):
        lname = l.split("=")[0]
        undetermined = t[1] in ("quirk", "empty", "predict-undetermined") or (t[1] == "predict" and not t[4])
        if t[0] != lname:
            if undetermined:
                ctx.count("quirk_status_differs_info")
                ctx.info(f"undetermined call: impl {t[0]} vs model {lname}")
                if t[1] == "quirk":
                    return preds, nontrivial   # the two states may differ from here on; nothing determined to compare
                continue
            ctx.violation("status:" + t[1], f"call {k} ({t[1]}): implementation {t[0]}, model {lname}", case,
                          kind="F", detail={"tag": tag})
            return None
        if t[1] == "predict" and t[0] == "ok":
            _, ms, vs = l.split("=")
            M = core.parse_qmat(ms)
            V = [core.parse_qmat(x) for x in vs.split("|")] if vs != "_" else []
            mu, cov = t[2], t[3]
            good = mu.shape == (len(M), m) and cov.shape == (len(V), m, m)
            if good:
                for pos in range(len(M)):
                    good = good and all(_within(mu[pos, j], M[pos][j], _tol_mean(M[pos][j])) for j in range(m))
                    good = good and all(_within(cov[pos, a, b], V[pos][a][b], _tol_var(V[pos][a][b], M[pos][a]))
                                        for a in range(m) for b in range(m))
            if not good:
                if undetermined:
                    ctx.count("quirk_prediction_differs_info")
                    continue
                ctx.violation("prediction-vs-model", f"prediction of call {k} differs from the Lean state machine",
                              case, kind="F", detail={"tag": tag, "model": l[:300]})
                return None
    if quirky:
        ctx.count("histories_with_undetermined_calls")
    return preds, nontrivial


def run_case(ctx, case):
    ctx.count("shape_" + case["shape"])
    if case["kind"] == "multi":
        _run_multi(ctx, case)
        return
    if case["kind"] == "hist":
        r = _execute(ctx, case, case["ops"])
        nontrivial = bool(r) and isinstance(r, tuple) and r[1]
        ctx.case_done(case, nontrivial, canon=[case["m"], case["count"], case["noise"], case["tm"], case["tv"],
                                               case["ops"]])
        return
    # ---- perm: the same (index, sample) pairs, batched and ordered in two different ways
    pairs, perm = case["pairs"], case["perm"]
    count = case["count"]

    def build(seq, cuts):
        ops, pos = [], 0
        for c in cuts:
            chunk = seq[pos:pos + c]
            pos += c
            ops.append({"op": "add", "kind": "list", "idx": [p_[0] for p_ in chunk], "Y": [p_[1] for p_ in chunk]})
            if case["updates_between"]:
                ops.append({"op": "update"})
        return ops + _final(count)
    opsA = build(pairs, case["cutsA"])
    opsB = build([pairs[i] for i in perm], case["cutsB"])
    ra = _execute(ctx, case, opsA, "A")
    rb = _execute(ctx, case, opsB, "B")
    nontrivial = False
    if isinstance(ra, tuple) and isinstance(rb, tuple) and ra[0] and rb[0]:
        (ia, ma, ca), (ib, mb, cb) = ra[0][-1], rb[0][-1]
        ok = ia == ib and ma.shape == mb.shape and ca.shape == cb.shape
        if ok:
            try:
                for pos in range(ma.shape[0]):
                    for a in range(ma.shape[1]):
                        rb_ = core.frac(mb[pos, a])
                        ok = ok and _within(ma[pos, a], rb_, 2 * _tol_mean(rb_))
                        for b in range(ma.shape[1]):
                            cb_ = core.frac(cb[pos, a, b])
                            ok = ok and _within(ca[pos, a, b], cb_, 2 * _tol_var(cb_, rb_))
            except (ValueError, OverflowError):
                ok = False
        if not ok:
            ctx.violation("order-dependence", "two histories with the same per-design sample multisets "
                          "(different order / batching) predict differently", case)
        per = {}
        for i, _ in pairs:
            per[i] = per.get(i, 0) + 1
        nontrivial = any(v >= 2 for v in per.values()) and (perm != sorted(perm) or case["cutsA"] != case["cutsB"])
    ctx.case_done(case, nontrivial, canon=[case["m"], count, case["pairs"], perm, case["cutsA"], case["cutsB"]])
