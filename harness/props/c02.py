"""C02 — a design is eliminated only on, and always on, a confidence-region certificate.

Two streams (this module also hosts the machinery shared with C03, which imports it):

1. *decision logic* — the REAL `discarding()` / `compute_pessimistic_set()` (and, for the
   whole-round elimination relation, `pareto_updating()` / `epsiloncovering()`) of every PAC
   algorithm class with the three geometry predicates replaced by Boolean tables over design pairs
   (`harness.stubs.TableOracle`: identifies the regions by identity, checks argument order and the
   slack passed); Auer with real centres and per-design width rows written into the real object.
   The resulting sets are compared with the Lean model `VOPy.Steps.*` (driver_c02).
2. *real geometry* — real `run_one_step()` of PaVeBa (EmpiricalMeanVarModel, dyadic observations),
   of the GP algorithms on `ScriptedModel` posteriors (covariances L·Lᵀ with dyadic L) or on a real
   gpytorch posterior with fixed hyper-parameters, and of Auer with `use_empirical_beta=True` on a
   heteroscedastic problem; every phase is intercepted.  The displayed regions are exported exactly and
   this property's own Lean driver recomputes the oracle tables with the exact geometry models of
   C09 (`Rect` / `Ellipsoid.isDominatedTol`), C10 (`Covered.*`) and C11 (`Pess.isPtIn`), each decided
   with the per-facet margin moved by ±τ (τ = 1e-6·scale; 1e-3·scale for ellipsoidal is_covered);
   on rounds whose relevant pair decisions are all robust the whole transition is recomputed by the
   model and compared (R) with the real one (`check_round_exact`).  In addition the transition logic
   alone is checked on every round against tables obtained by calling the real predicates once more
   outside the algorithm (`geometry_tables`).
"""
from __future__ import annotations

import os

os.environ.setdefault("OMP_NUM_THREADS", "1")  # many small solves; oversubscribed hosts

import numpy as np

from harness import core, stubs
from harness.cones import EXACT_CONES

TITLE = "elimination step (discarding) of all PAC algorithms vs Lean model"
RULE = ("stream 1: (algorithm class, cone, n ≤ 7 (thorough: 10) designs, index sets S/P/U in a chosen iteration order, "
        "Boolean tables dom/cov/pess over ordered design pairs drawn from named shapes: random densities, "
        "empty, full, diagonal-only, chain, antisymmetric, witnesses-only-in-U / only-outside-the-pessimistic-set, "
        "single-design S, overlapping S/P); Auer: dyadic centres and per-design width rows differing ≥ 2×. "
        "stream 2: whole rounds of the real algorithms on small synthetic datasets (≤ 6 designs, scripted or "
        "empirical posteriors, seeded dyadic noise; shapes scatter / cone-chain = designs strung along an interior "
        "direction of the cone with gaps comparable to the region widths; acute, obtuse, N>m cones), oracle tables "
        "recomputed from the exactly exported displayed regions by the exact C09/C10/C11 models (robust decisions only) "
        "and, separately, by the real predicates. non-trivial = at least one design eliminated and at least one design of S not eliminated; "
        "distinct by (algorithm, sets, tables / regions)")
ASSUMPTIONS = [
    "stream 1: oracle Booleans stand for the geometry predicates; stream 2: they are recomputed from the displayed "
    "regions by the exact models of C09/C10/C11 (rounds with a pair decision inside the ±τ band, or without a "
    "certificate, are counted and skipped), and once more by the real predicates",
    "Python sets of small ints are given an explicit iteration order through a set subclass (ShuffledSet)",
]
MAX_JOBS = 14

TABLE_ALGS = list(stubs.PAVEBA_FAMILY) + list(stubs.PESSIMISTIC_FAMILY)
CONES_2D = ["orthant2", "acute2", "obtuse2", "threefacet2", "redundant2"]
CONES_3D = ["orthant3", "acute3", "fourfacet3"]


# --------------------------------------------------------------------------------------------
# helpers shared with C03
# --------------------------------------------------------------------------------------------
class ShuffledSet(set):
    """A `set` whose iteration order is prescribed (Python gives small ints their numeric order);
    `union` / `difference` return plain sets exactly as for the built-in type."""

    def __init__(self, order=()):
        order = list(order)
        super().__init__(order)
        self._order = order

    def __iter__(self):
        for x in list(self._order):
            if set.__contains__(self, x):
                yield x

    def add(self, x):
        if not set.__contains__(self, x):
            self._order.append(x)
        set.add(self, x)

    def remove(self, x):
        set.remove(self, x)
        self._order = [y for y in self._order if y != x]


def viol(ctx, key, what, case, kind="R", detail=None):
    """`ctx.violation` with a per-key cap per worker process: `core.Ctx` keeps the first 20 violation records,
    and a genuine defect that fires hundreds of times (D2) must not crowd a different key out of that list."""
    seen = ctx.__dict__.setdefault("_c0203_keys", {})
    seen[key] = seen.get(key, 0) + 1
    if seen[key] <= 2:
        ctx.violation(key, what, case, kind=kind, detail=detail)
    else:
        ctx.count(f"repeat[{kind}]:{key}")


def bits(table) -> str:
    t = np.asarray(table, dtype=bool)
    return core.bools(t.reshape(-1)) if t.size else "_"


def table_from_bits(n: int, s: str):
    if n == 0:
        return np.zeros((0, 0), dtype=bool)
    return np.array([c == "1" for c in s], dtype=bool).reshape(n, n)


def parse_sets(ans: str):
    if ans == "bad-op":
        raise RuntimeError("Lean driver rejected the request")
    return [core.parse_nats(t) for t in ans.split(";")]


_alg_cache: dict = {}


def table_algorithm(name: str, n: int, cone: str, eps: float):
    """Real algorithm object with `n` displayed regions, cached (its sets are overwritten per case)."""
    key = (name, n, cone, eps)
    if key in _alg_cache:
        return _alg_cache[key]
    W, _ = EXACT_CONES[cone]
    m = len(W[0])
    X = np.array([[i / 8.0, (i * 3 % 8) / 8.0] for i in range(max(n, 1))])
    Y = np.zeros((max(n, 1), m))
    if name == "VOGP_AD":
        pr = stubs.SyntheticContinuousProblem(lambda x: np.zeros((len(x), m)), 1, m, 0.01, depth_max=4)
        mdl = stubs.ScriptedModel(np.zeros((0, 1)), np.zeros((0, m)), np.zeros((0, m, m)),
                                  fallback=lambda x: (np.zeros(m), np.ones(m)))
        a = stubs.build(name, problem=pr, W=W, epsilon=eps, model=mdl)
        k = 0
        while len(a.design_space.points) < n:
            a.design_space.refine_design(k)
            k += 1
    else:
        cls = stubs.ScriptedModelList if name.startswith("PaVeBaPartial") else stubs.ScriptedModel
        mdl = cls(X, Y, np.ones((len(X), m)))
        kw = {} if name in ("EpsilonPAL",) else {"W": W}
        a = stubs.build(name, in_data=X, out_data=Y, epsilon=eps, model=mdl, **kw)
    if len(_alg_cache) > 400:
        _alg_cache.clear()
    _alg_cache[key] = a
    return a


def case_cone(case):
    # ε-PAL always works in the componentwise order of the objective dimension
    return case["cone"]


def install_sets(alg, case):
    alg.S = ShuffledSet(case["S"])
    alg.P = ShuffledSet(case["P"])
    if hasattr(alg, "U"):
        alg.U = ShuffledSet(case.get("U", []))
    if case["alg"] == "VOGP_AD":
        n = case["n"]
        alg.design_space.point_depths = list(case["depths"]) + [1] * (len(alg.design_space.points) - n)
        alg.max_discretization_depth = case["max_depth"]
        alg.enable_epsilon_covering = bool(case["enabled"])


def make_oracle(alg, case):
    n = case["n"]
    idx = stubs.RegionIndex(alg.design_space)
    return stubs.TableOracle(idx, dom=table_from_bits(n, case["dom"]), cov=table_from_bits(n, case["cov"]),
                             pess=table_from_bits(n, case["pess"]) if "pess" in case else None,
                             slack=stubs.expected_slack(alg), order=alg.order,
                             approx=stubs.true_slack(alg) if is_pess(case["alg"]) and case["alg"] != "EpsilonPAL" else None)


def sset(s):
    return sorted(int(i) for i in s)


def report_oracle_problems(ctx, orc, case, where):
    if orc.problems:
        kind = "slack" if any("slack" in p for p in orc.problems) else "args"
        viol(ctx, f"oracle-{kind}:{case['alg']}:{where}",
                      f"{case['alg']}.{where}: geometry predicate called irregularly: {orc.problems[0]}",
                      case, kind="F", detail={"problems": orc.problems[:5]})
        return True
    return False


def is_pess(name):
    return name in stubs.PESSIMISTIC_FAMILY


# --------------------------------------------------------------------------------------------
# generators
# --------------------------------------------------------------------------------------------
TABLE_SHAPES = ["random", "random", "random", "sparse", "dense", "empty", "full", "diagonal", "chain",
                "antisym", "witness-outside", "single-S", "overlap", "sym", "P-heavy", "P-heavy"]


def rand_table(rng, n, p):
    return [[rng.random() < p for _ in range(n)] for _ in range(n)]


def gen_table_case(rng, alg=None, nmax=7):
    alg = alg or rng.choice(TABLE_ALGS)
    shape = rng.choice(TABLE_SHAPES)
    n = rng.randint(1, nmax)
    if alg == "EpsilonPAL":
        cone = rng.choice(["orthant2", "orthant3"])
    else:
        cone = rng.choice(CONES_2D + CONES_3D)
    eps = rng.choice([0.125, 0.25, 0.5, 1.0])
    ids = list(range(n))
    rng.shuffle(ids)
    k = rng.randint(1, n)
    if shape == "single-S":
        k = 1
    if shape == "P-heavy":
        n = max(n, 4)
        ids = list(range(n))
        rng.shuffle(ids)
        k = rng.randint(1, 2)
    S = ids[:k]
    rest = ids[k:]
    P = [i for i in rest if rng.random() < (0.9 if shape == "P-heavy" else 0.6)]
    if shape == "overlap" and S:
        P = P + [rng.choice(S)]
    U = [i for i in P if rng.random() < 0.6]
    if shape == "overlap" and rest and rng.random() < 0.5:
        U = U + [i for i in rest if i not in U][:1]
    rng.shuffle(P)
    rng.shuffle(U)
    p = {"sparse": 0.08, "dense": 0.7}.get(shape, rng.choice([0.15, 0.3, 0.5]))
    dom, cov, pess = rand_table(rng, n, p), rand_table(rng, n, rng.choice([0.2, 0.5, 0.8])), rand_table(rng, n, p * 0.7)
    if shape == "empty":
        dom = rand_table(rng, n, 0)
        cov = rand_table(rng, n, 0) if rng.random() < 0.5 else cov
        pess = rand_table(rng, n, 0) if rng.random() < 0.5 else pess
    elif shape == "full":
        dom = rand_table(rng, n, 1)
        cov = rand_table(rng, n, 1) if rng.random() < 0.5 else cov
        pess = rand_table(rng, n, 1) if rng.random() < 0.3 else pess
    elif shape == "diagonal":  # only self-comparisons answer True: the `pt' == pt` guard decides
        dom = [[i == j for j in range(n)] for i in range(n)]
        cov = [[(i == j) or (rng.random() < 0.1) for j in range(n)] for i in range(n)]
        pess = [[i == j for j in range(n)] for i in range(n)]
    elif shape == "chain":
        dom = [[j == i + 1 for j in range(n)] for i in range(n)]
        pess = [[j + 1 == i for j in range(n)] for i in range(n)] if rng.random() < 0.5 else pess
        cov = [[j == i + 1 or j + 1 == i for j in range(n)] for i in range(n)]
    elif shape == "antisym":
        dom = [[(i < j) and rng.random() < 0.5 for j in range(n)] for i in range(n)]
        cov = [[(i > j) and rng.random() < 0.5 for j in range(n)] for i in range(n)]
        pess = [[(i > j) and rng.random() < 0.4 for j in range(n)] for i in range(n)]
    elif shape == "sym":
        for i in range(n):
            for j in range(i):
                dom[i][j] = dom[j][i]
                cov[i][j] = cov[j][i]
    elif shape == "P-heavy":
        # few candidates, many members of P: candidates rarely cover / are covered, members of P cover
        # each other densely — a scan over P, U or A instead of S changes U and P-entry
        sS = set(S)
        cov = [[(rng.random() < 0.12) if (i in sS or j in sS) else (rng.random() < 0.85) for j in range(n)] for i in range(n)]
        dom = [[(rng.random() < 0.1) if (i in sS and j in sS) else (rng.random() < 0.5) for j in range(n)] for i in range(n)]
    elif shape == "witness-outside":
        # witnesses sit only where the algorithm must NOT look for them:
        #  PaVeBa family: outside A = S ∪ U;  pessimistic family: inside S (or P) but never "pessimistic"
        A = set(S) | set(U)
        dom = [[(j not in A) or (rng.random() < 0.05) for j in range(n)] for i in range(n)]
        cov = [[(j not in A and j not in P) or (rng.random() < 0.1) for j in range(n)] for i in range(n)]
    case = {"kind": "table", "alg": alg, "shape": shape, "cone": cone, "eps": eps, "n": n,
            "S": S, "P": P, "U": U if alg in stubs.PAVEBA_FAMILY else [],
            "dom": bits(dom), "cov": bits(cov)}
    if is_pess(alg):
        case["pess"] = bits(pess)
    if alg == "VOGP_AD":
        md = rng.randint(1, 4)
        mode = rng.choice(["all-max", "one-short", "random", "random"])
        if mode == "all-max":
            depths = [md if i in S else rng.randint(1, md) for i in range(n)]
        elif mode == "one-short":
            depths = [md] * n
            depths[rng.choice(S)] = max(1, md - 1) if md > 1 else md + 1
        else:
            depths = [rng.randint(1, md) for _ in range(n)]
        case.update({"depths": depths, "max_depth": md, "enabled": rng.random() < 0.4})
    return case


AUER_SHAPES = ["random", "random", "clustered", "chain", "hetero-shift", "hetero-shift", "single", "ties", "ties", "ties"]


def gen_auer_case(rng):
    shape = rng.choice(AUER_SHAPES)
    n = 1 if shape == "single" else rng.randint(2, 7)
    m = rng.choice([1, 2, 2, 3])
    eps = rng.choice([0.0, 0.0625, 0.125, 0.25, 0.5])
    pw = [0.03125, 0.0625, 0.125, 0.25, 0.5, 1.0]
    if shape == "clustered":
        centres = [[core.dyadic(rng, 0, 8, 3) for _ in range(m)] for _ in range(n)]
    elif shape == "chain":
        centres = [[i * 0.5 + core.dyadic(rng, -1, 1, 3) for _ in range(m)] for i in range(n)]
    elif shape == "ties":
        n, m = rng.randint(3, 6), rng.choice([1, 2])
        eps = rng.choice([0.0, 0.5])
        centres = [[core.dyadic(rng, 0, 4, 1) for _ in range(m)] for _ in range(n)]
    else:
        centres = [[core.dyadic(rng, -16, 16, 3) for _ in range(m)] for _ in range(n)]
    if shape == "hetero-shift":
        # design 0 is far below everything (certainly discarded, so positions shift) and the
        # remaining widths alternate between tiny and large
        base = [core.dyadic(rng, -8, 8, 2) for _ in range(m)]
        centres = [[b + core.dyadic(rng, -3, 3, 3) for b in base] for _ in range(n)]
        centres[0] = [b - 8.0 for b in base]
        widths = [[rng.choice([0.03125, 0.0625]) if i % 2 else rng.choice([0.25, 0.5, 1.0]) for _ in range(m)] for i in range(n)]
        widths[0] = [0.03125] * m
    elif shape == "ties":
        widths = [[rng.choice([0.25, 0.5])] * m for _ in range(n)]
    else:
        widths = [[rng.choice(pw)] * m if rng.random() < 0.5 else [rng.choice(pw) for _ in range(m)] for _ in range(n)]
    ids = list(range(n))
    if shape != "hetero-shift" or rng.random() < 0.3:
        rng.shuffle(ids)
    k = n if rng.random() < 0.6 else rng.randint(1, n)
    S = ids[:k]
    P = [i for i in ids[k:] if rng.random() < 0.5]
    return {"kind": "auer", "shape": shape, "eps": eps, "n": n, "m": m, "S": S, "P": P,
            "centres": centres, "widths": widths}


RUN_ALGS = ["PaVeBa", "PaVeBa", "PaVeBaGP-IH", "PaVeBaGP-DE", "PaVeBaPartialGP-rect", "PaVeBaPartialGP-ell",
            "VOGP", "VOGP", "EpsilonPAL", "VOGP_AD", "Auer", "Auer"]


def gen_run_case(rng, alg=None, cone=None, chain=None):
    alg = alg or rng.choice(RUN_ALGS)
    n = rng.randint(3, 6) if alg == "Auer" else rng.randint(2, 6)
    forced_cone = cone
    if alg in ("EpsilonPAL", "Auer"):
        m = rng.choice([2, 2, 3])
        cone = "orthant%d" % m
    elif alg in ("PaVeBaGP-IH", "PaVeBaPartialGP-rect"):
        # rectangular `is_covered` insists on an m-entry slack while these classes pass ε·α with one
        # entry per facet (DESIGN §5 D6): cones with N ≠ m are drawn rarely and reported under their own key
        cone = rng.choice(["orthant2", "acute2", "obtuse2", "orthant3", "acute3"] * 4 + ["threefacet2"])
    else:
        cone = rng.choice(["orthant2", "acute2", "obtuse2", "threefacet2", "orthant3", "acute3", "fourfacet3"])
    if forced_cone is not None:
        cone = forced_cone
    W, _ = EXACT_CONES[cone]
    m = len(W[0])
    spread = rng.choice([2, 4, 8])
    Y = [[core.dyadic(rng, -4 * spread, 4 * spread, 3) for _ in range(m)] for _ in range(n)]
    if rng.random() < 0.3 and n >= 2:
        Y[1] = list(Y[0])  # identical designs → identical / touching regions
    shape = "scatter"
    if chain or (chain is None and rng.random() < 0.4):
        # designs strung along the all-ones direction (interior to every cone used here) with small sideways
        # jitter: many domination relations in narrow (acute) cones too, gaps comparable to the region widths
        shape = "cone-chain"
        g = rng.choice([0.25, 0.5, 1.0, 2.0])
        base = [core.dyadic(rng, -8, 8, 3) for _ in range(m)]
        ks = [rng.randint(0, 4) for _ in range(n)]
        Y = [[b + k * g + core.dyadic(rng, -2, 2, 3) * g / 2 for b in base] for k in ks]
    X = [[i / 8.0, ((i * 5) % 8) / 8.0] for i in range(n)]
    case = {"kind": "run", "shape": shape, "alg": alg, "cone": cone, "eps": rng.choice([0.125, 0.25, 0.5, 1.0]),
            "delta": 0.05, "n": n, "in_data": X, "out_data": Y, "seed": rng.randrange(10 ** 6),
            "rounds": rng.randint(1, 3)}
    if alg == "PaVeBa":
        case.update({"noise_var": rng.choice([0.015625, 0.0625]), "conf": rng.choice([2, 4, 8, 16])})
    elif alg == "Auer":
        # heteroscedastic: per-design noise levels differing up to 64× so that the empirical widths differ
        # by ≥ 2×; several rounds so that discarding happens while the widths already differ
        sp = rng.choice([8, 16, 32])
        case["out_data"] = [[core.dyadic(rng, -4 * sp, 4 * sp, 3) for _ in range(m)] for _ in range(n)]
        case.update({"noise_var": 1.0, "conf": rng.choice([1, 2, 4]),
                     "noise_scale": [rng.choice([0.125, 1.0, 4.0, 8.0]) for _ in range(n)],
                     "rounds": rng.randint(3, 6)})
        if rng.random() < 0.5:
            # structured: design 0 (quiet) is dominated by design 1 (quiet) by a gap that is certified in
            # round 2, when the noisy design 2 already has a much larger width row; 1 and 2 are incomparable
            j = lambda: core.dyadic(rng, -8, 8, 3)
            case.update({"n": 3, "cone": "orthant2", "in_data": case["in_data"][:3], "conf": 1,
                         "out_data": [[4 + j(), -12 + j()], [16 + j(), j()], [j(), 16 + j()]],
                         "noise_scale": [0.125, 0.125, rng.choice([8.0, 16.0])], "rounds": 3,
                         "shape": "quiet-dominated-then-noisy"})
    else:
        conf = ([16, 32, 64, 128] if alg.startswith("PaVeBaGP") else [4, 8, 16, 32] if alg.startswith("PaVeBaPartial")
                else [2, 4, 8, 32])
        # posterior covariance of design i = L_i L_iᵀ with a dyadic lower-triangular L_i, so that Σ is exact in
        # binary64 and the exact ellipsoid models (which need a factor of Σ) apply
        corr = alg in ("PaVeBaGP-DE", "VOGP", "VOGP_AD")
        Ls = []
        for _ in range(n):
            L = [[0.0] * m for _ in range(m)]
            for a_ in range(m):
                L[a_][a_] = rng.choice([0.0625, 0.125, 0.25, 0.5])
                for b_ in range(a_):
                    # off-diagonal = k × diagonal: correlation k/sqrt(k²+1) ∈ {0, ±0.71, ±0.89, ±0.95}
                    L[a_][b_] = rng.choice([0, 0, 1, -1, 2, -2, 3, -3]) * L[a_][a_] if corr else 0.0
            Ls.append(L)
        case.update({"noise_var": 0.0625, "conf": rng.choice(conf), "L": Ls,
                     "mean_err": [[core.dyadic(rng, -2, 2, 3) for _ in range(m)] for _ in range(n)]})
        if alg == "VOGP_AD":
            case.update({"max_depth": rng.choice([1, 2, 2]), "rounds": rng.randint(2, 6)})
        if rng.random() < 0.25 and not (alg == "VOGP_AD" and m != 2):
            # (VOGP_AD with more objectives than the 2 input dimensions crashes in calculate_design_vh, which
            #  indexes the per-input lengthscale vector by objective — outside this property, see report)
            # real gpytorch posterior (fixed hyper-parameters, no training) instead of a scripted one
            case.update({"model": "fixed", "rounds": rng.randint(3, 6),
                         "conf": rng.choice([64, 256, 1024] if alg.startswith("PaVeBaGP") else [16, 64, 256]
                                            if alg.startswith("PaVeBaPartial") else [8, 32, 128])})
    return case


# correlated ellipsoids: L = u·[[a, 0], [±b, c]] (dyadic), ρ = b/sqrt(b²+c²) ∈ {0.6, 0.8, 0.89, 0.95}
ELL_SHAPES = [(3, 4), (4, 3), (2, 1), (3, 1)]


def _ell_L(rng):
    b, c = rng.choice(ELL_SHAPES)
    sgn = rng.choice([1, -1])
    a = rng.choice([1, 2, 5, 10]) * rng.choice([1.0, 0.5])  # anisotropy 1–10× either way
    u = rng.choice([0.03125, 0.0625])
    return [[u * a * 4, 0.0], [u * sgn * b, u * c]]


def _wrong_factor(L):
    """factor of the ROTATED ellipsoid {x : ‖chol(Σ⁻¹)(x−c)‖ ≤ α} (a plausible slip for `sqrtm(Σ⁻¹)`):
    used only to PLACE centres where the true and the rotated region disagree robustly"""
    S = np.array(L) @ np.array(L).T
    return np.linalg.inv(np.linalg.cholesky(np.linalg.inv(S)))


def _support(W, L):
    return np.array([float(np.linalg.norm(np.array(L).T @ w)) for w in np.asarray(W, dtype=float)])


def _cover_margin(W, c1, L1, c2, L2, a, t):
    """max over z∈E₁, z'∈E₂ of the worst facet margin of W(z'−z) − t (numeric, generator only)"""
    import cvxpy as cp

    W = np.asarray(W, dtype=float)
    m = W.shape[1]
    u1, u2, mu = cp.Variable(m), cp.Variable(m), cp.Variable()
    cons = [cp.norm(u1) <= a, cp.norm(u2) <= a,
            W @ (np.asarray(c2) - np.asarray(c1) + np.asarray(L2) @ u2 - np.asarray(L1) @ u1) - t >= mu]
    pr = cp.Problem(cp.Maximize(mu), cons)
    pr.solve(solver=cp.CLARABEL)
    return float(mu.value)


def gen_ellcorr_case(rng, alg, scenario):
    """two designs with strongly correlated ellipsoidal regions whose centres are placed so that the decisive
    pair decision is robust (≥ 10 % of the region extent from the boundary) for the displayed ellipsoid
    {z : (z−c)ᵀΣ⁻¹(z−c) ≤ α²} and would be the opposite for the ellipsoid rotated by using chol(Σ⁻¹);
    scenario: "dom-no" (no certificate), "dom-yes" (certificate), "cov-yes" (can still be covered)."""
    cone = rng.choice(["orthant2", "orthant2", "acute2", "obtuse2"]) if scenario != "cov-yes" else "orthant2"
    W = np.array(EXACT_CONES[cone][0], dtype=float)
    conf = {"PaVeBa": 4, "PaVeBaGP-DE": 32, "PaVeBaPartialGP-ell": 16}[alg]
    noise_var = 0.0625
    X = [[0.0, 0.0], [0.125, 0.625], [0.25, 0.25]]
    # the radius α the real schedule will use in round 1
    kw = {"conf_contraction": conf, "noise_var": noise_var, "epsilon": 0.125, "delta": 0.05}
    if alg == "PaVeBa":
        a_ = stubs.build(alg, in_data=X, out_data=np.zeros((3, 2)), W=W.tolist(), **kw)
        a_.round = 1
        alpha = float(a_.compute_radius())
    else:
        cls = stubs.ScriptedModelList if alg.startswith("PaVeBaPartial") else stubs.ScriptedModel
        a_ = stubs.build(alg, in_data=X, out_data=np.zeros((3, 2)), W=W.tolist(),
                         model=cls(np.array(X), np.zeros((3, 2)), np.ones((3, 2))), **kw)
        a_.round = 1
        alpha = float(a_.compute_alpha())
    for _ in range(40):
        L0, L1 = _ell_L(rng), _ell_L(rng)
        if rng.random() < 0.5:
            L1 = [list(r) for r in L0]
        t_true = _support(W, L0) + _support(W, L1)
        t_wrong = _support(W, _wrong_factor(L0)) + _support(W, _wrong_factor(L1))
        base = np.array([core.dyadic(rng, -8, 8, 3) for _ in range(2)])
        if scenario == "dom-no":
            k = int(np.argmin(t_wrong / t_true))
            if not 1.1 * t_wrong[k] < 0.9 * t_true[k]:
                continue
            target = 1.3 * np.maximum(t_true, t_wrong)
            target[k] = (1.1 * t_wrong[k] + 0.9 * t_true[k]) / 2
            c1 = base + alpha * np.linalg.solve(W, target)
            eps = 0.125
        elif scenario == "dom-yes":
            k = int(np.argmax(t_wrong / t_true))
            if not 1.1 * t_true[k] < 0.9 * t_wrong[k]:
                continue
            target = 1.3 * np.maximum(t_true, t_wrong)
            target[k] = (1.1 * t_true[k] + 0.9 * t_wrong[k]) / 2
            c1 = base + alpha * np.linalg.solve(W, target)
            eps = 0.125
        else:
            # design 1 sits below design 0 along the long axis of design 0's ellipsoid
            S0 = np.array(L0) @ np.array(L0).T
            lam, V = np.linalg.eigh(S0)
            v = V[:, -1] * (1.0 if V[:, -1].sum() >= 0 else -1.0)
            ext = alpha * float(np.sqrt(lam[-1]))
            eps = 2.0 ** np.floor(np.log2(max(0.05 * ext, 2.0 ** -12)))
            sl = eps * real_alpha_vec(W)
            c1 = None
            for d in (0.6, 0.8, 1.0, 1.2, 1.4, 1.6):
                cand = base - d * ext * v
                mt = _cover_margin(W, base, L0, cand, L1, alpha, sl)
                mw = _cover_margin(W, base, _wrong_factor(L0), cand, _wrong_factor(L1), alpha, sl)
                if mt > 0.1 * ext and mw < -0.1 * ext:
                    c1 = cand
                    break
            if c1 is None:
                continue
        c1 = np.round(np.asarray(c1) * 1024) / 1024
        far = base + np.array([40.0, -40.0]) * alpha  # incomparable bystander
        n = rng.choice([2, 3])
        Y = [list(map(float, base)), list(map(float, c1)), list(map(float, far))][:n]
        Ls = [L0, L1, _ell_L(rng)][:n]
        return {"kind": "run", "shape": "ellcorr-" + scenario, "alg": alg, "cone": cone, "eps": float(eps),
                "delta": 0.05, "n": n, "in_data": X[:n], "out_data": Y, "seed": rng.randrange(10 ** 6), "rounds": 1,
                "noise_var": noise_var, "conf": conf, "L": Ls, "mean_err": [[0.0, 0.0]] * n,
                "stub_model": alg == "PaVeBa"}
    return None


def real_alpha_vec(W):
    from harness.cones import real_order

    return np.asarray(real_order(np.asarray(W).tolist()).ordering_cone.alpha, dtype=float).reshape(-1)


# --------------------------------------------------------------------------------------------
# hand-placed rectangles on wide / narrow cones (real discarding + ε-covering, exact geometry)
# --------------------------------------------------------------------------------------------
EXTRA_CONES = {"obtuse2n3": [[2, 1], [1, 2], [1, 1]], "orthantplus2": [[1, 0], [0, 1], [2, -1]]}
_theta_orders: dict = {}


def cone_order(spec):
    """(W as float array, real order object) for an EXACT_CONES / EXTRA_CONES name or {"theta": degrees}"""
    from harness.cones import real_order

    if isinstance(spec, dict) and "rows" in spec:  # user cone given by its (exact) rows
        W = np.asarray(spec["rows"], dtype=float)
        return W, real_order(W.tolist())
    if isinstance(spec, dict) and "icecream" in spec:
        key = ("ice",) + tuple(spec["icecream"])
        if key not in _theta_orders:
            from vopy.order import ConeOrder3DIceCream

            _theta_orders[key] = ConeOrder3DIceCream(spec["icecream"][0], spec["icecream"][1])
        o = _theta_orders[key]
        return np.asarray(o.ordering_cone.W, dtype=float), o
    if isinstance(spec, dict) and "theta" not in spec:
        W = _offdiag_W(spec)
        return W, real_order(W.tolist())
    if isinstance(spec, dict):
        th = spec["theta"]
        if th not in _theta_orders:
            from vopy.order import ConeTheta2DOrder

            _theta_orders[th] = ConeTheta2DOrder(th)
        o = _theta_orders[th]
        return np.asarray(o.ordering_cone.W, dtype=float), o
    W = EXTRA_CONES[spec] if spec in EXTRA_CONES else EXACT_CONES[spec][0]
    return np.asarray(W, dtype=float), real_order(W)


def _cone_axis(spec):
    """unit axis of a {"rays": …} / {"pyramid": …} cone (its u* by symmetry)"""
    if "rays" in spec:
        mid = np.radians(sum(spec["rays"]) / 2.0)
        return np.array([np.cos(mid), np.sin(mid)])
    a = np.asarray(spec["pyramid"][0], dtype=float)
    return a / np.linalg.norm(a)


def _offdiag_W(spec):
    """cones NOT centred on the diagonal: 2-D cone spanned by two rays (degrees), or a 3-D cone with
    `n` facets arranged symmetrically around an axis at half-angle complement `phi` (inward unit normals)"""
    if "rays" in spec:
        lo, hi = np.radians(spec["rays"][0]), np.radians(spec["rays"][1])
        return np.array([[-np.sin(lo), np.cos(lo)], [np.sin(hi), -np.cos(hi)]])
    axis, phi_deg, nf = spec["pyramid"]
    a = _cone_axis(spec)
    b1 = np.cross(a, [0.0, 0.0, 1.0])
    b1 /= np.linalg.norm(b1)
    b2 = np.cross(a, b1)
    phi = np.radians(phi_deg)
    ang = 2 * np.pi * np.arange(nf) / nf
    return np.array([np.sin(phi) * a + np.cos(phi) * (np.cos(t) * b1 + np.sin(t) * b2) for t in ang])


def _boundary_generator(W):
    """a direction g on the boundary of the cone {x | Wx ≥ 0} (one facet functional 0, the others > 0)
    with a negative coordinate (exists for cones wider than the orthant); 2 objectives: orthogonal to a
    row; 3 objectives: (1, 1, z) on the first facet"""
    W = np.asarray(W, dtype=float)
    if W.shape[1] == 2:
        for w in W:
            for g in (np.array([w[1], -w[0]]), np.array([-w[1], w[0]])):
                g = g / np.max(np.abs(g))
                if np.all(W @ g >= -1e-12) and g.min() < -0.05:
                    return g
        return None
    for k, w in enumerate(W):
        if abs(w[2]) > 1e-12:
            g = np.array([1.0, 1.0, -(w[0] + w[1]) / w[2]])
            g = g / np.max(np.abs(g))
            if np.all(W @ g >= -1e-9) and g.min() < -0.05:
                return g
    return None


OFFDIAG_CONES = [{"rays": [60, 150]}, {"rays": [100, 170]}, {"pyramid": [[-1.0, 2.0, 2.0], 40, 4]},
                 {"pyramid": [[2.0, -1.0, 2.0], 35, 5]}]
WIDE_CONES = ["obtuse2", "obtuse2n3", "obtuse3", {"theta": 120}, {"theta": 135}, {"theta": 150}]
NARROW_DIRS = {"acute2": [1.0, 3.0], "threefacet2": [1.0, 3.0], "acute3": [3.0, 0.2, 0.2]}


def gen_placed_cover_case(rng, alg, cone, kind):
    """Two (three) hand-placed boxes for the rectangle ε-covering algorithms.
    kind "below-but-covers" (cones wider than the orthant): the coverer's box lies ENTIRELY below the
    candidate's box in one objective (even after the slack), and still contains a point that ε-dominates a
    point of the candidate's box, with a margin ≥ one box width; the candidate is robustly not dominated.
    kind "above-but-cannot" (narrow cones): the other box is componentwise above the candidate's box by more
    than the slack, yet no pair of points is related, margin ≥ 20 % of the box size."""
    W, _ = cone_order(cone)
    m = W.shape[1]
    if kind == "negative-ustar-covers":
        # cone whose axis u* has a NEGATIVE entry: boxes wide in that objective, narrow elsewhere; the coverer
        # sits at distance t along the axis (centres related by 9× the slack), while u*·(upper_j − lower_i) < ε
        a = _cone_axis(cone)
        k0 = int(np.argmin(a))
        hw = rng.choice([1.0, 2.0, 2.5])
        hv = np.full(m, hw / 50.0)
        hv[k0] = hw
        t = 0.75 * abs(a[k0]) * 2 * hw
        eps = float(2.0 ** np.floor(np.log2(t / 10.0)))
        ci = np.array([core.dyadic(rng, -8, 8, 2) for _ in range(m)])
        cj = np.round((ci + t * a) * 1024) / 1024
        far = ci - 40.0 * a
        lower = [list(map(float, ci - hv)), list(map(float, cj - hv)), list(map(float, far - hv))]
        upper = [list(map(float, ci + hv)), list(map(float, cj + hv)), list(map(float, far + hv))]
        n = rng.choice([2, 3])
        return {"kind": "placed", "shape": kind, "alg": alg, "cone": cone, "eps": eps, "n": n,
                "S": list(range(n)), "P": [], "lower": lower[:n], "upper": upper[:n], "enabled": True}
    hi, hj = rng.choice([0.125, 0.25, 0.5]), rng.choice([0.125, 0.25, 0.5])
    H = hi + hj
    eps = min(hi, hj) / 4
    ci = np.array([core.dyadic(rng, -8, 8, 2) for _ in range(m)])
    if kind == "below-but-covers":
        g = _boundary_generator(W)
        if g is None:
            return None
        k = int(np.argmin(g))
        t = (1.2 * H + 1.5 * eps) / abs(g[k]) * rng.choice([1.0, 1.25, 2.0])
        d = t * g
    else:
        g = np.array(NARROW_DIRS[cone if isinstance(cone, str) else ""], dtype=float)
        t = {2: 4.0, 3: 6.5}[m] * (H + eps) * rng.choice([1.0, 1.5])
        d = t * g
    cj = np.round((ci + d) * 1024) / 1024
    lower = [list(map(float, ci - hi)), list(map(float, cj - hj))]
    upper = [list(map(float, ci + hi)), list(map(float, cj + hj))]
    n = 2
    if rng.random() < 0.5:  # a third design far worse than both (all-ones is interior to every cone here)
        cw = ci - 40.0 * np.ones(m)
        lower.append(list(map(float, cw - 0.25)))
        upper.append(list(map(float, cw + 0.25)))
        n = 3
    return {"kind": "placed", "shape": kind, "alg": alg, "cone": cone, "eps": float(eps), "n": n,
            "S": list(range(n)), "P": [], "lower": lower, "upper": upper, "enabled": True}


def gen_placed_cases(seed):
    """deterministic structured list (own generator seeded from VERIF_SEED: adding cases here does not shift
    the random stream of the other families)"""
    import random

    rng = random.Random(f"placed:{seed}")
    out = []
    for alg, cones in (("VOGP", WIDE_CONES), ("VOGP_AD", ["obtuse2", {"theta": 135}])):
        for cone in cones:
            out.append(gen_placed_cover_case(rng, alg, cone, "below-but-covers"))
    for alg, cones in (("VOGP", ["acute2", "threefacet2", "acute3"]), ("VOGP_AD", ["acute2"])):
        for cone in cones:
            out.append(gen_placed_cover_case(rng, alg, cone, "above-but-cannot"))
    for alg, cones in (("VOGP", OFFDIAG_CONES), ("VOGP_AD", OFFDIAG_CONES[:1] + OFFDIAG_CONES[2:3])):
        for cone in cones:
            out.append(gen_placed_cover_case(rng, alg, cone, "negative-ustar-covers"))
    return [c for c in out if c is not None]


NEG_USTAR_CONES = [{"rows": [[-1, 0], [1, 2]]}, {"rows": [[-2, 1], [1, 1]]},
                   {"rows": [[-1.0, 0.0], [0.5, 0.8660254037844386]]}, {"rays": [60, 150]}]


def _vogp_u_star(cone):
    """u* of the cone, computed independently of the implementation (generators must not consult it)"""
    W, _ = cone_order(cone)
    return stubs.independent_u_star(W)


def _rect_cover_margin(W, d, H, sv):
    """max over e ∈ [−H, H] (box-difference extents) of min_n w_n·(d + e − sv)/‖w_n‖₁ (LP, generator only)"""
    from scipy.optimize import linprog

    W = np.asarray(W, dtype=float)
    N, m = W.shape
    wn = np.abs(W).sum(axis=1)
    # variables (e, t): maximise t  s.t.  W e − t·wn ≥ −W(d − sv)
    A = np.hstack([-W, wn[:, None]])
    bnd = [(-float(h), float(h)) for h in H] + [(None, None)]
    r = linprog(np.r_[np.zeros(m), -1.0], A_ub=A, b_ub=W @ (np.asarray(d) - np.asarray(sv)), bounds=bnd, method="highs")
    return float(r.x[-1]) if r.status == 0 else float("nan")


def gen_slack_sensitive_case(rng, alg, cone, coverable, alt="clip"):
    """Boxes NARROW in one objective and WIDE elsewhere, the other design displaced by about the slack: the
    candidate is robustly NOT dominated (so discarding() keeps it and epsiloncovering() decides, under the true
    AND under the alternative slack), and whether it can still be ε-covered depends on the exact slack vector
    ε·u* — with the alternative slack the verdict is the opposite.  `alt="clip"`: negative entries of ε·u*
    clipped to 0 (cones whose u* has a negative entry); `alt="diag"`: ε·(1,…,1)/√m (cones whose u* is NOT the
    diagonal: ice-cream cones, asymmetric user cones).  `coverable` = verdict with the true slack.
    u* is computed independently of the implementation (`stubs.independent_u_star`)."""
    W, _ = cone_order(cone)
    u = _vogp_u_star(cone)
    m = len(u)
    eps = rng.choice([0.5, 1.0, 2.0])
    sv = eps * u
    if alt == "clip":
        if u.min() >= -0.05:
            return None
        sc = np.clip(sv, 0.0, None)
        narrow_axes = [int(np.argmin(u))]
    else:
        sc = eps * np.ones(m) / np.sqrt(m)
        if np.max(np.abs(sc - sv)) < 0.1 * eps:
            return None
        narrow_axes = list(np.argsort(-np.abs(sc - sv)))
    wn = np.abs(W).sum(axis=1)
    thr = 0.02 * eps
    for k0 in narrow_axes[:2]:
        for wide, a_, b_ in [(w_, x_, y_) for w_ in (4.0, 1.0, 0.25)
                             for x_ in (-0.5, 0.5, -1.5, 1.5, 1.0, -1.0)
                             for y_ in (0.0, 2.0, -2.0, 1.0, -1.0)]:
            h = np.full(m, wide * eps)
            h[k0] = eps / 2048.0
            H = 2 * h
            d = b_ * eps * np.ones(m)
            d[k0] = a_ * (abs(sv[k0]) if alt == "clip" else eps)
            mt, mc = _rect_cover_margin(W, d, H, sv), _rect_cover_margin(W, d, H, sc)
            if not (np.isfinite(mt) and np.isfinite(mc)):
                continue
            if not ((mt >= thr and mc <= -thr) if coverable else (mt <= -thr and mc >= thr)):
                continue
            # candidate robustly not dominated by the other design (∀∀ with +slack fails), for either slack
            corners = np.array(np.meshgrid(*[[-x, x] for x in H])).reshape(m, -1).T
            dom = max(min(float(np.min((W @ (d + e + s_)) / wn)) for e in corners) for s_ in (sv, sc))
            if dom > -thr:
                continue
            ci = np.array([core.dyadic(rng, -4, 4, 2) for _ in range(m)])
            cj = ci + d
            return {"kind": "placed", "shape": f"slack-sensitive-{alt}-" + ("covers" if coverable else "cannot"),
                    "alg": alg, "cone": cone, "eps": float(eps), "n": 2, "S": [0, 1], "P": [],
                    "lower": [list(map(float, ci - h)), list(map(float, cj - h))],
                    "upper": [list(map(float, ci + h)), list(map(float, cj + h))], "enabled": True}
    return None


USTAR_OFFDIAG_CONES = [{"icecream": [30, 8]}, {"icecream": [30, 6]}, {"rows": [[1, 0], [1, 2]]},
                       {"rows": [[2, 0], [0, 1]]}, {"rows": [[1, 0, 0], [0, 1, 0], [1, 1, 1]]}]


def gen_twin_case(rng, alg, variant):
    """TWIN designs 1, 2 (bitwise identical boxes, or identical lower corners with different uppers): they
    pessimistically dominate each other, so neither is pessimistic-Pareto, and the candidate 0 — ε-dominated only
    by the twins — has no pessimistic witness and must stay."""
    a = core.dyadic(rng, -8, 8, 2)
    A = ([a, a], [a + 0.5, a + 0.5])
    T = ([a + 1.0, a + 1.0], [a + 1.5, a + 1.5])
    T2 = T if variant == "identical" else ([a + 1.0, a + 1.0], [a + 1.75, a + 1.5])
    n = 3
    lower, upper = [A[0], T[0], T2[0]], [A[1], T[1], T2[1]]
    if variant == "identical-plus-bystander":
        lower.append([a - 20.0, a - 20.0]); upper.append([a - 19.5, a - 19.5]); n = 4
    order = list(range(n))
    if rng.random() < 0.5:  # which twin is reached first must not matter
        lower[1], lower[2], upper[1], upper[2] = lower[2], lower[1], upper[2], upper[1]
    return {"kind": "placed", "shape": "twins-" + variant, "alg": alg, "cone": "orthant2", "eps": 0.125, "n": n,
            "S": order, "P": [], "lower": lower, "upper": upper, "enabled": True}


def gen_twin_run_case(rng, alg="EpsilonPAL"):
    """real run on a dataset with DUPLICATED rows (designs 1 and 2 are the same input point with the same values):
    their posteriors, hence their displayed boxes, are identical in every round; design 0 lies below them."""
    m = 2
    conf = 8
    X = [[0.0, 0.0], [0.5, 0.5], [0.5, 0.5]]
    kw = {"conf_contraction": conf, "noise_var": 0.0625, "epsilon": 0.125, "delta": 0.05}
    okw = {} if alg == "EpsilonPAL" else {"W": [[1, 0], [0, 1]]}
    a_ = stubs.build(alg, in_data=X, out_data=np.zeros((3, m)),
                     model=stubs.ScriptedModel(np.array(X), np.zeros((3, m)), np.ones((3, m))), **okw, **kw)
    a_.round = 0
    beta = float(np.max(np.asarray(a_.compute_beta(), dtype=float)))
    a = core.dyadic(rng, -8, 8, 2)
    hw = 0.25
    sd = hw / beta
    Y = [[a, a], [a + 1.0, a + 1.0], [a + 1.0, a + 1.0]]
    return {"kind": "run", "shape": "twin-rows", "alg": alg, "cone": "orthant2", "eps": 0.125, "delta": 0.05, "n": 3,
            "in_data": X, "out_data": Y, "seed": rng.randrange(10 ** 6), "rounds": 2, "noise_var": 0.0625, "conf": conf,
            "L": [[[sd, 0.0], [0.0, sd]]] * 3, "mean_err": [[0.0, 0.0]] * 3}


def gen_placed_multiround(rng, alg, cone, variant):
    """two designs over two rounds; between the rounds only ONE bound of a region moves
    ("upper-shrinks": lower kept bit-identical; "lower-rises": upper kept; "both"), and the move creates an
    elimination certificate for design 0 in round 2 that did not exist in round 1."""
    a = core.dyadic(rng, -8, 8, 2)
    narrow = cone in ("acute2", "threefacet2")
    A1, A2 = ([a, a + 1.5], [a, a + 0.5]) if narrow else ([a, a + 1.0], [a, a + 0.5])
    B = [a + 1.6, a + 1.8] if narrow else [a + 0.6, a + 1.1]
    if variant == "upper-shrinks":
        r1 = ([A1, B]); r2 = ([A2, B])
    elif variant == "lower-rises":
        Bw = [a + 0.25, B[1]]
        r1 = ([A2, Bw]); r2 = ([A2, B])
    else:
        r1 = ([A1, [B[0] - 0.25, B[1] + 0.25]]); r2 = ([A2, B])
    def boxes(r):
        return {"lower": [[b[0], b[0]] for b in r], "upper": [[b[1], b[1]] for b in r]}
    return {"kind": "placed", "shape": "two-rounds-" + variant, "alg": alg, "cone": cone, "eps": 0.015625, "n": 2,
            "S": [0, 1], "P": [], "rounds": [boxes(r1), boxes(r2)], "enabled": True}


def gen_placed_moving(rng, alg):
    """three designs over two rounds under the orthant; the regions are REBUILT each round, not nested: in round 1
    design 1 cannot ε-cover design 0 (its second coordinate is too low) while design 2 can, so 0 stays in S; in
    round 2 design 2 has dropped (and is discarded) while design 1's region has risen and now covers 0 with margin
    0.1 — 0 must still stay in S.  An answer about the pair (0, 1) remembered from round 1 lets 0 into P."""
    a = core.dyadic(rng, -8, 8, 2)
    def box(lo, hi):
        return ([a + lo[0], a + lo[1]], [a + hi[0], a + hi[1]])
    r1 = [box([1.0, 1.0], [1.5, 1.5]), box([2.0, 0.0], [2.5, 0.5]), box([0.8, 0.8], [1.2, 1.2])]
    r2 = [box([1.0, 1.0], [1.5, 1.5]), box([2.0, 0.6], [2.5, 1.1]), box([0.2, 0.2], [0.6, 0.6])]
    def boxes(r):
        return {"lower": [b[0] for b in r], "upper": [b[1] for b in r]}
    return {"kind": "placed", "shape": "two-rounds-moving", "alg": alg, "cone": "orthant2", "eps": 0.015625, "n": 3,
            "S": [0, 1, 2], "P": [], "rounds": [boxes(r1), boxes(r2)], "enabled": True}


def gen_placed_cases2(seed):
    """second deterministic list (separate generator so that the first list is unchanged)"""
    import random

    rng = random.Random(f"placed2:{seed}")
    out = []
    for alg, cones in (("VOGP", NEG_USTAR_CONES + OFFDIAG_CONES[1:2]), ("VOGP_AD", NEG_USTAR_CONES[:2])):
        for cone in cones:
            out.append(gen_slack_sensitive_case(rng, alg, cone, True))
            out.append(gen_slack_sensitive_case(rng, alg, cone, False))
    for cone in USTAR_OFFDIAG_CONES:  # VOGP only: VOGP_AD carries its own copy of compute_u_star
        out.append(gen_slack_sensitive_case(rng, "VOGP", cone, True, alt="diag"))
        out.append(gen_slack_sensitive_case(rng, "VOGP", cone, False, alt="diag"))
    for cone in USTAR_OFFDIAG_CONES[:1] + USTAR_OFFDIAG_CONES[2:3]:
        out.append(gen_slack_sensitive_case(rng, "VOGP_AD", cone, False, alt="diag"))
    for alg in ("EpsilonPAL", "VOGP", "VOGP_AD"):
        for variant in ("identical", "same-lower", "identical-plus-bystander"):
            out.append(gen_twin_case(rng, alg, variant))
    for alg, cones in (("PaVeBaGP-IH", ["orthant2", "acute2"]), ("PaVeBaPartialGP-rect", ["orthant2"]),
                       ("VOGP", ["orthant2", "acute2", "threefacet2"]), ("EpsilonPAL", ["orthant2"]),
                       ("VOGP_AD", ["orthant2"])):
        for cone in cones:
            for variant in ("upper-shrinks", "lower-rises", "both"):
                out.append(gen_placed_multiround(rng, alg, cone, variant))
    for alg in ("EpsilonPAL", "VOGP", "VOGP_AD"):
        out.append(gen_placed_moving(rng, alg))
    return [c for c in out if c is not None]


def placed_algorithm(case):
    name, n = case["alg"], case["n"]
    W, order = cone_order(case["cone"])
    m = W.shape[1]
    X = np.array([[i / 8.0, (i * 3 % 8) / 8.0] for i in range(n)])
    if name == "VOGP_AD":
        pr = stubs.SyntheticContinuousProblem(lambda x: np.zeros((len(x), m)), 1, m, 0.01, depth_max=4)
        mdl = stubs.ScriptedModel(np.zeros((0, 1)), np.zeros((0, m)), np.zeros((0, m, m)),
                                  fallback=lambda x: (np.zeros(m), np.ones(m)))
        a = stubs.build(name, problem=pr, order=order, epsilon=case["eps"], model=mdl)
        k = 0
        while len(a.design_space.points) < n:
            a.design_space.refine_design(k)
            k += 1
        a.design_space.point_depths = [a.max_discretization_depth] * len(a.design_space.points)
        a.enable_epsilon_covering = bool(case.get("enabled", True))
        return a
    cls = stubs.ScriptedModelList if name.startswith("PaVeBaPartial") else stubs.ScriptedModel
    mdl = cls(X, np.zeros((n, m)), np.ones((n, m)))
    kw = {} if name == "EpsilonPAL" else {"order": order}
    return stubs.build(name, in_data=X, out_data=np.zeros((n, m)), epsilon=case["eps"], model=mdl, **kw)


def run_placed(ctx, case, prop):
    """real `discarding()` + `epsiloncovering()` / `pareto_updating()` + `useful_updating()` on boxes written
    into the real region objects, checked like a round of stream 2 (exact geometry + real predicates)"""
    name = case["alg"]
    ctx.count("placed_" + name)
    ctx.count("placedshape_" + case.get("shape", "?"))
    try:
        alg = placed_algorithm(case)
    except Exception as e:
        viol(ctx, f"crash:{name}.__init__:{core.exc_key(e)}", f"{name} constructor raised {type(e).__name__}: {e}", case)
        ctx.case_done(case, False)
        return
    alg.S, alg.P = set(case["S"]), set(case["P"])
    if hasattr(alg, "U"):
        alg.U = set(case.get("U", []))
    trace = instrument(alg)
    phases = (["discarding", "epsiloncovering"] if is_pess(name) else ["discarding", "pareto_updating", "useful_updating"])
    # one or several rounds: before each round the boxes of that round are written into the SAME region objects
    # (between rounds only some bounds move — e.g. lower kept bit-identical while upper shrinks, as nested regions do)
    rounds = case.get("rounds") or [{"lower": case["lower"], "upper": case["upper"]}]
    nt = False
    for rnd, boxes in enumerate(rounds):
        if not alg.S:
            break
        for i in range(case["n"]):
            r = alg.design_space.confidence_regions[i]
            r.lower = np.array(boxes["lower"][i], dtype=float)
            r.upper = np.array(boxes["upper"][i], dtype=float)
        del trace[:]
        for ph in phases:
            try:
                getattr(alg, ph)()
            except Exception as e:
                viol(ctx, f"crash:{name}.{ph}:{core.exc_key(e)}", f"{name}.{ph}() raised {type(e).__name__}: {e}", case,
                     kind="R", detail={"round": rnd})
                ctx.case_done(case, False)
                return
        try:
            nt = check_round(ctx, case, prop, alg, trace, rnd) or nt
        except RealCodeCrash as c:
            viol(ctx, f"crash:{c.phase}:{core.exc_key(c.exc)}", f"{name}: the real {c.phase} raised "
                 f"{type(c.exc).__name__}: {c.exc} on displayed regions with the algorithm's own slack", case, kind="R",
                 detail={"round": rnd})
            break
    ctx.case_done(case, bool(nt), canon=["placed", name, case["cone"], rounds, case["S"], case["P"]])


LATE_FACET_CONES = ["threefacet2", "orthantplus2", "fourfacet3", "pyramid3", {"icecream": [45, 4]},
                    {"icecream": [60, 6]}, {"icecream": [45, 5]}, {"icecream": [50, 8]}]


def _ell_L_m(rng, m):
    if m == 2:
        return _ell_L(rng)
    u = rng.choice([0.0625, 0.125])
    L = [[0.0] * m for _ in range(m)]
    for a_ in range(m):
        L[a_][a_] = u * rng.choice([2, 3, 4, 6])
        for b_ in range(a_):
            L[a_][b_] = u * rng.choice([0, 0, 1, -1, 2, -2, 3, -3])
    return L


def gen_ell_latefacet_case(rng, alg, cone, certified=False):
    """two designs with ellipsoidal regions under a cone with MORE facets than objectives (N > m): the witness
    wins with a margin ≥ 30 % on the first m facets; `certified=False`: it loses by ≥ 20 % on a facet of index
    ≥ m (no certificate — decided by a late facet), `certified=True`: it wins on every facet (control)."""
    W, order = cone_order(cone)
    N, m = W.shape
    conf = {"PaVeBa": 4, "PaVeBaGP-DE": 32, "PaVeBaPartialGP-ell": 16}[alg]
    noise_var = 0.0625
    X = [[0.0, 0.0], [0.125, 0.625]]
    kw = {"conf_contraction": conf, "noise_var": noise_var, "epsilon": 0.125, "delta": 0.05}
    if alg == "PaVeBa":
        a_ = stubs.build(alg, in_data=X, out_data=np.zeros((2, m)), order=order, **kw)
        a_.round = 1
        alpha = float(a_.compute_radius())
    else:
        cls = stubs.ScriptedModelList if alg.startswith("PaVeBaPartial") else stubs.ScriptedModel
        a_ = stubs.build(alg, in_data=X, out_data=np.zeros((2, m)), order=order,
                         model=cls(np.array(X), np.zeros((2, m)), np.ones((2, m))), **kw)
        a_.round = 1
        alpha = float(a_.compute_alpha())
    for _ in range(200):
        L0, L1 = _ell_L_m(rng, m), _ell_L_m(rng, m)
        t = _support(W, L0) + _support(W, L1)  # per-facet support sums (α = 1)
        gaps = np.array([t[k] * rng.choice([1.3, 2.0, 4.0, 8.0, 16.0]) for k in range(m)])
        try:
            shift = np.linalg.solve(W[:m], gaps)
        except np.linalg.LinAlgError:
            return None
        marg = W @ shift - t
        late = marg[m:]
        if certified:
            if not np.all(marg >= 0.3 * t):
                continue
        elif not (np.any(late <= -0.2 * t[m:]) and np.all(marg[:m] >= 0.29 * t[:m])):
            continue
        base = np.array([core.dyadic(rng, -8, 8, 3) for _ in range(m)])
        c1 = np.round((base + alpha * shift) * 1024) / 1024
        return {"kind": "run", "shape": "ell-late-facet-" + ("yes" if certified else "no"), "alg": alg, "cone": cone,
                "eps": 0.125, "delta": 0.05, "n": 2, "in_data": X, "out_data": [list(map(float, base)), list(map(float, c1))],
                "seed": rng.randrange(10 ** 6), "rounds": 1, "noise_var": noise_var, "conf": conf, "L": [L0, L1],
                "mean_err": [[0.0] * m] * 2, "stub_model": alg == "PaVeBa"}
    return None


def gen_latefacet_cases(seed):
    """deterministic structured list (own generator, see gen_placed_cases)"""
    import random

    rng = random.Random(f"latefacet:{seed}")
    out = []
    algs = ["PaVeBa", "PaVeBaGP-DE", "PaVeBaPartialGP-ell"]
    for k, cone in enumerate(LATE_FACET_CONES):
        out.append(gen_ell_latefacet_case(rng, algs[k % 3], cone, certified=False))
        out.append(gen_ell_latefacet_case(rng, algs[(k + 1) % 3], cone, certified=False))
    for k, cone in enumerate(LATE_FACET_CONES[::3]):
        out.append(gen_ell_latefacet_case(rng, algs[k % 3], cone, certified=True))
    return [c for c in out if c is not None]


def gen_nested_case(rng, alg, cone="orthant2"):
    """real multi-round run in the documented nested-region mode of `RectangularConfidenceRegion`
    (`intersect_iteratively=True`: R_t = R_{t−1} ∩ Q_t keeps the old lower bound bit-identical whenever the new box
    starts lower) with a scripted posterior: design 0's box shrinks from above in round 2 and becomes dominated by
    design 1's box, which does not move."""
    W, order = cone_order(cone)
    m = 2
    X = [[0.0, 0.0], [0.125, 0.625]]
    conf = {"PaVeBaGP-IH": 32, "PaVeBaPartialGP-rect": 16, "VOGP": 8, "EpsilonPAL": 8}[alg]
    kw = {"conf_contraction": conf, "noise_var": 0.0625, "epsilon": 0.015625, "delta": 0.05}
    cls = stubs.ScriptedModelList if alg.startswith("PaVeBaPartial") else stubs.ScriptedModel
    okw = {} if alg == "EpsilonPAL" else {"order": order}
    a_ = stubs.build(alg, in_data=X, out_data=np.zeros((2, m)), model=cls(np.array(X), np.zeros((2, m)), np.ones((2, m))),
                     **okw, **kw)
    scales = []
    for r in (0, 1):
        a_.round = r + (0 if is_pess(alg) else 1)
        sc = a_.compute_beta() if is_pess(alg) else a_.compute_alpha()
        scales.append(float(np.max(np.asarray(sc, dtype=float))))
    a = core.dyadic(rng, -8, 8, 2)
    # round 1: A = [a, a+1]², B = [a+.6, a+1.1]²; round 2 proposal for A: [a−.1, a+.5]² → displayed [a, a+.5]²
    boxes = [[(a, a + 1.0), (a + 0.6, a + 1.1)], [(a - 0.1, a + 0.5), (a + 0.6, a + 1.1)]]
    posts = []
    for r in (0, 1):
        means = [[(lo + hi) / 2.0] * m for (lo, hi) in boxes[r]]
        sds = [[(hi - lo) / 2.0 / scales[r]] * m for (lo, hi) in boxes[r]]
        posts.append({"means": means, "vars": [[x * x for x in row] for row in sds]})
    return {"kind": "run", "shape": "nested-upper-shrinks", "alg": alg, "cone": cone, "eps": 0.015625, "delta": 0.05,
            "n": 2, "in_data": X, "out_data": posts[0]["means"], "seed": rng.randrange(10 ** 6), "rounds": 2,
            "noise_var": 0.0625, "conf": conf, "script": posts, "intersect": True, "mean_err": [[0.0, 0.0]] * 2}


def gen_nested_cases(seed):
    import random

    rng = random.Random(f"nested:{seed}")
    out = [gen_nested_case(rng, alg) for alg in ("PaVeBaGP-IH", "PaVeBaPartialGP-rect", "VOGP", "EpsilonPAL")]
    return out + [gen_twin_run_case(rng, "EpsilonPAL"), gen_twin_run_case(rng, "VOGP")]


def _guarded_gen(ctx, fname, fn, *args):
    """call a case generator that sizes its boxes with schedules of the code under test; a failure loses that
    case only (reported once per family as (F))"""
    try:
        return fn(*args)
    except Exception as e:
        if not ctx.counters.get("generator_family_failed:" + fname):
            ctx.violation("generator-family-failed:" + fname, f"a case of the structured family {fname!r} could not be "
                          f"generated ({type(e).__name__}: {e})", {"family": fname}, kind="F")
        ctx.count("generator_family_failed:" + fname)
        return None


def _flip_bits(b):
    return "".join("1" if c == "0" else "0" if c == "1" else c for c in b)


def gen_tablehist_case(rng, alg):
    """3–4 table cases on the SAME (cached) algorithm object with the same S / P / U: random tables, their
    complement, the first tables again, a fresh random table"""
    first = gen_table_case(rng, alg, nmax=6)
    while first["n"] < 3 or len(first["S"]) < 2:
        first = gen_table_case(rng, alg, nmax=6)
    second = dict(first)
    for k in ("dom", "cov", "pess"):
        if k in first:
            second[k] = _flip_bits(first[k])
    fresh = gen_table_case(rng, alg, nmax=6)
    third = dict(first)
    steps = [first, second, third]
    if fresh["n"] == first["n"]:
        fourth = dict(first)
        for k in ("dom", "cov", "pess"):
            if k in first and k in fresh:
                fourth[k] = fresh[k]
        steps.append(fourth)
    for st in steps:
        st["shape"] = first["shape"]
    return {"kind": "tablehist", "steps": steps}


def gen(ctx):
    rng = ctx.rng
    if ctx.worker == 0:
        import random as _random
        for alg in TABLE_ALGS:
            hr = _random.Random(f"tablehist-{alg}")     # seed-independent: the same histories in every run
            for _ in range(3):
                yield gen_tablehist_case(hr, alg)
    # structured first: every algorithm class × every table shape once
    if ctx.worker == 0:
        for fname, fam in (("placed", gen_placed_cases), ("placed2", gen_placed_cases2), ("nested", gen_nested_cases),
                           ("latefacet", gen_latefacet_cases)):
            # a family whose generator fails (it may call constructors / schedules of the code under test to size
            # its boxes) is skipped alone; the other families still run
            try:
                cases = fam(ctx.seed)
            except Exception as e:
                ctx.count("generator_family_failed:" + fname)
                ctx.violation("generator-family-failed:" + fname, f"the structured family {fname!r} could not be "
                              f"generated ({type(e).__name__}: {e}); the other families still run",
                              {"family": fname}, kind="F")
                cases = []
            for c in cases:
                yield c
        for alg in TABLE_ALGS:
            for _ in range(2):
                yield gen_table_case(rng, alg)
        for alg in sorted(set(RUN_ALGS)):
            yield gen_run_case(rng, alg)
        # rectangle-based discarding on narrow / many-facet cones with gaps comparable to the region widths
        for alg, cones in (("VOGP", ["acute2", "acute3", "threefacet2", "fourfacet3"]),
                           ("VOGP_AD", ["acute2", "threefacet2"]), ("PaVeBaGP-IH", ["acute2", "acute3"]),
                           ("PaVeBaPartialGP-rect", ["acute2", "acute3"]), ("PaVeBaGP-DE", ["acute2"]),
                           ("PaVeBa", ["acute2", "threefacet2"])):
            for cone in cones:
                for _ in range(2):
                    yield gen_run_case(rng, alg, cone=cone, chain=True)
        # strongly correlated / anisotropic ellipsoids with the decisive pair placed robustly
        for alg in ("PaVeBaGP-DE", "PaVeBa", "PaVeBaPartialGP-ell"):
            for scenario in ("dom-no", "dom-yes", "cov-yes"):
                for _ in range(2 if alg != "PaVeBaPartialGP-ell" else 1):
                    c = _guarded_gen(ctx, "ellcorr", gen_ellcorr_case, rng, alg, scenario)
                    if c is not None:
                        yield c
    for _ in range(ctx.n(0, 300)):
        c = _guarded_gen(ctx, "ellcorr", gen_ellcorr_case, rng,
                         rng.choice(["PaVeBaGP-DE", "PaVeBa", "PaVeBaPartialGP-ell"]),
                         rng.choice(["dom-no", "dom-yes", "cov-yes"]))
        if c is not None:
            yield c
    for _ in range(ctx.n(150, 6000)):
        yield gen_auer_case(rng)
    nmax = 7 if ctx.tier == "quick" else 10
    for _ in range(ctx.n(400, 20000)):
        yield gen_table_case(rng, nmax=nmax)
    for _ in range(ctx.n(30, 2000)):
        yield gen_tablehist_case(rng, rng.choice(TABLE_ALGS))
    for _ in range(ctx.n(30, 1000)):
        yield gen_run_case(rng)


# --------------------------------------------------------------------------------------------
# stream 1: tables
# --------------------------------------------------------------------------------------------
def run_table(ctx, case, prop):
    name, n = case["alg"], case["n"]
    try:
        alg = table_algorithm(name, n, case["cone"], case["eps"])
    except Exception as e:
        viol(ctx, f"crash:{name}.__init__:{core.exc_key(e)}", f"{name} constructor raised {type(e).__name__}: {e}",
             case, kind="R")
        ctx.case_done(case, False)
        return
    ctx.count("table_" + name)
    ctx.count("shape_" + case["shape"])
    S0, P0, U0 = sset(case["S"]), sset(case["P"]), sset(case.get("U", []))
    Sa, Pa, Ua = core.nats(case["S"]), core.nats(case["P"]), core.nats(case.get("U", []))
    ns = str(n)
    pess_family = is_pess(name)

    def step(method, *check):
        """run one real phase under the table oracle; returns (oracle, exception-or-None)"""
        orc = make_oracle(alg, case)
        try:
            with stubs.patch_geometry(alg, **orc.patches()):
                out = getattr(alg, method)()
        except AssertionError as e:  # raised by the oracle itself (unknown region / unexpected call)
            report_oracle_problems(ctx, orc, case, method)
            return orc, e, None
        except Exception as e:
            viol(ctx, f"crash:{name}.{method}:{core.exc_key(e)}", f"{name}.{method}() raised {type(e).__name__}: {e}",
                          case, kind="R")
            return orc, e, None
        report_oracle_problems(ctx, orc, case, method)
        return orc, None, out

    nontrivial = False
    if prop == "C02":
        # ---- (a) pessimistic set
        if pess_family:
            install_sets(alg, case)
            orc, err, pess = step("compute_pessimistic_set")
            if err is None:
                model = core.parse_nats(ctx.ask("pess", Sa, Pa, ns, case["pess"]))
                if sset(pess) != model:
                    viol(ctx, f"pessimistic-set:{name}", f"{name}.compute_pessimistic_set differs from the model",
                                  case, kind="F", detail={"impl": sset(pess), "model": model})
        # ---- (b) discarding
        install_sets(alg, case)
        orc, err, _ = step("discarding")
        if err is not None:
            ctx.case_done(case, False)
            return
        S1 = sset(alg.S)
        if pess_family:
            model = core.parse_nats(ctx.ask("vogp", Sa, Pa, ns, case["dom"], case["pess"]))
        else:
            model = core.parse_nats(ctx.ask("paveba", Sa, Ua, ns, case["dom"]))
        if S1 != model:
            viol(ctx, f"discard:{name}", f"{name}.discarding(): resulting S differs from the model "
                          "(certificate: witness set / argument order / self-comparison guard)", case, kind="F",
                          detail={"impl": S1, "model": model})
        if sset(alg.P) != P0 or (hasattr(alg, "U") and sset(alg.U) != U0):
            viol(ctx, f"discard-touches-PU:{name}", f"{name}.discarding() changed P or U", case, kind="F")
        # ---- (c) whole decision round: S − (S' ∪ P')
        nxt = "epsiloncovering" if pess_family else "pareto_updating"
        orc, err, _ = step(nxt)
        if err is None:
            elim = sorted(set(S0) - set(alg.S) - set(alg.P))
            if name == "VOGP_AD":
                # gate closed → nothing moves to P; the elimination set is the discarded set either way
                ref = sorted(set(S0) - set(model) - set(P0))
                tag = "elim-ad"
            elif pess_family:
                ref = core.parse_nats(ctx.ask("elim_vogp", Sa, Pa, ns, case["dom"], case["cov"], case["pess"]))
                tag = "elim"
            else:
                ref = core.parse_nats(ctx.ask("elim_paveba", Sa, Pa, Ua, ns, case["dom"], case["cov"]))
                tag = "elim"
            if elim != ref:
                viol(ctx, f"{tag}:{name}", f"{name}: S_before − (S_after ∪ P_after) differs from the certified set",
                              case, kind="F", detail={"impl": elim, "model": ref})
            nontrivial = 0 < len(ref) < len(S0)
            ctx.count("eliminated_%s" % ("none" if not ref else "all" if len(ref) == len(S0) else "some"))
    else:  # ---------------------------------------------------------------------------- C03
        nxt = "epsiloncovering" if pess_family else "pareto_updating"
        # ---- (a) pareto update from the arbitrary state
        install_sets(alg, case)
        orc, err, _ = step(nxt)
        if err is not None:
            ctx.case_done(case, False)
            return
        S1, P1 = sset(alg.S), sset(alg.P)
        if name == "VOGP_AD":
            ans = ctx.ask("coverad", Sa, Pa, ns, case["cov"], core.nats(case["depths"]), str(case["max_depth"]),
                          "1" if case["enabled"] else "0")
            mS, mP, me = ans.split(";")
            mS, mP = core.parse_nats(mS), core.parse_nats(mP)
            if bool(alg.enable_epsilon_covering) != (me == "1"):
                viol(ctx, "ad-latch", "VOGP_AD.enable_epsilon_covering differs from the model's gate/latch",
                              case, kind="F", detail={"impl": bool(alg.enable_epsilon_covering), "model": me})
            ctx.count("ad_gate_%s" % ("open" if me == "1" else "closed"))
        elif pess_family:
            mS, mP = parse_sets(ctx.ask("cover", Sa, Pa, ns, case["cov"]))
        else:
            mS, mP = parse_sets(ctx.ask("pareto", Sa, Pa, Ua, ns, case["cov"]))
        if (S1, P1) != (mS, mP):
            viol(ctx, f"pareto:{name}", f"{name}.{nxt}(): resulting (S, P) differ from the model "
                          "(P-entry: witness set / argument order / slack / guard)", case, kind="F",
                          detail={"impl": [S1, P1], "model": [mS, mP]})
        if not set(P0) <= set(P1):
            viol(ctx, f"P-shrinks:{name}", f"{name}.{nxt}() removed a member of P", case, kind="R")
        new = sorted(set(mP) - set(P0))
        nontrivial = 0 < len(new) < len(S0)
        ctx.count("entered_%s" % ("none" if not new else "all" if len(new) == len(S0) else "some"))
        # ---- (b) useful update on the resulting state
        if not pess_family:
            orc, err, _ = step("useful_updating")
            if err is None:
                U1 = sset(alg.U)
                mU = core.parse_nats(ctx.ask("useful", core.nats(S1), core.nats(P1), ns, case["cov"]))
                if U1 != mU:
                    viol(ctx, f"useful:{name}", f"{name}.useful_updating(): U differs from "
                                  "{p ∈ P | some s ∈ S can be covered by p}", case, kind="F",
                                  detail={"impl": U1, "model": mU})
                ctx.count("useful_%s" % ("empty" if not mU else "nonempty"))
        # ---- (c) whole round from the same state
        install_sets(alg, case)
        ok = True
        for method in (["discarding", nxt] + ([] if pess_family else ["useful_updating"])):
            orc, err, _ = step(method)
            if err is not None:
                ok = False
                break
        if ok and name != "VOGP_AD":
            got = [sset(alg.S), sset(alg.P)] + ([] if pess_family else [sset(alg.U)])
            if pess_family:
                ref = parse_sets(ctx.ask("vround", Sa, Pa, ns, case["dom"], case["cov"], case["pess"]))
            else:
                ref = parse_sets(ctx.ask("round", Sa, Pa, Ua, ns, case["dom"], case["cov"]))
            if got != ref:
                viol(ctx, f"round:{name}", f"{name}: sets after discarding + pareto update (+ useful update) "
                              "differ from the model", case, kind="F", detail={"impl": got, "model": ref})
    ctx.case_done(case, nontrivial, canon=[name, S0, P0, U0, case["dom"], case["cov"], case.get("pess"),
                                           case.get("depths"), case.get("enabled")])


# --------------------------------------------------------------------------------------------
# stream 1, Auer: real centres and width rows
# --------------------------------------------------------------------------------------------
_auer_cache: dict = {}


def auer_algorithm(n, m, eps):
    key = (n, m, eps)
    if key not in _auer_cache:
        X = np.arange(n, dtype=float)[:, None]
        _auer_cache[key] = stubs.build("Auer", in_data=X, out_data=np.zeros((n, m)), epsilon=eps,
                                       use_empirical_beta=True)
    return _auer_cache[key]


def install_auer(alg, case, S_order):
    """centres → region bounds (exact: dyadic centre ∓ 1/4), widths → beta_t rows aligned with the
    iteration order `S_order` (what `compute_beta` produces for `list(self.S)`)."""
    for i, c in enumerate(case["centres"]):
        r = alg.design_space.confidence_regions[i]
        r.lower = np.array(c, dtype=float) - 0.25
        r.upper = np.array(c, dtype=float) + 0.25
    alg.S = ShuffledSet(S_order)
    alg.P = ShuffledSet(case["P"])
    stubs.auer_set_widths(alg, S_order, [case["widths"][i] for i in S_order])


def run_auer(ctx, case, prop):
    n, m, eps = case["n"], case["m"], case["eps"]
    ctx.count("auer_" + case["shape"])
    C, Wd = core.qmat(case["centres"]), core.qmat(case["widths"])
    S0, P0 = list(case["S"]), sset(case["P"])
    rows0 = core.qmat([case["widths"][i] for i in S0])
    try:
        alg = auer_algorithm(n, m, eps)
        install_auer(alg, case, S0)  # (detects the form of beta_t by running a tiny real Auer.modeling())
    except stubs.AuerWidthFormUnknown as e:
        # never guess the internal store: skip the injection family (whole runs still judge Auer from the
        # displayed regions only) and say so once
        if not ctx.__dict__.get("_auer_form_reported"):
            ctx.__dict__["_auer_form_reported"] = True
            ctx.violation("auer-width-representation-unknown", "the representation of Auer.beta_t produced by this "
                          f"tree's modeling() is not recognised by the harness ({e}); the Auer families that inject "
                          "centres/widths are skipped", case, kind="F")
        ctx.count("auer_injection_skipped")
        ctx.case_done(case, False)
        return
    except Exception as e:
        viol(ctx, "crash:Auer.__init__/modeling:" + core.exc_key(e), f"Auer constructor / modeling() raised "
             f"{type(e).__name__}: {e}", case, kind="R")
        ctx.case_done(case, False)
        return
    try:
        alg.discarding()
    except Exception as e:
        viol(ctx, "crash:Auer.discarding:" + core.exc_key(e), f"Auer.discarding() raised {type(e).__name__}: {e}", case)
        ctx.case_done(case, False)
        return
    S1_order = list(alg.S)
    S1 = sset(S1_order)
    nontrivial = False
    if prop == "C02":
        mS1 = core.parse_nats(ctx.ask("auer", core.nats(S0), C, Wd))
        lit = core.parse_nats(ctx.ask("auerpos", core.nats(S0), C, rows0))
        if S1 != mS1:
            viol(ctx, "auer-discard", "Auer.discarding(): a design is discarded without / kept despite "
                          "∃ j ∈ S∖{i}: ∀d m(c_i,c_j) > β_i^d + β_j^d (own widths)", case, kind="R",
                          detail={"impl": S1, "model": mS1, "literal": lit})
        # whole round elimination set, own widths
        try:
            alg.pareto_updating()
        except Exception as e:
            viol(ctx, "crash:Auer.pareto_updating:" + core.exc_key(e),
                          f"Auer.pareto_updating() raised {type(e).__name__}: {e}", case)
            ctx.case_done(case, False)
            return
        elim = sorted(set(S0) - set(alg.S) - set(alg.P))
        ref = core.parse_nats(ctx.ask("elim_auer", core.q(eps), core.nats(S0), core.nats(P0), C, Wd))
        if elim != ref:
            viol(ctx, "auer-elim", "Auer: S_before − (S_after ∪ P_after) differs from the certified set", case,
                          kind="R", detail={"impl": elim, "model": ref})
        nontrivial = 0 < len(ref) < len(S0)
        ctx.count("eliminated_%s" % ("none" if not ref else "all" if len(ref) == len(S0) else "some"))
        ctx.case_done(case, nontrivial, canon=["auer", case["S"], P0, case["centres"], case["widths"], eps])
        return
    # ------------------------------------------------------------------------------ C03
    # (a) pareto_updating after the real discarding, rows still aligned with the pre-discard order
    try:
        alg.pareto_updating()
    except Exception as e:
        viol(ctx, "crash:Auer.pareto_updating:" + core.exc_key(e),
                      f"Auer.pareto_updating() raised {type(e).__name__}: {e}", case)
        ctx.case_done(case, False)
        return
    got = [sset(alg.S), sset(alg.P)]
    qe = core.q(eps)
    design = parse_sets(ctx.ask("auer", qe, core.nats(S1_order), core.nats(P0), C, Wd))
    literal = parse_sets(ctx.ask("auerpos", qe, core.nats(S1_order), core.nats(P0), C, rows0))
    shifted = S1_order != S0[:len(S1_order)]
    ctx.count("auer_positions_%s" % ("shifted" if shifted else "aligned"))
    if got != design:
        if got == literal:
            viol(ctx, "auer-width-by-position",
                          "Auer.pareto_updating(): after discarding() shrank S, beta_t is indexed by the position in "
                          "the shrunk set, so designs are compared with other designs' confidence widths; "
                          "P-entry / hold-back differs from the rule evaluated with each design's own width",
                          case, kind="R", detail={"impl": got, "own-widths": design, "S_after_discard": S1_order,
                                                  "S_before": S0})
        else:
            viol(ctx, "auer-pareto", "Auer.pareto_updating(): (S, P) differ from the two-stage rule "
                          "(P1: ∀j ¬(∀d M(c_i,c_j) < β_i+β_j); then ∀ j ∈ S∖P1 ¬(∀d M(c_j,c_i) ≤ β_i+β_j))",
                          case, kind="R", detail={"impl": got, "own-widths": design, "literal": literal})
    elif got != literal:
        ctx.count("auer_own_width_not_positional")  # the code used own widths where positions had shifted
    if not set(P0) <= set(got[1]):
        viol(ctx, "P-shrinks:Auer", "Auer.pareto_updating() removed a member of P", case, kind="R")
    # (b) pareto_updating on a state whose rows ARE aligned with S (no shrink in between)
    install_auer(alg, case, S0)
    try:
        alg.pareto_updating()
        got2 = [sset(alg.S), sset(alg.P)]
        design2 = parse_sets(ctx.ask("auer", qe, core.nats(S0), core.nats(P0), C, Wd))
        if got2 != design2:
            viol(ctx, "auer-pareto", "Auer.pareto_updating() on aligned widths differs from the two-stage rule",
                          case, kind="R", detail={"impl": got2, "own-widths": design2})
        new = sorted(set(design2[1]) - set(P0))
        nontrivial = 0 < len(new) < len(S0)
        ctx.count("entered_%s" % ("none" if not new else "all" if len(new) == len(S0) else "some"))
        ctx.count("auer_heldback_%s" % ("yes" if len(design2[0]) and len(new) < len(S0) else "no"))
    except Exception as e:
        viol(ctx, "crash:Auer.pareto_updating:" + core.exc_key(e),
                      f"Auer.pareto_updating() raised {type(e).__name__}: {e}", case)
    ctx.case_done(case, nontrivial, canon=["auer", case["S"], P0, case["centres"], case["widths"], eps])


# --------------------------------------------------------------------------------------------
# stream 2: whole rounds on real geometry
# --------------------------------------------------------------------------------------------
class HeteroProblem:
    """Problem stub for Auer runs: value of the nearest design + per-design Gaussian noise
    (standard deviation `scale[i]`·sqrt(noise_var)), drawn through `np.random.normal`."""

    def __init__(self, base, scale):
        self.base, self.scale = base, np.asarray(scale, dtype=float)
        self.dataset, self.noise_var = base.dataset, base.noise_var

    def evaluate(self, x, noisy: bool = True):
        f = self.base.evaluate(x, noisy=False)
        if not noisy:
            return f
        from vopy.utils import get_closest_indices_from_points

        idx = get_closest_indices_from_points(np.atleast_2d(x), self.dataset.in_data, squared=True)
        z = np.random.normal(size=f.shape)
        return f + z * (self.scale[idx] * np.sqrt(self.noise_var))[:, None]


def case_covs(case):
    """posterior covariances of a scripted run: explicit `covs`, or L·Lᵀ from the dyadic factors `L`"""
    if "covs" in case:
        return np.array(case["covs"], dtype=float)
    return np.array([np.array(L, dtype=float) @ np.array(L, dtype=float).T for L in case["L"]])


def build_run_algorithm(case):
    name = case["alg"]
    W, order = cone_order(case["cone"])
    X, Y = np.array(case["in_data"], dtype=float), np.array(case["out_data"], dtype=float)
    m = Y.shape[1]
    common = dict(epsilon=case["eps"], delta=case["delta"], noise_var=case["noise_var"], conf_contraction=case["conf"])
    if name == "PaVeBa" and case.get("stub_model"):
        # arbitrary (correlated) posterior handed to the real PaVeBa object: the empirical model is replaced
        a = stubs.build(name, in_data=X, out_data=Y, order=order, **common)
        covs = case_covs(case)
        a.model = stubs.ScriptedModel(X, Y + np.array(case["mean_err"], dtype=float), covs)
        return a
    if name == "PaVeBa":
        return stubs.build(name, in_data=X, out_data=Y, order=order, **common)
    if name == "Auer":
        a = stubs.build(name, in_data=X, out_data=Y, use_empirical_beta=True, **common)
        a.problem = HeteroProblem(a.problem, case["noise_scale"])
        return a
    if case.get("model") == "fixed":
        if name == "VOGP_AD":
            c = Y[: 2] if len(Y) >= 2 else np.vstack([Y, Y])
            pr = stubs.SyntheticContinuousProblem(
                lambda x, c=c: x[:, :1] * c[0][None, :] + (1.0 - x[:, 1:2]) * c[1][None, :], 2, m,
                case["noise_var"], depth_max=case["max_depth"])
            return stubs.build(name, problem=pr, order=order, model="fixed", **common)
        kw = {} if name == "EpsilonPAL" else {"order": order}
        return stubs.build(name, in_data=X, out_data=Y, model="fixed", **kw, **common)
    if "script" in case:
        # scripted posterior evolving with the model's update() calls; optional nested-region mode
        posts = [(np.array(p_["means"], dtype=float), np.array(p_["vars"], dtype=float)) for p_ in case["script"]]
        cls = stubs.ScriptedModelList if name.startswith("PaVeBaPartial") else stubs.ScriptedModel
        script = posts[1:] if is_pess(name) else posts  # VOGP / ε-PAL model before their first update()
        mdl = cls(X, posts[0][0], posts[0][1], script=script)
        kw = {} if name == "EpsilonPAL" else {"order": order}
        a = stubs.build(name, in_data=X, out_data=Y, model=mdl, **kw, **common)
        if case.get("intersect"):
            for r in a.design_space.confidence_regions:
                r.intersect_iteratively = True
        return a
    if "L" in case or "covs" in case:
        covs = case_covs(case)
        V = None
    else:  # older corpus cases: variances + correlation (no exact factor available)
        V = np.array(case["vars"], dtype=float)
        covs = np.zeros((len(V), m, m))
    for i in range(len(V) if V is not None else 0):
        sd = np.sqrt(V[i])
        covs[i] = np.diag(V[i])
        if name in ("PaVeBaGP-DE", "VOGP", "VOGP_AD") and case["rho"][i] != 0.0:
            for a_ in range(m):
                for b_ in range(m):
                    if a_ != b_:
                        covs[i][a_, b_] = case["rho"][i] * sd[a_] * sd[b_] / (m - 1)
    means = Y + np.array(case["mean_err"], dtype=float)
    if name == "VOGP_AD":
        def post(x, means=means, covs=covs, n=len(Y)):
            k = int(np.floor(float(x[0]) * 64 + float(x[1] if len(x) > 1 else 0) * 7)) % n
            return means[k], covs[k]
        pr = stubs.SyntheticContinuousProblem(lambda x: np.array([post(r)[0] for r in x]), 1, m,
                                              case["noise_var"], depth_max=case["max_depth"])
        mdl = stubs.ScriptedModel(np.zeros((0, 1)), np.zeros((0, m)), np.zeros((0, m, m)), fallback=post)
        return stubs.build(name, problem=pr, order=order, model=mdl, **common)
    cls = stubs.ScriptedModelList if name.startswith("PaVeBaPartial") else stubs.ScriptedModel
    mdl = cls(X, means, covs)
    kw = {} if name == "EpsilonPAL" else {"order": order}
    return stubs.build(name, in_data=X, out_data=Y, model=mdl, **kw, **common)


class RealCodeCrash(Exception):
    """an exception escaped from real VOPy code called by the harness outside `run_one_step()`"""

    def __init__(self, phase, exc):
        super().__init__(f"{phase}: {type(exc).__name__}: {exc}")
        self.phase, self.exc = phase, exc


def is_known_rect_slack_crash(alg, e):
    """`rect-slack-per-facet`: rectangular is_covered rejects the N-entry slack ε·α when N ≠ m"""
    return (core.exc_key(e) == "ValueError@confidence_region.py:is_covered"
            and getattr(alg, "verif_name", "") in ("PaVeBaGP-IH", "PaVeBaPartialGP-rect"))


def geometry_tables(alg, active, want_pess, want_cov=True):
    """Oracle Booleans on the real displayed regions obtained by calling the three real predicates of
    `vopy.confidence_region` once more outside the algorithm, with the slack the algorithm must pass
    (transition-logic check; the geometry itself is checked by `check_round_exact`).
    Returns (n, dom, cov, pess) as n×n Boolean arrays, False outside `active`.  Any exception of the
    real code is re-raised as `RealCodeCrash` (the caller turns it into an (R) violation), except the
    known `rect-slack-per-facet` ValueError, which leaves the entry False."""
    is_dom, is_cov, chk = stubs.real_geometry()
    regs = alg.design_space.confidence_regions
    n = len(regs)
    sl = stubs.expected_slack(alg)
    dom, cov, pess = (np.zeros((n, n), dtype=bool) for _ in range(3))
    for i in active:
        for j in active:
            if i == j:
                continue
            try:
                dom[i][j] = bool(is_dom(alg.order, regs[i], regs[j], sl["dom"]))
            except Exception as e:
                raise RealCodeCrash("is_dominated", e) from e
            if want_cov:
                try:
                    cov[i][j] = bool(is_cov(alg.order, regs[i], regs[j], sl["cov"]))
                except Exception as e:
                    if not is_known_rect_slack_crash(alg, e):
                        raise RealCodeCrash("is_covered", e) from e
                    # if the real step survived, it never evaluated such a pair
                    cov[i][j] = False
            if want_pess:
                try:
                    pess[i][j] = bool(chk(alg.order, regs[i], regs[j]))
                except Exception as e:
                    raise RealCodeCrash("check_dominates", e) from e
    return n, dom, cov, pess


def export_regions(alg, active):
    """displayed regions as exact rationals (kept in the violation detail / for later exact models)"""
    out = {}
    for i in active:
        r = alg.design_space.confidence_regions[i]
        if hasattr(r, "lower"):
            out[i] = {"lower": core.qvec(r.lower), "upper": core.qvec(r.upper)}
        else:
            out[i] = {"center": core.qvec(np.asarray(r.center).reshape(-1)), "sigma": core.qmat(np.asarray(r.sigma)),
                      "alpha": core.q(float(np.asarray(r.alpha)))}
    return out


def snapshot(alg):
    s = {"S": list(alg.S), "P": sset(alg.P)}
    if hasattr(alg, "U"):
        s["U"] = sset(alg.U)
    if hasattr(alg, "enable_epsilon_covering"):
        s["enabled"] = bool(alg.enable_epsilon_covering)
    return s


PHASES = ("modeling", "discarding", "pareto_updating", "useful_updating", "epsiloncovering")


def instrument(alg):
    """wrap the phase methods of this instance; returns the trace list filled by run_one_step()"""
    trace = []
    ph_state = {}
    for name in PHASES:
        if not hasattr(alg, name):
            continue
        real = getattr(alg, name)

        def wrapper(real=real, name=name):
            before = snapshot(alg)
            if name != "modeling" and hasattr(alg, "beta_t") and case_is_auer(alg):
                try:
                    w = stubs.auer_get_widths(alg, ph_state.get("S_at_modeling", before["S"]))
                    before["widths"] = {i: [float(x) for x in r] for i, r in w.items() if i in before["S"]}
                except stubs.AuerWidthFormUnknown:
                    before["widths"] = None  # judged from the displayed boxes only
            if name == "modeling":
                ph_state["S_at_modeling"] = list(alg.S)
            real()
            trace.append((name, before, snapshot(alg)))

        setattr(alg, name, wrapper)
    return trace


def case_is_auer(alg):
    return getattr(alg, "verif_name", "") == "Auer"


def run_real(ctx, case, prop):
    name = case["alg"]
    ctx.count("run_" + name)
    ctx.count("runshape_" + case.get("shape", "scatter"))
    try:
        alg = build_run_algorithm(case)
    except Exception as e:
        viol(ctx, f"crash:{name}.__init__:{core.exc_key(e)}", f"{name} constructor raised {type(e).__name__}: {e}", case)
        ctx.case_done(case, False)
        return
    trace = instrument(alg)
    nontrivial = False
    for rnd in range(case["rounds"]):
        if len(alg.S) == 0:
            break
        del trace[:]
        try:
            with stubs.dyadic_noise(case["seed"] + rnd, p=3, span=12):
                alg.run_one_step()
        except Exception as e:
            key = core.exc_key(e)
            if key == "ValueError@confidence_region.py:is_covered" and name in ("PaVeBaGP-IH", "PaVeBaPartialGP-rect"):
                key = "rect-slack-per-facet"
                if prop == "C02":
                    # the crash is in pareto_updating (C03's mechanism, reported there); the discarding phase
                    # of this round completed and is still checked
                    ctx.count("rect_slack_crash_after_discarding_info")
                    try:
                        check_round(ctx, case, prop, alg, trace, rnd)
                    except RealCodeCrash as c:
                        viol(ctx, f"crash:{c.phase}:{core.exc_key(c.exc)}", f"{name}: the real {c.phase} raised "
                             f"{type(c.exc).__name__}: {c.exc}", case, kind="R", detail={"round": rnd})
                    break
                what = (f"{name}: passes the per-facet vector ε·α (N entries) to the rectangular is_covered, which "
                        "insists on m entries → ValueError for a cone with N ≠ m facets")
            else:
                what = f"{name}.run_one_step() raised {type(e).__name__}: {e}"
                key = f"crash:{name}:{key}"
            viol(ctx, key, what, case, kind="R", detail={"round": rnd})
            break
        ctx.count("rounds")
        try:
            nt = check_round(ctx, case, prop, alg, trace, rnd)
        except RealCodeCrash as c:
            viol(ctx, f"crash:{c.phase}:{core.exc_key(c.exc)}", f"{name}: the real {c.phase} raised "
                 f"{type(c.exc).__name__}: {c.exc} on displayed regions with the algorithm's own slack", case,
                 kind="R", detail={"round": rnd})
            break
        nontrivial = nontrivial or nt
    ctx.case_done(case, nontrivial, canon=[name, case["cone"], case["in_data"], case["out_data"], case["seed"],
                                           case.get("vars"), case.get("L"), case["conf"], case["eps"]])


def check_round(ctx, case, prop, alg, trace, rnd):
    name = case["alg"]
    ph = {t[0]: t for t in trace}
    if "discarding" not in ph:
        return False
    _, b_dis, a_dis = ph["discarding"]
    nxt = "epsiloncovering" if is_pess(name) else "pareto_updating"
    S0, P0, U0 = b_dis["S"], b_dis["P"], b_dis.get("U", [])
    if nxt not in ph:  # the step crashed after discarding (only reached for C02)
        if prop != "C02":
            return False
        n = len(alg.design_space.confidence_regions)
        active = sorted(set(S0) | set(U0))
        n, dom, cov, pess = geometry_tables(alg, active, False, want_cov=False)
        model = core.parse_nats(ctx.ask("paveba", core.nats(S0), core.nats(U0), str(n), bits(dom)))
        if sset(a_dis["S"]) != model:
            viol(ctx, f"real-discard:{name}", f"{name}.discarding() on real regions differs from the model", case,
                          kind="F", detail={"round": rnd, "impl": sset(a_dis["S"]), "model": model})
        return False
    _, b_par, a_par = ph[nxt]
    if name == "Auer":
        return check_round_auer(ctx, case, prop, alg, ph, rnd)
    check_round_exact(ctx, case, prop, alg, ph, rnd)
    active = sorted(set(S0) | set(P0 if is_pess(name) else U0))
    n, dom, cov, pess = geometry_tables(alg, active, is_pess(name), want_cov=(prop != "C02"))
    ctx.count("geometry_pairs", len(active) * (len(active) - 1))
    ns, D, C, T = str(n), bits(dom), bits(cov), bits(pess)
    detail = {"round": rnd, "S": S0, "P": P0, "U": U0, "dom": D, "cov": C, "pess": T if is_pess(name) else None,
              "regions": export_regions(alg, active)}
    Sa, Pa, Ua = core.nats(S0), core.nats(P0), core.nats(U0)
    S1 = sset(a_dis["S"])
    S2, P2 = sset(a_par["S"]), a_par["P"]
    if prop == "C02":
        model = core.parse_nats(ctx.ask("vogp", Sa, Pa, ns, D, T) if is_pess(name) else ctx.ask("paveba", Sa, Ua, ns, D))
        elim = sorted(set(S0) - set(S2) - set(P2))
        cert = sorted(set(S0) - set(model))
        if elim != cert:
            detail.update({"eliminated": elim, "certified": cert})
            viol(ctx, f"real-elim:{name}", f"{name}.run_one_step(): the designs that left S without entering P are "
                          "not exactly those with an elimination certificate on the displayed regions", case,
                          kind="R", detail=detail)
        elif S1 != model:
            detail.update({"impl": S1, "model": model})
            viol(ctx, f"real-discard:{name}", f"{name}.discarding() on real regions differs from the model", case,
                          kind="F", detail=detail)
        ctx.count("real_eliminated_%s" % ("none" if not cert else "all" if len(cert) == len(S0) else "some"))
        return 0 < len(cert) < len(S0)
    # ---- C03
    S1a = core.nats(b_par["S"])
    if name == "VOGP_AD":
        depths = list(alg.design_space.point_depths)[:n]
        ans = ctx.ask("coverad", S1a, Pa, ns, C, core.nats(depths), str(alg.max_discretization_depth),
                      "1" if b_par["enabled"] else "0").split(";")
        mS, mP = core.parse_nats(ans[0]), core.parse_nats(ans[1])
        if a_par["enabled"] != (ans[2] == "1"):
            viol(ctx, "real-ad-latch", "VOGP_AD.enable_epsilon_covering differs from the model", case, kind="F",
                          detail=detail)
    elif is_pess(name):
        mS, mP = parse_sets(ctx.ask("cover", S1a, Pa, ns, C))
    else:
        mS, mP = parse_sets(ctx.ask("pareto", S1a, Pa, Ua, ns, C))
    if (S2, P2) != (mS, mP):
        detail.update({"impl": [S2, P2], "model": [mS, mP], "S_after_discard": b_par["S"]})
        viol(ctx, f"real-pareto:{name}", f"{name}.run_one_step(): P did not gain exactly the candidates that no "
                      "other active displayed region can still ε-cover", case, kind="R", detail=detail)
    if not set(P0) <= set(P2):
        viol(ctx, f"P-shrinks:{name}", f"{name}: a member left P", case, kind="R", detail=detail)
    if "useful_updating" in ph:
        U2 = ph["useful_updating"][2]["U"]
        mU = core.parse_nats(ctx.ask("useful", core.nats(S2), core.nats(P2), ns, C))
        # members of P that were not active this round have stale regions; the tables cover `active` only
        stale = [p for p in P2 if p not in active]
        if stale:
            ctx.count("useful_stale_regions_info")
            extra = np.zeros((n, n), dtype=bool)
            is_dom, is_cov, _ = stubs.real_geometry()
            regs = alg.design_space.confidence_regions
            sl = stubs.expected_slack(alg)["cov"]
            for p in stale:
                for s in S2:
                    try:
                        extra[s][p] = bool(is_cov(alg.order, regs[s], regs[p], sl))
                    except Exception as e:
                        if not is_known_rect_slack_crash(alg, e):
                            raise RealCodeCrash("is_covered", e) from e
                        extra[s][p] = False
            mU = core.parse_nats(ctx.ask("useful", core.nats(S2), core.nats(P2), ns, bits(np.logical_or(cov, extra))))
        if U2 != mU:
            detail.update({"impl_U": U2, "model_U": mU})
            viol(ctx, f"real-useful:{name}", f"{name}.run_one_step(): U is not exactly the members of P whose "
                          "region can still ε-cover a remaining candidate", case, kind="R", detail=detail)
    new = sorted(set(mP) - set(P0))
    ctx.count("real_entered_%s" % ("none" if not new else "all" if len(new) == len(b_par["S"]) else "some"))
    return 0 < len(new) < len(b_par["S"])


# --------------------------------------------------------------------------------------------
# exact geometry (the C09 / C10 / C11 models run by this property's own driver)
# --------------------------------------------------------------------------------------------
TAU = 1e-6          # borderline band: per-facet margin ± TAU·scale
TAU_ELL_COV = 1e-3  # ellipsoidal is_covered is a feasibility SOCP: band ruled for C10


def _slack_q(x):
    return core.qvec(np.atleast_1d(np.asarray(x, dtype=float)).reshape(-1))


def _wnorm(W):
    return max(1.0, float(np.max(np.abs(np.asarray(W, dtype=float)).sum(axis=1))))


def _ell_factor(case, i, sigma):
    """exact factor L (L Lᵀ = Σ in exact arithmetic) of design i's displayed ellipsoid, or None"""
    m = sigma.shape[0]
    if np.array_equal(sigma, np.eye(m)):
        return np.eye(m)
    if "L" not in case or case.get("model") == "fixed" or i >= len(case["L"]):
        return None
    L = np.array(case["L"][i], dtype=float)
    Lf = [[core.frac(x) for x in r] for r in L]
    for a in range(m):
        for b in range(m):
            if sum(Lf[a][k] * Lf[b][k] for k in range(m)) != core.frac(sigma[a, b]):
                return None
    return L


def _propose_ell_cert(W, c1, L1, a1, c2, L2, a2, t):
    """untrusted numeric proposal for `∃ z∈E₁, z'∈E₂ : W(z'−z) ≥ t`: witness (u1, u2) maximising the worst
    normalised facet margin, and the dual multipliers `lam` of the facet constraints (a separating
    functional when infeasible).  Checked in Lean by `Covered.ellVerdict`."""
    import cvxpy as cp

    W = np.asarray(W, dtype=float)
    wn = np.linalg.norm(W, axis=1)
    m = W.shape[1]
    sc = max(float(np.max(np.abs(L1))) * max(a1, 1e-300), float(np.max(np.abs(L2))) * max(a2, 1e-300),
             float(np.max(np.abs(c2 - c1))), 1e-300)
    u1, u2, mu = cp.Variable(m), cp.Variable(m), cp.Variable()
    cone = (W @ ((c2 - c1) / sc + (L2 / sc) @ u2 - (L1 / sc) @ u1)) / wn - mu >= t / sc / wn
    prob = cp.Problem(cp.Maximize(mu), [cp.norm(u1) <= a1, cp.norm(u2) <= a2, cone])
    try:
        prob.solve(solver=cp.CLARABEL)
    except Exception:
        try:
            prob.solve(solver=cp.SCS, eps=1e-9)
        except Exception:
            return None
    if prob.status not in ("optimal", "optimal_inaccurate") or u1.value is None:
        return None
    lam = np.maximum(np.asarray(cone.dual_value, dtype=float).reshape(-1), 0.0) / wn

    def shrink(u, a):
        nrm = float(np.linalg.norm(u))
        if nrm > 0:
            u = u * min(1.0, a / nrm)
        return u * (1 - 1e-9)

    return shrink(np.asarray(u1.value, dtype=float), a1), shrink(np.asarray(u2.value, dtype=float), a2), lam


def exact_tables(ctx, alg, case, active, want_pess, cov_pairs):
    """Three-valued oracle tables over `active` recomputed by the Lean driver from the exactly exported
    displayed regions.  `cov_pairs` = ordered pairs (i, j) whose `isCov` entry is needed (only used for
    general ellipsoids, where every pair costs one numeric certificate proposal).  Returns
    (n, dom, cov, pess) as lists of n strings over '1','0','?','E' (cov/pess may be None)."""
    regs = alg.design_space.confidence_regions
    n = len(regs)
    W = np.asarray(alg.order.ordering_cone.W, dtype=float)
    sl = stubs.true_slack(alg)  # ε·u* with u* computed independently of the code
    Wq, act = core.qmat(W), core.nats(active)
    wn = _wnorm(W)

    def rows(sn):
        if sn in (None, "_"):
            return None
        return [sn[k * n:(k + 1) * n] for k in range(n)]

    if hasattr(regs[0], "lower"):
        data = [abs(float(x)) for i in active for x in list(regs[i].lower) + list(regs[i].upper)]
        data += [abs(float(x)) for x in np.atleast_1d(sl["dom"]).reshape(-1)] + [abs(float(x)) for x in np.atleast_1d(sl["cov"]).reshape(-1)]
        tau = TAU * max(1.0, max(data)) * wn
        ans = ctx.ask("geomrect", Wq, core.qmat([r.lower for r in regs]), core.qmat([r.upper for r in regs]), act,
                      _slack_q(sl["dom"]), _slack_q(sl["cov"]), core.q(tau), "1" if want_pess else "0")
        if ans == "bad-op":
            raise RuntimeError("driver rejected geomrect")
        d, c, p = ans.split("|")
        return n, rows(d), rows(c), rows(p)
    # ---- ellipsoids
    C = [np.asarray(r.center, dtype=float).reshape(-1) for r in regs]
    S = [np.asarray(r.sigma, dtype=float) for r in regs]
    A = [float(np.asarray(r.alpha).reshape(-1)[0]) for r in regs]
    ext = [abs(float(x)) for i in active for x in C[i]] + \
          [A[i] * float(np.sqrt(max(np.max(np.abs(S[i])), 0.0))) for i in active] + \
          [abs(float(x)) for x in np.atleast_1d(sl["cov"]).reshape(-1)]
    scale = max(1.0, max(ext)) * wn
    d = ctx.ask("geomelldom", Wq, core.qmat(C), core.qmats(S), core.qvec(A), act, _slack_q(sl["dom"]),
                core.q(TAU * scale))
    if d == "bad-op":
        raise RuntimeError("driver rejected geomelldom")
    tau_c = TAU_ELL_COV * scale
    if all(np.array_equal(S[i], np.eye(len(C[i]))) for i in active):
        c = ctx.ask("geomballcov", Wq, core.qmat(C), core.qvec(A), act, _slack_q(sl["cov"]), core.q(tau_c))
        return n, rows(d), rows(c), None
    cov = [["0"] * n for _ in range(n)]
    fac = {i: _ell_factor(case, i, S[i]) for i in active}
    slv = np.atleast_1d(np.asarray(sl["cov"], dtype=float)).reshape(-1)
    tvec = slv if slv.size == len(W) else np.full(len(W), slv[0]) if slv.size == 1 else None
    for (i, j) in cov_pairs:
        if fac.get(i) is None or fac.get(j) is None or tvec is None:
            cov[i][j] = "?"
            ctx.count("ellcov_no_exact_factor")
            continue
        try:
            cert = _propose_ell_cert(W, C[i], fac[i], A[i], C[j], fac[j], A[j], tvec)
        except Exception:
            cert = None
        if cert is None:
            cov[i][j] = "?"
            ctx.count("ellcov_numeric_failed")
            continue
        u1, u2, lam = cert
        base = [Wq, core.qvec(C[i]), core.qmat(fac[i]), core.q(A[i]), core.qvec(C[j]), core.qmat(fac[j]),
                core.q(A[j]), _slack_q(sl["cov"])]
        v = [ctx.ask("ellcov", *base, core.q(t), core.qvec(u1), core.qvec(u2), core.qvec(lam)) for t in (tau_c, -tau_c)]
        cov[i][j] = "1" if v == ["1", "1"] else "0" if v == ["0", "0"] else "E" if "ValueError" in v else "?"
        ctx.count("ellcov_pairs")
    return n, rows(d), ["".join(r) for r in cov], None


def robust_bits(table, n, pairs):
    """Boolean n×n bit string from a three-valued table if every entry in `pairs` is robust, else None"""
    if any(table[i][j] not in "01" for (i, j) in pairs):
        return None
    return "".join("1" if ch == "1" else "0" for r in table for ch in r) if n else "_"


def check_round_exact(ctx, case, prop, alg, ph, rnd):
    """(R) — the real transition against the certificate recomputed from exact geometry: elimination /
    P-entry / U must be exactly what the displayed regions certify, on rounds whose relevant pair
    decisions are all robust (not within the numerical band of the boundary)."""
    name = case["alg"]
    pess_family = is_pess(name)
    nxt = "epsiloncovering" if pess_family else "pareto_updating"
    _, b_dis, a_dis = ph["discarding"]
    _, b_par, a_par = ph[nxt]
    S0, P0, U0 = b_dis["S"], b_dis["P"], b_dis.get("U", [])
    S1r = b_par["S"]
    S2, P2 = sset(a_par["S"]), a_par["P"]
    other = P0 if pess_family else U0
    A0 = sorted(set(S0) | set(other))
    active = sorted(set(S0) | set(P0) | set(U0))
    A1 = sorted(set(S1r) | set(other))
    cov_pairs = [(i, j) for i in S1r for j in A1 if i != j]
    if "useful_updating" in ph:
        cov_pairs += [(s, p) for s in S2 for p in P2 if s != p and (s, p) not in cov_pairs]
    try:
        n, dom, cov, pess = exact_tables(ctx, alg, case, active, pess_family, cov_pairs if prop != "C02" else [])
    except ValueError as e:  # non-finite region bounds cannot be exported
        ctx.count("exact_export_failed")
        return
    ns = str(n)
    Sa, Pa, Ua = core.nats(S0), core.nats(P0), core.nats(U0)
    detail = {"round": rnd, "S": S0, "P": P0, "U": U0, "regions": export_regions(alg, active),
              "exact_dom": dom, "exact_cov": cov, "exact_pess": pess}
    if prop == "C02":
        dpairs = [(i, j) for i in S0 for j in A0 if i != j]
        D = robust_bits(dom, n, dpairs)
        T = robust_bits(pess, n, [(j, i) for i in A0 for j in A0 if i != j]) if pess_family else "_"
        if D is None or T is None:
            ctx.count("exact_round_borderline")
            return
        model = core.parse_nats(ctx.ask("vogp", Sa, Pa, ns, D, T) if pess_family else ctx.ask("paveba", Sa, Ua, ns, D))
        elim = sorted(set(S0) - set(S2) - set(P2))
        cert = sorted(set(S0) - set(model))
        ctx.count("exact_rounds_checked")
        if elim != cert:
            detail.update({"eliminated": elim, "certified": cert})
            viol(ctx, f"exact-elim:{name}", f"{name}.run_one_step(): the designs that left S without entering P are not "
                 "exactly those whose displayed region is certified dominated (exact geometry: C09/C11 models)",
                 case, kind="R", detail=detail)
        return
    # ---- C03
    Cb = robust_bits(cov, n, [(i, j) for i in S1r for j in A1 if i != j])
    if Cb is None:
        ctx.count("exact_round_borderline")
        return
    S1a = core.nats(S1r)
    if name == "VOGP_AD":
        depths = list(alg.design_space.point_depths)[:n]
        ans = ctx.ask("coverad", S1a, Pa, ns, Cb, core.nats(depths), str(alg.max_discretization_depth),
                      "1" if b_par["enabled"] else "0").split(";")
        mS, mP = core.parse_nats(ans[0]), core.parse_nats(ans[1])
    elif pess_family:
        mS, mP = parse_sets(ctx.ask("cover", S1a, Pa, ns, Cb))
    else:
        mS, mP = parse_sets(ctx.ask("pareto", S1a, Pa, Ua, ns, Cb))
    ctx.count("exact_rounds_checked")
    if (S2, P2) != (mS, mP):
        detail.update({"impl": [S2, P2], "model": [mS, mP], "S_after_discard": S1r})
        viol(ctx, f"exact-pareto:{name}", f"{name}.run_one_step(): P did not gain exactly the candidates whose displayed "
             "region no other active displayed region can still ε-cover (exact geometry: C10 model)", case, kind="R",
             detail=detail)
        return
    if "useful_updating" in ph:
        U2 = ph["useful_updating"][2]["U"]
        Ub = robust_bits(cov, n, [(s, p) for s in S2 for p in P2 if s != p])
        if Ub is None:
            ctx.count("exact_useful_borderline")
            return
        mU = core.parse_nats(ctx.ask("useful", core.nats(S2), core.nats(P2), ns, Ub))
        if U2 != mU:
            detail.update({"impl_U": U2, "model_U": mU})
            viol(ctx, f"exact-useful:{name}", f"{name}.run_one_step(): U is not exactly the members of P whose displayed "
                 "region can still ε-cover a remaining candidate (exact geometry: C10 model)", case, kind="R",
                 detail=detail)


def check_round_auer(ctx, case, prop, alg, ph, rnd):
    _, b_dis, a_dis = ph["discarding"]
    _, b_par, a_par = ph["pareto_updating"]
    S0, P0 = b_dis["S"], b_dis["P"]
    own = b_dis.get("widths")  # {design: width row the rule summed} — None if the internal store is not recognised
    n = alg.design_space.cardinality
    m = alg.m
    regs = alg.design_space.confidence_regions
    centres = [list(np.asarray(regs[i].center, dtype=float)) if i in S0 else [0.0] * m for i in range(n)]
    eps = case["eps"]
    S1, S2, P2 = sset(a_dis["S"]), sset(a_par["S"]), a_par["P"]
    # (R) the widths the rule sums must be the half-widths of the DISPLAYED boxes: Auer's certificate is a
    # statement about the regions the design space shows (centre ± width)
    shown = stubs.auer_displayed_widths(alg, S0)
    # everything below is judged from the DISPLAYED boxes (centre, half-width); `rows` is the positional table the
    # original code would have read (only used to attribute a mismatch to auer-width-by-position)
    rows = np.array([shown[i] for i in S0], dtype=float)
    if own is None or any(i not in own for i in S0):
        ctx.count("auer_internal_widths_unreadable_info")
        off = []
    else:
        off = [i for i in S0 if np.any(np.abs(shown[i] - np.asarray(own[i], dtype=float))
                                       > 1e-9 * max(1.0, float(np.max(np.abs(regs[i].upper))), float(np.max(own[i]))))]
    if off:
        # consequence: the real round against the model's round evaluated on the displayed boxes
        wd = [[0.0] * m for _ in range(n)]
        for i in S0:
            wd[i] = [float(x) for x in shown[i]]
        Cq, Wq = core.qmat(centres), core.qmat(wd)
        if prop == "C02":
            ref = core.parse_nats(ctx.ask("elim_auer", core.q(eps), core.nats(S0), core.nats(P0), Cq, Wq))
            got = sorted(set(S0) - set(S2) - set(P2))
        else:
            ref = parse_sets(ctx.ask("around", core.q(eps), core.nats(S0), core.nats(P0), Cq, Wq))
            got = [S2, P2]
        i0 = off[0]
        viol(ctx, "auer-decision-not-from-displayed-regions",
             "Auer.run_one_step(): the confidence widths summed by discarding()/pareto_updating() are not the "
             "half-widths of the boxes the design space displays, so elimination / P-entry is not decided by the "
             "displayed regions" + ("; the round also differs from the rule evaluated on the displayed boxes"
                                    if got != ref else ""),
             case, kind="R", detail={"round": rnd, "design": i0, "displayed_half_width": [float(x) for x in shown[i0]],
                                     "width_used": [float(x) for x in own[i0]], "impl": got,
                                     "rule_on_displayed_boxes": ref})
        return False
    verdicts = []
    # borderline band: float `β_i + β_j` vs exact rational addition, and (upper − lower)/2 vs β: widths × (1 ± 1e-9)
    for f in (1.0 - 1e-9, 1.0 + 1e-9):
        wd = [[0.0] * m for _ in range(n)]
        for k, i in enumerate(S0):
            wd[i] = [float(x) * f for x in rows[k]]
        C, Wd = core.qmat(centres), core.qmat(wd)
        if prop == "C02":
            verdicts.append(core.parse_nats(ctx.ask("auer", core.nats(S0), C, Wd)))
        else:
            verdicts.append(parse_sets(ctx.ask("auer", core.q(eps), core.nats(b_par["S"]), core.nats(P0), C, Wd)))
    if verdicts[0] != verdicts[1]:
        ctx.count("auer_borderline")
        return False
    detail = {"round": rnd, "S": S0, "P": P0, "centres": centres, "beta_t_rows": rows.tolist(),
              "S_after_discard": b_par["S"]}
    if prop == "C02":
        if S1 != verdicts[0]:
            detail.update({"impl": S1, "model": verdicts[0]})
            viol(ctx, "real-auer-discard", "Auer.run_one_step(): discarded set differs from the certificate with "
                          "each design's own width", case, kind="R", detail=detail)
        cert = sorted(set(S0) - set(verdicts[0]))
        ctx.count("real_eliminated_%s" % ("none" if not cert else "all" if len(cert) == len(S0) else "some"))
        return 0 < len(cert) < len(S0)
    got = [S2, P2]
    ctx.count("real_auer_positions_%s" % ("shifted" if b_par["S"] != S0[:len(b_par["S"])] else "aligned"))
    if got != verdicts[0]:
        rows_q = core.qmat(rows.tolist())
        C = core.qmat(centres)
        literal = parse_sets(ctx.ask("auerpos", core.q(eps), core.nats(b_par["S"]), core.nats(P0), C, rows_q))
        detail.update({"impl": got, "own-widths": verdicts[0], "literal": literal})
        if got == literal:
            viol(ctx, "auer-width-by-position",
                          "Auer.pareto_updating(): after discarding() shrank S, beta_t is indexed by the position in the "
                          "shrunk set, so designs are compared with other designs' confidence widths; P-entry / "
                          "hold-back differs from the rule evaluated with each design's own width", case, kind="R",
                          detail=detail)
        else:
            viol(ctx, "real-auer-pareto", "Auer.run_one_step(): (S, P) after pareto_updating differ from the "
                          "two-stage rule", case, kind="R", detail=detail)
    new = sorted(set(verdicts[0][1]) - set(P0))
    ctx.count("real_entered_%s" % ("none" if not new else "all" if len(new) == len(b_par["S"]) else "some"))
    return 0 < len(new) < len(b_par["S"])


# --------------------------------------------------------------------------------------------
def run_case_common(ctx, case, prop):
    kind = case["kind"]
    if kind == "table":
        run_table(ctx, case, prop)
    elif kind == "tablehist":
        # HISTORY on one algorithm object: the same sets, the oracle answers of every ordered pair change from
        # step to step (regions are rebuilt every round, they are not nested) — each step is judged on its own
        # tables, so an answer remembered from an earlier step (a memo of "cannot cover" / "is dominated" pairs,
        # a cached pessimistic set) shows as a plain mismatch
        ctx.count("tablehist_" + case["steps"][0]["alg"])
        for sub in case["steps"]:
            run_table(ctx, sub, prop)
    elif kind == "auer":
        run_auer(ctx, case, prop)
    elif kind == "run":
        run_real(ctx, case, prop)
    elif kind == "placed":
        run_placed(ctx, case, prop)
    else:
        raise ValueError(f"unknown case kind {kind!r}")


def run_case(ctx, case):
    run_case_common(ctx, case, "C02")
