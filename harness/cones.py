"""Cone matrices with exactly representable (integer / dyadic) rows, so `x @ W.T >= 0` is exact in
binary floating point on dyadic-lattice vectors, plus helpers to build the real order objects."""
import numpy as np

EXACT_CONES = {
    # name: (W rows, pointed?)
    "orthant2": ([[1, 0], [0, 1]], True),
    "acute2": ([[2, -1], [-1, 2]], True),
    "obtuse2": ([[2, 1], [1, 2]], True),
    "skew2": ([[1, 0], [-1, 2]], True),
    "redundant2": ([[1, 0], [0, 1], [1, 1]], True),
    "threefacet2": ([[2, -1], [-1, 2], [1, 0]], True),
    "orthant3": ([[1, 0, 0], [0, 1, 0], [0, 0, 1]], True),
    "acute3": ([[1, -2, 4], [4, 1, -2], [-2, 4, 1]], True),
    "obtuse3": ([[5, 2, 8], [8, 5, 2], [2, 8, 5]], True),
    "fourfacet3": ([[1, 0, 0], [0, 1, 0], [0, 0, 1], [1, 1, -1]], True),
    "pyramid3": ([[1, 0, 1], [-1, 0, 1], [0, 1, 1], [0, -1, 1]], True),
    "halfplane2": ([[1, 1]], False),
    "wedge3": ([[1, 0, 0], [0, 1, 0]], False),
}

_order_cache = {}


def real_order(W):
    """PolyhedralConeOrder over OrderingCone(W) built by the real constructors (cached)."""
    from vopy.order import PolyhedralConeOrder
    from vopy.ordering_cone import OrderingCone

    key = tuple(tuple(float(x) for x in r) for r in W)
    if key not in _order_cache:
        _order_cache[key] = PolyhedralConeOrder(OrderingCone(np.array(W, dtype=float)))
    return _order_cache[key]
