"""./check <ID> [--tier quick|thorough] [--replay FILE] [--jobs N] [--no-lean]

exit 0: property held on everything explored (KNOWN-FINDING lines allowed)
exit 1: VIOLATION property=<id> replay=<path> [no-failing-input-found]
exit 2: infrastructure failure
"""
from __future__ import annotations

import argparse
import importlib
import json
import os
import subprocess
import sys
import time
import traceback
from pathlib import Path

sys.path.insert(0, str(Path(__file__).resolve().parent.parent))
os.environ.setdefault("VOPY_VERIF", "1")
REPO = os.environ.get("VOPY_REPO", "/repo")  # override only to try the checks on a scratch worktree
sys.path.insert(0, REPO)

from harness import core, leanbuild  # noqa: E402

TRUSTED = [
    "Lean 4.33.0 kernel; Mathlib v4.33.0 as compiled in /opt/veriftools",
    "axioms allowed: propext, Classical.choice, Quot.sound (audited with #print axioms this run)",
    "hand-written Lean model tied to /repo by this correspondence harness (exact rational export, line protocol, generators)",
    "numpy/scipy/cvxpy/torch/gpytorch/sklearn and IEEE rounding inside VOPy: compared, not verified",
]


def _run_guarded(mod, ctx, case):
    """Safety net: an exception that escapes from the code under test (a frame under <REPO>/vopy) through a
    harness module that forgot to guard the call is a crash of VOPy on a generated, supported input — an (R)
    violation with the case as replay — not an infrastructure failure.  Exceptions raised by the harness itself
    (no VOPy frame at the point of failure) still abort the run (exit 2)."""
    try:
        mod.run_case(ctx, case)
    except Exception as e:
        tb = traceback.extract_tb(e.__traceback__)
        innermost_vopy = bool(tb) and (os.sep + "vopy" + os.sep) in tb[-1].filename and tb[-1].filename.startswith(REPO)
        third_party_below_vopy = False
        for fr in reversed(tb):
            if fr.filename.startswith(str(core.VERIF)):
                break
            if (os.sep + "vopy" + os.sep) in fr.filename and fr.filename.startswith(REPO):
                third_party_below_vopy = True
                break
        if innermost_vopy or third_party_below_vopy:
            ctx.violation("uncaught-crash:" + core.exc_key(e),
                          f"VOPy raised {type(e).__name__}: {str(e)[:200]} on a generated input "
                          "(exception escaped through the harness)", case, kind="R",
                          detail={"traceback": traceback.format_exc()[-3000:]})
            ctx.case_done(case, True)
        elif isinstance(e, (RuntimeError,)) and "Lean driver" in str(e):
            raise  # the model side is gone: infrastructure
        else:
            # The harness itself could not digest what the implementation produced for this case (typically a
            # state its bookkeeping assumes impossible: arrays out of step, a missing attribute, a shape it never
            # sees on the unchanged tree).  On the unchanged tree this never happens (it would be a harness bug and
            # is fixed as such); after a code change it means the correspondence can no longer be established on
            # this input: reported as a broken correspondence (F) with the case as replay, not as exit 2.
            fr = tb[-1] if tb else None
            where = f"{Path(fr.filename).name}:{fr.name}" if fr else "?"
            ctx.violation(f"harness-exception:{type(e).__name__}@{where}",
                          f"the harness could not process the implementation's behaviour on this case "
                          f"({type(e).__name__}: {str(e)[:160]})", case, kind="F",
                          detail={"traceback": traceback.format_exc()[-3000:]})
            ctx.count("harness_exceptions")
            if ctx.counters.get("harness_exceptions", 0) > 50:
                raise


def worker(args) -> dict:
    mod = importlib.import_module(f"harness.props.{args.id.lower()}")
    ctx = core.Ctx(args.id, args.tier, args.seed, args.worker, args.nworkers)
    if args.max_seconds:
        ctx.deadline = time.time() + args.max_seconds
    try:
        if args.replay:
            rec = json.loads(Path(args.replay).read_text())
            case = rec.get("case", rec)
            _run_guarded(mod, ctx, case)
        else:
            cdir = core.VERIF / "corpus" / args.id
            if args.worker == 0 and cdir.is_dir():
                for f in sorted(cdir.glob("*.json")):
                    rec = json.loads(f.read_text())
                    ctx.count("corpus_cases")
                    _run_guarded(mod, ctx, rec.get("case", rec))
            it = iter(mod.gen(ctx))
            while True:
                try:
                    case = next(it)
                except StopIteration:
                    break
                except Exception as e:
                    # A generator that consults the code under test (cone constants, constructor defaults, u*) can
                    # die on a changed tree.  Never on the unchanged one; there it is a harness bug.  Reported like
                    # any other undigestible behaviour — (R) if VOPy itself raised, (F) otherwise — and the cases
                    # generated so far still count; the remaining families of this run are lost (said in `what`).
                    if isinstance(e, RuntimeError) and "Lean driver" in str(e):
                        raise
                    tb = traceback.extract_tb(e.__traceback__)
                    in_vopy = bool(tb) and (os.sep + "vopy" + os.sep) in tb[-1].filename and tb[-1].filename.startswith(REPO)
                    fr = tb[-1] if tb else None
                    where = f"{Path(fr.filename).name}:{fr.name}" if fr else "?"
                    ctx.violation(("uncaught-crash:gen:" + core.exc_key(e)) if in_vopy
                                  else f"harness-exception:gen:{type(e).__name__}@{where}",
                                  f"case generation stopped: {type(e).__name__}: {str(e)[:160]} "
                                  "(the generator consulted the implementation and could not digest the answer; "
                                  "later case families of this run were not generated)",
                                  {"generator": True}, kind="R" if in_vopy else "F",
                                  detail={"traceback": traceback.format_exc()[-3000:]})
                    break
                _run_guarded(mod, ctx, case)
                if not ctx.time_left():
                    ctx.info("time budget reached; generation stopped early")
                    break
    finally:
        ctx.lean.close()
    return {
        "evaluations": ctx.evaluations,
        "distinct": sorted(ctx.distinct),
        "counters": ctx.counters,
        "samples": ctx.samples,
        "violations": ctx.violations,
        "known": ctx.known,
        "infos": ctx.infos,
        "lean_requests": ctx.lean.n,
        "rule": getattr(mod, "RULE", ""),
        "title": getattr(mod, "TITLE", ""),
    }


def merge(parts: list[dict]) -> dict:
    out = {"evaluations": 0, "distinct": set(), "counters": {}, "samples": [], "violations": [],
           "known": [], "infos": [], "lean_requests": 0, "rule": "", "title": ""}
    seen_known = set()
    for p in parts:
        out["evaluations"] += p["evaluations"]
        out["distinct"] |= set(p["distinct"])
        for k, v in p["counters"].items():
            out["counters"][k] = out["counters"].get(k, 0) + v
        out["samples"] += p["samples"][: max(1, 6 // len(parts))]
        out["violations"] += p["violations"]
        for k in p["known"]:
            if k["key"] not in seen_known:
                seen_known.add(k["key"])
                out["known"].append(k)
        out["infos"] += p["infos"]
        out["lean_requests"] += p["lean_requests"]
        out["rule"] = p["rule"] or out["rule"]
        out["title"] = p["title"] or out["title"]
    return out


def main():
    ap = argparse.ArgumentParser()
    ap.add_argument("id")
    ap.add_argument("--tier", default=os.environ.get("VERIF_TIER", "quick"), choices=["quick", "thorough"])
    ap.add_argument("--replay")
    ap.add_argument("--jobs", type=int, default=0)
    ap.add_argument("--worker", type=int, default=0)
    ap.add_argument("--nworkers", type=int, default=1)
    ap.add_argument("--as-worker", action="store_true")
    ap.add_argument("--max-seconds", type=float, default=0)
    ap.add_argument("--no-lean", action="store_true", help="skip build+audit (development only)")
    args = ap.parse_args()
    args.id = args.id.upper()
    args.seed = int(os.environ.get("VERIF_SEED", "0") or 0)
    t0 = time.time()

    if args.as_worker:
        try:
            res = worker(args)
        except Exception:
            res = {"crash": traceback.format_exc()}
        sys.stdout.write("@@RESULT@@" + json.dumps(res, default=str) + "\n")
        return 0

    # 1. Lean: build, obligations, audit ------------------------------------------------------
    if args.no_lean:
        rc, log = leanbuild.run(["lake", "build", f"driver_{args.id.lower()}"])
        if rc != 0:
            print("infrastructure: Lean driver does not build\n" + log[-3000:])
            return 2
        lb = {"obligations": [], "discharged": [], "failures": [], "build_ok": True, "driver_ok": True,
              "axioms": {}, "wall_s": 0}
    else:
        # 0. translator: regenerate the source-derived Lean terms (closed-form formulas) for this property from
        #    the CURRENT source tree, so the agreement theorems in Props/ are re-checked against what the code
        #    says now (no-op for properties without generated terms).
        try:
            from harness import translate
            tr = translate.regenerate(args.id, REPO)
        except ImportError:
            tr = None
        except Exception:
            tr = {"error": traceback.format_exc()[-1500:]}
        lb = leanbuild.ensure(args.id)
        if tr:
            lb["translator"] = tr
            if tr.get("error"):
                lb["failures"].append("translator could not regenerate the source-derived terms: " + tr["error"][-300:])
        if not lb["driver_ok"]:
            print("infrastructure: Lean driver does not build\n" + lb.get("log", ""))
            return 2

    # 2. correspondence -----------------------------------------------------------------------
    jobs = args.jobs or (1 if (args.tier == "quick" or args.replay) else min(14, os.cpu_count() or 1))
    mod = importlib.import_module(f"harness.props.{args.id.lower()}")
    jobs = min(jobs, getattr(mod, "MAX_JOBS", jobs))
    if jobs == 1:
        try:
            parts = [worker(args)]
        except Exception:
            print("infrastructure: harness crashed\n" + traceback.format_exc())
            return 2
    else:
        procs = []
        for w in range(jobs):
            cmd = [sys.executable, __file__, args.id, "--tier", args.tier, "--as-worker",
                   "--worker", str(w), "--nworkers", str(jobs)]
            if args.max_seconds:
                cmd += ["--max-seconds", str(args.max_seconds)]
            procs.append(subprocess.Popen(cmd, stdout=subprocess.PIPE, text=True))
        parts = []
        for p in procs:
            out, _ = p.communicate()
            line = [l for l in out.splitlines() if l.startswith("@@RESULT@@")]
            if not line:
                print("infrastructure: worker produced no result\n" + out[-2000:])
                return 2
            r = json.loads(line[-1][len("@@RESULT@@"):])
            if "crash" in r:
                print("infrastructure: worker crashed\n" + r["crash"])
                return 2
            parts.append(r)
    res = merge(parts)

    # 3. verdict --------------------------------------------------------------------------------
    lines = []
    viol_R = [v for v in res["violations"] if v["kind"] == "R"]
    viol_F = [v for v in res["violations"] if v["kind"] != "R"]
    seen = set()
    for v in viol_R:
        if v["key"] in seen:
            continue
        seen.add(v["key"])
        p = core.write_replay(args.id, v)
        lines.append(f"VIOLATION property={args.id} replay={p}")
    if True:
        for v in viol_F:
            if v["key"] in seen:
                continue
            seen.add(v["key"])
            v = dict(v)
            v["broken"] = "correspondence (model vs implementation) — " + v["what"]
            p = core.write_replay(args.id, v)
            lines.append(f"VIOLATION property={args.id} replay={p} no-failing-input-found")
        if lb["failures"]:
            tr_ = lb.get("translator") or {}
            failed = lb.get("failed_obligations", [])
            rec = {"property": args.id, "kind": "proof", "key": "lean-obligations",
                   "broken": lb["failures"], "log": lb.get("log", ""),
                   # exactly the obligations that no longer check (the others stay discharged), and, when the
                   # source tie is what broke, what the translator could not read / which agreement lemmas fail
                   "failed_obligations": failed,
                   "discharged": len(lb["discharged"]), "obligations": len(lb["obligations"]),
                   "translator_errors": tr_.get("translator_errors"),
                   "agreement_failed": (tr_.get("agreement") or {}).get("failed"),
                   "what": (f"{len(failed)} of {len(lb['obligations'])} Lean proof obligations no longer check: "
                            + ", ".join(failed[:20]) if failed else
                            "Lean proof obligations for this property no longer check")}
            p = core.write_replay(args.id, rec)
            lines.append(f"VIOLATION property={args.id} replay={p} no-failing-input-found")
    for k in res["known"]:
        print(f"KNOWN-FINDING: property={args.id} {k['what']}")
    for l in lines:
        print(l)

    # 4. evidence -------------------------------------------------------------------------------
    if not args.replay and not args.no_lean:
        nob = len(lb["obligations"])
        cov = {
            "obligations": nob,
            "discharged": len(lb["discharged"]),
            "obligation_names": lb["obligations"],
            "checker_cmd": f"cd /verif/lean && lake build VOPyVerif.Props.{args.id} [VOPyVerif.Props.{args.id}Source] && lake env lean ../out/audit/Audit_{args.id}[Source].lean  (#print axioms on every obligation; model theorems and source-agreement obligations are separate modules)",
            "trusted_base": TRUSTED,
            "axioms_used": sorted({a for l in lb["axioms"].values() for a in l}),
            "proof_failures": lb["failures"],
            "failed_obligations": lb.get("failed_obligations", []),
            "translator": lb.get("translator"),
            "evaluations": res["evaluations"],
            "distinct_nontrivial": len(res["distinct"]),
            "rule": res["rule"],
            "samples": res["samples"][:6],
            "counters": res["counters"],
            "lean_driver_requests": res["lean_requests"],
            "known_findings_hit": res["known"],
            "notes": res["infos"][:20],
            "workers": jobs,
            "explanation": "proof: Lean theorems about the hand-written model (obligations/discharged); "
                           "correspondence: real VOPy code from /repo vs the model's executable definitions "
                           "(evaluations/distinct_nontrivial/counters)",
        }
        ev = {
            "property_id": args.id,
            "tier": args.tier,
            "seed": args.seed,
            "level": "proof",
            "coverage": cov,
            "assumptions": getattr(mod, "ASSUMPTIONS", []) + TRUSTED[3:],
            "wall_s": round(time.time() - t0, 2),
            "violations": len(lines),
        }
        (core.VERIF / "evidence").mkdir(exist_ok=True)
        (core.VERIF / "evidence" / f"{args.id}.json").write_text(json.dumps(ev, indent=1, default=str))
    print(f"[{args.id}] tier={args.tier} seed={args.seed} obligations={len(lb['obligations'])} "
          f"discharged={len(lb['discharged'])} cases={res['evaluations']} "
          f"distinct_nontrivial={len(res['distinct'])} violations={len(lines)} "
          f"wall={time.time() - t0:.1f}s")
    return 1 if lines else 0


if __name__ == "__main__":
    sys.exit(main())
