"""Shared machinery of the correspondence harness.

Exact export of floats, the pipe to the Lean driver, case bookkeeping, violation / known-finding
reporting and evidence writing.  Property modules (harness/props/cXX.py) provide

    TITLE       one line
    RULE        how cases are generated and what makes one non-trivial / distinct
    def gen(ctx)            -> iterator of JSON-able case dicts (all randomness from ctx.rng)
    def run_case(ctx, case) -> None   (calls ctx.ok / ctx.violation / ctx.count ...)

Everything random derives from VERIF_SEED through ctx.rng (random.Random) / ctx.nprng.
"""
from __future__ import annotations

import hashlib
import json
import os
import random
import subprocess
import sys
import time
import traceback
from fractions import Fraction
from pathlib import Path

VERIF = Path(__file__).resolve().parent.parent
LEAN_DIR = VERIF / "lean"
OUT = VERIF / "out"
REPLAY_DIR = OUT / "replay"


def driver_path(prop: str) -> Path:
    return LEAN_DIR / ".lake" / "build" / "bin" / f"driver_{prop.lower()}"


# ----------------------------------------------------------------------------- exact export
def frac(x) -> Fraction:
    """Exact rational value of a Python/numpy number (floats via as_integer_ratio)."""
    if isinstance(x, Fraction):
        return x
    if isinstance(x, bool):
        return Fraction(int(x))
    if isinstance(x, int):
        return Fraction(x)
    if hasattr(x, "item") and not isinstance(x, float):
        x = x.item()
        if isinstance(x, int):
            return Fraction(x)
    x = float(x)
    if x != x or x in (float("inf"), float("-inf")):
        raise ValueError(f"non-finite value {x!r} cannot be exported")
    n, d = x.as_integer_ratio()
    return Fraction(n, d)


def q(x) -> str:
    f = frac(x)
    return str(f.numerator) if f.denominator == 1 else f"{f.numerator}/{f.denominator}"


def qvec(v) -> str:
    v = list(v)
    return ",".join(q(x) for x in v) if v else "_"


def qmat(m) -> str:
    m = list(m)
    return ";".join(qvec(r) for r in m) if m else "_"


def qmats(ms) -> str:
    return "|".join(qmat(m) for m in ms)


def nats(l) -> str:
    l = list(l)
    return ",".join(str(int(i)) for i in l) if l else "_"


def bools(l) -> str:
    l = list(l)
    return "".join("1" if b else "0" for b in l) if l else "_"


def parse_q(s: str) -> Fraction:
    return Fraction(s)


def parse_qvec(s: str):
    return [] if s == "_" else [Fraction(t) for t in s.split(",")]


def parse_qmat(s: str):
    return [] if s == "_" else [parse_qvec(r) for r in s.split(";")]


def parse_nats(s: str):
    return [] if s == "_" else [int(t) for t in s.split(",")]


def parse_bools(s: str):
    return [] if s == "_" else [c == "1" for c in s]


def dyadic(rng: random.Random, lo: int, hi: int, p: int) -> float:
    """k / 2**p with k uniform in [lo, hi] — exactly representable."""
    return rng.randint(lo, hi) / float(2 ** p)


# ----------------------------------------------------------------------------- Lean driver
class Lean:
    """Pipe to the compiled Lean driver (one request line -> one answer line)."""

    def __init__(self, prop: str):
        drv = driver_path(prop)
        if not drv.exists():
            raise RuntimeError(f"Lean driver not built: {drv}")
        self.prop = prop
        self.p = subprocess.Popen(
            [str(drv)], stdin=subprocess.PIPE, stdout=subprocess.PIPE, text=True, bufsize=1
        )
        self.n = 0
        if self.ask("ping") != "pong":
            raise RuntimeError("Lean driver does not answer")

    def ask(self, line: str) -> str:
        if "\n" in line:
            raise ValueError("newline in request")
        self.p.stdin.write(line + "\n")
        self.p.stdin.flush()
        ans = self.p.stdout.readline()
        if ans == "":
            raise RuntimeError(f"Lean driver died on request: {line[:300]}")
        self.n += 1
        return ans.rstrip("\n")

    def close(self):
        try:
            self.p.stdin.close()
            self.p.wait(timeout=5)
        except Exception:
            self.p.kill()


# ----------------------------------------------------------------------------- context
class Budget(Exception):
    pass


class Ctx:
    def __init__(self, prop: str, tier: str, seed: int, worker: int = 0, nworkers: int = 1):
        import numpy as np

        self.prop = prop
        self.tier = tier
        self.seed = seed
        self.worker = worker
        self.nworkers = nworkers
        self.rng = random.Random(f"{prop}:{seed}:{worker}")
        self.nprng = np.random.default_rng(
            int(hashlib.sha256(f"{prop}:{seed}:{worker}".encode()).hexdigest()[:12], 16)
        )
        self.lean = Lean(prop)
        self.t0 = time.time()
        self.evaluations = 0
        self.distinct = set()
        self.counters: dict[str, int] = {}
        self.samples: list = []
        self.violations: list[dict] = []
        self.known: list[dict] = []
        self.infos: list[str] = []
        self._seen_keys = set()
        self.deadline = None

    def ask(self, op: str, *args: str) -> str:
        """Send `<PROP> <op> <args…>` to this property's Lean driver; returns the answer line."""
        return self.lean.ask(" ".join([self.prop, op, *args]))

    # budgets -------------------------------------------------------------
    def n(self, quick: int, thorough: int) -> int:
        """Number of cases for this tier, split over workers."""
        total = quick if self.tier == "quick" else thorough
        scale = float(os.environ.get("VERIF_SCALE", "1"))
        total = max(1, int(total * scale))
        share = total // self.nworkers + (1 if self.worker < total % self.nworkers else 0)
        return share

    def time_left(self) -> bool:
        return self.deadline is None or time.time() < self.deadline

    # bookkeeping ---------------------------------------------------------
    def count(self, key: str, k: int = 1):
        self.counters[key] = self.counters.get(key, 0) + k

    def case_done(self, case, nontrivial: bool, canon=None):
        """Record one evaluated case; `nontrivial` by the module's RULE; canon for distinctness."""
        self.evaluations += 1
        if nontrivial:
            h = hashlib.sha1(
                json.dumps(canon if canon is not None else case, sort_keys=True, default=str).encode()
            ).hexdigest()
            self.distinct.add(h)
        if len(self.samples) < 3 or (len(self.samples) < 6 and nontrivial and self.rng.random() < 0.05):
            self.samples.append(_shorten(case))

    def info(self, msg: str):
        if len(self.infos) < 50:
            self.infos.append(msg)

    # verdicts ------------------------------------------------------------
    def violation(self, key: str, what: str, case, kind: str = "R", detail=None):
        """kind 'R': the implementation's behaviour violates the property on this input (a replay).
        kind 'F': model and implementation disagree on an output the property determines, but no
        property-violating input was exhibited (reported with no-failing-input-found)."""
        from . import findings

        kf = findings.match(self.prop, key)
        rec = {"property": self.prop, "key": key, "what": what, "kind": kind, "case": case,
               "detail": detail}
        if kf is not None:
            if key not in self._seen_keys:
                self._seen_keys.add(key)
                self.known.append({"key": key, "what": kf["what"]})
            self.count("known_finding_hits")
            return
        self.count("violations_" + kind)
        if len(self.violations) < 20:
            self.violations.append(rec)


def _shorten(obj, limit=600):
    s = json.dumps(obj, default=str)
    if len(s) <= limit:
        return obj
    return {"truncated": s[:limit] + "…"}


def exc_key(e: BaseException) -> str:
    """exception type + innermost vopy frame (function name)"""
    tb = traceback.extract_tb(e.__traceback__)
    fn = "?"
    for fr in tb:
        if "/vopy/" in fr.filename:
            fn = f"{Path(fr.filename).name}:{fr.name}"
    return f"{type(e).__name__}@{fn}"


def write_replay(prop: str, rec: dict) -> Path:
    REPLAY_DIR.mkdir(parents=True, exist_ok=True)
    h = hashlib.sha1(json.dumps(rec, sort_keys=True, default=str).encode()).hexdigest()[:12]
    p = REPLAY_DIR / f"{prop}-{h}.json"
    p.write_text(json.dumps(rec, indent=1, default=str))
    return p
