"""Shared algorithm stubs for the correspondence harness (no change to /repo, everything restored).

USAGE (all names importable from `harness.stubs`)
=================================================

1. Synthetic datasets with exactly controlled values (no scaling)::

       with stubs.dataset("VerifDS", in_data, out_data):          # register … unregister
           alg = PaVeBa(0.1, 0.05, "VerifDS", order, 0.01)
       # or: stubs.register_dataset(name, in_data, out_data) / stubs.unregister_dataset(name)

   The class is put BY NAME into `vopy.datasets.dataset`'s module globals (that is where
   `get_dataset_instance` looks).  `Dataset.__init__` (MinMax / Standard scaling) is skipped:
   `in_data`, `out_data`, `in_dim`, `out_dim`, `_cardinality` are set directly (float64 copies).

2. One-call construction of all nine algorithm classes through their REAL constructors::

       alg = stubs.build("VOGP", in_data=X, out_data=Y, W=[[1, 0], [0, 1]], epsilon=0.25,
                         model=stubs.ScriptedModel(X, means, covs))        # scripted posterior
       alg = stubs.build("PaVeBaGP-DE", in_data=X, out_data=Y, W=W, model="fixed")   # real GP, no training
       alg = stubs.build("VOGP_AD", problem=stubs.SyntheticContinuousProblem(f, 1, 2, 0.01, depth_max=3),
                         W=W, model="fixed")

   Names: PaVeBa, PaVeBaGP-IH, PaVeBaGP-DE, PaVeBaPartialGP-rect, PaVeBaPartialGP-ell, VOGP, VOGP_AD,
   EpsilonPAL, Auer, NaiveElimination, DecoupledGP  (`stubs.ALGORITHMS`).  `model` is "fixed"
   (real gpytorch wrapper, fixed hyper-parameters, no training, deterministic initial sample), a
   `ScriptedModel`/`ScriptedModelList` instance, or a factory callable.  The slow
   `get_gpytorch_model(list)_w_known_hyperparams` helpers are replaced in the *algorithm module's*
   namespace only while the constructor runs (`stubs.fast_models`).  The order object comes from
   `harness.cones.real_order(W)` (real `OrderingCone`, alpha SOCPs cached per W).
   Cost: < 0.3 s per constructor with ≤ 8 designs (VOGP/VOGP_AD add one SLSQP solve, ~10 ms).

3. Table-driven geometry (decision-logic streams)::

       idx = stubs.RegionIndex(alg.design_space)                  # region object -> design index
       orc = stubs.TableOracle(idx, dom=D, cov=C, pess=Pm, slack=stubs.expected_slack(alg))
       with stubs.patch_geometry(alg, **orc.patches()):           # module of type(alg)
           alg.discarding()
       orc.calls   -> [("dom", i, j, slack_ok), …]   orc.problems -> list of strings (empty = fine)

   `patch_geometry(module_or_alg, is_dominated=f, is_covered=g, check_dominates=h)` replaces
   `confidence_region_is_dominated / _is_covered / _check_dominates` in that module namespace;
   the callables receive exactly what the algorithm passes: `(order, region1, region2[, slack])`.
   `TableOracle` answers `dom[i][j]` = "region i is dominated by region j" (i = first region
   argument), `cov[i][j]` = "region i is covered by region j", `pess[i][j]` = "check_dominates
   (region i, region j)" i.e. region i pessimistically dominates region j; it records the argument
   order, refuses unknown regions, and compares the slack it is handed with the slack the
   algorithm must pass (`expected_slack`: 0 / ε·α / ε·u* / scalar ε).

4. Recording proxies::

       rec = stubs.RecordingProblem.attach(alg)      # alg.problem is now the proxy; rec.calls
       spy = stubs.spy_model(alg.model)              # spy.add_sample / spy.update lists; spy.restore()

5. Deterministic noise::

       with stubs.seeded_noise(123): alg.run_one_step()           # global numpy/torch RNG seeded, state restored
       with stubs.dyadic_noise(123, p=4, span=8): …               # np.random.normal -> k/2^p lattice noise
       with stubs.zero_noise(): …

6. Auer's confidence widths.  The PROPERTY speaks about the displayed boxes, so read widths from them::

       hw = stubs.auer_displayed_widths(alg, designs)  # {design: (upper − lower)/2 of its displayed box}

   `alg.beta_t` is an internal store whose representation is free; three are recognised — "dict" (keyed by
   design id), "positional" (array, row k belongs to the k-th element of S at modelling time),
   "by-design" (array with one row per design of the design space, NaN rows for inactive designs)::

       stubs.auer_width_form(alg)                    # "dict" | "positional" | "by-design" | "unknown"; detected once per
                                                     # vopy.algorithms.auer module by running a tiny real Auer.modeling()
       w = stubs.auer_get_widths(alg, S_order)       # -> {design: width row}; raises AuerWidthFormUnknown if unknown
       stubs.auer_set_widths(alg, S_order, rows)     # INJECTION only: same type / shape / dtype / fill as the real
                                                     # modeling() produces; read back and verified; raises if unknown

   Callers must treat `AuerWidthFormUnknown` as "skip the families that need injection" and report one (F)
   `auer-width-representation-unknown` — never guess.

Everything that patches restores in a `finally`, so several cases can run in one process.
"""
from __future__ import annotations

import contextlib
import importlib
import sys

import numpy as np

from harness.cones import real_order

# --------------------------------------------------------------------------------------------
# 1. datasets
# --------------------------------------------------------------------------------------------


def _dataset_module():
    import vopy.datasets.dataset as D

    return D


def register_dataset(name: str, in_data, out_data):
    """Create a `Dataset` subclass called `name` holding exactly `in_data` (n×d) and `out_data`
    (n×m) — no scaling — and register it in `vopy.datasets.dataset`'s globals.  Returns the class.
    Re-registering a name replaces the previous synthetic class; bundled names are refused."""
    D = _dataset_module()
    X = np.array(in_data, dtype=float)
    Y = np.array(out_data, dtype=float)
    if X.ndim != 2 or Y.ndim != 2 or len(X) != len(Y):
        raise ValueError("in_data must be n×d and out_data n×m")
    old = D.__dict__.get(name)
    if old is not None and not getattr(old, "_verif_synthetic", False):
        raise ValueError(f"refusing to shadow existing name {name!r} in vopy.datasets.dataset")

    def __init__(self):  # deliberately does NOT call Dataset.__init__ (which rescales)
        self.in_data = X.copy()
        self.out_data = Y.copy()
        self.in_dim = X.shape[1]
        self.out_dim = Y.shape[1]

    cls = type(name, (D.Dataset,), {
        "__init__": __init__, "_in_dim": X.shape[1], "_out_dim": Y.shape[1], "_cardinality": len(X),
        "_verif_synthetic": True, "__doc__": "synthetic verification dataset (unscaled)"})
    D.__dict__[name] = cls
    return cls


def unregister_dataset(name: str):
    """Remove a class registered by `register_dataset` (no-op if absent; never removes real ones)."""
    D = _dataset_module()
    cls = D.__dict__.get(name)
    if cls is not None and getattr(cls, "_verif_synthetic", False):
        del D.__dict__[name]


@contextlib.contextmanager
def dataset(name: str, in_data, out_data):
    """`with dataset(name, X, Y): …` — registered inside the block only."""
    register_dataset(name, in_data, out_data)
    try:
        yield name
    finally:
        unregister_dataset(name)


def _make_continuous_problem_class():
    from vopy.maximization_problem import ContinuousProblem

    class _SyntheticContinuousProblem(ContinuousProblem):
        """`ContinuousProblem` over [0,1]^in_dim with `evaluate_true = fn` (vectorised: (N,in_dim) →
        (N,out_dim)), the attribute `depth_max` VOGP_AD insists on, and `bounds`."""

        def __init__(self, fn, in_dim: int, out_dim: int, noise_var: float, depth_max: int = 3):
            self.in_dim = in_dim
            self.out_dim = out_dim
            self.depth_max = depth_max
            self.bounds = [(0.0, 1.0)] * in_dim
            self._fn = fn
            super().__init__(noise_var)

        def evaluate_true(self, x):
            return np.asarray(self._fn(np.asarray(x, dtype=float)), dtype=float).reshape(len(x), self.out_dim)

    _SyntheticContinuousProblem.__name__ = "SyntheticContinuousProblem"
    return _SyntheticContinuousProblem


def __getattr__(name):  # lazy: importing harness.stubs must not import vopy (9 s) by itself
    if name in ("ScriptedModel", "ScriptedModelList", "SyntheticContinuousProblem"):
        _materialise()
        return globals()[name]
    raise AttributeError(name)


# --------------------------------------------------------------------------------------------
# 2. scripted models, fast factories, construction
# --------------------------------------------------------------------------------------------
_materialised = False


def _materialise():
    """Define the classes that subclass vopy base classes (first use imports vopy)."""
    global _materialised, ScriptedModel, ScriptedModelList, SyntheticContinuousProblem
    if _materialised:
        return
    from vopy.models.model import GPModel, ModelList

    class _ScriptedModel(GPModel):
        """GP-model stub whose posterior is a table.

        `ScriptedModel(designs, means, covs, *, lengthscales=None, variances=None, fallback=None,
        script=None)`

        * `designs` n×d, `means` n×m, `covs` n×m×m (or n×m variances → diagonal matrices).
        * `predict(X)` looks every row of `X[:, :d]` up among the design rows (exact float match)
          and returns `(means (k×m), covs (k×m×m))` — always 2-D/3-D, also for one test point.
          A row that is not a design goes to `fallback(x) -> (mean, cov)` or raises `KeyError`.
        * `script`: optional list of `(means, covs)` tables; the k-th `update()` call installs
          `script[k]` (stays on the last one) — a posterior that evolves as samples arrive.
        * records: `add_sample_calls` (X, Y[, dim_index] copies), `update_calls` (count),
          `predict_calls` (design indices, -1 for fallback rows), `train_calls`.
        * VOGP_AD support: `get_lengthscale_and_var()` (per-objective lengthscale rows and
          variances), `get_kernel_type() == "RBF"`, `evaluate_kernel(X=None)` = multitask RBF Gram
          matrix of the recorded training inputs (size (k·m)×(k·m)), `input_dim`, `output_dim`.
        * Thompson sampling support (DecoupledGP): `sample_from_posterior`,
          `sample_from_single_posterior` draw from the table with a private seeded generator.
        """

        def __init__(self, designs, means, covs, *, lengthscales=None, variances=None,
                     fallback=None, script=None, seed=0):
            super().__init__()
            self.designs = np.array(designs, dtype=float)
            if self.designs.ndim != 2:
                raise ValueError("designs must be n×d")
            self.input_dim = self.designs.shape[1]
            self._install(means, covs)
            self.output_dim = self.means.shape[1]
            m, d = self.output_dim, self.input_dim
            # one (isotropic) lengthscale per objective: `calculate_design_vh` indexes the
            # lengthscale vector by objective and needs a scalar there
            self.lengthscales = (np.ones(m) if lengthscales is None
                                 else np.array(lengthscales, dtype=float).reshape(m))
            self.kernel_variances = (np.ones(m) if variances is None
                                     else np.array(variances, dtype=float).reshape(m))
            self.fallback = fallback
            self.script = list(script) if script is not None else None
            self._rng = np.random.RandomState(seed)
            self._key = {self.designs[i].tobytes(): i for i in range(len(self.designs))}
            self.add_sample_calls, self.predict_calls = [], []
            self.update_calls = 0
            self.train_calls = 0
            self.train_inputs = np.empty((0, d))
            self.model = self  # some code checks `model.model is None`

        def _install(self, means, covs):
            self.means = np.array(means, dtype=float)
            c = np.array(covs, dtype=float)
            if c.ndim == 2:  # variances → diagonal covariance matrices
                c = np.stack([np.diag(v) for v in c]) if len(c) else np.zeros((0,) + (self.means.shape[1],) * 2)
            self.covs = c
            if self.means.ndim != 2 or self.covs.shape != (len(self.means),) + (self.means.shape[1],) * 2:
                raise ValueError("means must be n×m and covs n×m×m (or n×m)")

        # -- Model interface -----------------------------------------------------------------
        def design_index(self, x) -> int:
            x = np.asarray(x, dtype=float).reshape(-1)[: self.input_dim]
            return self._key.get(np.ascontiguousarray(x).tobytes(), -1)

        def predict(self, test_X):
            X = np.asarray(test_X, dtype=float)
            if X.ndim == 1:
                X = X.reshape(1, -1)
            m = self.output_dim
            mus, cvs, idx = np.zeros((len(X), m)), np.zeros((len(X), m, m)), []
            for k, x in enumerate(X):
                i = self.design_index(x)
                idx.append(i)
                if i >= 0:
                    mus[k], cvs[k] = self.means[i], self.covs[i]
                elif self.fallback is not None:
                    mu, cv = self.fallback(x[: self.input_dim])
                    cv = np.asarray(cv, dtype=float)
                    mus[k], cvs[k] = mu, (np.diag(cv) if cv.ndim == 1 else cv)
                else:
                    raise KeyError(f"ScriptedModel.predict: {x!r} is not a scripted design")
            self.predict_calls.append(idx)
            return mus, cvs

        def add_sample(self, X_t, Y_t, dim_index=None):
            if isinstance(X_t, (set, frozenset)):
                X_t = list(X_t)
            X_t = np.array(X_t, dtype=float)
            if X_t.ndim == 1 and X_t.size != self.input_dim:
                # index form (PaVeBa / Auer hand the model a collection of design indices)
                rec = {"X": X_t.copy(), "Y": np.array(Y_t, dtype=float).copy(), "designs": [int(i) for i in X_t]}
                self.add_sample_calls.append(rec)
                return
            rec = {"X": X_t.copy(), "Y": np.array(Y_t, dtype=float).copy(),
                   "designs": [self.design_index(x) for x in np.atleast_2d(X_t)]}
            if dim_index is not None:
                rec["dim_index"] = np.array(dim_index).copy()
            self.add_sample_calls.append(rec)
            self.train_inputs = np.concatenate([self.train_inputs, np.atleast_2d(X_t)[:, : self.input_dim]])

        def update(self):
            if self.script:
                k = min(self.update_calls, len(self.script) - 1)
                self._install(*self.script[k])
            self.update_calls += 1

        def train(self):
            self.train_calls += 1

        def clear_data(self):
            self.train_inputs = np.empty((0, self.input_dim))

        # -- GPModel extras ------------------------------------------------------------------
        def get_lengthscale_and_var(self):
            return self.lengthscales.copy(), self.kernel_variances.copy()

        def get_kernel_type(self):
            return "RBF"

        def evaluate_kernel(self, X=None):
            X = self.train_inputs if X is None else np.asarray(X, dtype=float)[:, : self.input_dim]
            k, m = len(X), self.output_dim
            if k == 0:
                return np.zeros((0, 0))
            ls = self.lengthscales[0]
            d2 = (((X[:, None, :] - X[None, :, :]) / ls) ** 2).sum(-1)
            return np.kron(np.exp(-0.5 * d2), np.diag(self.kernel_variances))

        def sample_from_posterior(self, test_X, sample_count: int = 1):
            mus, cvs = self.predict(test_X)
            out = np.zeros((sample_count, len(mus), self.output_dim))
            for k in range(len(mus)):
                out[:, k, :] = self._rng.multivariate_normal(mus[k], cvs[k], size=sample_count)
            return out

        def sample_from_single_posterior(self, test_X, dim_index: int, sample_count: int = 1):
            mus, cvs = self.predict(test_X)
            sd = np.sqrt(np.maximum(cvs[:, dim_index, dim_index], 0.0))
            return mus[:, dim_index][None, :] + sd[None, :] * self._rng.standard_normal((sample_count, len(mus)))

    class _ScriptedModelList(_ScriptedModel, ModelList):
        """`ScriptedModel` that is also a `vopy.models.model.ModelList` (PaVeBaPartialGP, DecoupledGP):
        `add_sample(X, Y, dim_index)` with 1-D `Y`."""

    _ScriptedModel.__name__ = _ScriptedModel.__qualname__ = "ScriptedModel"
    _ScriptedModelList.__name__ = _ScriptedModelList.__qualname__ = "ScriptedModelList"
    ScriptedModel, ScriptedModelList = _ScriptedModel, _ScriptedModelList
    SyntheticContinuousProblem = _make_continuous_problem_class()
    _materialised = True


def _set_fixed_hyperparams(wrapper, lengthscale: float, outputscale: float):
    """Deterministic hyper-parameters on a freshly `update()`d vopy gpytorch wrapper (instead of
    `train()`): ARD lengthscales all `lengthscale`, signal variance `outputscale` per objective,
    LMC task covariance = `outputscale`·I (its factor is random-initialised by gpytorch)."""
    import torch
    from vopy.models.gpytorch import BatchIndependentExactGPModel, MultitaskExactGPModel

    inner = wrapper.model
    with torch.no_grad():
        if isinstance(inner, MultitaskExactGPModel):
            k = inner.covar_module
            k.data_covar_module.lengthscale = torch.full_like(k.data_covar_module.lengthscale, lengthscale)
            t = k.task_covar_module
            m = t.covar_factor.shape[-1]
            t.covar_factor.copy_(torch.eye(m, dtype=t.covar_factor.dtype) * float(np.sqrt(outputscale)))
            t.var = torch.full_like(t.var, 1e-6)
        elif isinstance(inner, BatchIndependentExactGPModel):
            k = inner.covar_module
            k.base_kernel.lengthscale = torch.full_like(k.base_kernel.lengthscale, lengthscale)
            k.outputscale = torch.full_like(k.outputscale, outputscale)
        else:  # IndependentModelList of SingleTaskGP
            for sub in inner.models:
                k = sub.covar_module
                k.base_kernel.lengthscale = torch.full_like(k.base_kernel.lengthscale, lengthscale)
                k.outputscale = torch.full_like(k.outputscale, outputscale)
                sub.mean_module.constant.fill_(0.0)
    inner.eval()
    wrapper.likelihood.eval()


def fixed_gp_factory(lengthscale: float = 0.5, outputscale: float = 1.0, initial_index: int = 0,
                     n_sobol: int = 8):
    """Drop-in for `get_gpytorch_model_w_known_hyperparams`: same signature, same data flow
    (add the training set, `update()`, *no training* — hyper-parameters are set to the given
    constants — `clear_data()`, then `initial_sample_cnt` initial samples and `update()`), but the
    initial sample is the deterministic design `initial_index` (mod n) instead of
    `np.random.choice`, and a missing X is `n_sobol` Sobol points instead of 512."""

    def factory(model_class, problem, noise_var, initial_sample_cnt, X=None, Y=None):
        from vopy.utils.utils import generate_sobol_samples

        if X is None:
            X = generate_sobol_samples(problem.in_dim, n_sobol)
        if Y is None:
            Y = problem.evaluate(X, noisy=False) if _accepts_noisy(problem) else problem.evaluate(X)
        model = model_class(X.shape[1], Y.shape[1], noise_var=noise_var)
        model.add_sample(X, Y)
        model.update()
        _set_fixed_hyperparams(model, lengthscale, outputscale)
        model.clear_data()
        if initial_sample_cnt > 0:
            ii = [(initial_index + k) % len(X) for k in range(initial_sample_cnt)]
            model.add_sample(X[ii], Y[ii])
            model.update()
        return model

    return factory


def fixed_gp_modellist_factory(lengthscale: float = 0.5, outputscale: float = 1.0,
                               initial_index: int = 0, initial_objective: int = 0, n_sobol: int = 8):
    """Drop-in for `get_gpytorch_modellist_w_known_hyperparams` (same remarks as above)."""

    def factory(problem, noise_var, initial_sample_cnt, X=None, Y=None):
        from vopy.models.gpytorch import GPyTorchModelListExactModel
        from vopy.utils.utils import generate_sobol_samples

        if X is None:
            X = generate_sobol_samples(problem.in_dim, n_sobol)
        if Y is None:
            Y = problem.evaluate(X)
        out_dim = Y.shape[1]
        model = GPyTorchModelListExactModel(X.shape[1], out_dim, noise_var=noise_var)
        for dim_i in range(out_dim):
            model.add_sample(X, Y[:, dim_i], dim_i)
        model.update()
        _set_fixed_hyperparams(model, lengthscale, outputscale)
        model.clear_data()
        if initial_sample_cnt > 0:
            ii = [(initial_index + k) % len(X) for k in range(initial_sample_cnt)]
            oi = [(initial_objective + k) % out_dim for k in range(initial_sample_cnt)]
            model.add_sample(X[ii], Y[ii, oi], oi)
            model.update()
        return model

    return factory


def _accepts_noisy(problem) -> bool:
    import inspect

    try:
        return "noisy" in inspect.signature(problem.evaluate).parameters
    except (TypeError, ValueError):
        return False


def _as_factory(model, modellist: bool):
    """model spec → callable with the signature of the helper it replaces."""
    if model is None or model == "fixed":
        return fixed_gp_modellist_factory() if modellist else fixed_gp_factory()
    if callable(model) and not hasattr(model, "predict"):
        return model
    return (lambda *a, **k: model)


_HELPERS = ("get_gpytorch_model_w_known_hyperparams", "get_gpytorch_modellist_w_known_hyperparams")


def _module_of(module_or_alg):
    if isinstance(module_or_alg, str):
        return importlib.import_module(module_or_alg)
    if hasattr(module_or_alg, "__dict__") and hasattr(module_or_alg, "__name__") and not isinstance(module_or_alg, type) \
            and type(module_or_alg).__name__ == "module":
        return module_or_alg
    cls = module_or_alg if isinstance(module_or_alg, type) else type(module_or_alg)
    return sys.modules[cls.__module__]


@contextlib.contextmanager
def fast_models(module_or_alg, model="fixed"):
    """Replace whichever of the two train-and-freeze helpers the algorithm module imported by a
    fast factory (see `build` for the `model` argument).  Restored on exit."""
    mod = _module_of(module_or_alg)
    saved = {}
    try:
        for name in _HELPERS:
            if name in mod.__dict__:
                saved[name] = mod.__dict__[name]
                mod.__dict__[name] = _as_factory(model, modellist=name.endswith("modellist_w_known_hyperparams"))
        yield mod
    finally:
        for name, f in saved.items():
            mod.__dict__[name] = f


# name -> (class name, fixed constructor kwargs, takes order?, takes (epsilon, delta)?)
ALGORITHMS = {
    "PaVeBa": ("PaVeBa", {}, True, True),
    "PaVeBaGP-IH": ("PaVeBaGP", {"type": "IH"}, True, True),
    "PaVeBaGP-DE": ("PaVeBaGP", {"type": "DE"}, True, True),
    "PaVeBaPartialGP-rect": ("PaVeBaPartialGP", {"confidence_type": "hyperrectangle"}, True, True),
    "PaVeBaPartialGP-ell": ("PaVeBaPartialGP", {"confidence_type": "hyperellipsoid"}, True, True),
    "VOGP": ("VOGP", {}, True, True),
    "VOGP_AD": ("VOGP_AD", {}, True, True),
    "EpsilonPAL": ("EpsilonPAL", {}, False, True),
    "Auer": ("Auer", {}, False, True),
    "NaiveElimination": ("NaiveElimination", {}, True, True),
    "DecoupledGP": ("DecoupledGP", {}, True, False),
}
PAVEBA_FAMILY = ("PaVeBa", "PaVeBaGP-IH", "PaVeBaGP-DE", "PaVeBaPartialGP-rect", "PaVeBaPartialGP-ell")
PESSIMISTIC_FAMILY = ("VOGP", "VOGP_AD", "EpsilonPAL")

_ds_counter = [0]


def build(alg: str, *, in_data=None, out_data=None, W=None, order=None, epsilon: float = 0.1,
          delta: float = 0.05, noise_var: float = 0.01, model="fixed", problem=None,
          dataset_name: str | None = None, **kwargs):
    """Construct one of `ALGORITHMS` through its real constructor.

    * dataset algorithms: `in_data` (n×d), `out_data` (n×m) are registered as an unscaled synthetic
      dataset for the duration of the constructor (or pass `dataset_name` of a registered/bundled
      dataset); VOGP_AD takes `problem` (e.g. `SyntheticContinuousProblem`).
    * `W` (cone rows) or a ready `order`; EpsilonPAL and Auer build their own componentwise order.
    * `model`: "fixed" | ScriptedModel(List) instance | factory callable (GP algorithms only).
    * remaining `kwargs` go to the constructor (`conf_contraction`, `batch_size`, `costs`,
      `cost_budget`, `use_empirical_beta`, `L`, …).
    The returned object is the real algorithm; `alg.verif_name` holds the `ALGORITHMS` key.
    """
    _materialise()
    import vopy.algorithms as VA

    cname, fixed, takes_order, takes_eps = ALGORITHMS[alg]
    cls = getattr(VA, cname)
    if takes_order and order is None:
        if W is None:
            raise ValueError(f"{alg} needs W or order")
        order = real_order(W)
    kw = dict(fixed)
    kw.update(kwargs)
    own_name = None
    if alg != "VOGP_AD" and dataset_name is None:
        if in_data is None or out_data is None:
            raise ValueError(f"{alg} needs in_data/out_data or dataset_name")
        _ds_counter[0] += 1
        own_name = dataset_name = f"VerifSynthetic{_ds_counter[0]}"
        register_dataset(own_name, in_data, out_data)
    try:
        with fast_models(cls, model):
            if alg == "VOGP_AD":
                if problem is None:
                    raise ValueError("VOGP_AD needs problem=")
                a = cls(epsilon, delta, problem, order, noise_var, **kw)
            elif alg == "DecoupledGP":
                kw.setdefault("cost_budget", 4.0)
                m = np.array(out_data).shape[1] if out_data is not None else 2
                kw.setdefault("costs", [1.0] * m)
                a = cls(dataset_name, order, noise_var, **kw)
            elif not takes_order:
                a = cls(epsilon, delta, dataset_name, noise_var, **kw)
            else:
                a = cls(epsilon, delta, dataset_name, order, noise_var, **kw)
    finally:
        if own_name is not None:
            unregister_dataset(own_name)
    a.verif_name = alg
    return a


# --------------------------------------------------------------------------------------------
# 3. geometry predicates
# --------------------------------------------------------------------------------------------
_GEOM = {"is_dominated": "confidence_region_is_dominated", "is_covered": "confidence_region_is_covered",
         "check_dominates": "confidence_region_check_dominates"}


@contextlib.contextmanager
def patch_geometry(module_or_alg, is_dominated=None, is_covered=None, check_dominates=None):
    """Replace the `confidence_region_*` predicates imported into an algorithm module's namespace.
    Each callable receives exactly the algorithm's arguments: `(order, region1, region2, slack)`
    for is_dominated / is_covered and `(order, region1, region2)` for check_dominates.  Only the
    names given (not None) *and present in that module* are replaced; restored on exit."""
    mod = _module_of(module_or_alg)
    new = {"is_dominated": is_dominated, "is_covered": is_covered, "check_dominates": check_dominates}
    saved = {}
    try:
        for short, f in new.items():
            name = _GEOM[short]
            if f is not None and name in mod.__dict__:
                saved[name] = mod.__dict__[name]
                mod.__dict__[name] = f
        yield mod
    finally:
        for name, f in saved.items():
            mod.__dict__[name] = f


def real_geometry():
    """The three real predicates `(is_dominated, is_covered, check_dominates)` from
    `vopy.confidence_region` — the hook the real-geometry streams call "once more outside the
    algorithm"; exact C09/C10/C11 models can be substituted for these later."""
    import vopy.confidence_region as CR

    return (CR.confidence_region_is_dominated, CR.confidence_region_is_covered,
            CR.confidence_region_check_dominates)


class RegionIndex:
    """Map confidence-region objects back to design indices *by identity*.
    `RegionIndex(design_space)`; `.of(region)` → index or -1; call `.refresh()` after the design
    space grew (VOGP_AD refinement)."""

    def __init__(self, design_space):
        self.design_space = design_space
        self.refresh()

    def refresh(self):
        self._ids = {id(r): i for i, r in enumerate(self.design_space.confidence_regions)}

    def of(self, region) -> int:
        i = self._ids.get(id(region), -1)
        if i >= 0 and self.design_space.confidence_regions[i] is region:
            return i
        self.refresh()
        return self._ids.get(id(region), -1)


def expected_slack(alg) -> dict:
    """The slack each geometry call of this algorithm must carry:
    `{"dom": …, "cov": …}` — PaVeBa family: 0 and ε·α (per facet); VOGP/VOGP_AD: ε·u* for both;
    ε-PAL: the scalar ε for both.  Values are read from (ε, order/cone constants), not from the
    attributes the algorithm happens to pass, wherever an independent source exists."""
    name = getattr(alg, "verif_name", type(alg).__name__)
    cname = ALGORITHMS[name][0] if name in ALGORITHMS else name
    if cname in ("PaVeBa", "PaVeBaGP", "PaVeBaPartialGP"):
        return {"dom": 0, "cov": alg.order.ordering_cone.alpha.flatten() * alg.epsilon}
    if cname in ("VOGP", "VOGP_AD"):
        return {"dom": alg.u_star * alg.epsilon, "cov": alg.u_star * alg.epsilon}
    if cname == "EpsilonPAL":
        return {"dom": alg.epsilon, "cov": alg.epsilon}
    raise ValueError(f"{cname} makes no geometry calls")


_ustar_cache: dict = {}


def independent_u_star(W) -> np.ndarray:
    """u* = z/‖z‖ for the least-norm z with W z ≥ 1 (the definition `VOGP.compute_u_star` implements), computed
    WITHOUT any vopy code: exact active-set enumeration (z = W_Aᵀλ, W_A W_Aᵀ λ = 1, λ ≥ 0, W z ≥ 1 — the KKT
    system of the strictly convex QP, so the feasible candidate of least norm is the optimum)."""
    import itertools

    Wn = np.asarray(W, dtype=float)
    key = Wn.tobytes() + bytes(Wn.shape)
    if key not in _ustar_cache:
        N, m = Wn.shape
        best = None
        for k in range(1, min(N, m) + 1):
            for A in itertools.combinations(range(N), k):
                WA = Wn[list(A)]
                G = WA @ WA.T
                if abs(np.linalg.det(G)) < 1e-12:
                    continue
                lam = np.linalg.solve(G, np.ones(k))
                if np.any(lam < -1e-10):
                    continue
                z = WA.T @ lam
                if np.all(Wn @ z >= 1 - 1e-9) and (best is None or z @ z < best @ best - 1e-12):
                    best = z
        if best is None:
            raise ValueError("cone has no least-norm point with W z ≥ 1 (empty interior?)")
        _ustar_cache[key] = best / np.linalg.norm(best)
    return _ustar_cache[key].copy()


def true_slack(alg) -> dict:
    """The slack the PROPERTY names, from sources independent of the algorithm object where one exists:
    VOGP / VOGP_AD: ε · (independently computed u*); otherwise as `expected_slack`."""
    name = getattr(alg, "verif_name", type(alg).__name__)
    cname = ALGORITHMS[name][0] if name in ALGORITHMS else name
    if cname in ("VOGP", "VOGP_AD"):
        u = independent_u_star(alg.order.ordering_cone.W)
        return {"dom": u * alg.epsilon, "cov": u * alg.epsilon}
    return expected_slack(alg)


def slack_matches(got, expected) -> bool:
    """Exact comparison of a slack argument with the expected one (shape-insensitive for scalars)."""
    try:
        g, e = np.asarray(got, dtype=float), np.asarray(expected, dtype=float)
    except Exception:
        return False
    if g.size == 1 and e.size == 1:
        return float(g.reshape(-1)[0]) == float(e.reshape(-1)[0])
    return g.shape == e.shape and bool(np.all(g == e))


class TableOracle:
    """Table-driven replacement of the three geometry predicates.

    `dom[i][j]`  : answer of `is_dominated(order, R_i, R_j, slack)`   (R_i dominated by R_j)
    `cov[i][j]`  : answer of `is_covered(order, R_i, R_j, slack)`     (R_i ε-covered by R_j)
    `pess[i][j]` : answer of `check_dominates(order, R_i, R_j)`       (R_i pessimistically dominates R_j)

    The tables need not be symmetric, so swapping the two region arguments changes answers.
    Every call is appended to `calls` as `(kind, i, j, slack_ok)`.  Anything irregular — a region
    that is not a displayed region of the design space, a wrong `order` object, a slack that is
    not the expected one — is appended to `problems`; with `wrong_slack_flips=True` (default) a
    wrong slack also *inverts the answer*, so the resulting sets change and a plain comparison
    of S/P/U with the model notices it.
    """

    def __init__(self, index: RegionIndex, dom=None, cov=None, pess=None, slack=None, order=None,
                 wrong_slack_flips: bool = True, approx=None):
        self.index, self.dom, self.cov, self.pess = index, dom, cov, pess
        self.slack = slack or {}
        self.approx = approx or {}  # optional: independently computed slack, compared with rtol 1e-5
        self.order = order
        self.flip = wrong_slack_flips
        self.calls, self.problems = [], []

    def _ij(self, kind, order, r1, r2):
        i, j = self.index.of(r1), self.index.of(r2)
        if i < 0 or j < 0:
            self.problems.append(f"{kind}: region argument is not a displayed region")
            raise AssertionError("geometry predicate called with an unknown region object")
        if self.order is not None and order is not self.order:
            self.problems.append(f"{kind}: order argument is not the algorithm's order")
        return i, j

    def _answer(self, kind, table, order, r1, r2, slack, has_slack=True):
        i, j = self._ij(kind, order, r1, r2)
        ok = True
        if has_slack and kind in self.slack:
            ok = slack_matches(slack, self.slack[kind])
            if ok and kind in self.approx:
                try:
                    g, e = np.asarray(slack, dtype=float).reshape(-1), np.asarray(self.approx[kind], dtype=float).reshape(-1)
                    ok = g.shape == e.shape and bool(np.allclose(g, e, rtol=1e-5, atol=1e-7 * max(1.0, float(np.max(np.abs(e))))))
                except Exception:
                    ok = False
                if not ok:
                    self.problems.append(f"{kind}({i},{j}): slack {np.asarray(slack).tolist()!r} is not the independently "
                                         f"computed {np.asarray(self.approx[kind]).tolist()!r}")
            elif not ok:
                self.problems.append(f"{kind}({i},{j}): slack {np.asarray(slack).tolist()!r} is not the expected "
                                     f"{np.asarray(self.slack[kind]).tolist()!r}")
        self.calls.append((kind, i, j, ok))
        if table is None:
            self.problems.append(f"{kind}: predicate not expected to be called by this step")
            raise AssertionError(f"unexpected geometry call {kind}")
        ans = bool(table[i][j])
        return (not ans) if (self.flip and not ok) else ans

    def is_dominated(self, order, r1, r2, slack):
        return self._answer("dom", self.dom, order, r1, r2, slack)

    def is_covered(self, order, r1, r2, slack):
        return self._answer("cov", self.cov, order, r1, r2, slack)

    def check_dominates(self, order, r1, r2):
        return self._answer("pess", self.pess, order, r1, r2, None, has_slack=False)

    def patches(self) -> dict:
        return {"is_dominated": self.is_dominated, "is_covered": self.is_covered,
                "check_dominates": self.check_dominates}


# --------------------------------------------------------------------------------------------
# 4. recording proxies
# --------------------------------------------------------------------------------------------
class RecordingProblem:
    """Proxy around a problem object: `evaluate(x, *args, **kw)` is forwarded and recorded in
    `calls` as dicts `{"x", "args", "kwargs", "values"}` (array copies; for the decoupled problem
    the evaluation indices are `args[0]` / `kwargs["evaluation_index"]`).  Every other attribute
    is forwarded to the wrapped problem.  `RecordingProblem.attach(alg)` installs the proxy as
    `alg.problem` and returns it; `detach()` puts the original back."""

    def __init__(self, problem):
        object.__setattr__(self, "_p", problem)
        object.__setattr__(self, "calls", [])
        object.__setattr__(self, "_owner", None)

    @classmethod
    def attach(cls, alg):
        rec = cls(alg.problem)
        object.__setattr__(rec, "_owner", alg)
        alg.problem = rec
        return rec

    def detach(self):
        if self._owner is not None and self._owner.problem is self:
            self._owner.problem = self._p

    def evaluate(self, x, *args, **kwargs):
        vals = self._p.evaluate(x, *args, **kwargs)
        self.calls.append({"x": np.array(x, dtype=float).copy(),
                           "args": [np.array(a).copy() if a is not None else None for a in args],
                           "kwargs": {k: (np.array(v).copy() if not isinstance(v, (bool, int, type(None))) else v)
                                      for k, v in kwargs.items()},
                           "values": np.array(vals, dtype=float).copy()})
        return vals

    def __getattr__(self, name):
        return getattr(self._p, name)

    def __setattr__(self, name, value):
        setattr(self._p, name, value)


class ModelSpy:
    """Instance-level spy on `model.add_sample` and `model.update` (works for any Model).
    `add_sample`: list of `(args copies, kwargs)`; `update`: call count; `events`: interleaved
    ("add_sample" | "update") sequence.  `restore()` removes the instance attributes."""

    def __init__(self, model):
        self.model, self.add_sample, self.update, self.events = model, [], 0, []
        real_add, real_update = model.add_sample, model.update

        def add_sample(*a, **k):
            self.add_sample.append(([_copy(x) for x in a], {kk: _copy(v) for kk, v in k.items()}))
            self.events.append("add_sample")
            return real_add(*a, **k)

        def update(*a, **k):
            self.update += 1
            self.events.append("update")
            return real_update(*a, **k)

        model.add_sample, model.update = add_sample, update

    def restore(self):
        for name in ("add_sample", "update"):
            self.model.__dict__.pop(name, None)


def _copy(x):
    if isinstance(x, (set, frozenset)):
        return list(x)  # iteration order as the callee will see it
    try:
        return np.array(x).copy()
    except Exception:
        return x


def spy_model(model) -> ModelSpy:
    return ModelSpy(model)


# --------------------------------------------------------------------------------------------
# 5. deterministic noise
# --------------------------------------------------------------------------------------------
@contextlib.contextmanager
def seeded_noise(seed: int):
    """Seed numpy's and torch's global generators for the block and restore their states after —
    observations (`get_noisy_evaluations_chol` → `np.random.normal`) replay exactly from `seed`."""
    state = np.random.get_state()
    tstate = None
    if "torch" in sys.modules:
        import torch

        tstate = torch.random.get_rng_state()
        torch.manual_seed(seed)
    np.random.seed(seed % (2 ** 32))
    try:
        yield
    finally:
        np.random.set_state(state)
        if tstate is not None:
            import torch

            torch.random.set_rng_state(tstate)


@contextlib.contextmanager
def _patched_normal(fn):
    real = np.random.normal
    np.random.normal = fn
    try:
        yield
    finally:
        np.random.normal = real


def dyadic_noise(seed: int, p: int = 4, span: int = 8):
    """`np.random.normal(size=…)` returns k/2^p with k uniform in [-span, span] from a private
    seeded generator: with noise_var = 4^-k and dyadic data every observation is an exact dyadic
    number.  Only the `size=` form used by vopy is supported (loc 0, scale 1)."""
    rs = np.random.RandomState(seed % (2 ** 32))

    def normal(loc=0.0, scale=1.0, size=None):
        k = rs.randint(-span, span + 1, size=size)
        return loc + scale * (np.asarray(k, dtype=float) / float(2 ** p))

    return _patched_normal(normal)


def zero_noise():
    """`np.random.normal` returns zeros (noise-free observations) inside the block."""

    def normal(loc=0.0, scale=1.0, size=None):
        return np.zeros(size if size is not None else ()) + loc

    return _patched_normal(normal)


# --------------------------------------------------------------------------------------------
# 6. Auer's widths
# --------------------------------------------------------------------------------------------
class AuerWidthFormUnknown(Exception):
    """`Auer.beta_t` is stored in a representation this helper does not recognise"""


_auer_form: dict = {}


def _auer_form_info(alg=None) -> dict:
    """{"form", "dtype", "fill"} of `beta_t` as THIS tree's real `Auer.modeling()` produces it, detected once
    per `vopy.algorithms.auer` module object: a three-design Auer whose S has already lost design 1 (a state
    every run reaches) runs its real `modeling()`; the store is then classified by type and shape."""
    import vopy.algorithms.auer as AM

    key = id(AM)
    if key not in _auer_form:
        a = build("Auer", in_data=np.array([[0.0], [1.0], [2.0]]), out_data=np.zeros((3, 2)), epsilon=0.1)
        a.round = 1
        a.model.update()
        a.S = {0, 2}
        a.modeling()
        bt = a.beta_t
        info = {"form": "unknown", "dtype": None, "fill": None}
        if isinstance(bt, dict):
            if set(bt.keys()) == {0, 2}:
                info["form"] = "dict"
        elif isinstance(bt, np.ndarray) and bt.ndim == 2:
            if bt.shape[0] == 2:
                info.update(form="positional", dtype=bt.dtype)
            elif bt.shape[0] == 3:
                info.update(form="by-design", dtype=bt.dtype, fill=bt[1].copy())
        _auer_form[key] = info
    return _auer_form[key]


def auer_width_form(alg=None) -> str:
    """"dict" | "positional" | "by-design" | "unknown" (see the usage section)"""
    return _auer_form_info(alg)["form"]


def auer_displayed_widths(alg, designs) -> dict:
    """`{design: half-width vector}` of the DISPLAYED boxes — what Auer's certificate is stated about"""
    regs = alg.design_space.confidence_regions
    return {int(i): (np.asarray(regs[i].upper, dtype=float) - np.asarray(regs[i].lower, dtype=float)) / 2.0
            for i in designs}


def auer_get_widths(alg, S_order=None) -> dict:
    """`{design index: width row (1-D float array)}` from the internal store `alg.beta_t`.
    "positional" needs `S_order` = iteration order of `alg.S` when `modeling()` ran; "by-design" returns
    the rows of `S_order` if given, else all non-NaN rows.  Raises `AuerWidthFormUnknown` otherwise."""
    bt = alg.beta_t
    form = auer_width_form(alg)
    if isinstance(bt, dict):
        return {int(k): np.array(v, dtype=float).reshape(-1) for k, v in bt.items()}
    if not isinstance(bt, np.ndarray) or bt.ndim != 2 or form in ("unknown", "dict"):
        raise AuerWidthFormUnknown(f"beta_t is {type(bt).__name__} while this tree's modeling() produces {form!r}")
    rows = np.asarray(bt, dtype=float)
    if form == "by-design":
        if rows.shape[0] != alg.design_space.cardinality:
            raise AuerWidthFormUnknown("by-design table whose row count is not the design count")
        idx = [int(i) for i in S_order] if S_order is not None else \
            [i for i in range(rows.shape[0]) if not np.any(np.isnan(rows[i]))]
        return {i: rows[i].reshape(-1).copy() for i in idx}
    if S_order is None:
        raise ValueError("positional beta_t: pass the iteration order of S at modelling time")
    if rows.shape[0] != len(S_order):
        raise AuerWidthFormUnknown("positional table whose row count is not |S| at modelling time")
    return {int(i): rows[k].reshape(-1).copy() for k, i in enumerate(S_order)}


def auer_set_widths(alg, S_order, rows) -> None:
    """INJECTION: install `rows[k]` as the confidence-width row of design `S_order[k]` exactly in the form
    this tree's real `modeling()` would have produced for `list(alg.S) == S_order` (same type, shape, dtype,
    fill for inactive designs), then read it back through `auer_get_widths` and verify.  Raises
    `AuerWidthFormUnknown` when the representation is not recognised (callers skip their injection
    families and report one (F) `auer-width-representation-unknown`)."""
    info = _auer_form_info(alg)
    S_order = [int(i) for i in S_order]
    rows = np.asarray(rows, dtype=float).reshape(len(S_order), -1)
    if info["form"] == "dict":
        alg.beta_t = {i: rows[k].copy() for k, i in enumerate(S_order)}
    elif info["form"] == "positional":
        alg.beta_t = rows.astype(info["dtype"]).copy()
    elif info["form"] == "by-design":
        n = alg.design_space.cardinality
        tab = np.empty((n, rows.shape[1]), dtype=info["dtype"])
        fill = np.asarray(info["fill"]).reshape(-1)
        tab[:] = fill if fill.size == rows.shape[1] else fill[0]
        if S_order:
            tab[S_order] = rows
        alg.beta_t = tab
    else:
        raise AuerWidthFormUnknown("representation of Auer.beta_t not recognised")
    back = auer_get_widths(alg, S_order)
    if any(not np.array_equal(back[i], rows[k]) for k, i in enumerate(S_order)):
        raise AuerWidthFormUnknown("injected widths do not read back")
