"""Translator for closed-form formulas: Python source text -> Lean terms over `[RealLike α]` (DESIGN §2.10).

The hand-written `RealLike` terms of `Model/Schedules.lean` (C04), `Model/Naive.lean` (C08), `Model/ConeConst.lean`
(C17) and `Model/AdaptiveVh.lean` (C18) are compared numerically with the code by the correspondence harness.  This
module adds a second, syntactic tie: on every `./check <Prop>` (with Lean) `regenerate(prop, repo)`

1. parses the relevant files of `repo` with `ast` (the source is never imported or executed),
2. symbolically executes the target function body (local assignments are inlined lazily, `if`s on configuration
   flags are resolved from the spec, guards that only `raise` are recorded as preconditions, one elementwise
   `for i in range(..)` body is entered once),
3. types every sub-expression as `Nat` / `Int` / carrier (`α`) exactly as Python does (`int op int` stays an integer,
   `/` and any float operand give a float), and prints ONE Lean term per formula,
4. writes `lean/VOPyVerif/Gen/<Prop>.lean` (only if its content changed), and
5. builds `VOPyVerif.Proofs.GenAgree<Prop>` — the theorems `gen_<name> = <hand-written term>` — and reports the
   theorems that no longer check by name (`error` key => the check reports a broken proof obligation).

The same entry point serves the PHASE translator (`harness/translate_phases.py`, DESIGN §2.10.2) for the properties
in `PHASE_PROPS` (C02, C03, C05): one shared generated file `Gen/Phases.lean`, agreement module
`Proofs/GenAgreePhases.lean`; writing-on-change, naming of failing theorems and restore-at-exit are shared.

Anything the translator does not understand raises `Untranslatable` naming the construct: a source change the
translator cannot read IS a broken tie, by design (the formula is then left out of the generated file, so its
agreement theorem stops elaborating and is reported by name together with the construct).

The generated file always corresponds to the tree it was generated from.  On a scratch tree
(`VOPY_REPO=<worktree>`) an exit hook puts the file generated from the canonical `/repo` back when the run ends (a
copy of the scratch version stays in `out/gen/<Prop>.scratch.lean`), so mutated terms never outlive the run.

Soundness boundary of the translator (what it assumes rather than checks): the types declared for the parameters in
`SPECS` (`self.m`, `self.round`, cardinalities: non-negative Python ints; depths: ints; the rest floats) — the
numeric harness feeds exactly such values; bare expression statements (docstrings, calls such as
`super().__init__(…)`) bind nothing the formula reads; a `for i in range(..)` body listed in `loop_vars` is an
entrywise formula (an assignment carried around the loop is rejected); parameters that are sub-expressions or locals
(`v_hat`, `depth`, `ordering_complexity`, `np.linalg.det(…)`, `lengthscales[i]`) are pinned to their source text and
any other definition is rejected; a parameter re-bound inside the function is rejected unless pinned.

Constructs understood (everything else is an error):
  int / float literals (floats as exact decimal fractions: 2.7 -> `ofFrac 27 10`, 1.0 -> `ofNat 1`), `+ - * /`, unary
  minus, `x ** k` and `np.power(x, k)` (see `_power`), `np.sqrt/log/exp/sin/cos/tan`, `np.pi`, `np.maximum(0, x)`,
  builtin `max(i, j)` on integers, `np.ones(shape)` (entrywise 1), `np.ceil(x).astype(int)`, `a < b` / `a <= b` on
  carrier values as the test of an `if` whose branches both `return`; attribute reads / arguments / sub-expressions
  listed in the formula's spec become parameters; local names are inlined.
Typing rules: `Nat + Nat`, `Nat * Nat` : Nat (inside `ofNat (…)`); `Nat - Nat` and anything with a negative literal
  or an `Int` parameter : Int (inside `Vh.ofInt (…)`, Python ints do not truncate); `/` casts both operands.
"""
from __future__ import annotations

import ast
import atexit
import hashlib
import os
import re
import subprocess
from dataclasses import dataclass, field
from fractions import Fraction
from pathlib import Path

VERIF = Path(__file__).resolve().parent.parent
LEAN_DIR = VERIF / "lean"
GEN_DIR = LEAN_DIR / "VOPyVerif" / "Gen"
CANONICAL_REPO = os.environ.get("VOPY_CANONICAL_REPO", "/repo")  # the tree the committed Gen files correspond to


class Untranslatable(Exception):
    pass


# ----------------------------------------------------------------------------------------------------------------
# IR
# ----------------------------------------------------------------------------------------------------------------
# types: "N" Nat, "Z" Int, "R" carrier α, "B" Bool

@dataclass(frozen=True)
class Lit:
    val: Fraction
    isfloat: bool

    @property
    def ty(self):
        if self.isfloat:
            return "R"
        return "N" if self.val >= 0 else "Z"


@dataclass(frozen=True)
class Var:
    name: str
    ty: str


@dataclass(frozen=True)
class Bin:
    op: str
    a: object
    b: object
    ty: str


@dataclass(frozen=True)
class Neg:
    a: object
    ty: str


@dataclass(frozen=True)
class Cast:
    to: str
    a: object

    @property
    def ty(self):
        return self.to


@dataclass(frozen=True)
class App:
    fn: str
    args: tuple
    ty: str


@dataclass(frozen=True)
class Const:
    name: str
    ty: str


@dataclass(frozen=True)
class Ite:
    cond: object
    a: object
    b: object
    ty: str


def to_r(x):
    if x.ty == "R":
        return x
    if x.ty in ("N", "Z"):
        return Cast("R", x)
    raise Untranslatable(f"a {x.ty}-typed value used as a number")


def to_z(x):
    if x.ty == "Z":
        return x
    if x.ty == "N":
        return Cast("Z", x)
    raise Untranslatable("a float used where an integer is combined")


def arith(op, a, b):
    for x in (a, b):
        if x.ty == "B":
            raise Untranslatable("arithmetic on a boolean")
    if op == "/":
        return Bin("/", to_r(a), to_r(b), "R")
    if "R" in (a.ty, b.ty):
        return Bin(op, to_r(a), to_r(b), "R")
    if "Z" in (a.ty, b.ty) or op == "-":
        return Bin(op, to_z(a), to_z(b), "Z")
    return Bin(op, a, b, "N")


def const_value(x):
    """(Fraction, isfloat) if `x` is built from literals only, else None"""
    if isinstance(x, Lit):
        return x.val, x.isfloat
    if isinstance(x, Cast):
        v = const_value(x.a)
        return None if v is None else (v[0], v[1] or False)
    if isinstance(x, Neg):
        v = const_value(x.a)
        return None if v is None else (-v[0], v[1])
    if isinstance(x, Bin):
        a, b = const_value(x.a), const_value(x.b)
        if a is None or b is None:
            return None
        fl = a[1] or b[1] or x.op == "/"
        if x.op == "+":
            return a[0] + b[0], fl
        if x.op == "-":
            return a[0] - b[0], fl
        if x.op == "*":
            return a[0] * b[0], fl
        if x.op == "/" and b[0] != 0:
            return a[0] / b[0], True
    return None


def int_power(base, k: int):
    """repeated multiplication of an integer-typed term, left nested (k >= 1)"""
    out = base
    for _ in range(k - 1):
        out = Bin("*", out, base, base.ty)
    return out


def _power(base, expo, how: str):
    """`base ** expo` (how="**") or `np.power(base, expo)` (how="np.power").

    carrier base:  `x ** 2` -> `RealLike.sq x`;  `x ** k`, `np.power(x, k)` with an integer-typed `k` ->
                   `Vh.npow x k` (Nat) / `Vh.zpow x k` (Int);  a float exponent that folds to 1.0 -> `x`,
                   to 0.5 -> `sqrt x`; anything else is not understood.
    integer base:  a literal exponent k >= 1 -> repeated multiplication (stays an integer)."""
    cv = const_value(expo)
    if base.ty in ("N", "Z"):
        if cv is not None and not cv[1] and cv[0].denominator == 1 and cv[0] >= 1:
            return int_power(base, int(cv[0]))
        raise Untranslatable(f"{how} of an integer with an exponent that is not a literal integer >= 1")
    if base.ty != "R":
        raise Untranslatable(f"{how} of a non-number")
    if expo.ty in ("N", "Z"):
        if how == "**" and cv is not None and cv[0] == 2:
            return App("sq", (base,), "R")
        if expo.ty == "N":
            return App("Vh.npow", (base, expo), "R")
        return App("Vh.zpow", (base, expo), "R")
    if cv is not None and cv[1]:
        if cv[0] == 1:
            return base
        if cv[0] == Fraction(1, 2):
            return App("sqrt", (base,), "R")
    raise Untranslatable(f"{how} with an exponent that is neither integer-typed nor the float constant 1.0 / 0.5")


# ----------------------------------------------------------------------------------------------------------------
# printing
# ----------------------------------------------------------------------------------------------------------------
P_ADD, P_MUL, P_NEG, P_APP, P_MAX = 65, 70, 75, 1023, 1024


def paren(s, own, ctx):
    return f"({s})" if own < ctx else s


def pp(x, ctx=0) -> str:
    if isinstance(x, Lit):
        if x.isfloat:
            v = x.val
            if v < 0:
                raise Untranslatable("negative float literal")  # python parses -0.5 as USub(0.5); never built
            if v.denominator == 1:
                return paren(f"ofNat {v.numerator}", P_APP, ctx)
            return paren(f"ofFrac {v.numerator} {v.denominator}", P_APP, ctx)
        if x.val >= 0:
            return str(int(x.val))
        return paren(str(int(x.val)), P_NEG, ctx)
    if isinstance(x, Var):
        return x.name
    if isinstance(x, Const):
        return x.name
    if isinstance(x, Bin):
        own = P_ADD if x.op in "+-" else P_MUL
        return paren(f"{pp(x.a, own)} {x.op} {pp(x.b, own + 1)}", own, ctx)
    if isinstance(x, Neg):
        return paren(f"-{pp(x.a, P_MAX)}", P_NEG, ctx)
    if isinstance(x, Cast):
        if x.to == "R":
            fn = "ofNat" if x.a.ty == "N" else "Vh.ofInt"
            return paren(f"{fn} {pp(x.a, P_MAX)}", P_APP, ctx)
        if x.to == "Z":  # Nat inside an Int expression
            if isinstance(x.a, Lit):
                return pp(x.a, ctx)  # a numeral elaborates at Int directly
            if isinstance(x.a, Var):
                return f"({x.a.name} : Int)"
            return f"(({pp(x.a, 0)} : Nat) : Int)"
    if isinstance(x, App):
        return paren(x.fn + " " + " ".join(pp(a, P_MAX) for a in x.args), P_APP, ctx)
    if isinstance(x, Ite):
        return paren(f"if {pp(x.cond, 0)} then {pp(x.a, 0)} else {pp(x.b, 0)}", 0, ctx)
    raise Untranslatable(f"internal: cannot print {type(x).__name__}")


def walk(x):
    yield x
    for f in ("a", "b", "cond"):
        if hasattr(x, f) and not isinstance(getattr(x, f), str):
            yield from walk(getattr(x, f))
    if isinstance(x, App):
        for a in x.args:
            yield from walk(a)


# ----------------------------------------------------------------------------------------------------------------
# specs
# ----------------------------------------------------------------------------------------------------------------
@dataclass
class Source:
    """one Python function and how its free names are read"""
    file: str                      # relative to the repo root
    cls: str | None
    func: str
    params: dict                   # source text -> (lean name, type)
    opaque_locals: dict = field(default_factory=dict)   # local name -> (lean name, type, pinned source of its definition)
    flags: dict = field(default_factory=dict)           # source text of a configuration test -> bool
    loop_vars: tuple = ()          # `for <v> in range(..)` bodies entered once (entrywise formulas)
    assigned_params: dict = field(default_factory=dict)  # parameter text -> pinned source of its assignment in the function
    ltb: str = "LtB"               # qualified name of the class providing `<` on the carrier
    entry_loops: tuple = ()        # pinned headers `<target> in <iter>` of column-wise loops entered once
                                   # (e.g. `(i, (lower, upper)) in enumerate(bounds)`); the unpacked names are params


@dataclass
class Formula:
    name: str                      # the Lean definition is `gen_<name>`
    source: Source
    target: str                    # "return" or the source text of an assignment target ("Vh[i]", "self.L", "C1")
    order: tuple                   # lean parameter names, in the order of the hand-written term
    result: str = "R"
    unwrap: str | None = None      # "ceil": the target is `np.ceil(X).astype(int)`; produce X
    hand: str = ""                 # the hand-written term (documentation only)
    elem: int | None = None        # the target is `np.array([e0, e1, …])`, later normalised in place by
                                   # `<target> = <target> / np.linalg.norm(<target>)`: produce entry `elem` (un-normalised)


def _sched(file, cls, func, extra=None, **kw):
    p = {
        "self.noise_var": ("noiseVar", "R"),
        "self.round": ("round", "N"),
        "self.m": ("m", "N"),
        "self.design_space.cardinality": ("K", "N"),
        "self.delta": ("δ", "R"),
        "self.conf_contraction": ("c", "R"),
    }
    p.update(extra or {})
    return Source(file, cls, func, p, **kw)


_ALG = "vopy/algorithms/"
_AUER_VHAT = "self.model.predict(active_pts)[1].diagonal(axis1=-2, axis2=-1)"

_VH = Source(
    "vopy/design_space.py", "AdaptivelyDiscretizedDesignSpace", "calculate_design_vh",
    {"self.domain_dim": ("d", "N"), "self.objective_dim": ("m", "N"), "self.delta": ("δ", "R"),
     "lengthscales[i]": ("ls", "R"), "variances[i]": ("var", "R")},
    opaque_locals={"depth": ("depth", "Z", "self.point_depths[design_index] + depth_offset")},
    loop_vars=("i",),
)

_NAIVE = Source(
    _ALG + "naive_elimination.py", "NaiveElimination", "__init__",
    {"noise_var": ("nv", "R"), "self.epsilon": ("ε", "R"), "self.delta": ("δ", "R"),
     "self.m": ("m", "N"), "self.K": ("K", "N")},
    opaque_locals={"ordering_complexity": ("β", "R", "order.ordering_cone.beta")},
    flags={"L is None": True},
    assigned_params={"self.m": "self.dataset.out_dim", "self.K": "len(self.dataset.in_data)"},
)

def _norm_src(func):
    return Source("vopy/utils/utils.py", None, func,
                  {"data[:, i]": ("x", "R"), "lower": ("lo", "R"), "upper": ("hi", "R")},
                  entry_loops=("(i, (lower, upper)) in enumerate(bounds)",))


def _w2d(le90: bool):
    return Source("vopy/utils/utils.py", None, "get_2d_w", {"cone_degree": ("deg", "R")},
                  flags={"cone_degree <= 90": le90})


_RU = Source("vopy/confidence_region.py", "RectangularConfidenceRegion", "update",
             {"mean": ("μ", "R"), "scale": ("a", "R")},
             opaque_locals={"std": ("σ", "R", "np.sqrt(np.diag(covariance.reshape(covariance.shape[-2:])))")},
             flags={"self.intersect_iteratively": False})

_F1 = Source(
    "vopy/utils/evaluate.py", None, "calculate_epsilonF1_score", {"len(pred_indices)": ("npred", "N")},
    opaque_locals={
        "true_eps": ("tp", "N",
                     "np.sum(delta_values[np.array(list(pred_indices)).astype(int)] <= epsilon, axis=0)[0]"),
        "uncovered_missed_pareto_count": (
            "unc", "N",
            "get_uncovered_size(dataset.out_data[indices_of_missed_pareto], dataset.out_data[pred_indices], "
            "epsilon, order.ordering_cone.W)"),
    })

SPECS: dict[str, dict] = {
    "C19": {
        "imports": ["VOPyVerif.Model.EvalF1F"],
        "formulas": [
            Formula("f1", _F1, "return", ("tp", "npred", "unc"), hand="Eval.f1F"),
        ],
    },
    "C14": {
        "imports": ["VOPyVerif.Model.RegionUpdate", "VOPyVerif.Model.RealLike"],
        "formulas": [
            Formula("rectLower", _RU, "L", ("μ", "σ", "a"), hand="Region.rectLowerF"),
            Formula("rectUpper", _RU, "U", ("μ", "σ", "a"), hand="Region.rectUpperF"),
            Formula("rectCenter",
                    Source("vopy/confidence_region.py", "RectangularConfidenceRegion", "center",
                           {"self.lower": ("lo", "R"), "self.upper": ("hi", "R")}),
                    "return", ("lo", "hi"), hand="Region.rectCenterF"),
        ],
    },
    "C12": {
        "imports": ["VOPyVerif.Model.ConeFormulas"],
        "formulas": [
            Formula("w1xLe", _w2d(True), "W_1", ("deg",), elem=0, hand="ConeFormulas.get2dW row 1, entry 0 (θ ≤ 90)"),
            Formula("w1yLe", _w2d(True), "W_1", (), elem=1, hand="ConeFormulas.get2dW row 1, entry 1 (θ ≤ 90)"),
            Formula("w2xLe", _w2d(True), "W_2", ("deg",), elem=0, hand="ConeFormulas.get2dW row 2, entry 0 (θ ≤ 90)"),
            Formula("w2yLe", _w2d(True), "W_2", (), elem=1, hand="ConeFormulas.get2dW row 2, entry 1 (θ ≤ 90)"),
            Formula("w1xGt", _w2d(False), "W_1", ("deg",), elem=0, hand="ConeFormulas.get2dW row 1, entry 0 (θ > 90)"),
            Formula("w1yGt", _w2d(False), "W_1", (), elem=1, hand="ConeFormulas.get2dW row 1, entry 1 (θ > 90)"),
            Formula("w2xGt", _w2d(False), "W_2", ("deg",), elem=0, hand="ConeFormulas.get2dW row 2, entry 0 (θ > 90)"),
            Formula("w2yGt", _w2d(False), "W_2", (), elem=1, hand="ConeFormulas.get2dW row 2, entry 1 (θ > 90)"),
        ],
    },
    "C20": {
        "imports": ["VOPyVerif.Model.Problem"],
        "formulas": [
            Formula("normalizeCol", _norm_src("normalize"), "normalized_data[:, i]", ("lo", "hi", "x"),
                    hand="Problem.normalizeColF"),
            Formula("unnormalizeCol", _norm_src("unnormalize"), "unnormalized_data[:, i]", ("lo", "hi", "x"),
                    hand="Problem.unnormalizeColF"),
        ],
    },
    "C04": {
        "imports": ["VOPyVerif.Model.RealLike"],
        "formulas": [
            Formula("pavebaRadius", _sched(_ALG + "paveba.py", "PaVeBa", "compute_radius"), "return",
                    ("noiseVar", "round", "m", "K", "δ", "c"), hand="Sched.pavebaRadius"),
            Formula("pavebaGpAlpha", _sched(_ALG + "paveba_gp.py", "PaVeBaGP", "compute_alpha"), "return",
                    ("round", "m", "K", "δ", "c"), hand="Sched.pavebaGpAlpha"),
            Formula("partialGpAlpha", _sched(_ALG + "paveba_partial_gp.py", "PaVeBaPartialGP", "compute_alpha"),
                    "return", ("round", "K", "δ", "c"), hand="Sched.partialGpAlpha"),
            Formula("vogpBeta", _sched(_ALG + "vogp.py", "VOGP", "compute_beta"), "return",
                    ("round", "m", "K", "δ", "c"), hand="Sched.vogpBeta"),
            Formula("epalBeta", _sched(_ALG + "epal.py", "EpsilonPAL", "compute_beta"), "return",
                    ("round", "m", "K", "δ", "c"), hand="Sched.epalBeta"),
            Formula("auerBeta",
                    _sched(_ALG + "auer.py", "Auer", "compute_beta", flags={"self.use_empirical_beta": False}),
                    "return", ("round", "m", "K", "δ", "c"), hand="Sched.auerBeta"),
            Formula("auerBetaEmp",
                    _sched(_ALG + "auer.py", "Auer", "compute_beta", flags={"self.use_empirical_beta": True},
                           opaque_locals={"v_hat": ("vHat", "R", _AUER_VHAT)}),
                    "return", ("round", "m", "K", "δ", "c", "vHat"), hand="Sched.auerBetaEmp"),
        ],
    },
    "C08": {
        "imports": ["VOPyVerif.Model.Naive"],
        "formulas": [
            Formula("coneBeta",
                    Source("vopy/ordering_cone.py", "ConeTheta2D", "beta", {"self.cone_degree": ("θdeg", "R")},
                           ltb="Naive.LtB"),
                    "return", ("θdeg",), hand="Naive.coneBeta"),
            Formula("naiveLreal", _NAIVE, "self.L", ("nv", "β", "ε", "δ", "m", "K"), unwrap="ceil",
                    hand="Naive.naiveLreal Naive.naiveC (sqrt nv)"),
            Formula("naiveL", _NAIVE, "self.L", ("nv", "β", "ε", "δ", "m", "K"), result="N",
                    hand="Naive.naiveLprop (β := coneBeta θdeg)"),
        ],
    },
    "C17": {
        "imports": ["VOPyVerif.Model.ConeConst"],
        "formulas": [
            Formula("coneBeta",
                    Source("vopy/ordering_cone.py", "ConeTheta2D", "beta", {"self.cone_degree": ("deg", "R")},
                           ltb="ConeConst.LtB"),
                    "return", ("deg",), hand="ConeConst.coneBeta"),
        ],
    },
    "C18": {
        "imports": ["VOPyVerif.Model.AdaptiveVh"],
        "formulas": [
            Formula("cki", _VH, "Cki", ("ls", "var"), hand="Vh.cki"),
            Formula("term1", _VH, "term1", ("d", "depth", "ls", "var"), hand="Vh.term1"),
            Formula("c1", _VH, "C1", ("d", "ls", "var"), hand="Vh.c1"),
            Formula("c2", _VH, "C2", ("d", "ls", "var"), hand="Vh.c2"),
            Formula("c3", _VH, "C3", ("d",), hand="Vh.c3"),
            Formula("term2", _VH, "term2", ("m", "depth", "δ"), hand="Vh.term2"),
            Formula("term3", _VH, "term3", ("depth",), hand="Vh.term3"),
            Formula("term4", _VH, "term4", ("d", "depth", "ls", "var"), hand="Vh.term4"),
            Formula("vhEntry", _VH, "Vh[i]", ("d", "m", "δ", "depth", "ls", "var"), hand="Vh.vhEntry"),
            Formula("vogpAdBeta",
                    Source(_ALG + "vogp_ad.py", "VOGP_AD", "compute_beta",
                           {"self.problem.noise_var": ("noiseVar", "R"), "self.delta": ("δ", "R"),
                            "np.linalg.det(Kn + np.eye(len(Kn)))": ("det", "R"),
                            "self.conf_contraction": ("c", "R")}),
                    "return", ("noiseVar", "δ", "det", "c"), hand="Vh.vogpAdBeta"),
        ],
    },
}

NP_FUNS = {"sqrt": "sqrt", "log": "log", "exp": "exp", "sin": "sin", "cos": "cos", "tan": "tan"}


# ----------------------------------------------------------------------------------------------------------------
# symbolic execution of one function body
# ----------------------------------------------------------------------------------------------------------------
class Thunk:
    __slots__ = ("node", "env", "ir")

    def __init__(self, node, env):
        self.node, self.env, self.ir = node, env, None


class Poison:
    """a binding the translator cannot read (tuple unpacking, …): an error only if the formula uses it"""

    def __init__(self, why):
        self.why = why


class Exec:
    def __init__(self, src: Source):
        self.src = src
        self.guards: list[str] = []

    # -- expressions -------------------------------------------------------------------------------------------
    def expr(self, n, env):
        text = ast.unparse(n)
        if text in self.src.params:
            name, ty = self.src.params[text]
            return Var(name, ty)
        if isinstance(n, ast.Constant):
            v = n.value
            if isinstance(v, bool) or not isinstance(v, (int, float)):
                raise Untranslatable(f"literal {v!r}")
            if isinstance(v, int):
                return Lit(Fraction(v), False)
            if v != v or v in (float("inf"), float("-inf")) or v < 0:
                raise Untranslatable(f"float literal {v!r}")
            return Lit(Fraction(repr(v)), True)  # exact decimal fraction of the literal as written
        if isinstance(n, ast.Name):
            if n.id not in env:
                raise Untranslatable(f"name '{n.id}' is neither a local, nor a declared parameter")
            v = env[n.id]
            if isinstance(v, Poison):
                raise Untranslatable(f"name '{n.id}' ({v.why})")
            return self.force(v)
        if isinstance(n, ast.Attribute):
            if text == "np.pi":
                return Const("pi", "R")
            raise Untranslatable(f"attribute read '{text}' is not a declared parameter")
        if isinstance(n, ast.UnaryOp):
            if isinstance(n.op, ast.USub):
                a = self.expr(n.operand, env)
                if isinstance(a, Lit) and not a.isfloat:
                    return Lit(-a.val, False)
                if a.ty == "N":
                    a = to_z(a)
                if a.ty not in ("Z", "R"):
                    raise Untranslatable("unary minus on a non-number")
                return Neg(a, a.ty)
            if isinstance(n.op, ast.UAdd):
                return self.expr(n.operand, env)
            raise Untranslatable(f"unary operator {type(n.op).__name__}")
        if isinstance(n, ast.BinOp):
            ops = {ast.Add: "+", ast.Sub: "-", ast.Mult: "*", ast.Div: "/"}
            if isinstance(n.op, ast.Pow):
                return _power(self.expr(n.left, env), self.expr(n.right, env), "**")
            if type(n.op) not in ops:
                raise Untranslatable(f"binary operator {type(n.op).__name__} in '{text}'")
            return arith(ops[type(n.op)], self.expr(n.left, env), self.expr(n.right, env))
        if isinstance(n, ast.Compare):
            if len(n.ops) != 1 or not isinstance(n.ops[0], (ast.Lt, ast.LtE)):
                raise Untranslatable(f"comparison '{text}'")
            a, b = to_r(self.expr(n.left, env)), to_r(self.expr(n.comparators[0], env))
            if isinstance(n.ops[0], ast.Lt):
                return App(self.src.ltb + ".ltb", (a, b), "B")
            return App("LeB.leb", (a, b), "B")
        if isinstance(n, ast.Call):
            return self.call(n, env, text)
        raise Untranslatable(f"expression '{text}' ({type(n).__name__})")

    def call(self, n, env, text):
        if n.keywords:
            raise Untranslatable(f"keyword arguments in '{text}'")
        f = ast.unparse(n.func)
        args = n.args
        # np.ceil(x).astype(int)
        if (isinstance(n.func, ast.Attribute) and n.func.attr == "astype" and isinstance(n.func.value, ast.Call)
                and ast.unparse(n.func.value.func) == "np.ceil" and len(n.func.value.args) == 1
                and len(args) == 1 and ast.unparse(args[0]) == "int"):
            return App("Naive.CeilNat.ceilNat", (to_r(self.expr(n.func.value.args[0], env)),), "N")
        if f.startswith("np.") and f[3:] in NP_FUNS and len(args) == 1:
            return App(NP_FUNS[f[3:]], (to_r(self.expr(args[0], env)),), "R")
        if f == "np.power" and len(args) == 2:
            return _power(self.expr(args[0], env), self.expr(args[1], env), "np.power")
        if f == "np.maximum" and len(args) == 2:
            z = self.expr(args[0], env)
            if const_value(z) is not None and const_value(z)[0] == 0:
                return App("Vh.max0", (to_r(self.expr(args[1], env)),), "R")
            raise Untranslatable(f"np.maximum whose first argument is not the literal 0: '{text}'")
        if f == "np.ones" and len(args) == 1:
            return Lit(Fraction(1), True)  # every entry of the array is 1.0 (entrywise formula)
        if f == "max" and len(args) == 2:
            a, b = self.expr(args[0], env), self.expr(args[1], env)
            if a.ty in ("N", "Z") and b.ty in ("N", "Z"):
                if "Z" in (a.ty, b.ty):
                    return App("max", (to_z(a), to_z(b)), "Z")
                return App("max", (a, b), "N")
            raise Untranslatable(f"builtin max on non-integers: '{text}'")
        raise Untranslatable(f"call '{text}'")

    def force(self, v):
        if isinstance(v, Poison):
            raise Untranslatable(v.why)
        if isinstance(v, Thunk):
            if v.ir is None:
                v.ir = self.expr(v.node, v.env)
            return v.ir
        return v

    # -- statements --------------------------------------------------------------------------------------------
    def flag(self, test):
        text = ast.unparse(test)
        if text in self.src.flags:
            return self.src.flags[text]
        if isinstance(test, ast.UnaryOp) and isinstance(test.op, ast.Not):
            v = self.flag(test.operand)
            return None if v is None else (not v)
        return None

    @staticmethod
    def only_raises(stmts):
        return len(stmts) > 0 and all(isinstance(s, ast.Raise) for s in stmts)

    def block(self, stmts, env, in_loop=False):
        """executes `stmts` in `env` (mutated); returns the (lazy) value of a `return` reached, or None"""
        for i, s in enumerate(stmts):
            if isinstance(s, (ast.Expr, ast.Pass)):
                continue  # docstrings and bare calls: no binding the formulas read
            if isinstance(s, ast.AnnAssign) and s.value is not None:
                s = ast.Assign(targets=[s.target], value=s.value)
            if isinstance(s, ast.Assign):
                if len(s.targets) != 1:
                    raise Untranslatable("chained assignment")
                t = s.targets[0]
                if isinstance(t, (ast.Tuple, ast.List)):
                    for e in t.elts:
                        env[ast.unparse(e)] = Poison("bound by tuple unpacking of " + ast.unparse(s.value))
                    continue
                key = ast.unparse(t)
                if key in self.src.params:
                    # a declared parameter is (re)bound inside the function: only the pinned definition is accepted
                    got = ast.unparse(s.value)
                    if self.src.assigned_params.get(key) != got:
                        raise Untranslatable(f"parameter '{key}' is assigned '{got}' inside the function")
                    continue
                if in_loop and key in env and key not in self.src.opaque_locals:
                    raise Untranslatable(f"'{key}' is carried around the loop (not an entrywise formula)")
                if key in self.src.opaque_locals:
                    name, ty, pinned = self.src.opaque_locals[key]
                    got = ast.unparse(s.value)
                    if got != pinned:
                        raise Untranslatable(
                            f"parameter '{key}' is defined as '{got}', the tie was made for '{pinned}'")
                    env[key] = Var(name, ty)
                else:
                    env[key] = Thunk(s.value, dict(env))
                continue
            if isinstance(s, ast.Return):
                if s.value is None:
                    raise Untranslatable("bare return")
                return Thunk(s.value, dict(env))  # forced only if the formula is the returned value
            if isinstance(s, ast.If):
                fv = self.flag(s.test)
                if fv is not None:
                    r = self.block(s.body if fv else s.orelse, env, in_loop)
                elif self.only_raises(s.body):
                    t = s.test
                    self.guards.append(ast.unparse(t.operand) if isinstance(t, ast.UnaryOp) and isinstance(
                        t.op, ast.Not) else f"not ({ast.unparse(t)})")
                    r = self.block(s.orelse, env, in_loop)
                elif self.only_raises(s.orelse):
                    self.guards.append(ast.unparse(s.test))
                    r = self.block(s.body, env, in_loop)
                else:
                    cond = self.expr(s.test, env)
                    if cond.ty != "B":
                        raise Untranslatable(f"if-test '{ast.unparse(s.test)}' is not a comparison")
                    ra = self.block(s.body, dict(env))
                    rb = self.block(s.orelse if s.orelse else stmts[i + 1:], dict(env))
                    if ra is None or rb is None:
                        raise Untranslatable(
                            f"if '{ast.unparse(s.test)}' on a data value whose branches do not both return")
                    a, b = self.force(ra), self.force(rb)
                    if a.ty != b.ty:
                        a, b = to_r(a), to_r(b)
                    done = Thunk(None, None)
                    done.ir = Ite(cond, a, b, a.ty)
                    return done
                if r is not None:
                    return r
                continue
            if isinstance(s, ast.For):
                if (isinstance(s.target, ast.Name) and s.target.id in self.src.loop_vars and not s.orelse
                        and isinstance(s.iter, ast.Call) and ast.unparse(s.iter.func) == "range"):
                    if self.block(s.body, env, in_loop=True) is not None:
                        raise Untranslatable("return inside the entrywise loop")
                    continue
                if (f"{ast.unparse(s.target)} in {ast.unparse(s.iter)}" in self.src.entry_loops and not s.orelse):
                    if self.block(s.body, env, in_loop=True) is not None:
                        raise Untranslatable("return inside the column-wise loop")
                    continue
                raise Untranslatable(f"loop 'for {ast.unparse(s.target)} in {ast.unparse(s.iter)}'")
            if isinstance(s, ast.Raise):
                raise Untranslatable("unconditional raise on the path of the formula")
            raise Untranslatable(f"statement {type(s).__name__}: '{ast.unparse(s)[:60]}'")
        return None


def find_function(tree, cls, func):
    scope = tree.body
    if cls is not None:
        cs = [n for n in tree.body if isinstance(n, ast.ClassDef) and n.name == cls]
        if len(cs) != 1:
            raise Untranslatable(f"class {cls} not found")
        scope = cs[0].body
    fs = [n for n in scope if isinstance(n, (ast.FunctionDef,)) and n.name == func]
    if len(fs) != 1:
        raise Untranslatable(f"function {cls}.{func} not found (or defined {len(fs)} times)")
    return fs[0]


def _array_entry(ex, th, target: str, k: int):
    """entry `k` of a row built as `np.array([...])` and then normalised in place — the normalisation statement is
    pinned (`<t> = <t> / np.linalg.norm(<t>)`), the entry returned is the un-normalised one"""
    if not isinstance(th, Thunk) or th.node is None:
        raise Untranslatable(f"'{target}' is not bound by a plain assignment")
    node, env = th.node, th.env
    if ast.unparse(node) != f"{target} / np.linalg.norm({target})":
        raise Untranslatable(f"'{target}' is no longer normalised by '{target} / np.linalg.norm({target})' "
                             f"(last assignment: '{ast.unparse(node)[:60]}')")
    prev = env.get(target)
    if not isinstance(prev, Thunk) or prev.node is None:
        raise Untranslatable(f"'{target}' has no assignment before its normalisation")
    node, env = prev.node, prev.env
    if not (isinstance(node, ast.Call) and ast.unparse(node.func) == "np.array" and len(node.args) == 1
            and not node.keywords and isinstance(node.args[0], (ast.List, ast.Tuple))):
        raise Untranslatable(f"'{target}' is no longer built as np.array([...]): '{ast.unparse(node)[:60]}'")
    elts = node.args[0].elts
    if len(elts) != 2:
        raise Untranslatable(f"'{target}' has {len(elts)} entries, the tie was made for 2")
    return ex.expr(elts[k], env)


def translate_formula(fm: Formula, repo: Path):
    """-> (lean definition text, term text)"""
    src = fm.source
    path = repo / src.file
    try:
        tree = ast.parse(path.read_text())
    except (OSError, SyntaxError) as e:
        raise Untranslatable(f"cannot parse {src.file}: {e}")
    fn = find_function(tree, src.cls, src.func)
    ex = Exec(src)
    env: dict = {}
    ret = ex.block(fn.body, env)
    if fm.target == "return":
        if ret is None:
            raise Untranslatable("no return reached")
        ir = ex.force(ret)
    else:
        if fm.target not in env:
            raise Untranslatable(f"no assignment to '{fm.target}' on the path")
        if fm.elem is not None:
            ir = _array_entry(ex, env[fm.target], fm.target, fm.elem)
        else:
            ir = ex.force(env[fm.target])
    if fm.unwrap == "ceil":
        if not (isinstance(ir, App) and ir.fn == "Naive.CeilNat.ceilNat"):
            raise Untranslatable(f"'{fm.target}' is no longer np.ceil(…).astype(int)")
        ir = ir.args[0]
    if fm.result == "R":
        ir = to_r(ir)
    elif ir.ty != fm.result:
        raise Untranslatable(f"'{fm.target}' has type {ir.ty}, expected {fm.result}")

    # parameters: those of the hand-written term, in its order; a variable outside that list breaks the tie
    pool = {name: ty for (name, ty) in src.params.values()}
    pool.update({name: ty for (name, ty, _) in src.opaque_locals.values()})
    used = {x.name for x in walk(ir) if isinstance(x, Var)}
    extra = used - set(fm.order)
    if extra:
        raise Untranslatable(f"the formula now depends on {sorted(extra)}, which the hand-written term does not take")
    tyname = {"N": "Nat", "Z": "Int", "R": "α"}
    binders, i = [], 0
    while i < len(fm.order):
        j = i
        while j + 1 < len(fm.order) and pool[fm.order[j + 1]] == pool[fm.order[i]]:
            j += 1
        binders.append(f"({' '.join(fm.order[i:j + 1])} : {tyname[pool[fm.order[i]]]})")
        i = j + 1
    fns = {x.fn for x in walk(ir) if isinstance(x, App)}
    classes = []
    if any(f.endswith("LtB.ltb") for f in fns):
        classes.append(f"[{src.ltb} α]")
    if "Vh.max0" in fns or "LeB.leb" in fns:
        classes.append("[LeB α]")
    if "Naive.CeilNat.ceilNat" in fns:
        classes.append("[Naive.CeilNat α]")
    term = pp(ir)
    where = f"{src.file}:{(src.cls + '.') if src.cls else ''}{src.func}"
    doc = [f"/-- generated from `{where}`, " + ("the returned value" if fm.target == "return"
                                                 else f"the value assigned to `{fm.target}`")
           + (" (argument of `np.ceil`)" if fm.unwrap == "ceil" else "") + "."]
    if src.flags:
        doc.append("Configuration: " + ", ".join(f"`{k}` is {v}" for k, v in sorted(src.flags.items())) + ".")
    if ex.guards:
        doc.append("Guards (the code raises otherwise): " + "; ".join(f"`{g}`" for g in ex.guards) + ".")
    ps = [f"`{nm}` = `{text}`" for text, (nm, _) in src.params.items() if nm in fm.order]
    ps += [f"`{nm}` = `{pin}`" for (nm, _, pin) in src.opaque_locals.values() if nm in fm.order]
    doc.append("Parameters: " + ", ".join(ps) + ".")
    if fm.hand:
        doc.append(f"Agreement: `{fm.hand}`. -/")
    else:
        doc[-1] += " -/"
    rty = tyname[fm.result]
    head = f"def gen_{fm.name} {{α : Type}} [RealLike α] " + " ".join(classes + binders) + f" : {rty} :="
    lean = "\n".join(doc) + "\n" + head + "\n  " + term + "\n"
    needs_vh = any(f.startswith("Vh.") or f == "LeB.leb" for f in fns) or any(
        isinstance(x, Cast) and x.to == "R" and x.a.ty == "Z" for x in walk(ir))
    return lean, term, needs_vh


# ----------------------------------------------------------------------------------------------------------------
# entry point
# ----------------------------------------------------------------------------------------------------------------
def render(prop: str, repo: Path):
    spec = SPECS[prop]
    defs, formulas, errors, needs_vh = [], {}, [], False
    for fm in spec["formulas"]:
        try:
            lean, term, nv = translate_formula(fm, repo)
        except Untranslatable as e:
            s = fm.source
            msg = f"{s.file}:{s.cls}.{s.func}: {e}"
            for k, (m0, names) in enumerate(errors):
                if m0 == msg:
                    names.append(f"gen_{fm.name}")
                    break
            else:
                errors.append((msg, [f"gen_{fm.name}"]))
            continue
        needs_vh |= nv
        defs.append(lean)
        formulas[f"gen_{fm.name}"] = hashlib.sha1(term.encode()).hexdigest()
    imports = list(spec["imports"])
    if needs_vh and "VOPyVerif.Model.AdaptiveVh" not in imports:
        imports.append("VOPyVerif.Model.AdaptiveVh")  # Vh.ofInt / npow / zpow / max0
    wheres = []
    for fm in spec["formulas"]:
        s = fm.source
        w = f"{s.file}:{(s.cls + '.') if s.cls else ''}{s.func}"
        if w not in wheres:
            wheres.append(w)
    text = (
        "".join(f"import {m}\n" for m in imports)
        + "/-!\nGENERATED by harness/translate.py from\n"
        + "".join(f"  {w}\n" for w in wheres)
        + "— do not edit.\n\n"
        "One `RealLike` term per closed-form formula, produced mechanically from the current Python source text on\n"
        f"every `./check {prop}`.  `Proofs/GenAgree{prop}.lean` proves each equal to the hand-written term the\n"
        f"theorems of `Props/{prop}.lean` are about (DESIGN §2.10).\n-/\n"
        f"namespace VOPy.Gen.{prop}\nopen VOPy VOPy.RealLike\n\n"
        + "\n".join(defs)
        + f"\nend VOPy.Gen.{prop}\n"
    )
    return text, formulas, [f"{m0} [affects {', '.join(names)}]" for (m0, names) in errors]


def _agreement_build(prop: str) -> tuple[bool, list[str], str]:
    """`lake build VOPyVerif.Proofs.GenAgree<prop>`; names of the agreement theorems that fail"""
    agree = LEAN_DIR / "VOPyVerif" / "Proofs" / f"GenAgree{prop}.lean"
    if not agree.exists():
        return False, [], f"{agree} is missing: no agreement theorems tie the generated terms to the model"
    p = subprocess.run(["lake", "build", f"VOPyVerif.Proofs.GenAgree{prop}"], cwd=LEAN_DIR, capture_output=True,
                       text=True, timeout=3600)
    if p.returncode == 0:
        return True, [], ""
    log = p.stdout + p.stderr
    lines = agree.read_text().splitlines()
    decl_at = []  # (first line of the declaration incl. its doc-comment, theorem name)
    for i, l in enumerate(lines, 1):
        m = re.match(r"\s*theorem\s+([^\s:({\[]+)", l)
        if m:
            start = i
            if i >= 2 and lines[i - 2].rstrip().endswith("-/"):  # Lean reports some errors at the doc-comment
                j = i - 1
                while j >= 1 and "/--" not in lines[j - 1]:
                    j -= 1
                start = max(j, 1)
            decl_at.append((start, m.group(1)))
    failed = []
    for m in re.finditer(r"error: [^\n]*GenAgree" + prop + r"\.lean:(\d+):\d+", log):
        ln = int(m.group(1))
        cands = [nm for (i, nm) in decl_at if i <= ln]
        if cands and cands[-1] not in failed:
            failed.append(cands[-1])
    return False, failed, log[-1500:]


def _render_any(name: str, repo: Path):
    """-> (text, {definition: sha1}, [errors]) of `Gen/<name>.lean`"""
    if name == "Phases":
        from . import translate_phases
        return translate_phases.render(repo)
    return render(name, repo)


def _restore_canonical(name: str, scratch_text: str) -> None:
    """at exit of a run on a scratch tree: put back the file generated from the canonical repo (a copy of what
    the scratch tree produced is kept under out/gen/ for inspection); the next run on the canonical repo then
    finds the file unchanged w.r.t. its source and only re-elaborates the modules built against the scratch term"""
    try:
        keep = VERIF / "out" / "gen"
        keep.mkdir(parents=True, exist_ok=True)
        (keep / f"{name}.scratch.lean").write_text(scratch_text)
        text, _, _ = _render_any(name, Path(CANONICAL_REPO))
        out = GEN_DIR / f"{name}.lean"
        if out.read_text() != text:
            out.write_text(text)
    except Exception:
        pass


# properties whose model is (also) tied to the source by the phase translator (harness/translate_phases.py):
# one shared generated file `Gen/Phases.lean`, agreement module `Proofs/GenAgreePhases.lean`
PHASE_PROPS = {"C02", "C03", "C05"}


def regenerate(prop: str, repo: str) -> dict | None:
    prop = prop.upper()
    if prop in SPECS:
        name = prop
    elif prop in PHASE_PROPS:
        name = "Phases"
    else:
        return None
    text, formulas, errors = _render_any(name, Path(repo))
    out = GEN_DIR / f"{name}.lean"
    res = {"files": [str(out.relative_to(VERIF))], "formulas": formulas, "changed": False, "source": str(repo)}
    # The file always corresponds to the CURRENT source: a formula the translator cannot read is left out, so
    # its agreement theorem stops elaborating (and is named below) instead of silently checking a stale term.
    GEN_DIR.mkdir(parents=True, exist_ok=True)
    if not out.exists() or out.read_text() != text:
        out.write_text(text)
        res["changed"] = True
    if Path(repo).resolve() != Path(CANONICAL_REPO).resolve():
        # a scratch tree (VOPY_REPO=<worktree>): the generated file must not outlive this run
        atexit.register(_restore_canonical, name, text)
    ok, failed, log = _agreement_build(name)
    res["agreement"] = {"module": f"VOPyVerif.Proofs.GenAgree{name}", "ok": ok, "failed": failed}
    if not ok:
        res["agreement"]["log"] = log
    names = (", ".join(f"VOPy.GenAgree.{name}.{n}" for n in failed) if failed else
             f"(none located: module VOPyVerif.Proofs.GenAgree{name} or the generated VOPyVerif.Gen.{name} does not "
             "build, see translator.agreement.log)")
    if errors:
        res["translator_errors"] = errors
        res["error"] = ("the translator cannot read the current source: " + " | ".join(errors)
                        + ("; failing agreement theorem(s): " + names if not ok else ""))
    elif not ok:
        res["error"] = (
            f"source agreement broken: the term regenerated from {repo} no longer equals the hand-written term; "
            "failing agreement theorem(s): " + names)
    return res


if __name__ == "__main__":
    import json
    import sys

    for p in sys.argv[1:] or sorted(SPECS):
        t, f, e = render(p.upper(), Path("/repo"))
        print(t)
        print(json.dumps({"formulas": f, "errors": e}, indent=1))
