"""Known findings: committed file, never written at run time."""
import json
from pathlib import Path

_FILE = Path(__file__).resolve().parent.parent / "known_findings.json"


def load():
    if not _FILE.exists():
        return []
    return json.loads(_FILE.read_text())["findings"]


def match(prop: str, key: str):
    for f in load():
        if f.get("status") == "known" and f["property"] == prop and f["key"] == key:
            return f
    return None
