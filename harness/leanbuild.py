"""Build the Lean project for one property and audit its theorems.

* `lake build driver_<id> VOPyVerif.Props.<ID>` — re-checks anything whose source changed.
* obligations = every `theorem` declared in Props/<ID>.lean (theorems about the hand-written model) and in
  Props/<ID>Source.lean if it exists (source-agreement obligations, DESIGN §2.10); both namespace VOPy.<ID>.
  The two modules are built and audited separately; a source module that does not build is elaborated inline
  and its failure attributed per theorem, so the model theorems (and the unaffected agreements) stay discharged.
* audit: a scratch file importing the property module runs `#print axioms` on each obligation;
  allowed axioms are propext, Classical.choice, Quot.sound.
* source scan for sorry/admit/axiom/native_decide/bv_decide/implemented_by/unsafe/maxHeartbeats 0
  (comments stripped) over every project file.
"""
from __future__ import annotations

import re
import subprocess
import time
from pathlib import Path

from .core import LEAN_DIR, OUT

ALLOWED = {"propext", "Classical.choice", "Quot.sound"}
FORBIDDEN = re.compile(
    r"\bsorry\b|\badmit\b|^\s*axiom\s|\bnative_decide\b|\bbv_decide\b|implemented_by|\bunsafe\s|maxHeartbeats\s+0\b",
    re.M,
)


def strip_comments(src: str) -> str:
    # nested block comments
    out, depth, i = [], 0, 0
    while i < len(src):
        if src.startswith("/-", i):
            depth += 1
            i += 2
        elif src.startswith("-/", i) and depth > 0:
            depth -= 1
            i += 2
        elif depth > 0:
            if src[i] == "\n":
                out.append("\n")
            i += 1
        else:
            out.append(src[i])
            i += 1
    s = "".join(out)
    return re.sub(r"--.*", "", s)


def _theorems(path: Path) -> list[str]:
    if not path.exists():
        return []
    src = strip_comments(path.read_text())
    return re.findall(r"^\s*(?:protected\s+|private\s+)?theorem\s+([^\s:({\[]+)", src, re.M)


def model_obligations(prop: str) -> list[str]:
    """theorems of Props/<ID>.lean: about the hand-written model only"""
    return [f"VOPy.{prop}.{n}" for n in _theorems(LEAN_DIR / "VOPyVerif" / "Props" / f"{prop}.lean")]


def source_obligations(prop: str) -> list[str]:
    """theorems of Props/<ID>Source.lean (if present): the model's definitions are the ones regenerated from the
    current source text (DESIGN §2.10); same namespace, own module, so that they fail independently"""
    return [f"VOPy.{prop}.{n}" for n in _theorems(LEAN_DIR / "VOPyVerif" / "Props" / f"{prop}Source.lean")]


def obligations(prop: str) -> list[str]:
    return model_obligations(prop) + source_obligations(prop)


def run(cmd, timeout=3600):
    p = subprocess.run(cmd, cwd=LEAN_DIR, capture_output=True, text=True, timeout=timeout)
    return p.returncode, p.stdout + p.stderr


def _read_axioms(out: str, names: list[str]) -> dict:
    """name -> set of axioms, for every name `#print axioms` reported on"""
    flat = re.sub(r"\s+", " ", out)
    got = {}
    for n in names:
        m = re.search(r"'" + re.escape(n) + r"' depends on axioms: \[([^\]]*)\]", flat)
        if m:
            got[n] = {a.strip() for a in m.group(1).split(",") if a.strip()}
        elif re.search(r"'" + re.escape(n) + r"' does not depend on any axioms", flat):
            got[n] = set()
    return got


def _audit_import(res: dict, tag: str, module: str, names: list[str], bad: list) -> None:
    """the module built: a scratch file importing it runs `#print axioms` on each of its obligations"""
    if not names:
        return
    adir = OUT / "audit"
    adir.mkdir(parents=True, exist_ok=True)
    af = adir / f"Audit_{tag}.lean"
    af.write_text(f"import {module}\n" + "".join(f"#print axioms {n}\n" for n in names))
    rc, out = run(["lake", "env", "lean", str(af)])
    got = _read_axioms(out, names)
    for n in names:
        if n not in got:
            res["failures"].append(f"audit: no axiom report for {n}")
            res["failed_obligations"].append(n)
            continue
        res["axioms"][n] = sorted(got[n])
        if got[n] <= ALLOWED and not bad:
            res["discharged"].append(n)
        else:
            res["failures"].append(f"audit: {n} depends on {sorted(got[n] - ALLOWED)}")
            res["failed_obligations"].append(n)
    if rc != 0:
        res["failures"].append("audit file failed to elaborate: " + out[-500:])


def _module_path(module: str) -> Path:
    return LEAN_DIR / (module.replace(".", "/") + ".lean")


def _split_imports(text: str) -> tuple[list[str], str]:
    imports, rest, in_head = [], [], True
    for line in text.splitlines():
        m = re.match(r"\s*import\s+(\S+)\s*$", line)
        if in_head and m:
            imports.append(m.group(1))
            continue
        if in_head and line.strip() and not line.lstrip().startswith("--"):
            in_head = False
        rest.append(line)
    return imports, "\n".join(rest) + "\n"


def _inline(module: str, kept: list[str], bodies: list[tuple[str, str]], seen: set) -> None:
    """`module` does not build: take its text instead of importing it; its imports are kept if they build and
    inlined (recursively, before it) if they do not"""
    if module in seen:
        return
    seen.add(module)
    imports, body = _split_imports(_module_path(module).read_text())
    for m in imports:
        if m.startswith("VOPyVerif.") and _module_path(m).exists() and run(["lake", "build", m])[0] != 0:
            _inline(m, kept, bodies, seen)
        elif m not in kept:
            kept.append(m)
    bodies.append((module, body))


def _decl_ranges(lines: list[str]) -> list[tuple[int, str]]:
    """(first line of the declaration incl. its doc-comment, name) for every theorem / def of the text"""
    out = []
    for i, l in enumerate(lines, 1):
        m = re.match(r"\s*(?:noncomputable\s+|protected\s+|private\s+)*(?:theorem|def|abbrev|inductive)\s+([^\s:({\[]+)", l)
        if m:
            start = i
            if i >= 2 and lines[i - 2].rstrip().endswith("-/"):
                j = i - 1
                while j >= 1 and "/--" not in lines[j - 1]:
                    j -= 1
                start = max(j, 1)
            out.append((start, m.group(1)))
    return out


def _audit_inline(res: dict, prop: str, module: str, names: list[str], bad: list) -> None:
    """The source-agreement module (or an agreement module under it) does not build.  Elaborate its text — with
    the text of every non-building module it imports in front — in ONE scratch file and ask `#print axioms` for each
    obligation: Lean keeps going after an error (a theorem whose proof fails is admitted with `sorryAx`, one whose
    statement fails does not exist), so exactly the obligations that depend on a broken agreement come out as
    failing, by name; the others are discharged as usual."""
    kept, bodies, seen = [], [], set()
    _inline(module, kept, bodies, seen)
    text = "".join(f"import {m}\n" for m in kept)
    for m, body in bodies:
        text += f"-- ===== inlined {m} =====\n" + body
    text += "-- ===== audit =====\n" + "".join(f"#print axioms {n}\n" for n in names)
    adir = OUT / "audit"
    adir.mkdir(parents=True, exist_ok=True)
    af = adir / f"Audit_{prop}Source_inline.lean"
    af.write_text(text)
    rc, out = run(["lake", "env", "lean", str(af)])
    got = _read_axioms(out, names)
    lines = text.splitlines()
    decls = _decl_ranges(lines)
    errs = []  # (line, first line of the message)
    for m in re.finditer(r"^[^\n]*?:(\d+):\d+: error:? ?([^\n]*)((?:\n(?![^\n]*:\d+:\d+: )[^\n]*){0,2})", out, re.M):
        errs.append((int(m.group(1)), " ".join((m.group(2) + m.group(3)).split())))
    broken = []
    for ln, _ in errs:
        c = [nm for (i, nm) in decls if i <= ln]
        if c and c[-1] not in broken:
            broken.append(c[-1])
    failing = []
    for n in names:
        ax = got.get(n)
        if ax is not None:
            res["axioms"][n] = sorted(ax)
        if ax is not None and ax <= ALLOWED and not bad:
            res["discharged"].append(n)
        else:
            failing.append(n)
    res["failed_obligations"] += failing
    first = errs[0][1] if errs else out.strip().splitlines()[-1] if out.strip() else "no error text"
    if failing:
        res["failures"].append(
            "source agreement: " + ", ".join(failing) + " no longer check: " + first[:200]
            + (" [broken declarations: " + ", ".join(broken[:12]) + "]" if broken else ""))
    else:
        res["failures"].append(f"{module} does not build although every obligation in it checks: " + first[:200])
    res["source_log"] = out[-3000:]


def ensure(prop: str) -> dict:
    """Returns dict(build_ok, driver_ok, obligations, discharged, failures, failed_obligations, axioms, log, wall_s).

    Two modules per property, built and audited separately: `Props/<ID>.lean` (theorems about the hand-written
    model) and, if present, `Props/<ID>Source.lean` (source-agreement obligations, DESIGN §2.10).  A module that
    fails to build marks only ITS theorems as failures — the source module per theorem (`_audit_inline`)."""
    t0 = time.time()
    model, source = model_obligations(prop), source_obligations(prop)
    res = {"obligations": model + source, "discharged": [], "failures": [], "failed_obligations": [], "axioms": {},
           "build_ok": False, "driver_ok": False, "source_build_ok": None}
    rc, log = run(["lake", "build", f"driver_{prop.lower()}"])
    res["driver_ok"] = rc == 0
    if rc != 0:
        res["log"] = log[-4000:]
        res["wall_s"] = time.time() - t0
        return res
    rc, log = run(["lake", "build", f"VOPyVerif.Props.{prop}"])
    res["build_ok"] = rc == 0
    if rc != 0:
        res["log"] = log[-4000:]
        res["failures"].append(f"lake build VOPyVerif.Props.{prop} failed")
        res["failed_obligations"] += model
    # forbidden tokens
    bad = []
    for f in sorted((LEAN_DIR / "VOPyVerif").rglob("*.lean")) + sorted((LEAN_DIR / "Drivers").glob("*.lean")):
        for m in FORBIDDEN.finditer(strip_comments(f.read_text())):
            bad.append(f"{f.relative_to(LEAN_DIR)}: {m.group(0).strip()}")
    if bad:
        res["failures"].append("forbidden tokens: " + "; ".join(bad[:10]))
    res["forbidden"] = bad
    if res["build_ok"]:
        _audit_import(res, prop, f"VOPyVerif.Props.{prop}", model, bad)
    if source:
        smod = f"VOPyVerif.Props.{prop}Source"
        rc, slog = run(["lake", "build", smod])
        res["source_build_ok"] = rc == 0
        if rc == 0:
            _audit_import(res, prop + "Source", smod, source, bad)
        elif not res["build_ok"]:
            res["failures"].append(f"lake build {smod} failed (it imports the model theorems, which do not build)")
            res["failed_obligations"] += source
        else:
            res["log"] = (res.get("log", "") + slog[-3000:])[-4000:]
            _audit_inline(res, prop, smod, source, bad)
    res["wall_s"] = round(time.time() - t0, 2)
    return res
