"""Build the Lean project for one property and audit its theorems.

* `lake build driver_<id> VOPyVerif.Props.<ID>` — re-checks anything whose source changed.
* obligations = every `theorem` declared in Props/<ID>.lean (namespace VOPy.<ID>).
* audit: a scratch file importing the property module runs `#print axioms` on each obligation;
  allowed axioms are propext, Classical.choice, Quot.sound.
* source scan for sorry/admit/axiom/native_decide/bv_decide/implemented_by/unsafe/maxHeartbeats 0
  (comments stripped) over every project file.
"""
from __future__ import annotations

import re
import subprocess
import time
from pathlib import Path

from .core import LEAN_DIR, OUT

ALLOWED = {"propext", "Classical.choice", "Quot.sound"}
FORBIDDEN = re.compile(
    r"\bsorry\b|\badmit\b|^\s*axiom\s|\bnative_decide\b|\bbv_decide\b|implemented_by|\bunsafe\s|maxHeartbeats\s+0\b",
    re.M,
)


def strip_comments(src: str) -> str:
    # nested block comments
    out, depth, i = [], 0, 0
    while i < len(src):
        if src.startswith("/-", i):
            depth += 1
            i += 2
        elif src.startswith("-/", i) and depth > 0:
            depth -= 1
            i += 2
        elif depth > 0:
            if src[i] == "\n":
                out.append("\n")
            i += 1
        else:
            out.append(src[i])
            i += 1
    s = "".join(out)
    return re.sub(r"--.*", "", s)


def obligations(prop: str) -> list[str]:
    f = LEAN_DIR / "VOPyVerif" / "Props" / f"{prop}.lean"
    if not f.exists():
        return []
    src = strip_comments(f.read_text())
    names = re.findall(r"^\s*(?:protected\s+|private\s+)?theorem\s+([^\s:({\[]+)", src, re.M)
    return [f"VOPy.{prop}.{n}" for n in names]


def run(cmd, timeout=3600):
    p = subprocess.run(cmd, cwd=LEAN_DIR, capture_output=True, text=True, timeout=timeout)
    return p.returncode, p.stdout + p.stderr


def ensure(prop: str) -> dict:
    """Returns dict(build_ok, driver_ok, obligations, discharged, failures, axioms, log, wall_s)."""
    t0 = time.time()
    res = {"obligations": obligations(prop), "discharged": [], "failures": [], "axioms": {},
           "build_ok": False, "driver_ok": False}
    rc, log = run(["lake", "build", f"driver_{prop.lower()}"])
    res["driver_ok"] = rc == 0
    if rc != 0:
        res["log"] = log[-4000:]
        res["wall_s"] = time.time() - t0
        return res
    rc, log = run(["lake", "build", f"VOPyVerif.Props.{prop}"])
    res["build_ok"] = rc == 0
    if rc != 0:
        res["log"] = log[-4000:]
        res["failures"].append(f"lake build VOPyVerif.Props.{prop} failed")
    # forbidden tokens
    bad = []
    for f in sorted((LEAN_DIR / "VOPyVerif").rglob("*.lean")) + sorted((LEAN_DIR / "Drivers").glob("*.lean")):
        for m in FORBIDDEN.finditer(strip_comments(f.read_text())):
            bad.append(f"{f.relative_to(LEAN_DIR)}: {m.group(0).strip()}")
    if bad:
        res["failures"].append("forbidden tokens: " + "; ".join(bad[:10]))
    res["forbidden"] = bad
    if res["build_ok"] and res["obligations"]:
        adir = OUT / "audit"
        adir.mkdir(parents=True, exist_ok=True)
        af = adir / f"Audit_{prop}.lean"
        af.write_text(
            f"import VOPyVerif.Props.{prop}\n"
            + "".join(f"#print axioms {n}\n" for n in res["obligations"])
        )
        rc, out = run(["lake", "env", "lean", str(af)])
        flat = re.sub(r"\s+", " ", out)
        for n in res["obligations"]:
            m = re.search(r"'" + re.escape(n) + r"' depends on axioms: \[([^\]]*)\]", flat)
            if m:
                ax = {a.strip() for a in m.group(1).split(",") if a.strip()}
            elif re.search(r"'" + re.escape(n) + r"' does not depend on any axioms", flat):
                ax = set()
            else:
                res["failures"].append(f"audit: no axiom report for {n}")
                continue
            res["axioms"][n] = sorted(ax)
            if ax <= ALLOWED and not bad:
                res["discharged"].append(n)
            else:
                res["failures"].append(f"audit: {n} depends on {sorted(ax - ALLOWED)}")
        if rc != 0:
            res["failures"].append("audit file failed to elaborate: " + out[-500:])
    res["wall_s"] = round(time.time() - t0, 2)
    return res
