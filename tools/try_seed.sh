#!/bin/bash
# try_seed.sh <ID> <variant> [check ids...] : apply /tmp/seed/<ID>-out/<v>/patch.diff in a scratch worktree and run checks (no import)
ID=$1; V=$2; shift 2; IDS=${@:-$ID}
WT=/tmp/ts-$ID-$V-$$
git -C /repo worktree add --detach -q $WT HEAD || exit 2
if ! git -C $WT apply /tmp/seed/$ID-out/$V/patch.diff 2>/tmp/ts-err-$$; then echo "PATCH DOES NOT APPLY to current HEAD: $(head -2 /tmp/ts-err-$$)"; git -C /repo worktree remove --force $WT; exit 3; fi
for c in $IDS; do
  out=$(VOPY_REPO=$WT /verif/check $c --no-lean 2>&1); rc=$?
  echo "seed $ID/$V vs check $c: exit $rc $(echo "$out" | grep -c '^VIOLATION') violation lines; $(echo "$out" | grep '^VIOLATION' | head -1)"
  [ $rc = 2 ] && echo "$out" | tail -15
done
git -C /repo worktree remove --force $WT
