#!/bin/bash
# every benign patch vs every check (no-lean), 8 patches in parallel
mkdir -p /tmp/tbm
ALL=$(for i in $(seq -w 1 20); do echo -n "C$i "; done)
for d in /tmp/benign/C*-out/[pqrs]; do
  id=$(basename $(dirname $d) | sed 's/-out//'); v=$(basename $d)
  [ -f /tmp/tbm/$id-$v.txt ] && continue
  echo "$id $v"
done | xargs -P 8 -L 1 bash -c '/verif/tools/try_benign.sh $0 $1 '"$ALL"' > /tmp/tbm/$0-$1.txt 2>&1'
echo ALLDONE
