#!/bin/bash
# try_benign.sh <ID> <variant> [check ids...] : apply /tmp/benign/<ID>-out/<v>/patch.diff (a property-PRESERVING rewrite)
# in a scratch worktree and run checks; any exit != 0 is an alarm to examine ((R) = false alarm, (F) = broken correspondence).
ID=$1; V=$2; shift 2; IDS=${@:-$ID}
WT=/tmp/tb-$ID-$V-$$
git -C /repo worktree add --detach -q $WT HEAD || exit 2
if ! git -C $WT apply /tmp/benign/$ID-out/$V/patch.diff 2>/tmp/tb-err-$$; then echo "PATCH DOES NOT APPLY: $(head -2 /tmp/tb-err-$$)"; git -C /repo worktree remove --force $WT; exit 3; fi
for c in $IDS; do
  out=$(VOPY_REPO=$WT /verif/check $c --no-lean 2>&1); rc=$?
  echo "benign $ID/$V vs check $c: exit $rc"
  echo "$out" | grep '^VIOLATION' | head -8 | while read -r l; do f=$(echo "$l" | sed 's/.*replay=\([^ ]*\).*/\1/'); python3 -c "import json,sys;d=json.load(open(sys.argv[1]));print('   ',d.get('kind'),d.get('key'),'|',d.get('what'))" $f; done
  [ $rc = 2 ] && echo "$out" | tail -15
done
git -C /repo worktree remove --force $WT
