#!/usr/bin/env python3
"""Prompt for an independent sub-agent asked for property-PRESERVING rewrites (to test that the checks stay quiet)."""
import json, sys
pid = sys.argv[1]
props = {json.loads(l)["id"]: json.loads(l) for l in open("/verif/properties.jsonl") if l.strip()}
p = props[pid]
wt = f"/tmp/seed/{pid}"
out = f"/tmp/benign/{pid}-out"
print(f"""You are helping test a verification effort. You get ONE semantic property of the Python library VOPy (black-box vector optimization: PaVeBa, VOGP, ε-PAL, cone orders, GP models, confidence regions) and your own scratch git worktree of the repository at {wt} (a checkout of the current commit). Work ONLY inside {wt} (and {out} for your outputs). Do NOT read or touch /verif or /repo — your work must be independent of any existing verification machinery.

The property ({pid}: {p['title']}):
STATEMENT: {p['statement']}
QUANTIFIED OVER: {p['quantifier']['text']}
ANCHORED IN: {', '.join(p['anchors']['files'])}

Task: produce TWO different, realistic code changes (call them p and q) to the library source under {wt}/vopy, in the code this property is anchored in, that a maintainer could plausibly merge and under which the property STILL HOLDS for every input it quantifies over — harmless rewrites. They are used to check that a verifier of this property does not raise a false alarm. Make them substantial enough to be a fair test (not a comment or a rename of a local variable): for example vectorising or un-vectorising a loop, restructuring control flow, replacing an algorithm by an equivalent one (different iteration order, different but exact closed form, early exits that are valid in every case), changing an internal representation (list ↔ array, cached value that is invalidated correctly, private attribute renamed or split), using a numerically equivalent or more careful formula (results may differ in the last few ulps but not in any decision that is not a knife-edge tie), stricter validation that rejects nothing valid, a different choice where the property leaves freedom (tie-breaks, which of several equal vectors is reported, order of a returned collection the property does not fix). Keep every public signature and every behaviour the property statement fixes. p and q should be of different kinds and touch different code sites. 5–40 changed lines each.

For each change X in (p, q) write into {out}/X/:
  * patch.diff  — `git -C {wt} diff` of exactly that change relative to HEAD (apply one change at a time; `git -C {wt} checkout -- .` between them);
  * demo.py     — a small self-contained program (run as `cd <repo-root> && PYTHONPATH=<repo-root> /venv/bin/python demo.py`) that exercises the REAL library code on a few dozen varied inputs relevant to the property (include awkward ones: non-orthant cones, N≠m facets, ties, integer dtypes, single design, batches) and checks the property's own conclusion against an independent brute-force computation; it must exit 0 / print PASS on BOTH the unmodified and the modified code;
  * README.md   — what the change is, a careful argument why the property still holds for ALL inputs (go through each clause of the statement), and a precise list of anything observable that DID change (internal attribute names or types, order of a returned list, last-ulp differences, exception types/messages, number of solver/RNG calls …) — be honest and complete here, this list is what the result will be judged against.
Verify yourself: (1) unmodified: demo passes; (2) modified: demo passes; (3) modified: the relevant existing tests pass — run at least the test files touching the changed module(s), e.g. `cd {wt} && OMP_NUM_THREADS=2 PYTHONPATH={wt} /venv/bin/python -m pytest -q -p no:cacheprovider --timeout=900 test/<…>` (algorithm tests are slow; do not run the full suite). Use `/venv/bin/python` (numpy, torch, gpytorch, cvxpy, … installed). Constructors of GP-based algorithms are slow (hyper-parameter training); keep demos fast.
Never use `git stash`, `git commit`, `git branch` or `git worktree` (the repository's git metadata is shared with other people's checkouts): save a change with `git -C {wt} diff > file` and drop it with `git -C {wt} checkout -- .`; if you need a second copy of the code use `cp -r` under /tmp and delete it afterwards. Set OMP_NUM_THREADS=2 for every python/pytest run (the machine is shared). Leave the worktree clean (`git -C {wt} checkout -- .`) when done. Final message: a short summary of both changes (site, kind, what observable details changed, tests run).""")
