#!/usr/bin/env python3
"""Round-8 seeder prompt (ONE change, variant n): base prompt plus the list of changes tried in earlier rounds."""
import json, sys, subprocess, glob, re
pid = sys.argv[1]
VAR = sys.argv[2] if len(sys.argv) > 2 else "n"
tried = []
for mf in sorted(glob.glob(f"/verif/seeded/{pid}-*/meta.json")):
    m = json.load(open(mf))
    t = re.sub(r"^#\s*", "", m.get("breaks", "")).strip()
    t = re.sub(r"^" + pid + r"\s*/\s*(change\s*)?\w+\s*[—-]+\s*", "", t)
    if t:
        tried.append(t[:160])
base = subprocess.check_output(["python3", "/verif/tools/seeder_prompt.py", pid], text=True)
base = base.replace("produce TWO different, realistic code changes (call them a and b)", f"produce ONE realistic code change (call it {VAR})")
base = base.replace("For each change X in (a, b) write", "Write")
base = base.replace(f"/tmp/seed/{pid}-out/X/", f"/tmp/seed/{pid}-out/{VAR}/")
base = base.replace("The two changes should break the property in different ways / different code sites.", "")
base = base.replace("a short summary of both changes", "a short summary of the change")
extra = ("\n\nROUND 8 — additional constraints. Other people have already tried the following changes for this property; do NOT repeat them or trivial variants of them, and use a DIFFERENT function/module or a different mechanism:\n"
         + "".join(f"  - {t}\n" for t in tried)
         + "What is wanted now (pick a mechanism NOT in the list above): (1) a multi-step sequence of operations where an EARLIER call leaves state that makes a LATER call wrong (an exception or early return between two coupled updates, a partially applied batch, a counter advanced before a check that can fail, re-entrancy, calling run_one_step after termination, interleaving two public methods in an order the bundled algorithms never use); (2) two cooperating edits in two different files or functions, each of which is harmless alone; (3) an input class nobody exercises: Fortran-ordered / non-contiguous / read-only / negative-stride arrays, 0-d and (1,m) vs (m,) shapes, python lists of numpy scalars, float16/longdouble, -0.0, subnormal or 1e300-magnitude values, duplicate designs, duplicate cone rows, a cone row scaled by 1e-8, empty index lists, numpy integer indices vs python ints, boolean masks; (4) a boundary of a loop or slice (first/last element, last round, last facet, exactly-full batch, batch that ends exactly at the budget); (5) an algebraically equal reformulation that is wrong only on one branch (sign of a slack when a coordinate is negative, abs() dropped where values are usually positive, min/max swapped where usually equal, >= vs > where ties are rare, transposed square matrix that is usually symmetric). The change must still be something a maintainer could plausibly commit. Do not run the full test suite (only the test files touching what you changed; the verifier will run the full suite).")
print(base + extra)
