#!/bin/bash
# verify every finished seed (patch.diff + demo.py + README.md present) that has no RESULT yet; sequential.
export OMP_NUM_THREADS=2 MKL_NUM_THREADS=2
while true; do
  did=0
  for d in /tmp/seed/C*-out/[ab]*; do
    [ -f $d/patch.diff ] && [ -f $d/demo.py ] && [ -f $d/README.md ] || continue
    id=$(basename $(dirname $d) | sed 's/-out//'); v=$(basename $d)
    [ -f /tmp/vseed-$id-$v.log ] && continue
    /verif/tools/verify_seed.sh $id $v > /tmp/vseed-$id-$v.out 2>&1
    did=1
  done
  [ $did = 0 ] && sleep 120
done
