#!/bin/bash
# verify_queue.sh <i> <n>: verify every finished seed whose position ≡ i (mod n) and that has no log yet.
I=${1:-0}; N=${2:-1}
export OMP_NUM_THREADS=2 MKL_NUM_THREADS=2
while true; do
  did=0; k=0
  for d in /tmp/seed/C*-out/[a-l]*; do
    [ -d $d ] || continue
    k=$((k+1)); [ $((k % N)) = $I ] || continue
    [ -f $d/patch.diff ] && [ -f $d/demo.py ] && [ -f $d/README.md ] || continue
    id=$(basename $(dirname $d) | sed 's/-out//'); v=$(basename $d)
    [ -f /tmp/vseed-$id-$v.log ] && continue
    /verif/tools/verify_seed.sh $id $v > /tmp/vseed-$id-$v.out 2>&1
    did=1
  done
  [ $did = 0 ] && sleep 120
done
