#!/usr/bin/env python3
"""Round-5 seeder prompt: base prompt plus the list of ALL changes tried in rounds 1-4 (taken from seeded/*/meta.json)."""
import json, sys, subprocess, glob, re
pid = sys.argv[1]
tried = []
for mf in sorted(glob.glob(f"/verif/seeded/{pid}-*/meta.json")):
    m = json.load(open(mf))
    t = re.sub(r"^#\s*", "", m.get("breaks", "")).strip()
    t = re.sub(r"^" + pid + r"\s*/\s*(change\s*)?\w+\s*[—-]+\s*", "", t)
    if t:
        tried.append(t[:160])
base = subprocess.check_output(["python3", "/verif/tools/seeder_prompt.py", pid], text=True)
extra = ("\n\nROUND 5 — additional constraints. Other people have already tried the following changes for this property; do NOT repeat them or trivial variants of them, and use a DIFFERENT function/module or a different mechanism:\n"
         + "".join(f"  - {t}\n" for t in tried)
         + "What has NOT been tried much and is wanted now: (1) changes in code the property depends on only indirectly (a helper in vopy/utils, a base class, a constructor default, a dataset/scaler, an `__init__` that precomputes something, a `property`/cache, dtype/shape handling at an API boundary); (2) changes that only matter after a long or unusual history (many rounds, re-entry of a design, clear-then-reuse, a run continued after it reported done, two algorithm objects sharing a problem/model/order object); (3) changes whose effect is tiny per step but accumulates, or that only matter at extreme parameter values (epsilon=0, delta close to 0 or 1, huge/small noise, K=1, m=1 or m>=4, cones with N<m or with many facets, non-unit or integer or duplicated cone rows); (4) 'defensive' edits (clipping, rounding, np.nan_to_num, abs(), max(…, 0), try/except returning a default, isclose tolerances) that silently change a decision. Do not run the full test suite (only the test files touching what you changed). Write your outputs under /tmp/seed/" + pid + "-out/i/ and /tmp/seed/" + pid + "-out/j/ (call the two changes i and j instead of a and b).")
print(base.replace(f"/tmp/seed/{pid}-out/X/", f"/tmp/seed/{pid}-out/X/ (X = i, j in this round)") + extra)
