#!/usr/bin/env python3
"""Regenerates /verif/MANIFEST.json from the table below (run by hand when a property's status changes)."""
import json
from pathlib import Path

V = Path(__file__).resolve().parent.parent

# id -> (design_ref, technique, level text, level note)   — only properties with a working check
CLAIMED = {
    "C01": ("3.1", "Lean 4 theorems by induction over rounds of the executable transition system (Steps.pavebaRound / auerRound): invariants I1–I3, valid regions ⇒ sound oracles ⇒ (a) every design outside P is dominated by a member of P, (b) every member of P has gap ≤ ε; correspondence: whole runs of the real algorithms with adversarial in-region posteriors, premise and conclusions evaluated exactly",
            "Proof: for every number of designs, every cone, every ε and every sequence of per-round oracle relations that are sound at the true means (which validity of the displayed regions gives, proved separately from the semantic ∀∀/∃∃ reading of the region predicates, with region domination a strict partial order for non-degenerate regions), a run ending with S = ∅ satisfies (a) and (b); for the ellipsoidal variants with thresholds ε·α, for the rectangular variants under the side condition W·(εα) ≤ εα that the code's objective-space slack needs (its failure is the known finding D6), for Auer under ‖c−μ‖∞ ≤ min_d β_d. The real PaVeBa, PaVeBaGP (IH/DE), PaVeBaPartialGP (both types) and Auer are run on synthetic unscaled datasets with scripted posteriors that stay inside the displayed regions; Lean checks containment exactly each round and the conclusions exactly at termination.",
            "Oracle soundness is tied to real geometry by C09/C10 (and exercised end-to-end here); runs where the truth left a region are counted and not judged; two known findings (rect-slack-objective-space-units, auer-scalar-M-vs-smallest-width) are listed, not suppressed for other inputs."),
    "C04": ("3.4", "Lean 4 theorems over Mathlib's gaussianReal (sharp Gaussian tail, chi-square-type tail, infinite union-bound series via zeta(2)/zeta(4), coverage >= 1-delta) about the same RealLike schedule terms the driver runs at Float + correspondence of compute_radius/alpha/beta and region construction",
            "Proof: for each schedule (VOGP, eps-PAL, Auer, PaVeBa, PaVeBaGP rect/ellipsoid, PaVeBaPartialGP rect) the infinite sum over rounds, designs and objectives of the actual Gaussian / chi-square-type tail probabilities at the schedule's scale is proved summable and <= delta at contraction 1 (HasSum / Summable ∧ tsum), and turned into coverage >= 1-delta; PaVeBaPartialGP ellipsoid is `_partial` (missing only K=1, delta in (1/2,1), 3<=m<=6, covered by the labelled numeric scan). The formulas proved about are the identical polymorphic terms evaluated at Float and compared (1e-9) with the real compute_* methods; real modeling() output is compared with the model's region construction.",
            "Assumes Gaussian noise of the configured variance with t samples at round t (bandit algorithms), Gaussian posterior marginals (GP algorithms); Float rounding not modelled; Auer's empirical-beta branch is compared only (no summable bound exists)."),
    "C05": ("3.5", "Lean 4 theorems by induction over rounds of Steps.vogpRound: isolated designs are never discarded and P is never internally dominated beyond the slack (VOGP with ε·u*, ε-PAL with ε·𝟙), chained from valid displayed rectangles; correspondence: whole VOGP / ε-PAL runs with adversarial in-region posteriors, both conclusions evaluated exactly at termination",
            "Proof: for every dataset size, cone and arbitrary pessimistic oracle, if the discard/cover oracles are sound at the true values in every round then at termination every design that no other design matches up to the slack is in P and no member of P is dominated by another member by more than the slack (the second statement needs no termination). Real runs use rectangles, non-orthant cones for VOGP, batch sizes 1–4; per-round containment and the two conclusions are decided exactly in Lean with the exported u_star_eps.",
            "Same trusted base as C01; the pessimistic test's completeness is irrelevant to these theorems (arbitrary oracle)."),
    "C08": ("3.8", "Lean 4 theorems: run state machine, P = Pareto.fast of row means, planar cone lemma => deterministic accuracy, Chernoff + union bound on a product Gaussian measure => (eps,delta)-PAC; correspondence of L, P and run bookkeeping + closed-form failure-probability search",
            "Proof: NaiveElimination's state machine (round, sample_count, P as Pareto.fast of the per-design means of all observations) and the PAC guarantee for 2-D theta-cones with the property's sample count (sigma = sqrt(noise_var)): deviation event probability <= delta on Measure.pi of gaussianReal, and deviations <= eps/(2 beta) imply an accurate set (no member with gap > eps, every design eps-covered). The code's L formula is a RealLike term compared exactly after ceil; where the code's L is smaller than the property's, the closed-form failure probability of a worst-case instance is evaluated (found D1, now fixed).",
            "Gaussian i.i.d. noise is a hypothesis; m = 2 cones (ConeTheta2D is the only bundled cone with beta); Monte-Carlo confirmations are labelled statistical tests."),
    "C09": ("3.9", "Lean 4 theorems: vertex enumeration decides the forall-forall domination of boxes (any cone, scalar/vector slack, boundary included); ellipsoid closed form via support function + exact rational sqrt-inequality procedure; correspondence with confidence_region_is_dominated (equality on dyadic data, borderline band otherwise)",
            "Proof: `Rect.isDominated` (the code's double vertex loop) is proved equivalent, for l <= u and every cone matrix, to the statement over all real points of both boxes; the ellipsoid decision (per-facet closed form decided exactly over Rat by squaring) is proved equivalent to the forall-forall statement for PSD-factor and positive-definite forms; the slack-size guards are modelled. Real code is compared for equality (touching cases generated deliberately) on exact inputs and outside a certified +-1e-6*scale band otherwise.",
            "cvxpy/CLARABEL solutions of the per-facet SOCPs are compared, not verified; IEEE rounding exact only on the dyadic/integer streams."),
    "C10": ("3.10", "Lean 4 soundness theorems for witness / Farkas / KKT / separating-multiplier checkers against the semantic Coverable predicate, box and ball reductions, monotonicity (justifies the band); untrusted exact search (Fourier–Motzkin, active sets) + verified checker; correspondence with confidence_region_is_covered on robust configurations",
            "Proof: every 1/0 verdict of the model rests on a checked certificate whose soundness against `∃ z∈R1, ∃ z'∈R2, z' ≽ z ⊕ slack` is a Lean theorem (rectangles: the code's LP rows; balls: exact KKT projection; general ellipsoids: witness pair / separating multiplier by Cauchy–Schwarz), and the band verdicts bracket the exact one. The real predicate is compared only where both ±τ verdicts agree (τ = 1e-6·scale for the LP, 1e-3·scale for the conic/SCS-fallback decisions); wrong answers inside the solver tolerance are counted, not raised.",
            "FM completeness not claimed (inconclusive is counted, never a violation; 0 observed); cvxpy/CLARABEL/SCS compared, not verified; the solver-tolerance widths are a judgement recorded in DESIGN §6."),
    "C11": ("3.11", "Lean 4 theorems: check_dominates sound for every cone/dimension, complete for every 2-D cone (iff), 3-D counterexample, pessimistic-set exactness; exact model + bit-exact binary64 mirror; certified exact reference (witness/Farkas); correspondence with check_dominates and compute_pessimistic_set",
            "Proof: the literal model of check_dominates → is_pt_in_extended_polytope → line_seg_pt_intersect_at_dim answers true only if every real point of R1 dominates some real point of R2 (all cones, all dimensions) and, for all 2-D cones (in particular invertible 2x2), whenever that holds; hence the pessimistic set is exactly the active designs no other active design pessimistically dominates. The real code must equal the binary64 mirror on every float input, must be sound w.r.t. a certified exact reference at any margin, and complete for 2x2 cones at margin 1e-6 (found the rounding defect fixed by 2e45ea6).",
            "Fourier–Motzkin search untrusted (verdicts certified); r64 mirror assumes IEEE round-to-nearest-even for + - * /."),
    "C12": ("3.12", "Lean 4 theorems: preorder laws of VOPy.dominates/inCone (refl, trans, translation, scaling, antisymmetric iff pointed), orthant, theta-cone angle semantics, 3-D cone geometry, ice-cream rotation orthogonal + facets tangent to the circular cone; correspondence with dominates/is_inside on lattices and constructor matrices at 1e-12",
            "Proof: the relation is exactly the facet inequalities and a translation/scale-invariant preorder, antisymmetric iff ker W = 0; the closed-form theta-cone contains exactly the directions within theta/2 of the diagonal for every theta in (0,180) and equals the get_2d_w term for theta != 90 (`_partial` exactly at 90, where the real-number reading of tan(pi/2) is singular; covered on the floats); 3-D cones have unit rows with the diagonal strictly inside; every ice-cream facet touches the circular cone along a ray for all K >= 3. Real code compared for equality on dyadic lattices (incl. boundary) and the constructors against the Float value of the same terms.",
            "Float trigonometry compared at 1e-12, not verified; get_alpha_vec stubbed for large-K constructors in the harness only."),
    "C13": ("3.13", "Lean 4 theorems about the executable Pareto loop (loop invariant, any preorder) + differential correspondence of get_pareto_set(_naive) against the model and its decidable spec relation",
            "Proof: `Pareto.fast` (split-form mirror of get_pareto_set) is proved, for every finite list and every reflexive transitive relation, to return a sublist of the indexed input that is an antichain, covers every input and contains no strictly dominated element. The tie to /repo is a correspondence check: the real routines run on dyadic-lattice sets with integer-row cones (exact float path) and their outputs must satisfy the Lean-evaluated spec relation (R) and, for pointed cones, keep the model's values (F).",
            "Trusts Lean kernel + standard axioms, the hand model's fidelity as validated by the generated cases (exhaustive small lattices in thorough), numpy float ops being exact on the dyadic/integer inputs."),
    "C14": ("3.14", "Lean 4 theorems: Rect/Ellipsoid update formulas, listed designs updated from their own row of the prediction, others untouched, lower<=upper invariant over all update sequences, intersection rule as sets; correspondence with both design-space classes x stub/empirical/GP models, every op sequence replayed in the model",
            "Proof: after update each listed design's rectangle is mean ∓ s·std (std² = cov_jj) / its ellipsoid is (mean, cov, s), unlisted designs are untouched (also under exceptions), lower <= upper is invariant for all sequences with scale >= 0, and iterative intersection yields the set intersection when interiors meet and the new rectangle otherwise (touching = disjoint, as the code). Real updates are compared against row i of predict on the FULL design matrix, exactly on the dyadic lattice and at 1e-12/1e-9 otherwise, with the single-design subset as an explicit shape (found D3, fixed by 741d2c1).",
            "sqrt enters as an input std checked against cov at 1e-12; GP wrappers' numerics compared not verified."),
    "C15": ("3.15", "Lean 4 theorems: wrapper state machine (predict reads what was held at the last update; helpers up to date iff they end with update), Matrix algebra (permutation invariance, block independence, Schur-complement variance >= 0 and antitone, prior for empty data), refinement of the executable exact posterior to the closed form; correspondence of the three GP wrappers and both helpers against the exact posterior computed in Lean from the exported Gram matrices",
            "Proof: predictions of every add/update/clear history are the posterior of exactly the multiset held at the last update (all three classes, end to end), independent of order/batching; model-list observations are local to their objective; posterior variances are non-negative and never grow with data; the executable rational posterior (checked Bareiss solve) equals kᵀA⁻¹y / k** − kᵀA⁻¹k. Real predict() shapes and values are compared with that exact posterior at 1e-6 (conditioning guarded by the exact minimum pivot); found D3/D3b/D3c (fixed) and the matrix-noise prior crash (known finding).",
            "gpytorch/torch linear algebra compared, not verified; kernel values are taken from the model's own kernel modules (exp not re-derived); Bareiss solver untrusted (result re-checked)."),
    "C16": ("3.16", "Lean 4 theorems about the empirical model's op-sequence state machine (mean/population variance of all samples since the last clear as of the last update; List.Perm / re-batching invariance; rejection leaves state unchanged) + whole-history replay correspondence with EmpiricalMeanVarModel",
            "Proof: for every add/update/clear history the model's prediction is the arithmetic mean and (>= 2 samples) population variance, else noise·I, of exactly the samples added for that design; invariant under any permutation/re-batching/interleaving; zero mean for unsampled designs; zeros/identity when untracked; out-of-range or mismatched adds are rejected without effect. Real histories (lists, sets, arrays, repeated indices, toggled flags) are replayed in the model with dyadic values (sums exact) and compared.",
            "np.mean/np.var compared at 1e-12 when the count is not a power of two; quirks outside the property (negative indices, empty adds) are modelled and counted only."),
    "C18": ("3.18", "Lean 4 theorems: one refinement (2^d children tiling the parent, half sides, centre points, depth+1, inherited region) and invariants over every refine/discard/declare sequence and every run_one_step sequence (leaves tile the unit cube, active nodes are interior-disjoint leaves, same-set replacement, depth bound, P only at maximum depth, latch); correspondence with AdaptivelyDiscretizedDesignSpace and whole VOGP_AD runs replayed in the model",
            "Proof: over any ordered field, children cover the parent, lie inside it and share no interior point; along every operation sequence from the root the leaves (active ∪ declared ∪ discarded) tile [0,1]^d with volumes summing to exactly 1, a refined node is replaced by its children in the set it was in, no node exceeds the maximum depth when refinement is guarded, and every member of P is at maximum depth. The real design space is compared array-for-array (cell ends are dyadic) under random and exhaustive refinement orders; real VOGP_AD runs are observed after every step, invariants checked on the real arrays with exact rationals (R) and the model replay compared (F).",
            "The vh/std comparison of should_refine_design enters the model as a Boolean input; crashes inside runs are C06's verdicts (counted here)."),
    "C19": ("3.19", "Lean 4 theorems: smallM is the geometric gap (given attained alpha), delta=0 iff no interior dominator, KKT/Farkas certificate soundness for eps-coverage, F1 laws (range, =1, permutation, monotone in eps), hypervolume monotonicity; correspondence with get_smallmij/get_delta/is_covered/get_uncovered_*/calculate_epsilonF1_score/botorch hypervolume",
            "Proof: the gap formula equals the largest admissible shift along all unit cone directions; eps-coverage verdicts are certified by checkers with soundness theorems; the F1 formula's laws are theorems about the modelled arithmetic. The real utilities are compared exactly on dyadic/integer inputs, is_covered outside the numerical band (1e-6 decided exactly; within 1e-3 relative the conic solver's tolerance governs), F1 exactly as a rational when robust.",
            "The active-set search is untrusted (every verdict certified); cvxpy solutions compared not verified; hypervolume theorem is about the mathematical hypervolume, botorch compared."),
    "C20": ("3.20", "Lean 4 theorems: first-nearest-design lookup, decoupled selection, second-moment algebra and exact Gaussian law of f + x·M (=> Cov = MᵀM), min-max / standardise / normalise algebra; correspondence with the three problem classes, get_noisy_evaluations_chol (applied matrix read off exactly), datasets and normalise/unnormalise",
            "Proof: nearestFirst returns the first nearest design; decoupled evaluation returns exactly the requested components; for standard-normal rows the law of f + x·M is N(f, MᵀM), equal to the configured N(f, LLᵀ) iff MᵀM = LLᵀ; scaling round-trips. The real code is driven on dyadic grids (exact), np.random.normal is patched to read the applied matrix M exactly, inputs are hashed for immutability, bundled datasets are checked exactly from the exported floats (found D4, D5, now fixed).",
            "numpy's RNG is assumed to deliver i.i.d. standard normals; sklearn scalers compared; the moment test in the thorough tier is a labelled statistical test."),
}

NOT_YET = "check not built yet in this session (planned: DESIGN.md §3); will be claimed once its Lean model, theorems and correspondence harness exist"


def main():
    props = [json.loads(l) for l in (V / "properties.jsonl").read_text().splitlines() if l.strip()]
    checks, na = [], []
    for p in props:
        pid = p["id"]
        if pid in CLAIMED:
            ref, tech, text, note = CLAIMED[pid]
            checks.append({
                "property_id": pid,
                "quick_cmd": f"./check {pid} --tier quick",
                "thorough_cmd": f"./check {pid} --tier thorough",
                "evidence_file": f"evidence/{pid}.json",
                "replay_cmd_template": f"./check {pid} --replay {{path}}",
                "engine": "lean4-model+correspondence",
                "level_claimed": {"category": "proof", "text": text, "design_ref": f"DESIGN.md §{ref}"},
                "level_note": note,
                "technique": tech,
            })
        else:
            na.append({"property_id": pid, "reason": NOT_YET})
    man = {
        "version": 1,
        "setup_cmd": "/verif/tools/setup.sh",
        "hooks": {
            "guard": "VOPY_VERIF",
            "enable": "no source hooks are needed; checks export VOPY_VERIF=1 and monkeypatch module namespaces from the harness only",
            "baseline_off_cmd": "cd /repo && env -u VOPY_VERIF /venv/bin/python -m pytest -ra -q -p no:cacheprovider --timeout=900 --continue-on-collection-errors",
            "source_commits": [],
            "add_only": True,
        },
        "engines": [{
            "name": "lean4-model+correspondence",
            "path": "lean/ (Lean 4 model, proofs, driver) + harness/ (Python correspondence harness) + check",
            "serves_properties": sorted(CLAIMED),
            "kind_free_text": "machine-checked proof in Lean 4 about a hand-written executable model; model tied to /repo by a differential correspondence check over a line protocol with exact rational export",
        }],
        "checks": checks,
        "not_applicable": na,
        "notes": "See DESIGN.md. Exit codes: 0 held, 1 violation (VIOLATION line), 2 infrastructure failure. Known findings: known_findings.json.",
    }
    (V / "MANIFEST.json").write_text(json.dumps(man, indent=1) + "\n")
    print(f"claimed {len(checks)}, not_applicable {len(na)}")


if __name__ == "__main__":
    main()
