#!/usr/bin/env python3
"""Regenerates /verif/MANIFEST.json from the table below (run by hand when a property's status changes)."""
import json
from pathlib import Path

V = Path(__file__).resolve().parent.parent

# id -> (design_ref, technique, level text, level note)   — only properties with a working check
CLAIMED = {
    "C13": ("3.13", "Lean 4 theorems about the executable Pareto loop (loop invariant, any preorder) + differential correspondence of get_pareto_set(_naive) against the model and its decidable spec relation",
            "Proof: `Pareto.fast` (split-form mirror of get_pareto_set) is proved, for every finite list and every reflexive transitive relation, to return a sublist of the indexed input that is an antichain, covers every input and contains no strictly dominated element. The tie to /repo is a correspondence check: the real routines run on dyadic-lattice sets with integer-row cones (exact float path) and their outputs must satisfy the Lean-evaluated spec relation (R) and, for pointed cones, keep the model's values (F).",
            "Trusts Lean kernel + standard axioms, the hand model's fidelity as validated by the generated cases (exhaustive small lattices in thorough), numpy float ops being exact on the dyadic/integer inputs."),
}

NOT_YET = "check not built yet in this session (planned: DESIGN.md §3); will be claimed once its Lean model, theorems and correspondence harness exist"


def main():
    props = [json.loads(l) for l in (V / "properties.jsonl").read_text().splitlines() if l.strip()]
    checks, na = [], []
    for p in props:
        pid = p["id"]
        if pid in CLAIMED:
            ref, tech, text, note = CLAIMED[pid]
            checks.append({
                "property_id": pid,
                "quick_cmd": f"./check {pid} --tier quick",
                "thorough_cmd": f"./check {pid} --tier thorough",
                "evidence_file": f"evidence/{pid}.json",
                "replay_cmd_template": f"./check {pid} --replay {{path}}",
                "engine": "lean4-model+correspondence",
                "level_claimed": {"category": "proof", "text": text, "design_ref": f"DESIGN.md §{ref}"},
                "level_note": note,
                "technique": tech,
            })
        else:
            na.append({"property_id": pid, "reason": NOT_YET})
    man = {
        "version": 1,
        "setup_cmd": "cd /verif/lean && lake build",
        "hooks": {
            "guard": "VOPY_VERIF",
            "enable": "no source hooks are needed; checks export VOPY_VERIF=1 and monkeypatch module namespaces from the harness only",
            "baseline_off_cmd": "cd /repo && env -u VOPY_VERIF /venv/bin/python -m pytest -ra -q -p no:cacheprovider --timeout=900 --continue-on-collection-errors",
            "source_commits": [],
            "add_only": True,
        },
        "engines": [{
            "name": "lean4-model+correspondence",
            "path": "lean/ (Lean 4 model, proofs, driver) + harness/ (Python correspondence harness) + check",
            "serves_properties": sorted(CLAIMED),
            "kind_free_text": "machine-checked proof in Lean 4 about a hand-written executable model; model tied to /repo by a differential correspondence check over a line protocol with exact rational export",
        }],
        "checks": checks,
        "not_applicable": na,
        "notes": "See DESIGN.md. Exit codes: 0 held, 1 violation (VIOLATION line), 2 infrastructure failure. Known findings: known_findings.json.",
    }
    (V / "MANIFEST.json").write_text(json.dumps(man, indent=1) + "\n")
    print(f"claimed {len(checks)}, not_applicable {len(na)}")


if __name__ == "__main__":
    main()
