#!/usr/bin/env python3
"""Writes /verif/seeded/README.md: one row per seeded breakage — what it is, what it needs, which checks caught it."""
import json, re
from pathlib import Path
S = Path("/verif/seeded")
rows = []
for d in sorted(S.iterdir()):
    if not (d / "meta.json").exists():
        continue
    meta = json.loads((d / "meta.json").read_text())
    res = json.loads((d / "results.json").read_text())["results"] if (d / "results.json").exists() else {}
    title = re.sub(r"^#+\s*", "", meta.get("breaks", "")).strip()
    title = re.sub(r"^C\d+\s*[/—-]\s*change\s*\(?\w\)?\s*[—:-]*\s*", "", title, flags=re.I)
    caught = []
    for pid, r in res.items():
        if r.get("exit") == 1:
            only_f = all("no-failing-input-found" in l for l in r.get("lines", []) if l.startswith("VIOLATION")) and any(l.startswith("VIOLATION") for l in r.get("lines", []))
            caught.append(pid + ("(F)" if only_f else ""))
    missed = [pid for pid, r in res.items() if r.get("exit") == 0]
    rows.append((d.name, meta["property"], title[:110], ", ".join(caught) or "—", ", ".join(missed) or "—",
                 meta.get("confirmed", {}).get("test_suite_with_patch", "")[:40]))
out = ["# Seeded breakages kept for regression of the checks", "",
       "Each directory holds `patch.diff` (applies to /repo HEAD), the author's `demo.py` (passes on the pristine tree, fails with the patch), `README.md`, `meta.json` (what it needs to manifest, how it was confirmed) and `results.json` (which checks were run against it and their exit codes).",
       "Authors were independent sub-agents given only the property text and a scratch worktree. `(F)` = caught only as a broken correspondence (`no-failing-input-found`).", "",
       "| seed | property | change | caught by | run but silent | existing tests with patch |", "|---|---|---|---|---|---|"]
for r in rows:
    out.append("| " + " | ".join(x.replace("|", "/") for x in r) + " |")
own_caught = sum(1 for r in rows if r[1] in [c.replace("(F)", "") for c in r[3].split(", ")])
out += ["", f"{len(rows)} seeded changes; caught by the property's own check: {own_caught}; caught by at least one check: {sum(1 for r in rows if r[3] != '—')}."]
(S / "README.md").write_text("\n".join(out) + "\n")
print(out[-1])
