#!/usr/bin/env python3
"""Round-2 seeder prompt: as round 1 plus a list of changes already tried (sites only) to avoid repeats."""
import json, sys, subprocess
pid = sys.argv[1]
TRIED = {
 "C01": ["ellipsoid predicates using cholesky(inv(sigma)) untransposed", "get_alpha normalising the facet normal", "corner-pair shortcut in RectangularConfidenceRegion.is_dominated", "swapped region arguments in PaVeBa.useful_updating"],
 "C02": ["PaVeBaPartialGP.discarding using S∪P instead of S∪U", "ellipsoid is_dominated using cholesky(inv(sigma))", "corner-pair shortcut in RectangularConfidenceRegion.is_dominated", "Auer.discarding reading the witness's width from the wrong index"],
 "C03": ["VOGP.epsiloncovering componentwise pre-filter", "ellipsoid is_covered using cholesky(inv(sigma))", "rectangular is_covered applying slack per facet instead of in objective space", "PaVeBa useful set pruned instead of rebuilt", "Auer.pareto_updating reading a width through a stale loop variable"],
 "C04": ["PaVeBa.evaluating sampling only S", "ellipsoid predicates reading alpha as a squared radius", "Auer.compute_beta losing the square on the round", "RectangularConfidenceRegion.update using diag(sqrtm(cov))"],
 "C05": ["rectangular is_covered guessing per-facet slack when len == N", "VOGP.compute_u_star closed form (mean of facet normals)", "corner-pair shortcut in RectangularConfidenceRegion.is_dominated", "EpsilonPAL.epsiloncovering comparing only against the pessimistic set"],
 "C06": ["cost_budget or np.inf (zero budget ignored)", "ellipsoidal is_covered validating slack size against m instead of N", "VOGP sample_count += batch_size", "PaVeBaPartialGP budget test >= changed to >"],
 "C07": ["SumVarianceAcquisition summing all covariance entries", "model-list add_sample splitting a mixed-objective batch by counts", "optimize_decoupled_acqf_discrete returning the top-q block unsorted", "PaVeBa.evaluating using points[sorted(A)] (observations mis-paired)"],
 "C08": ["ProblemFromDataset noise Cholesky losing its square root", "get_pareto_set pre-sort + forward-only scan for ConeTheta2D", "ordering complexity beta losing its square in L", "samples merged into self.samples only every 50 rounds"],
 "C09": ["hyperrectangle_get_vertices de-duplicating sides with np.isclose", "is_inside casting x to W's dtype via atleast_2d", "rectangle is_dominated vectorised with slack added per facet", "ellipsoid is_dominated using cholesky(inv(sigma)) instead of sqrtm"],
 "C10": ["_precision_sqrt diagonal fast path using np.allclose", "cached rectangle matrix form not invalidated by intersect()", "rectangle is_covered subtracting slack per facet", "ellipsoid is_covered using cholesky(inv(sigma)) instead of sqrtm"],
 "C11": ["line_seg_pt_intersect_at_dim returning np.minimum(P1,P2) for a constant coordinate", "compute_pessimistic_set skipping already-dominated designs as dominators", "check_dominates testing only obj1.lower", "componentwise pre-check in confidence_region_check_dominates"],
 "C12": ["ConeTheta2DOrder cache keyed on int(cone_degree)", "dominates zeroing np.isclose differences", "is_inside casting x to W's dtype", "ice-cream cone using tan(theta) instead of tan(90°-theta)"],
 "C13": ["mask keeping mutually dominating duplicates", "is_inside dtype cast (integer W)", "componentwise shortcut in get_pareto_set", "get_pareto_set_naive skipping by index instead of by value"],
 "C14": ["in-place intersect with shared bound arrays", "full-length index list treated like None in update", "hyperrectangle_check_intersection any/all slip", "flat per-design scale branch in design_space.update"],
 "C15": ["model-list predict fast path ignoring the mean constant for empty objectives", "model-list add_sample splitting by unique counts without sorting", "model-list update() skipping re-conditioning when the sample count is unchanged", "matrix-noise likelihood gaining a global noise term"],
 "C16": ["add_sample storing the first sample as a view", "update filling means in place (stale after clear)", "add_sample zipping sorted(indices)", "variance fallback keyed on distinct samples"],
 "C17": ["get_alpha_vec allocating an integer array for integer W", "VOGP_AD.compute_u_star via pinv", "get_alpha constraining only the first D facets", "compute_u_star with non-negativity bounds"],
 "C18": ["child lookup with np.isclose (deep refinements)", "evaluate_refine reusing the round-start active set", "depths appended d**2 instead of 2**d times", "epsiloncovering gate checking only the oldest active node"],
 "C19": ["is_covered dropping the cone-membership constraint of the shift", "memoised get_delta keyed without the cone", "get_smallmij broadcasting alpha (N,1)", "hypervolume of the predicted front computed from f instead of f_W"],
 "C20": ["ProblemFromDataset.evaluate clipping queries to the unit box", "one noise draw shared by the whole batch", "noise Cholesky transpose dropped", "BraninCurrin._currin copy removed"],
}
base = subprocess.check_output(["python3", "/verif/tools/seeder_prompt.py", pid], text=True)
extra = ("\n\nROUND 2 — additional constraints. Other people have already tried these changes for this property; do NOT repeat them or trivial variants of them, and prefer a DIFFERENT function/module where the property allows:\n"
         + "".join(f"  - {t}\n" for t in TRIED[pid])
         + "Favour changes that need a multi-step history, two cooperating edits that each look harmless, an interaction between two modules, or an input class nobody would think of first (unusual dtypes/shapes, N≠m cones, repeated or single designs, zero/negative/scalar-vs-vector parameters, boundary ties). Write your outputs under /tmp/seed/" + pid + "-out/e/ and /tmp/seed/" + pid + "-out/f/ (call the two changes e and f instead of a and b).")
print(base.replace(f"/tmp/seed/{pid}-out/X/", f"/tmp/seed/{pid}-out/X/ (X = e, f in this round)") + extra)
