#!/bin/bash
# MANIFEST.setup_cmd: build every property's driver and theorem module from files on disk (offline).
# A target that fails to build does not stop the others: its own check reports it.
cd "$(dirname "$0")/../lean" || exit 2
fail=0
for i in $(seq -w 1 20); do
  if ! lake build driver_c$i VOPyVerif.Props.C$i > /tmp/setup_c$i.log 2>&1; then
    echo "setup: C$i did not build (see its check)"; tail -5 /tmp/setup_c$i.log; fail=1
  fi
  # source-agreement obligations (DESIGN §2.10) live in their own module where a property has them
  if [ -f VOPyVerif/Props/C${i}Source.lean ]; then
    if ! lake build VOPyVerif.Props.C${i}Source >> /tmp/setup_c$i.log 2>&1; then
      echo "setup: C${i}Source did not build (see its check)"; tail -5 /tmp/setup_c$i.log; fail=1
    fi
  fi
done
echo "setup done (fail=$fail)"
exit 0
