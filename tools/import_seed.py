#!/usr/bin/env python3
"""import_seed.py <ID> <variant> "<needs>" — copy a confirmed seeded change into /verif/seeded/<ID>-<variant>/ with meta.json."""
import json, shutil, sys, re
from pathlib import Path
pid, var = sys.argv[1], sys.argv[2]
needs = sys.argv[3] if len(sys.argv) > 3 else None
src = Path(f"/tmp/seed/{pid}-out/{var}")
dst = Path(f"/verif/seeded/{pid}-{var}")
dst.mkdir(parents=True, exist_ok=True)
for f in ("patch.diff", "demo.py", "README.md"):
    shutil.copy(src / f, dst / f)
if not needs or needs == "see README":
    txt = (src / "README.md").read_text()
    mm = re.search(r"(?is)^#+[^\n]*(need|manifest|trigger)[^\n]*\n(.*?)(?=^#+ |\Z)", txt, re.M)
    needs = re.sub(r"\s+", " ", mm.group(2)).strip()[:700] if mm else re.sub(r"\s+", " ", txt)[:500]
log = Path(f"/tmp/vseed-{pid}-{var}.log").read_text() if Path(f"/tmp/vseed-{pid}-{var}.log").exists() else ""
m = re.findall(r"(\d+ passed[^\n]*)", log)
meta = {
    "property": pid,
    "variant": var,
    "breaks": (src / "README.md").read_text().splitlines()[0][:300],
    "needs_to_manifest": needs,
    "confirmed": {
        "demo_pristine_exit": int(re.search(r"pristine demo exit=(\d+)", log).group(1)) if "pristine demo exit=" in log else None,
        "demo_patched_exit": int(re.search(r"patched demo exit=(\d+)", log).group(1)) if "patched demo exit=" in log else None,
        "test_suite_with_patch": m[-1] if m else "see log",
        "how": "tools/verify_seed.sh: scratch worktree of /repo HEAD; demo on pristine code, demo with patch.diff applied, then the full existing pytest suite with the patch",
    },
    "author": "independent sub-agent given only the property text and a scratch worktree",
}
(dst / "meta.json").write_text(json.dumps(meta, indent=1))
print(json.dumps(meta, indent=1))
