#!/usr/bin/env python3
"""Prints the prompt for an independent 'seeder' sub-agent for one property (given only the property text)."""
import json, sys
pid = sys.argv[1]
props = {json.loads(l)["id"]: json.loads(l) for l in open("/verif/properties.jsonl") if l.strip()}
p = props[pid]
wt = f"/tmp/seed/{pid}"
print(f"""You are helping test a verification effort. You get ONE semantic property of the Python library VOPy (black-box vector optimization: PaVeBa, VOGP, ε-PAL, cone orders, GP models, confidence regions) and your own scratch git worktree of the repository at {wt} (a checkout of the pinned commit). Work ONLY inside {wt} (and /tmp/seed/{pid}-out for your outputs). Do NOT read or touch /verif or /repo — your work must be independent of any existing verification machinery.

The property ({pid}: {p['title']}):
STATEMENT: {p['statement']}
QUANTIFIED OVER: {p['quantifier']['text']}
ANCHORED IN: {', '.join(p['anchors']['files'])}

Task: produce TWO different, realistic code changes (call them a and b) to the library source under {wt}/vopy that each BREAK this property while the code still imports and the EXISTING test suite still passes. Think of plausible maintainer mistakes: a refactor that subtly changes semantics, an off-by-one, a swapped argument, a wrong variable reused, a sign or strictness flip, an optimisation that is only valid in the common case, two cooperating edits that each look fine alone. Each change must need something SPECIFIC to manifest — an unusual input (non-orthant cone, ties, N≠m facets, batch size > 1, single design, heteroscedastic widths, particular geometry), a multi-step sequence of operations, a particular history — and must NOT be exposed at once by ordinary use or by the existing tests. Prefer small diffs (1–10 lines). The two changes should break the property in different ways / different code sites.

For each change X in (a, b) write into /tmp/seed/{pid}-out/X/:
  * patch.diff  — `git -C {wt} diff` of exactly that change relative to HEAD (apply one change at a time; `git -C {wt} checkout -- .` between them);
  * demo.py     — a small self-contained program (run as `cd <repo-root> && PYTHONPATH=<repo-root> /venv/bin/python demo.py`, repo root passed implicitly by cwd) that exercises the REAL library code, exits 0 / prints PASS on the unmodified code and exits 1 / prints FAIL with the change applied, and whose failure is a concrete violation of the property above (say which clause);
  * README.md   — what the change is, which clause of the property it breaks, what it needs in order to manifest, which existing tests you ran and their result.
Verify yourself: (1) unmodified: demo passes; (2) modified: demo fails; (3) modified: the relevant existing tests pass — run at least the test files touching the changed module(s), e.g. `cd {wt} && PYTHONPATH={wt} /venv/bin/python -m pytest -q -p no:cacheprovider --timeout=900 test/<…>` (the algorithm tests are slow, several minutes each; the full suite takes ~10 min — run the full suite if you can afford it, otherwise say exactly what you ran). Use `/venv/bin/python` (it has numpy, torch, gpytorch, cvxpy, etc.). Constructors of GP-based algorithms are slow (hyper-parameter training); keep demos fast where possible (small synthetic inputs, direct calls to the functions involved).
Never use `git stash`, `git commit`, `git branch` or `git worktree` (the repository's git metadata is shared with other people's checkouts): save a change with `git -C {wt} diff > file` and drop it with `git -C {wt} checkout -- .`; if you need a second copy of the code use `cp -r`. Set OMP_NUM_THREADS=2 for every python/pytest run (the machine is shared). Leave the worktree clean (`git -C {wt} checkout -- .`) when done. Final message: a short summary of both changes (site, effect, what is needed to manifest, tests run).""")
