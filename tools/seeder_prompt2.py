#!/usr/bin/env python3
"""Round-2 seeder prompt: as round 1 plus a list of changes already tried (sites only) to avoid repeats."""
import json, sys, subprocess
pid = sys.argv[1]
TRIED = {
 "C01": ["corner-pair shortcut in RectangularConfidenceRegion.is_dominated", "swapped region arguments in PaVeBa.useful_updating"],
 "C02": ["corner-pair shortcut in RectangularConfidenceRegion.is_dominated", "Auer.discarding reading the witness's width from the wrong index"],
 "C03": ["rectangular is_covered applying slack per facet instead of in objective space", "PaVeBa useful set pruned instead of rebuilt", "Auer.pareto_updating reading a width through a stale loop variable"],
 "C04": ["Auer.compute_beta losing the square on the round", "RectangularConfidenceRegion.update using diag(sqrtm(cov))"],
 "C05": ["corner-pair shortcut in RectangularConfidenceRegion.is_dominated", "EpsilonPAL.epsiloncovering comparing only against the pessimistic set"],
 "C06": ["VOGP sample_count += batch_size", "PaVeBaPartialGP budget test >= changed to >"],
 "C07": ["optimize_decoupled_acqf_discrete returning the top-q block unsorted", "PaVeBa.evaluating using points[sorted(A)] (observations mis-paired)"],
 "C08": ["ordering complexity beta losing its square in L", "samples merged into self.samples only every 50 rounds"],
 "C09": ["rectangle is_dominated vectorised with slack added per facet", "ellipsoid is_dominated using cholesky(inv(sigma)) instead of sqrtm"],
 "C10": ["rectangle is_covered subtracting slack per facet", "ellipsoid is_covered using cholesky(inv(sigma)) instead of sqrtm"],
 "C11": ["check_dominates testing only obj1.lower", "componentwise pre-check in confidence_region_check_dominates"],
 "C12": ["is_inside casting x to W's dtype", "ice-cream cone using tan(theta) instead of tan(90°-theta)"],
 "C13": ["componentwise shortcut in get_pareto_set", "get_pareto_set_naive skipping by index instead of by value"],
 "C14": ["hyperrectangle_check_intersection any/all slip", "flat per-design scale branch in design_space.update"],
 "C15": ["model-list update() skipping re-conditioning when the sample count is unchanged", "matrix-noise likelihood gaining a global noise term"],
 "C16": ["add_sample zipping sorted(indices)", "variance fallback keyed on distinct samples"],
 "C17": ["get_alpha constraining only the first D facets", "compute_u_star with non-negativity bounds"],
 "C18": ["depths appended d**2 instead of 2**d times", "epsiloncovering gate checking only the oldest active node"],
 "C19": ["get_smallmij broadcasting alpha (N,1)", "hypervolume of the predicted front computed from f instead of f_W"],
 "C20": ["noise Cholesky transpose dropped", "BraninCurrin._currin copy removed"],
}
base = subprocess.check_output(["python3", "/verif/tools/seeder_prompt.py", pid], text=True)
extra = ("\n\nROUND 2 — additional constraints. Other people have already tried these changes for this property; do NOT repeat them or trivial variants of them, and prefer a DIFFERENT function/module where the property allows:\n"
         + "".join(f"  - {t}\n" for t in TRIED[pid])
         + "Favour changes that need a multi-step history, two cooperating edits that each look harmless, an interaction between two modules, or an input class nobody would think of first (unusual dtypes/shapes, N≠m cones, repeated or single designs, zero/negative/scalar-vs-vector parameters, boundary ties). Write your outputs under /tmp/seed/" + pid + "-out/c/ and /tmp/seed/" + pid + "-out/d/ (call the two changes c and d instead of a and b).")
print(base.replace(f"/tmp/seed/{pid}-out/X/", f"/tmp/seed/{pid}-out/X/ (X = c, d in this round)") + extra)
