#!/usr/bin/env python3
"""run_seeded.py <seed-dir> [ID ...] [--inplace]

Runs checks against a seeded breakage.  Default: a scratch worktree of /repo with patch.diff applied and
VOPY_REPO pointing at it (safe while other work uses /repo).  --inplace: `git -C /repo apply`, run the
registered quick commands against /repo itself, and undo with `git -C /repo checkout -- .`.
IDs default to the property named in meta.json.  Writes <seed-dir>/results.json.
"""
import json, os, subprocess, sys, time
from pathlib import Path

def main():
    args = [a for a in sys.argv[1:] if not a.startswith("--")]
    inplace = "--inplace" in sys.argv
    sd = Path(args[0]).resolve()
    meta = json.loads((sd / "meta.json").read_text()) if (sd / "meta.json").exists() else {}
    ids = args[1:] or [meta.get("property", sd.name.split("-")[0])]
    env = dict(os.environ)
    if inplace:
        subprocess.check_call(["git", "-C", "/repo", "apply", str(sd / "patch.diff")])
        repo = "/repo"
    else:
        repo = f"/tmp/rs-{sd.name}-{os.getpid()}"
        subprocess.check_call(["git", "-C", "/repo", "worktree", "add", "--detach", "-q", repo, "HEAD"])
        subprocess.check_call(["git", "-C", repo, "apply", str(sd / "patch.diff")])
        env["VOPY_REPO"] = repo
    results = {}
    try:
        for pid in ids:
            t0 = time.time()
            p = subprocess.run(["/verif/check", pid, "--tier", "quick", "--no-lean"], env=env,
                               capture_output=True, text=True, timeout=3600)
            lines = [l for l in p.stdout.splitlines() if l.startswith(("VIOLATION", "KNOWN-FINDING"))]
            results[pid] = {"exit": p.returncode, "caught": p.returncode == 1, "lines": lines[:6],
                            "wall_s": round(time.time() - t0, 1), "tail": p.stdout.splitlines()[-1:] }
            print(pid, "exit", p.returncode, lines[:2])
            if p.returncode == 2:
                print(p.stdout[-1500:], p.stderr[-1500:])
    finally:
        if inplace:
            subprocess.check_call(["git", "-C", "/repo", "checkout", "--", "."])
        else:
            subprocess.call(["git", "-C", "/repo", "worktree", "remove", "--force", repo])
    (sd / "results.json").write_text(json.dumps({"mode": "inplace" if inplace else "worktree", "results": results}, indent=1))

if __name__ == "__main__":
    main()
