#!/bin/bash
# verify_seed.sh <ID> <variant>  — confirm a seeded change from /tmp/seed/<ID>-out/<variant>:
#   demo passes on pristine code, fails with the patch, and the existing test suite (full, unless
#   TESTS="test/foo.py ..." is given) still passes with the patch.  Uses its own scratch worktree.
set -u
ID=$1; VAR=$2
SRC=/tmp/seed/$ID-out/$VAR
WT=/tmp/vseed-$ID-$VAR
LOG=/tmp/vseed-$ID-$VAR.log
: > $LOG
git -C /repo worktree add --detach $WT HEAD -q || exit 2
cd $WT
echo "== demo on pristine" | tee -a $LOG
PYTHONPATH=$WT timeout 1800 /venv/bin/python -W ignore $SRC/demo.py >> $LOG 2>&1; R0=$?
echo "pristine demo exit=$R0" | tee -a $LOG
git apply $SRC/patch.diff || { echo "patch does not apply" | tee -a $LOG; git -C /repo worktree remove --force $WT; exit 2; }
echo "== demo with patch" | tee -a $LOG
PYTHONPATH=$WT timeout 1800 /venv/bin/python -W ignore $SRC/demo.py >> $LOG 2>&1; R1=$?
echo "patched demo exit=$R1" | tee -a $LOG
echo "== test suite with patch" | tee -a $LOG
PYTHONPATH=$WT timeout 3600 /venv/bin/python -m pytest -q -p no:cacheprovider --timeout=900 ${TESTS:-} 2>&1 | tail -15 >> $LOG; 
tail -3 $LOG
cd /; git -C /repo worktree remove --force $WT
echo "RESULT $ID/$VAR pristine=$R0 patched=$R1 (want 0 / non-zero; tests: see above)" | tee -a $LOG
