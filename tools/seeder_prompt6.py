#!/usr/bin/env python3
"""Round-5 seeder prompt: base prompt plus the list of ALL changes tried in rounds 1-4 (taken from seeded/*/meta.json)."""
import json, sys, subprocess, glob, re
pid = sys.argv[1]
tried = []
for mf in sorted(glob.glob(f"/verif/seeded/{pid}-*/meta.json")):
    m = json.load(open(mf))
    t = re.sub(r"^#\s*", "", m.get("breaks", "")).strip()
    t = re.sub(r"^" + pid + r"\s*/\s*(change\s*)?\w+\s*[—-]+\s*", "", t)
    if t:
        tried.append(t[:160])
base = subprocess.check_output(["python3", "/verif/tools/seeder_prompt.py", pid], text=True)
extra = ("\n\nROUND 6 — additional constraints. Other people have already tried the following changes for this property; do NOT repeat them or trivial variants of them, and use a DIFFERENT function/module or a different mechanism:\n"
         + "".join(f"  - {t}\n" for t in tried)
         + "What is wanted now (pick mechanisms NOT in the list above): (1) public entry points of the anchored classes/functions that the bundled algorithms never call but a user can (direct calls with lists/tuples/torch tensors/0-d arrays, keyword vs positional arguments, optional arguments at non-default values, methods called in an unusual but documented order); (2) the interplay of TWO features that are each fine alone (batch_size > 1 with costs or a budget, iterative intersection with the adaptive design space, decoupled evaluation with per-point objective lists, empirical widths with conf_contraction, N > m cones with per-facet slack, model shared by two design spaces); (3) error handling that turns a failure into a silent default (try/except returning the previous value, solver status checks loosened, warnings suppressed and NaN replaced); (4) order and stability (set → list conversions, sort stability, argsort vs argpartition, first-vs-last tie rule, dict ordering) where the property fixes the outcome; (5) arithmetic reformulations that are equal over the reals but not in floating point in a way that crosses a DECISION far from a tie for some realistic magnitude (float32 intermediates, sums in a different order over thousands of terms, sqrt(a)*sqrt(b) vs sqrt(a*b) with overflow/underflow, log/exp round trips); (6) state carried on the CLASS or MODULE instead of the instance, default mutable arguments, objects captured by closures. Do not run the full test suite (only the test files touching what you changed). Write your outputs under /tmp/seed/" + pid + "-out/k/ and /tmp/seed/" + pid + "-out/l/ (call the two changes k and l instead of a and b).")
print(base.replace(f"/tmp/seed/{pid}-out/X/", f"/tmp/seed/{pid}-out/X/ (X = k, l in this round)") + extra)
