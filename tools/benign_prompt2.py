#!/usr/bin/env python3
"""Round-2 prompt for property-PRESERVING rewrites: base prompt + the round-1 rewrites (titles only) to avoid repeats."""
import sys, subprocess, re, glob
pid = sys.argv[1]
done = []
for v in ("p", "q"):
    for rd in glob.glob(f"/tmp/benign/{pid}-out/{v}/README.md"):
        for line in open(rd):
            if line.strip():
                done.append(re.sub(r"^#\s*", "", line.strip())[:200]); break
base = subprocess.check_output(["python3", "/verif/tools/benign_prompt.py", pid], text=True)
extra = ("\n\nROUND 2 — additional constraints. Other people already produced these harmless rewrites for this property; do NOT repeat them, and choose DIFFERENT functions / files:\n"
         + "".join(f"  - {t}\n" for t in done)
         + "Wanted now: harmless rewrites in code the property depends on INDIRECTLY — helpers in vopy/utils/utils.py, base classes (algorithm.py, the abstract model / design-space / order classes), constructors (moving a computation between __init__ and first use, lazy properties that are invalidated correctly), the dataset and scaler code, maximization_problem.py, the order / ordering-cone classes, the model wrappers — and rewrites of a different KIND than above: changing the iteration order of a set-valued loop where the result does not depend on it, replacing a Python set by a sorted list or a boolean mask, splitting a method into helpers or merging helpers, replacing a third-party call by an equivalent one (np.linalg vs scipy.linalg, sklearn scaler vs explicit formula WITH the same handling of constant columns, cvxpy problem built with parameters and re-solved), adding dtype normalisation that is value-preserving (asarray(..., dtype=float) on inputs that are then only read), defensive copies, stricter argument validation that rejects nothing the property quantifies over, caching with a correct key and correct invalidation. Be especially careful that your rewrite is REALLY harmless for awkward inputs (integer dtypes, large offsets with small gaps, N≠m cones, shared arrays/objects between regions or algorithm instances, extreme δ/ε/noise values, K=1, m=1) — if it is not, it is not wanted. Write outputs under /tmp/benign/" + pid + "-out/r/ and /tmp/benign/" + pid + "-out/s/ (call the two changes r and s instead of p and q).")
print(base.replace(f"/tmp/benign/{pid}-out/X/", f"/tmp/benign/{pid}-out/X/ (X = r, s in this round)") + extra)
