#!/bin/bash
# multiseed.sh <tier> <seed...> : run every claimed check at the given seeds on the unchanged tree; log exit codes
TIER=$1; shift
OUT=/tmp/multiseed-$TIER.log
for s in "$@"; do
  for i in $(seq -w 1 20); do
    t0=$(date +%s)
    VERIF_SEED=$s /verif/check C$i --tier $TIER > /tmp/ms-C$i-$s-$TIER.out 2>&1; rc=$?
    echo "C$i seed=$s tier=$TIER exit=$rc wall=$(( $(date +%s) - t0 ))s $(grep -c '^VIOLATION' /tmp/ms-C$i-$s-$TIER.out) viol" >> $OUT
  done
done
echo DONE >> $OUT
