#!/bin/bash
# seed_robust.sh <VERIF_SEED> : every seeded change vs its own check at the given generator seed (scratch worktrees, 8 in parallel)
S=$1; OUT=/tmp/seedrobust-$S; mkdir -p $OUT
ls -d /verif/seeded/C*-* | xargs -P 8 -L 1 bash -c 'd=$0; n=$(basename $d); id=${n%%-*}; WT=/tmp/sr-$n-'$S'; git -C /repo worktree add --detach -q $WT HEAD 2>/dev/null || exit 0; if git -C $WT apply $d/patch.diff 2>/dev/null; then out=$(VERIF_SEED='$S' VOPY_REPO=$WT /verif/check $id --no-lean 2>&1); echo "$n exit $? $(echo "$out" | grep -c "^VIOLATION") $(echo "$out" | grep "^VIOLATION" | grep -vc no-failing)" > '$OUT'/$n.txt; else echo "$n noapply" > '$OUT'/$n.txt; fi; git -C /repo worktree remove --force $WT'
cat $OUT/*.txt | grep -v "exit 1" 
echo DONE
