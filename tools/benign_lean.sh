#!/bin/bash
# benign_lean.sh : serialized WITH-Lean runs of the property-preserving rewrites that touch translated sources
# (the translator writes lean/VOPyVerif/Gen/*, so these must not run concurrently with each other).
run() { ID=$1; V=$2; C=$3; WT=/tmp/tbl-$ID-$V; git -C /repo worktree add --detach -q $WT HEAD; git -C $WT apply /tmp/benign/$ID-out/$V/patch.diff
  out=$(VOPY_REPO=$WT /verif/check $C 2>&1); rc=$?; echo "benign $ID/$V vs check $C (with Lean): exit $rc"; echo "$out" | grep -E "obligations=" | head -2
  echo "$out" | grep '^VIOLATION' | head -6 | while read -r l; do f=$(echo "$l" | sed 's/.*replay=\([^ ]*\).*/\1/'); python3 -c "import json,sys;d=json.load(open(sys.argv[1]));print('   ',d.get('kind'),d.get('key'),'|',str(d.get('what'))[:200])" $f; done
  git -C /repo worktree remove --force $WT; }
run C01 q C02; run C02 q C02; run C03 p C03; run C06 p C03; run C05 q C05; run C18 q C03; run C04 p C04; run C17 q C17; run C08 p C08; run C12 q C17; run C17 p C17; run C04 q C04
echo ALLDONE
