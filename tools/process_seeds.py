#!/usr/bin/env python3
"""Import every verified seed (tools/verify_seed.sh log says pristine=0, patched!=0, tests passed) that is not yet
under /verif/seeded and run its property's check against it (scratch worktree)."""
import re, subprocess, sys
from pathlib import Path
skip = {("C02", "b"), ("C03", "a"), ("C08", "a"), ("C04", "b"), ("C14", "e")}
RELATED = {"C01": ["C09", "C10", "C17"], "C02": ["C09"], "C03": ["C10"], "C04": ["C07", "C09", "C10"],
           "C05": ["C09", "C10", "C17"], "C06": ["C07"], "C07": ["C15", "C06"], "C08": ["C20", "C13"],
           "C09": ["C12", "C02"], "C10": ["C03"], "C11": ["C02", "C05"], "C12": ["C13"], "C13": ["C12"],
           "C14": [], "C15": ["C07"], "C16": [], "C17": ["C01"], "C18": ["C06"], "C19": [], "C20": ["C08"]}   # superseded by rebased variants b2 / a2 or obsolete
_part = [a for a in sys.argv[1:] if a.startswith("--part=")]
_i, _n = (map(int, _part[0][7:].split("/")) if _part else (0, 1))
for _k, log in enumerate(sorted(Path("/tmp").glob("vseed-C*-*.log"))):
    if _k % _n != _i:
        continue
    m = re.match(r"vseed-(C\d+)-(\w+)\.log", log.name)
    pid, var = m.group(1), m.group(2)
    if (pid, var) in skip:
        continue
    txt = log.read_text()
    r = re.search(r"RESULT \S+ pristine=(\d+) patched=(\d+)", txt)
    if not r:
        continue
    ok = r.group(1) == "0" and r.group(2) != "0" and re.search(r"\b138 passed", txt) and " failed" not in txt.split("== test suite")[-1]
    dst = Path(f"/verif/seeded/{pid}-{var}")
    if not ok:
        print("NOT CONFIRMED", pid, var, r.group(0), re.findall(r"\d+ (?:passed|failed)[^\n]*", txt)[-1:] )
        continue
    if (dst / "results.json").exists() and "--redo" not in sys.argv:
        continue
    if Path(f"/tmp/seed/{pid}-out/{var}/patch.diff").exists():
        subprocess.check_call(["python3", "/verif/tools/import_seed.py", pid, var], stdout=subprocess.DEVNULL)
    elif not (dst / "patch.diff").exists():
        continue
    subprocess.call(["python3", "/verif/tools/run_seeded.py", str(dst), pid] + RELATED.get(pid, []))
