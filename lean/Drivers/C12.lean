import VOPyVerif.Drv.Loop
import VOPyVerif.Drv.C12
/-! Line-protocol driver of the executable model for property C12 (`lake build driver_c12`). -/
def main : IO Unit := VOPy.Drv.run "C12" VOPy.Drv.C12.handle
