import VOPyVerif.Drv.Loop
import VOPyVerif.Drv.C05
/-! Line-protocol driver of the executable model for property C05 (`lake build driver_c05`). -/
def main : IO Unit := VOPy.Drv.run "C05" VOPy.Drv.C05.handle
