import VOPyVerif.Drv.Loop
import VOPyVerif.Drv.C14
/-! Line-protocol driver of the executable model for property C14 (`lake build driver_c14`). -/
def main : IO Unit := VOPy.Drv.run "C14" VOPy.Drv.C14.handle
