import VOPyVerif.Drv.Loop
import VOPyVerif.Drv.C07
/-! Line-protocol driver of the executable model for property C07 (`lake build driver_c07`). -/
def main : IO Unit := VOPy.Drv.run "C07" VOPy.Drv.C07.handle
