import VOPyVerif.Drv.Loop
import VOPyVerif.Drv.C18
/-! Line-protocol driver of the executable model for property C18 (`lake build driver_c18`). -/
def main : IO Unit := VOPy.Drv.run "C18" VOPy.Drv.C18.handle
