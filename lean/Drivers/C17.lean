import VOPyVerif.Drv.Loop
import VOPyVerif.Drv.C17
/-! Line-protocol driver of the executable model for property C17 (`lake build driver_c17`). -/
def main : IO Unit := VOPy.Drv.run "C17" VOPy.Drv.C17.handle
