import VOPyVerif.Drv.Loop
import VOPyVerif.Drv.C06
/-! Line-protocol driver of the executable model for property C06 (`lake build driver_c06`). -/
def main : IO Unit := VOPy.Drv.run "C06" VOPy.Drv.C06.handle
