import VOPyVerif.Drv.Loop
import VOPyVerif.Drv.C02
/-! Line-protocol driver of the executable model for property C02 (`lake build driver_c02`). -/
def main : IO Unit := VOPy.Drv.run "C02" VOPy.Drv.C02.handle
