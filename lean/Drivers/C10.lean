import VOPyVerif.Drv.Loop
import VOPyVerif.Drv.C10
/-! Line-protocol driver of the executable model for property C10 (`lake build driver_c10`). -/
def main : IO Unit := VOPy.Drv.run "C10" VOPy.Drv.C10.handle
