import VOPyVerif.Drv.Loop
import VOPyVerif.Drv.C04
/-! Line-protocol driver of the executable model for property C04 (`lake build driver_c04`). -/
def main : IO Unit := VOPy.Drv.run "C04" VOPy.Drv.C04.handle
