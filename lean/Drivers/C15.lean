import VOPyVerif.Drv.Loop
import VOPyVerif.Drv.C15
/-! Line-protocol driver of the executable model for property C15 (`lake build driver_c15`). -/
def main : IO Unit := VOPy.Drv.run "C15" VOPy.Drv.C15.handle
