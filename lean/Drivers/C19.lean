import VOPyVerif.Drv.Loop
import VOPyVerif.Drv.C19
/-! Line-protocol driver of the executable model for property C19 (`lake build driver_c19`). -/
def main : IO Unit := VOPy.Drv.run "C19" VOPy.Drv.C19.handle
