import VOPyVerif.Drv.Loop
import VOPyVerif.Drv.C20
/-! Line-protocol driver of the executable model for property C20 (`lake build driver_c20`). -/
def main : IO Unit := VOPy.Drv.run "C20" VOPy.Drv.C20.handle
