import VOPyVerif.Drv.Loop
import VOPyVerif.Drv.C03
/-! Line-protocol driver of the executable model for property C03 (`lake build driver_c03`). -/
def main : IO Unit := VOPy.Drv.run "C03" VOPy.Drv.C03.handle
