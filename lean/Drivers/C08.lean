import VOPyVerif.Drv.Loop
import VOPyVerif.Drv.C08
/-! Line-protocol driver of the executable model for property C08 (`lake build driver_c08`). -/
def main : IO Unit := VOPy.Drv.run "C08" VOPy.Drv.C08.handle
