import VOPyVerif.Drv.Loop
import VOPyVerif.Drv.C16
/-! Line-protocol driver of the executable model for property C16 (`lake build driver_c16`). -/
def main : IO Unit := VOPy.Drv.run "C16" VOPy.Drv.C16.handle
