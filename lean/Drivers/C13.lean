import VOPyVerif.Drv.Loop
import VOPyVerif.Drv.C13
/-! Line-protocol driver of the executable model for property C13 (`lake build driver_c13`). -/
def main : IO Unit := VOPy.Drv.run "C13" VOPy.Drv.C13.handle
