import VOPyVerif.Drv.Loop
import VOPyVerif.Drv.C09
/-! Line-protocol driver of the executable model for property C09 (`lake build driver_c09`). -/
def main : IO Unit := VOPy.Drv.run "C09" VOPy.Drv.C09.handle
