import VOPyVerif.Drv.Loop
import VOPyVerif.Drv.C11
/-! Line-protocol driver of the executable model for property C11 (`lake build driver_c11`). -/
def main : IO Unit := VOPy.Drv.run "C11" VOPy.Drv.C11.handle
