import VOPyVerif.Drv.Loop
import VOPyVerif.Drv.C01
/-! Line-protocol driver of the executable model for property C01 (`lake build driver_c01`). -/
def main : IO Unit := VOPy.Drv.run "C01" VOPy.Drv.C01.handle
