import VOPyVerif.Drv.Proto
import VOPyVerif.Model.Pareto
/-! Driver front end for property C13 (Pareto-set extraction).

* `fast  <W> <X>`        → indices `Pareto.fast (dominates W) X`
* `naive <W> <X>`        → indices `Pareto.naive allclose (dominates W) X`
* `spec  <W> <X> <idx>`  → `ok` / `fail` : relation (R) for `get_pareto_set`'s output
* `nspec <W> <X> <idx>`  → `ok` / `fail` : relation for `get_pareto_set_naive`'s output
-/
namespace VOPy.Drv.C13
open VOPy VOPy.Proto

/-- `np.allclose(a, b)` with default `rtol = 1e-5`, `atol = 1e-8`, in exact arithmetic. -/
def allclose (a b : Vec) : Bool :=
  (List.zipWith (fun x y => decide ((if x - y < 0 then y - x else x - y) ≤
      (1 : Rat) / 100000000 + (1 : Rat) / 100000 * (if y < 0 then -y else y))) a b).all id

def handle (args : List String) : String :=
  match args with
  | ["fast", w, x] =>
    match parseMat w, parseMat x with
    | some W, some X => fmtNats (Pareto.fast (dominates W) X)
    | _, _ => bad
  | ["naive", w, x] =>
    match parseMat w, parseMat x with
    | some W, some X => fmtNats (Pareto.naive allclose (dominates W) X)
    | _, _ => bad
  | ["spec", w, x, i] =>
    match parseMat w, parseMat x, parseNats i with
    | some W, some X, some I => if Pareto.specOk (dominates W) X I then "ok" else "fail"
    | _, _, _ => bad
  | ["nspec", w, x, i] =>
    match parseMat w, parseMat x, parseNats i with
    | some W, some X, some I => if Pareto.naiveSpecOk allclose (dominates W) X I then "ok" else "fail"
    | _, _, _ => bad
  | _ => bad

end VOPy.Drv.C13
