import VOPyVerif.Drv.Proto
import VOPyVerif.Model.Run
/-! Driver front end for property C06 (whole runs: monotone, terminating, fully accounted).

Formats (fields inside one argument are separated by `:`; `_` = empty list):

* `<cfg>`   = `alg:K:m:batch:costs:budget:L:eps:maxDepth:branch` with
  `alg ∈ paveba|pavebagp|pavebapartial|vogp|epal|vogpad|auer|naive|decoupled`, `costs` a rational
  vector or `none`, `budget` a rational or `inf`.
* `<state>` = `S:P:U:round:sampleCount:totalCost:latch:depths:parent` (index sets as nat lists,
  `latch` `0/1`).
* `<round>` = `n:dom:cov:pess:centres:rows:picks:refine:pareto` — the environment of one call:
  `n` and three row-major `n·n` bit tables (`_` = all false; entry `i·n+j` answers the ordered pair
  `(i, j)`; pairs the implementation never queried may be left `0`: every scan of the model is
  existential), Auer's centres and `beta_t` width rows (row `i` = design `i` in both), the acquisition picks
  `d,o;d,o;…`, VOGP_AD's refinement test `0/1`, DecoupledGP's new Pareto set.
* `<out>`   = `done:req:refined:exceeds[:cap]` (`cap` is printed by `run`, not read by `spec`), `req` = `d` or `d.o` entries separated by `,`,
  `refined` a node or `-`.

Operations:

* `run <cfg> <round>*`           → `<state>:<out>` after every call from `init cfg`, joined by `|`
* `runfrom <cfg> <state> <round>*` → the same from a given state
* `spec <cfg> <state> <state'> <out>` → `ok` / `fail-<first failing clause>` : relation (R) `Run.specOk` on what the
  implementation showed for one call
* `init <cfg>`                   → `<state>` right after the constructor
-/
namespace VOPy.Drv.C06
open VOPy VOPy.Proto VOPy.Steps VOPy.Run

def parseAlg : String → Option Alg
  | "paveba" => some .paveba
  | "pavebagp" => some .pavebaGP
  | "pavebapartial" => some .pavebaPartial
  | "vogp" => some .vogp
  | "epal" => some .epal
  | "vogpad" => some .vogpAD
  | "auer" => some .auer
  | "naive" => some .naive
  | "decoupled" => some .decoupled
  | _ => none

def parseCfg (s : String) : Option Cfg :=
  match s.splitOn ":" with
  | [a, k, m, b, cs, bud, l, eps, md, br] => do
    let alg ← parseAlg a
    let K ← k.toNat?
    let m ← m.toNat?
    let batch ← b.toNat?
    let costs ← if cs = "none" then some none else (parseVec cs).map some
    let budget ← if bud = "inf" then some none else (parseRat bud).map some
    let L ← l.toNat?
    let eps ← parseRat eps
    let maxDepth ← md.toNat?
    let branch ← br.toNat?
    some { alg, K, m, batch, costs, budget, L, eps, maxDepth, branch }
  | _ => none

def parseState (s : String) : Option State :=
  match s.splitOn ":" with
  | [sS, sP, sU, r, sc, tc, la, dp, pa] => do
    let S ← parseNats sS
    let P ← parseNats sP
    let U ← parseNats sU
    let round ← r.toNat?
    let sampleCount ← sc.toNat?
    let totalCost ← parseRat tc
    let latch ← parseBool la
    let depths ← parseNats dp
    let parent ← parseNats pa
    some { S, P, U, round, sampleCount, totalCost, latch, depths, parent }
  | _ => none

/-- `n·n` bit table (`_` = all false) as a relation -/
def parseTable (n : Nat) (bits : String) : Option Rel :=
  if bits = "_" then some (fun _ _ => false) else do
    let bs ← parseBools bits
    if bs.length ≠ n * n then none
    else
      let arr := bs.toArray
      some (fun i j => if i < n ∧ j < n then arr.getD (i * n + j) false else false)

def parsePicks (s : String) : Option (List (Nat × Nat)) := do
  let ps ← parseNatss s
  ps.mapM (fun p => match p with | [d, o] => some (d, o) | _ => none)

def parseEnv (s : String) : Option Env :=
  match s.splitOn ":" with
  | [n, d, cv, pe, ce, ro, pk, rf, pa] => do
    let n ← n.toNat?
    let isDom ← parseTable n d
    let isCov ← parseTable n cv
    let pessDom ← parseTable n pe
    let centres ← parseMat ce
    let rows ← parseMat ro
    let picks ← parsePicks pk
    let refineTest ← parseBool rf
    let pareto ← parseNats pa
    let carr := centres.toArray
    let warr := rows.toArray
    some { isDom, isCov, pessDom, centre := fun i => carr.getD i [], width := fun i => warr.getD i [],
           picks, refineTest, pareto }
  | _ => none

def parseReq (s : String) : Option Req :=
  match s.splitOn "." with
  | [d] => d.toNat?.map (fun d => (d, none))
  | [d, o] => do
    let d ← d.toNat?
    let o ← o.toNat?
    some (d, some o)
  | _ => none

def parseOut (s : String) : Option Out :=
  match s.splitOn ":" with
  | [dn, rq, rf, ex] => do
    let done ← parseBool dn
    let req ← parseList "," parseReq rq
    let refined ← if rf = "-" then some none else rf.toNat?.map some
    let batchExceeds ← parseBool ex
    some { done, req, refined, batchExceeds }
  | _ => none

def fmtReq : Req → String
  | (d, none) => toString d
  | (d, some o) => toString d ++ "." ++ toString o

def fmtState (s : State) : String :=
  ":".intercalate [fmtNats (sortNat s.S), fmtNats (sortNat s.P), fmtNats (sortNat s.U),
    toString s.round, toString s.sampleCount, fmtRat s.totalCost, fmtBool s.latch,
    fmtNats s.depths, fmtNats s.parent]

def fmtOut (o : Out) : String :=
  ":".intercalate [fmtBool o.done, fmtList "," fmtReq o.req,
    (match o.refined with | none => "-" | some d => toString d), fmtBool o.batchExceeds,
    toString o.cap]

/-- states and outputs after every call -/
def trajOut (c : Cfg) : State → List Env → List String
  | _, [] => []
  | s, e :: es =>
    let r := step c s e
    (fmtState r.1 ++ ":" ++ fmtOut r.2) :: trajOut c r.1 es

def fmtTraj (l : List String) : String := if l.isEmpty then "_" else "|".intercalate l

/-- name of the first clause of `Run.specOk` that fails (diagnostic only; the verdict is `specOk`) -/
def diagnose (c : Cfg) (s s' : State) (o : Out) : String :=
  if isDone c s then
    if !sameState s s' then "changed-after-done"
    else if !o.done then "flag-after-done"
    else if !o.req.isEmpty then "sampled-after-done"
    else "refined-after-done"
  else if !(s'.round == s.round + 1) then "round"
  else if !(s'.sampleCount == s.sampleCount + o.req.length) then "sample-count"
  else if !decide (s'.totalCost = s.totalCost + reqsCost c o.req) then "total-cost"
  else if !(o.done == isDone c s') then "done-flag"
  else if !reqsOk c s s' o then "requests"
  else if c.alg.elim && !disjointB s'.S s'.P then "disjoint"
  else if c.alg.elim && !subsetB s'.U s'.P then "useful"
  else "sets"

def handle (args : List String) : String :=
  match args with
  | ["init", c] =>
    match parseCfg c with
    | some c => fmtState (init c)
    | none => bad
  | "run" :: c :: rounds =>
    match parseCfg c, rounds.mapM parseEnv with
    | some c, some envs => fmtTraj (trajOut c (init c) envs)
    | _, _ => bad
  | "runfrom" :: c :: s :: rounds =>
    match parseCfg c, parseState s, rounds.mapM parseEnv with
    | some c, some s, some envs => fmtTraj (trajOut c s envs)
    | _, _, _ => bad
  | ["spec", c, s, s', o] =>
    match parseCfg c, parseState s, parseState s', parseOut o with
    | some c, some s, some s', some o => if specOk c s s' o then "ok" else "fail-" ++ diagnose c s s' o
    | _, _, _, _ => bad
  | _ => bad

end VOPy.Drv.C06
