import VOPyVerif.Drv.Proto
import VOPyVerif.Model.Core
/-! Driver ops for the executable decision core (`Model/Core.lean`), shared by driver_c01 / driver_c05.

A whole run is sent in one line: `<rounds>` is a `|`-separated list of matrices, one per round, row
`i` = the region displayed for design `i` in that round (every design has a row; only the rows of the
designs the round refreshes are read by the model):

* ball row  = `c_1,…,c_m,a`   (centre and radius; `Σ = I`)
* box row   = `l_1,…,l_m,u_1,…,u_m`

Ops (answers: `ValueError` if the slack does not pass the size guard of the predicates, `bad-op` on
any shape error):

* `pcore ball <W> <slack> <taudom> <taucov> <M> <rounds>` — `Core.ballCore W slack 1` (PaVeBa; `slack` is
  the exported `cone_alpha_eps`, used as `α` with `ε = 1`, so the per-facet slack is `1·slack`)
* `pcore rect <W> <slack> <taudom> <taucov> <M> <rounds>` — `Core.rectCore W slack 1` (PaVeBaGP-IH /
  PaVeBaPartialGP-hyperrectangle)
  → `<round>|…|<round> <final>` with `<round>` = `S;P;U;r;p` after that round (sets sorted), `r` = `1` iff
  every oracle answer among the living designs of the round is the same with all facet thresholds moved
  by `+tau` and `−tau` (`taudom` for `is_dominated`, `taucov` for `is_covered`), `p` = `1` iff the premise
  of the end-to-end theorem holds in that round for the true means `M` (`-` if `M` is `_`);
  `<final>` = `S;P;U` of `Core.ballCore … T` / `Core.rectCore … T` itself (the object of the theorems;
  the per-round list iterates `Core.pavebaStep`, the body of that recursion).
* `vcore <W> <slack> <tau> <M> <rounds>` — `Core.vogpRectCore W slack` (VOGP: `slack = ε·u*`; ε-PAL: the
  one-entry slack `ε`) → `<round>|…|<round> <final>` with `<round>` = `S;P;r;p`, `<final>` = `S;P`; `r`
  includes the pessimistic test.
-/
namespace VOPy.Drv.CoreOps
open VOPy VOPy.Proto VOPy.Core

def ballOfRow (m : Nat) (row : Vec) : Ball := ⟨row.take m, row.getD m 0⟩
def boxOfRow (m : Nat) (row : Vec) : Box := ⟨row.take m, row.drop m⟩

/-- regions of all rounds as a function (round, design); callers guard `r < T`, `i < K` -/
def tableOf {ρ : Type} (dflt : ρ) (f : Vec → ρ) (rounds : List Mat) : Nat → Nat → ρ :=
  fun r i => match rounds[r]? with
    | some M => (match M[i]? with
      | some row => f row
      | none => dflt)
    | none => dflt

/-- every round has `K` rows of `len` entries -/
def shapeOk (K len : Nat) (rounds : List Mat) : Bool :=
  rounds.all fun M => decide (M.length = K) && M.all fun r => decide (r.length = len)

def fmtFlag : Option Bool → String
  | none => "-"
  | some b => fmtBool b

def fmtPRound (st : PState ρ) (rb : Bool) (pr : Option Bool) : String :=
  fmtNats (Steps.sortNat st.S) ++ ";" ++ fmtNats (Steps.sortNat st.P) ++ ";" ++
    fmtNats (Steps.sortNat st.U) ++ ";" ++ fmtBool rb ++ ";" ++ fmtFlag pr

/-- iterate `Core.pavebaStep` over the rounds, collecting the per-round answers -/
def runP {ρ : Type} (dom cov : ρ → ρ → Bool) (robust : (Nat → ρ) → List Nat → Bool)
    (prem : Option ((Nat → ρ) → PState ρ → Bool)) (fresh : Nat → Nat → ρ) (T K : Nat)
    (init : Nat → ρ) : List String :=
  let st0 : PState ρ := { S := List.range K, P := [], U := [], reg := init }
  ((List.range T).foldl (fun (acc : PState ρ × List String) t =>
    let st := acc.1
    let st' := pavebaStep dom cov (fresh t) st
    let rb := robust st'.reg (st.S ++ st.P)
    let pr := prem.map fun f => f (fresh t) st
    (st', acc.2 ++ [fmtPRound st' rb pr])) (st0, [])).2

def fmtVRound (st : List Nat × List Nat) (rb : Bool) (pr : Option Bool) : String :=
  fmtNats (Steps.sortNat st.1) ++ ";" ++ fmtNats (Steps.sortNat st.2) ++ ";" ++ fmtBool rb ++ ";" ++
    fmtFlag pr

def muOf (M : Mat) : Nat → Vec := fun i => M.getD i []

def handle (args : List String) : Option String :=
  match args with
  | ["pcore", kind, w, sl, td, tc, mm, rs] =>
    some (match parseMat w, parseVec sl, parseRat td, parseRat tc, parseMat mm, parseMats rs with
    | some W, some slack, some td, some tc, some M, some rounds =>
      match W, rounds with
      | w0 :: _, R0 :: _ =>
        let m := w0.length
        let K := R0.length
        let T := rounds.length
        let muOk := M.isEmpty || (decide (M.length = K) && M.all fun r => decide (r.length = m))
        if !(W.all fun r => decide (r.length = m)) || m = 0 || K = 0 || !muOk then bad
        else if kind = "ball" then
          if !shapeOk K (m + 1) rounds then bad
          else if (Covered.expandSlack W.length slack).isNone then "ValueError"
          else
            let fresh := tableOf (⟨[], 0⟩ : Ball) (ballOfRow m) rounds
            let init : Nat → Ball := fun _ => ⟨[], 0⟩
            let cov := ballCov W (smul 1 slack)
            let prem := if M.isEmpty then none else
              some fun (f : Nat → Ball) (st : PState Ball) =>
                pavebaPremiseAt (Ball.wfB m) Ball.mem f (muOf M) st
            let outs := runP (ballDom W) cov (ballRobust W (smul 1 slack) td tc)
              prem fresh T K init
            let fin := ballCore W slack 1 K init fresh T
            "|".intercalate outs ++ " " ++ fmtNats (Steps.sortNat fin.S) ++ ";" ++
              fmtNats (Steps.sortNat fin.P) ++ ";" ++ fmtNats (Steps.sortNat fin.U)
        else if kind = "rect" then
          if !shapeOk K (2 * m) rounds then bad
          else if (Covered.expandSlack m slack).isNone then "ValueError"
          else
            let fresh := tableOf (⟨[], []⟩ : Box) (boxOfRow m) rounds
            let init : Nat → Box := fun _ => ⟨[], []⟩
            let prem := if M.isEmpty then none else
              some fun (f : Nat → Box) (st : PState Box) =>
                pavebaPremiseAt (Box.wfB m) Box.mem f (muOf M) st
            let outs := runP (rectDom W [0]) (rectCov W (smul 1 slack))
              (rectRobust W [0] (smul 1 slack) td tc)
              prem fresh T K init
            let fin := rectCore W slack 1 K init fresh T
            "|".intercalate outs ++ " " ++ fmtNats (Steps.sortNat fin.S) ++ ";" ++
              fmtNats (Steps.sortNat fin.P) ++ ";" ++ fmtNats (Steps.sortNat fin.U)
        else bad
      | _, _ => bad
    | _, _, _, _, _, _ => bad)
  | ["vcore", w, sl, t, mm, rs] =>
    some (match parseMat w, parseVec sl, parseRat t, parseMat mm, parseMats rs with
    | some W, some slack, some tau, some M, some rounds =>
      match W, rounds with
      | w0 :: _, R0 :: _ =>
        let m := w0.length
        let K := R0.length
        let T := rounds.length
        let muOk := M.isEmpty || (decide (M.length = K) && M.all fun r => decide (r.length = m))
        if !(W.all fun r => decide (r.length = m)) || m = 0 || K = 0 || !muOk ||
            !shapeOk K (2 * m) rounds then bad
        else if (Covered.expandSlack m slack).isNone then "ValueError"
        else
          let fresh := tableOf (⟨[], []⟩ : Box) (boxOfRow m) rounds
          let dom := rectDom W slack
          let cov := rectCov W slack
          let pess := rectPess W
          let outs := ((List.range T).foldl (fun (acc : (List Nat × List Nat) × List String) t =>
            let st := acc.1
            let st' := Steps.vogpRound (relOf dom (fresh t)) (relOf cov (fresh t)) (relOf pess (fresh t))
              st.1 st.2
            let rb := vogpRobust W slack tau (fresh t) (st.1 ++ st.2)
            let pr := if M.isEmpty then none else
              some (vogpPremiseAt (fun b x => decide (b.l.length = m) && b.mem x) (fresh t) (muOf M) st)
            (st', acc.2 ++ [fmtVRound st' rb pr])) ((List.range K, []), [])).2
          let fin := vogpRectCore W slack K fresh T
          "|".intercalate outs ++ " " ++ fmtNats (Steps.sortNat fin.1) ++ ";" ++
            fmtNats (Steps.sortNat fin.2)
      | _, _ => bad
    | _, _, _, _, _ => bad)
  | _ => none

end VOPy.Drv.CoreOps
