import VOPyVerif.Drv.Proto
import VOPyVerif.Model.Pessimistic
/-! Driver front end for property C11 (pessimistic rectangle comparison).

Ops ending in `f` run the `r64` instance (bit-exact mirror of the numpy element-wise path; the
constant `mirrorSnap` says whether it mirrors the code as it stands or the repaired
`line_seg_pt_intersect_at_dim`), the others the exact-arithmetic instance (`rnd = id`,
`snap = false`) that the theorems are about.

* `r64 <q>`                              → nearest binary64 of the rational `q` (ties to even)
* `verts <l> <u>`                        → matrix of vertices in `itertools.product` order
* `seg|segf <P1> <P2> <p> <d>`           → `none` or the intersection point
* `inpoly|inpolyf <p> <poly>`            → `0` not an element / `1` vertex test / `2` edge path only
* `cd|cdf <W> <l1> <u1> <l2> <u2>`       → `0`/`1` : `check_dominates(order, R₁, R₂)`
* `cdpath|cdpathf <W> <l1> <u1> <l2> <u2>` → per vertex of R₁ the `inpoly` code (nat list)
* `pess|pessf <W> <L> <U> <active>`      → kept designs (`L`,`U` matrices of lower/upper bounds)
* `ref <W> <l1> <u1> <l2> <u2> <s>`      → `1` / `0` / `inconclusive`: certificate-checked exact
  decision of `∀ x ∈ box R₁ ∃ y ∈ box R₂ ∀ i, W_i·(x−y) ≥ s_i` (`bad-op` unless all lengths agree,
  `l ≤ u` for both boxes and `|s| = |W|`)
* `refpt <W> <x> <l> <u> <s>`            → `ok <y>` / `farkas <λ>` (raw search result, unchecked)
-/
namespace VOPy.Drv.C11
open VOPy VOPy.Proto VOPy.Pess

/-- Does the float mirror (`…f` ops) model the repaired `line_seg_pt_intersect_at_dim` that snaps the
target coordinate (`point_on_line[target_dim] = target_pt[target_dim]`)?  `true` = /repo since the fix
commit 2e45ea6 (`fix: line_seg_pt_intersect_at_dim keeps the intersection exactly on the target
hyperplane`); `false` = the original code, on which the correspondence check raises
`complete2x2-float-rounding`. -/
def mirrorSnap : Bool := true

def fmtOptVec : Option Vec → String
  | some v => fmtVec v
  | none => "none"

/-- all bounds of length `m`, rows of `W` of length `m` -/
def wf2 (W : Mat) (l1 u1 l2 u2 : Vec) : Bool :=
  let m := l1.length
  u1.length == m && l2.length == m && u2.length == m && wfMat m W

def seg (rnd : Rat → Rat) (snap : Bool) : List String → String
  | [a, b, p, d] =>
    match parseVec a, parseVec b, parseVec p, d.toNat? with
    | some A, some B, some P, some D =>
      if A.length == B.length && B.length == P.length && D < A.length then fmtOptVec (lineSegAt rnd snap A B P D)
      else bad
    | _, _, _, _ => bad
  | _ => bad

def inpoly (rnd : Rat → Rat) (snap : Bool) : List String → String
  | [p, poly] =>
    match parseVec p, parseMat poly with
    | some P, some Q =>
      if !Q.isEmpty && Q.all (fun v => v.length == P.length) then toString (isPtInPath rnd snap P Q) else bad
    | _, _ => bad
  | _ => bad

def cd (rnd : Rat → Rat) (snap : Bool) (path : Bool) : List String → String
  | [w, a, b, c, d] =>
    match parseMat w, parseVec a, parseVec b, parseVec c, parseVec d with
    | some W, some l1, some u1, some l2, some u2 =>
      if !wf2 W l1 u1 l2 u2 || W.isEmpty then bad
      else if path then
        let V2 := (vertices l2 u2).map (matVec W)
        fmtNats ((vertices l1 u1).map fun x => isPtInPath rnd snap (matVec W x) V2)
      else fmtBool (checkDominatesR rnd snap W l1 u1 l2 u2)
    | _, _, _, _, _ => bad
  | _ => bad

def pess (rnd : Rat → Rat) (snap : Bool) : List String → String
  | [w, l, u, act] =>
    match parseMat w, parseMat l, parseMat u, parseNats act with
    | some W, some L, some U, some A =>
      if L.length != U.length || W.isEmpty || !A.all (· < L.length) then bad
      else
        let regions := L.zip U
        if regions.all (fun r => r.1.length == r.2.length && wfMat r.1.length W) then
          fmtNats (pessimisticSetR rnd snap W regions A)
        else bad
    | _, _, _, _ => bad
  | _ => bad

def handle (args : List String) : String :=
  match args with
  | ["r64", q] =>
    match parseRat q with
    | some r => fmtRat (r64 r)
    | none => bad
  | ["verts", l, u] =>
    match parseVec l, parseVec u with
    | some L, some U => if L.length == U.length then fmtMat (vertices L U) else bad
    | _, _ => bad
  | "seg" :: rest => seg exact false rest
  | "segf" :: rest => seg r64 mirrorSnap rest
  | "inpoly" :: rest => inpoly exact false rest
  | "inpolyf" :: rest => inpoly r64 mirrorSnap rest
  | "cd" :: rest => cd exact false false rest
  | "cdf" :: rest => cd r64 mirrorSnap false rest
  | "cdpath" :: rest => cd exact false true rest
  | "cdpathf" :: rest => cd r64 mirrorSnap true rest
  | "pess" :: rest => pess exact false rest
  | "pessf" :: rest => pess r64 mirrorSnap rest
  | ["ref", w, a, b, c, d, s] =>
    match parseMat w, parseVec a, parseVec b, parseVec c, parseVec d, parseVec s with
    | some W, some l1, some u1, some l2, some u2, some S =>
      if wf2 W l1 u1 l2 u2 && vle l1 u1 && vle l2 u2 && S.length == W.length then
        match refDominates W l1 u1 l2 u2 S with
        | some true => "1"
        | some false => "0"
        | none => "inconclusive"
      else bad
    | _, _, _, _, _, _ => bad
  | ["refpt", w, x, l, u, s] =>
    match parseMat w, parseVec x, parseVec l, parseVec u, parseVec s with
    | some W, some X, some L, some U, some S =>
      if wfMat L.length W && X.length == L.length && U.length == L.length && S.length == W.length then
        match refPointCert W X L U S with
        | .ok y => "ok " ++ fmtVec y
        | .error lam => "farkas " ++ fmtVec lam
      else bad
    | _, _, _, _, _ => bad
  | _ => bad

end VOPy.Drv.C11
