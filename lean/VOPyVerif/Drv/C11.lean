import VOPyVerif.Drv.Proto
/-! Driver front end for property C11 (line protocol → executable model). -/
namespace VOPy.Drv.C11
open VOPy VOPy.Proto

def handle (args : List String) : String :=
  match args with
  | _ => bad

end VOPy.Drv.C11
