import VOPyVerif.Drv.Proto
import VOPyVerif.Model.Acq
import VOPyVerif.Model.Thompson
import VOPyVerif.Model.Locate
/-! Driver front end for property C07 (acquisition maximisers; what reaches the model).

Numbers are exact rationals, `<vals>` a vector, `<table>` a matrix with one row per objective
(`table[j][i]` = value of choice row `i` for objective `j`), `<q>` a natural number.

* `optd <vals> <q>`                       → `<positions> <values>` — `Acq.optimizeDiscrete`
  (`empty` for an empty value list: the real function cannot return a batch there)
* `optdprefix <vals> <q>`                 → `err` | `<positions> <values>` —
  `Acq.optimizeDiscretePreFix` (`err` = the pre-fix crash for `q > len(choices)`, defect D7)
* `specd <vals> <q> <positions> <values>` → `ok` | `fail` — relation (R) `Acq.discSpecOk`
* `firstd <vals> <positions> <values>`    → `ok` | `fail` — `Acq.discFirstOk` (np.argmax tie rule)
* `optdec <table> <q>`                    → `<positions> <objectives> <values>` —
  `Acq.optimizeDecoupled` (`empty` if the table has no objective or an objective has no row)
* `specdec <table> <q> <positions> <objectives> <values>` → `ok` | `fail` — `Acq.decSpecOk`
* `diagsq <lower> <upper>`                → rational `Acq.diagSq`
* `sumvar <cov>`                          → rational `Acq.sumVariance`
* `varcost <cov> <j> <costs|none>`        → rational | `err` — `Acq.varianceOverCost`
* `evalall <S> <U>`                       → nat list `Acq.evaluateAll`
* `gpadd <inputDim> <dataX> <dataY> <X> <Y>` → `<dataX'> <dataY'>` — `Acq.gpAddSample`
* `listadd <inputDim> <m> <storesX (mats)> <storesY (matrix, row per objective)> <X> <Y vec> <dims>`
  → `err` | `<storesX'> <storesY'>` — `Acq.listAddSample` (`m` objectives; missing trailing
  stores are empty — the text format cannot distinguish "no store" from "one empty store")
* `empadd <n> <samples (mats, one matrix per design)> <indices> <Y>` → `err` | `<samples'>` —
  `Acq.empAddSample` (`n` designs; missing trailing sample lists are empty)
* `step <inputDim> <designs> <vals> <q> <obs (row i = observation of design row i)> <dataX> <dataY>`
  → `<candidates> <dataX'> <dataY'>` — `Acq.evaluatingStep`
* `decstep <inputDim> <m> <designs> <table> <q> <obs (row j = per design row the value observed for
  objective j; unused entries arbitrary)> <storesX (mats)> <storesY>`
  → `err` | `<candidate rows> <objectives> <storesX'> <storesY'>` — `Acq.evaluatingStepDecoupled`
* `evalallstep <n> <S> <U> <obs (row i = observation of design i, `_` if none)> <samples (mats)>`
  → `err` | `<samples'>` — `Acq.evaluateAllStep`

Thompson-entropy acquisition (`Model/Thompson.lean`; `n` = num_thompson_samples, `m` = out_dim,
`K` = len(x); a tensor of shape `(n,)*m + (K,)` crosses the boundary flattened in C order as a
string of `0`/`1`; floats OUT are IEEE-754 bit patterns as decimal naturals, `nan` for NaN):
* `thcombs <n> <r>`                       → nat lists (`;`-separated) — `Thompson.combinations`
* `thmask <n> <m> <K> <pareto>`           → `<bits>` — `Thompson.filledMask` flattened; `<pareto>` =
  one nat list per combination (`;`-separated, `_` = empty set), in `itertools.combinations` order
* `thsamples <W> <n> <m> <K> <ts>`        → `<bits>` — `Thompson.samplesMask` flattened; `<ts>` = one
  `n × K` matrix per objective (`|`-separated), Pareto sets by `Pareto.fast (dominates W)`
* `thprob <n> <m> <K> <bits> <j>`         → `err` | `<prior (K rationals)> <posterior (n rows of K)>` —
  `Thompson.priorProb` / `Thompson.postProb` (exact)
* `thval <n> <m> <K> <bits> <j> <cost|none>` → `err` | `<K float bit patterns>` —
  `Thompson.forward` at `Float` (`cost` = exact rational of `costs[j]`)

`DiscreteDesignSpace.locate_points` (`Model/Locate.lean`):
* `locate <xs> <X> <atol>`                → `err` | `<indices>` — `Locate.locate` (`err` = ValueError)
* `locband <x> <X> <tol>`                 → nat list — `Problem.nearestBand`: every design whose squared
  distance to `x` is within `tol` of the minimum (the indices a float `argmin` may legitimately return)
* `locdist <x> <X>`                       → rational | `err` — squared distance to the nearest design
-/
namespace VOPy.Drv.C07
open VOPy VOPy.Proto VOPy.Acq

def fmtPicks (p : List (Nat × Rat)) : String :=
  fmtNats (p.map (·.1)) ++ " " ++ fmtVec (p.map (·.2))

def fmtEntries (p : List Entry) : String :=
  fmtNats (p.map (·.pos)) ++ " " ++ fmtNats (p.map (·.obj)) ++ " " ++ fmtVec (p.map (·.val))

def fmtMats (ms : List Mat) : String := fmtList "|" fmtMat ms

def fmtObs (d : List Obs) : String := fmtMat (d.map (·.x)) ++ " " ++ fmtMat (d.map (·.y))

def zipObs (X Y : Mat) : Option (List Obs) :=
  if X.length = Y.length then some (List.zipWith (fun x y => ⟨x, y⟩) X Y) else none

def zip3 (a : List Nat) (b : List Nat) (c : List Rat) : Option (List Entry) :=
  if a.length = b.length ∧ b.length = c.length then
    some (List.zipWith (fun (p : Nat × Nat) v => ⟨p.1, p.2, v⟩) (a.zip b) c)
  else none

def fmtFloat (x : Float) : String := if x.isNaN then "nan" else toString x.toBits.toNat

/-- parse `<n> <m> <K> <bits>` into a mask; the bit string must have exactly `n^m * K` entries -/
def parseMask (n m k bits : String) : Option (Nat × Nat × Nat × Thompson.Mask) :=
  match n.toNat?, m.toNat?, k.toNat?, parseBools bits with
  | some n, some m, some K, some b =>
    if b.length = n ^ m * K then some (n, m, K, Thompson.maskOfBits n K b.toArray) else none
  | _, _, _, _ => none

/-- the Thompson ops (added without touching the ops above) -/
def handleThompson (args : List String) : Option String :=
  match args with
  | ["thcombs", n, r] =>
    match n.toNat?, r.toNat? with
    | some n, some r => some (fmtList ";" fmtNats (Thompson.combinations n r))
    | _, _ => some bad
  | ["thmask", n, m, k, ps] =>
    match n.toNat?, m.toNat?, k.toNat?, parseNatss ps with
    | some n, some m, some K, some P =>
      if P.length ≠ (Thompson.combinations n m).length ∨ P.any (·.any (· ≥ K)) then some bad
      else some (fmtBools (Thompson.flatten n m K (Thompson.filledMask n m P)))
    | _, _, _, _ => some bad
  | ["thsamples", w, n, m, k, ts] =>
    match parseMat w, n.toNat?, m.toNat?, k.toNat?, parseMats ts with
    | some W, some n, some m, some K, some T =>
      if T.length ≠ m ∨ T.any (fun t => t.length ≠ n ∨ t.any (·.length ≠ K)) ∨ W.any (·.length ≠ m)
      then some bad
      else some (fmtBools (Thompson.flatten n m K (Thompson.samplesMask W n m K T)))
    | _, _, _, _, _ => some bad
  | ["thprob", n, m, k, bits, j] =>
    match parseMask n m k bits, j.toNat? with
    | some (n, m, K, mem), some j =>
      if n = 0 ∨ m ≤ j then some "err"
      else some (fmtVec ((List.range K).map (Thompson.priorProb n m mem)) ++ " " ++
        fmtMat ((List.range n).map (fun s => (List.range K).map (Thompson.postProb n m j s mem))))
    | _, _ => some bad
  | ["thval", n, m, k, bits, j, c] =>
    match parseMask n m k bits, j.toNat?,
        (if c = "none" then some none else (parseRat c).map (fun r => some (ratToFloat r))) with
    | some (n, m, K, mem), some j, some cost =>
      match Thompson.forward (α := Float) n m K j mem cost with
      | none => some "err"
      | some v => some (fmtList "," fmtFloat v)
    | _, _, _ => some bad
  | _ => none

/-- the `locate_points` ops -/
def handleLocate (args : List String) : Option String :=
  match args with
  | ["locate", xs, x, a] =>
    match parseMat xs, parseMat x, parseRat a with
    | some xs, some X, some atol =>
      match Locate.locate xs X atol with
      | .valueError => some "err"
      | .ok idx => some (fmtNats idx)
    | _, _, _ => some bad
  | ["locband", x, xx, t] =>
    match parseVec x, parseMat xx, parseRat t with
    | some x, some X, some tol => some (fmtNats (Problem.nearestBand x X tol))
    | _, _, _ => some bad
  | ["locdist", x, xx] =>
    match parseVec x, parseMat xx with
    | some x, some X =>
      match Locate.locOne x X with
      | none => some "err"
      | some p => some (fmtRat p.2)
    | _, _ => some bad
  | _ => none

def handle (args : List String) : String :=
  match handleThompson args with
  | some r => r
  | none =>
  match handleLocate args with
  | some r => r
  | none =>
  match args with
  | ["optd", v, q] =>
    match parseVec v, q.toNat? with
    | some vals, some q => if vals.isEmpty then "empty" else fmtPicks (optimizeDiscrete vals q)
    | _, _ => bad
  | ["optdprefix", v, q] =>
    match parseVec v, q.toNat? with
    | some vals, some q =>
      match optimizeDiscretePreFix vals q with
      | none => "err"
      | some p => fmtPicks p
    | _, _ => bad
  | ["specd", v, q, ps, vs] =>
    match parseVec v, q.toNat?, parseNats ps, parseVec vs with
    | some vals, some q, some P, some V =>
      if P.length ≠ V.length then bad
      else if discSpecOk vals q (P.zip V) then "ok" else "fail"
    | _, _, _, _ => bad
  | ["firstd", v, ps, vs] =>
    match parseVec v, parseNats ps, parseVec vs with
    | some vals, some P, some V =>
      if P.length ≠ V.length then bad
      else if discFirstOk vals (P.zip V) then "ok" else "fail"
    | _, _, _ => bad
  | ["optdec", t, q] =>
    match parseMat t, q.toNat? with
    | some table, some q =>
      if table.isEmpty || table.any (·.isEmpty) then "empty" else fmtEntries (optimizeDecoupled table q)
    | _, _ => bad
  | ["specdec", t, q, ps, os, vs] =>
    match parseMat t, q.toNat?, parseNats ps, parseNats os, parseVec vs with
    | some table, some q, some P, some O, some V =>
      match zip3 P O V with
      | none => bad
      | some sel => if decSpecOk table q sel then "ok" else "fail"
    | _, _, _, _, _ => bad
  | ["diagsq", l, u] =>
    match parseVec l, parseVec u with
    | some l, some u => if l.length = u.length then fmtRat (diagSq l u) else bad
    | _, _ => bad
  | ["sumvar", c] =>
    match parseMat c with
    | some cov => if cov.all (fun r => r.length == cov.length) then fmtRat (sumVariance cov) else bad
    | _ => bad
  | ["varcost", c, j, cs] =>
    match parseMat c, j.toNat?, (if cs = "none" then some none else (parseVec cs).map some) with
    | some cov, some j, some costs =>
      match varianceOverCost cov j costs with
      | none => "err"
      | some r => fmtRat r
    | _, _, _ => bad
  | ["evalall", s, u] =>
    match parseNats s, parseNats u with
    | some S, some U => fmtNats (evaluateAll S U)
    | _, _ => bad
  | ["gpadd", d, dx, dy, x, y] =>
    match d.toNat?, parseMat dx, parseMat dy, parseMat x, parseMat y with
    | some d, some DX, some DY, some X, some Y =>
      match zipObs DX DY with
      | none => bad
      | some data => if X.length ≠ Y.length then bad else fmtObs (gpAddSample d data X Y)
    | _, _, _, _, _ => bad
  | ["listadd", d, m, sx, sy, x, y, dims] =>
    match d.toNat?, m.toNat?, parseMats sx, parseMat sy, parseMat x, parseVec y, parseNats dims with
    | some d, some m, some SX, some SY, some X, some Y, some D =>
      let SX := SX ++ List.replicate (m - SX.length) []
      let SY := SY ++ List.replicate (m - SY.length) []
      if SX.length ≠ SY.length ∨ (List.zipWith (fun a b => a.length != b.length) SX SY).any id
      then bad
      else
        match listAddSample d (List.zipWith List.zip SX SY) X Y D with
        | none => "err"
        | some st => fmtMats (st.map (·.map (·.1))) ++ " " ++ fmtMat (st.map (·.map (·.2)))
    | _, _, _, _, _, _, _ => bad
  | ["empadd", n, s, i, y] =>
    match n.toNat?, parseMats s, parseNats i, parseMat y with
    | some n, some S, some I, some Y =>
      match empAddSample (S ++ List.replicate (n - S.length) []) I Y with
      | none => "err"
      | some st => fmtMats st
    | _, _, _, _ => bad
  | ["step", d, ds, v, q, ob, dx, dy] =>
    match d.toNat?, parseMat ds, parseVec v, q.toNat?, parseMat ob, parseMat dx, parseMat dy with
    | some d, some designs, some vals, some q, some obs, some DX, some DY =>
      match zipObs DX DY with
      | none => bad
      | some data =>
        if designs.length ≠ vals.length ∨ designs.length ≠ obs.length then bad
        else
          let observe := fun (x : Vec) => ((designs.zip obs).lookup x).getD []
          let (cand, data') := evaluatingStep d designs vals q observe data
          fmtMat cand ++ " " ++ fmtObs data'
    | _, _, _, _, _, _, _ => bad
  | ["decstep", d, m, ds, t, q, ob, sx, sy] =>
    match d.toNat?, m.toNat?, parseMat ds, parseMat t, q.toNat?, parseMat ob, parseMats sx, parseMat sy with
    | some d, some m, some designs, some table, some q, some obs, some SX, some SY =>
      let SX := SX ++ List.replicate (m - SX.length) []
      let SY := SY ++ List.replicate (m - SY.length) []
      if SX.length ≠ SY.length ∨ (List.zipWith (fun a b => a.length != b.length) SX SY).any id
          ∨ table.isEmpty ∨ table.any (·.isEmpty) then bad
      else
        let observe := fun (x : Vec) (j : Nat) =>
          (((designs.zip (obs.getD j [])).lookup x)).getD 0
        match evaluatingStepDecoupled d designs table q observe (List.zipWith List.zip SX SY) with
        | (_, none) => "err"
        | (cand, some st) =>
          fmtMat (cand.map (·.1)) ++ " " ++ fmtNats (cand.map (·.2)) ++ " " ++
            fmtMats (st.map (·.map (·.1))) ++ " " ++ fmtMat (st.map (·.map (·.2)))
    | _, _, _, _, _, _, _, _ => bad
  | ["evalallstep", n, s, u, ob, sm] =>
    match n.toNat?, parseNats s, parseNats u, parseMat ob, parseMats sm with
    | some n, some S, some U, some obs, some samples =>
      match evaluateAllStep S U (fun i => obs.getD i []) (samples ++ List.replicate (n - samples.length) []) with
      | none => "err"
      | some st => fmtMats st
    | _, _, _, _, _ => bad
  | _ => bad

end VOPy.Drv.C07
