import VOPyVerif.Drv.Proto
import VOPyVerif.Drv.CoreOps
import VOPyVerif.Model.Accuracy
import VOPyVerif.Model.Steps
/-! Driver front end for property C05 (VOGP / ε-PAL keep ε-isolated optima; `P` is internally
non-ε-dominated).

* `box <l> <u> <x>`            → `1` / `0` : `Accuracy.inBox` (truth inside a displayed rectangle)
* `final <W> <s> <M> <P>`      → `<iso> <int> <isolated designs>` : `keepsIsolated`,
  `internallyNondom` as `1`/`0`, then the list of isolated designs (information for the harness)
* `isolated <W> <s> <M> <i>`   → `1` / `0`
* `vround <n> <dom> <cov> <pess> <S> <P>` → `S';P'` (sorted) : one `Steps.vogpRound` with the oracles given
  as row-major `n×n` bit tables (`dom[i][j]` = "region i is dominated by region j (+slack)", `cov[i][j]` =
  "region i is covered by region j", `pess[j][i]` = "region j pessimistically dominates region i")

* INTEGRATION: `pcore ball|rect …`, `vcore …` — whole runs through the executable decision core
  (`Model/Core.lean`: oracles computed from the displayed regions by the exact geometry models); see
  `Drv/CoreOps.lean` for the formats.

`s` is the slack in objective space (`ε·u*` for VOGP, `ε·𝟙` for ε-PAL), `M` the matrix of true means.
Guards (else `bad-op`): `M` non-empty, rows of `M`, `W` and `s` of one length, indices `< K`.
-/
namespace VOPy.Drv.C05
open VOPy VOPy.Proto VOPy.Accuracy

def shapesOk (W : Mat) (s : Vec) (M : Mat) (P : List Nat) : Bool :=
  match M with
  | [] => false
  | r :: _ =>
    let m := r.length
    M.all (fun x => decide (x.length = m)) && W.all (fun w => decide (w.length = m)) &&
      decide (s.length = m) && P.all (fun i => decide (i < M.length))

def muOf (M : Mat) : Nat → Vec := fun i => M.getD i []

def tableRel (n : Nat) (bits : List Bool) : Steps.Rel :=
  fun i j => decide (i < n) && decide (j < n) && bits.getD (i * n + j) false

def fmtSets (l : List (List Nat)) : String := ";".intercalate (l.map fun s => fmtNats (Steps.sortNat s))

def handle (args : List String) : String :=
  match args with
  | ["vround", n, d, c, q, s, p] =>
    match n.toNat?, parseBools d, parseBools c, parseBools q, parseNats s, parseNats p with
    | some n, some d, some c, some q, some S, some P =>
      if d.length = n * n ∧ c.length = n * n ∧ q.length = n * n ∧ (S ++ P).all (fun i => decide (i < n)) then
        let r := Steps.vogpRound (tableRel n d) (tableRel n c) (tableRel n q) S P
        fmtSets [r.1, r.2]
      else bad
    | _, _, _, _, _, _ => bad
  | ["box", l, u, x] =>
    match parseVec l, parseVec u, parseVec x with
    | some l, some u, some x => fmtBool (inBox l u x)
    | _, _, _ => bad
  | ["final", w, s, mm, p] =>
    match parseMat w, parseVec s, parseMat mm, parseNats p with
    | some W, some s, some M, some P =>
      if shapesOk W s M P then
        let K := M.length
        let mu := muOf M
        fmtBool (keepsIsolated W s K mu P) ++ " " ++ fmtBool (internallyNondom W s mu P) ++ " " ++
          fmtNats ((List.range K).filter (isolated W s K mu))
      else bad
    | _, _, _, _ => bad
  | ["isolated", w, s, mm, i] =>
    match parseMat w, parseVec s, parseMat mm, i.toNat? with
    | some W, some s, some M, some i =>
      if shapesOk W s M [i] then fmtBool (isolated W s M.length (muOf M) i) else bad
    | _, _, _, _ => bad
  | _ => (CoreOps.handle args).getD bad  -- INTEGRATION: whole runs through `Model/Core.lean`

end VOPy.Drv.C05
