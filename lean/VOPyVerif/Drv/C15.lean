import VOPyVerif.Drv.Proto
import VOPyVerif.Model.GPWrap
/-! Driver front end for property C15 (GP wrappers: state machine + exact posterior).

Samples are numbered `0 … S-1`; sample `s` has input point `pts[s]` (an index into the exported
Gram tables), value row `Y[s]` (multi-output wrappers: `m` entries; model list: one entry) and, for
the model list, objective `obj[s]`.

Histories (`<ops>`, `;`-separated nat lists):
`0,s…` add the batch of samples `s…` (model list: `dim_index = [obj[s] …]`, a list) ·
`4,j,s…` model list only: add with the *integer* `dim_index = j` · `1` clear · `2` update ·
`3,p…` predict at test points `p…` (point ids).

* `post <K> <noise> <kstarT> <kss> <y> <m0> <m0s>` → `<mean>|<cov>|<minpivot or _>` or `X`:
  `GPWrap.posterior` (for `n = 0` the `t` empty rows of `kstarT` are implied)
* `hist <kind> <m> <noise> <consts> <tables> <pts> <Y> <obj> <ops>` with kind `indep`/`indepj`
  (always joint) /`corr`/`mlist` → one answer per predict op, joined by `#`: `U` (no gpytorch model
  yet), `X` (no posterior), or `<means T×m>|<cov m×m>|…(T of them)…|<min pivot or _>`:
  `GPWrap.run` then `GPWrap.predict` with the class's exact posterior of `conditioned`
* `state <kind:mo|mlist> <m> <obj> <ops>` → `<held>|<conditioned>|<init 0/1>|<upToDate 0/1>`
  (sample ids; model list: one row per objective)
* `helperops mo <current 0/1> <train batches> <hasinit 0/1> <init ids>` and
  `helperops mlist <m> <obj> <current 0/1> <train batches j,s…> <hasinit 0/1> <init ids>` → the op
  sequence `GPWrap.helperOps` (1: what the helpers do) / `helperOpsConditional` (0: the sequence
  before the fix, final update only with initial samples) in the `<ops>` encoding
In `hist`, a correlated model conditioned on no data answers `E` (the property exempts it).
-/
namespace VOPy.Drv.C15
open VOPy VOPy.Proto VOPy.GPWrap

def fmtOptRat : Option Rat → String
  | some r => fmtRat r
  | none => "_"

def fmtPost (q : Post) : String := fmtVec q.mean ++ "|" ++ fmtMat q.cov ++ "|" ++ fmtOptRat q.minPivot

def minOpt (a b : Option Rat) : Option Rat :=
  match a, b with
  | none, x => x
  | some a, none => some a
  | some a, some b => some (if b < a then b else a)

def fmtPosts (qs : List Post) : String :=
  fmtMat (qs.map (·.mean)) ++ "|" ++ "|".intercalate (qs.map (fun q => fmtMat q.cov)) ++ "|" ++
    fmtOptRat (qs.foldl (fun acc q => minOpt acc q.minPivot) none)

/-- history op over sample ids; `none` = malformed -/
inductive HOp where
  | op (o : Op (List Nat))                 -- multi-output
  | mop (o : Op (Route × List Nat))        -- model list
  | pred (ps : List Nat)

def decodeMO : List Nat → Option HOp
  | 0 :: ss => some (.op (.add ss))
  | [1] => some (.op .clear)
  | [2] => some (.op .update)
  | 3 :: ps => some (.pred ps)
  | _ => none

def decodeML (m : Nat) (obj : List Nat) : List Nat → Option HOp
  | 0 :: ss => do
      let idx ← ss.mapM (fun s => obj[s]?)
      if idx.all (· < m) then some (.mop (.add (.each idx, ss))) else none
  | 4 :: j :: ss => if j < m then some (.mop (.add (.single j, ss))) else none
  | [1] => some (.mop .clear)
  | [2] => some (.mop .update)
  | 3 :: ps => some (.pred ps)
  | _ => none

def encodeOps (ops : List (Op (List Nat))) : String :=
  fmtList ";" fmtNats (ops.map (fun o =>
    match o with
    | .add b => 0 :: b
    | .clear => [1]
    | .update => [2]))

def encodeOpsML (ops : List (Op (Route × List Nat))) : String :=
  fmtList ";" fmtNats (ops.map (fun o =>
    match o with
    | .add (.single j, b) => 4 :: j :: b
    | .add (.each _, b) => 0 :: b
    | .clear => [1]
    | .update => [2]))

/-- run a multi-output history; answers of the predict ops in order -/
def histMO (exemptEmpty : Bool) (post : List (Nat × Vec) → Nat → Option Post) (pts : List Nat)
    (Y : Mat) (ops : List HOp) : Option (List String) :=
  let S := moStore Nat
  let rec go (s : State (List Nat)) (ops : List HOp) (acc : List String) : Option (List String) :=
    match ops with
    | [] => some acc.reverse
    | .op o :: rest => go (step S s o) rest acc
    | .mop _ :: _ => none
    | .pred ps :: rest =>
      let ans : Option String :=
        match predict (fun ids => ids.mapM (fun i =>
            match pts[i]?, Y[i]? with
            | some p, some y => some (p, y)
            | _, _ => none)) s with
        | none => some "U"
        | some none => none
        | some (some data) =>
          if exemptEmpty && data.isEmpty then some "E"
          else match predictAt post data ps with
          | some qs => some (fmtPosts qs)
          | none => some "X"
      match ans with
      | some a => go s rest (a :: acc)
      | none => none
  go (init S) ops []

def histML (m : Nat) (post : List (List (Nat × Rat)) → Nat → Option Post) (pts : List Nat) (Y : Vec)
    (ops : List HOp) : Option (List String) :=
  let S := mlStore Nat m
  let rec go (s : State (List (List Nat))) (ops : List HOp) (acc : List String) :
      Option (List String) :=
    match ops with
    | [] => some acc.reverse
    | .mop o :: rest => go (step S s o) rest acc
    | .op _ :: _ => none
    | .pred ps :: rest =>
      let ans : Option String :=
        match predict (fun d => d.mapM (fun ids => ids.mapM (fun i =>
            match pts[i]?, Y[i]? with
            | some p, some y => some (p, y)
            | _, _ => none))) s with
        | none => some "U"
        | some none => none
        | some (some data) =>
          match predictAt post data ps with
          | some qs => some (fmtPosts qs)
          | none => some "X"
      match ans with
      | some a => go s rest (a :: acc)
      | none => none
  go (init S) ops []

def fmtAns (l : List String) : String := if l.isEmpty then "_" else "#".intercalate l

def handle (args : List String) : String :=
  match args with
  | ["post", k, nz, kt, kss, y, m0, m0s] =>
    match parseMat k, parseMat nz, parseMat kt, parseMat kss, parseVec y, parseVec m0, parseVec m0s with
    | some K, some N, some KT, some KSS, some Y, some M0, some M0S =>
      let KT := if Y.isEmpty && KT.isEmpty then M0S.map (fun _ => []) else KT
      match posterior K N KT KSS Y M0 M0S with
      | some q => fmtPost q
      | none => "X"
    | _, _, _, _, _, _, _ => bad
  | ["hist", kind, m, nz, cs, tb, pts, y, obj, ops] =>
    match m.toNat?, parseMat nz, parseVec cs, parseMats tb, parseNats pts, parseNats obj, parseNatss ops with
    | some m, some N, some C, some T, some P, some O, some ops =>
      let cfg : Cfg := { m := m, noise := N, consts := C, tables := T }
      if kind = "mlist" then
        match parseVec y, ops.mapM (decodeML m O) with
        | some Y, some hops =>
          if Y.length = P.length && O.length = P.length then
            match histML m (mlistPost cfg) P Y hops with
            | some l => fmtAns l
            | none => bad
          else bad
        | _, _ => bad
      else
        match parseMat y, ops.mapM decodeMO with
        | some Y, some hops =>
          if Y.length = P.length then
            let post? : Option (List (Nat × Vec) → Nat → Option Post) :=
              if kind = "indep" then some (indepPost cfg)
              else if kind = "indepj" then some (indepJoint cfg)
              else if kind = "corr" then some (corrPost cfg)
              else none
            match post? with
            | some post =>
              match histMO (kind = "corr") post P Y hops with
              | some l => fmtAns l
              | none => bad
            | none => bad
          else bad
        | _, _ => bad
    | _, _, _, _, _, _, _ => bad
  | ["state", kind, m, obj, ops] =>
    match m.toNat?, parseNats obj, parseNatss ops with
    | some m, some O, some ops =>
      if kind = "mo" then
        match ops.mapM decodeMO with
        | some hops =>
          let S := moStore Nat
          let s := hops.foldl (fun s h => match h with | .op o => step S s o | _ => s) (init S)
          fmtNats s.held ++ "|" ++ fmtNats s.conditioned ++ "|" ++ fmtBool s.initialised ++ "|" ++
            fmtBool (upToDate s)
        | none => bad
      else if kind = "mlist" then
        match ops.mapM (decodeML m O) with
        | some hops =>
          let S := mlStore Nat m
          let s := hops.foldl (fun s h => match h with | .mop o => step S s o | _ => s) (init S)
          fmtList ";" fmtNats s.held ++ "|" ++ fmtList ";" fmtNats s.conditioned ++ "|" ++
            fmtBool s.initialised ++ "|" ++ fmtBool (upToDate s)
        | none => bad
      else bad
    | _, _, _ => bad
  | ["helperops", "mo", fixed, tr, hasinit, ini] =>
    match parseBool fixed, parseNatss tr, parseBool hasinit, parseNats ini with
    | some f, some T, some h, some I =>
      let i : Option (List Nat) := if h then some I else none
      encodeOps (if f then helperOps T i else helperOpsConditional T i)
    | _, _, _, _ => bad
  | ["helperops", "mlist", m, obj, fixed, tr, hasinit, ini] =>
    match m.toNat?, parseNats obj, parseBool fixed, parseNatss tr, parseBool hasinit, parseNats ini with
    | some m, some O, some f, some T, some h, some I =>
      let tr? : Option (List (Route × List Nat)) := T.mapM (fun b =>
        match b with
        | j :: ss => if j < m then some (Route.single j, ss) else none
        | [] => none)
      let idx? : Option (List Nat) := I.mapM (fun s => O[s]?)
      match tr?, idx? with
      | some tr, some idx =>
        if idx.all (· < m) then
          let i : Option (Route × List Nat) := if h then some (Route.each idx, I) else none
          encodeOpsML (if f then helperOps tr i else helperOpsConditional tr i)
        else bad
      | _, _ => bad
    | _, _, _, _, _, _ => bad
  | _ => bad

end VOPy.Drv.C15
