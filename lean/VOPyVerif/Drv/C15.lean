import VOPyVerif.Drv.Proto
/-! Driver front end for property C15 (line protocol → executable model). -/
namespace VOPy.Drv.C15
open VOPy VOPy.Proto

def handle (args : List String) : String :=
  match args with
  | _ => bad

end VOPy.Drv.C15
