import VOPyVerif.Drv.Proto
import VOPyVerif.Model.ConeFormulas
/-! Driver front end for property C12 (cone orders; bundled cone constructors).

Exact (`Rat`) ops — arguments in the line protocol of `Drv/Proto.lean`:
* `dom <W> <a> <b>`        → `1`/`0` : `dominates W a b`   (`PolyhedralConeOrder.dominates`, 1-D inputs)
* `domB <W> <A> <B>`       → bools   : row-wise `dominates W A[i] B[i]` (`A`, `B` with equally many rows)
* `inside <W> <x>`         → `1`/`0` : `inCone W x`         (`OrderingCone.is_inside`, 1-D input)
* `insideB <W> <X>`        → bools   : `inCone W X[i]` for every row (batched call)
* `ident <m>`              → matrix  : `identMat m`          (`ComponentwiseOrder(m).ordering_cone.W`)
* `allclose <W1> <W2>`     → `1`/`0`/`shape` : `np.allclose(W1, W2)` (default tolerances) in exact arithmetic
  for equal shapes (`OrderingCone.__eq__`)

Float ops (the `RealLike` terms at `Float`); θ is sent as the exact `num/den` of the Python float, answers
are matrices of IEEE bit patterns (`Float.toBits` as decimal naturals; `,` / `;` separated):
* `theta2d <θ>`            → `get2dW θ`
* `theta2dclosed <θ>`      → `get2dWClosed θ` (closed form the theorems relate `get2dW` to)
* `cone3d <acute|right|obtuse>` → `cone3D kind`
* `icecream <K> <θ>`       → `iceCreamW K θ`
* `icerot`                 → `iceRot`  (the Rodrigues matrix)
* `iceaxis`                → `iceAxis` (one row)
-/
namespace VOPy.Drv.C12
open VOPy VOPy.Proto VOPy.ConeFormulas

def fmtFloatBits (x : Float) : String := toString x.toBits.toNat
def fmtFVec (v : List Float) : String := fmtList "," fmtFloatBits v
def fmtFMat (m : List (List Float)) : String := fmtList ";" fmtFVec m

def parseFloatQ (s : String) : Option Float := (parseRat s).map ratToFloat

def parseKind (s : String) : Option Kind3D :=
  if s = "acute" then some .acute else if s = "right" then some .right
  else if s = "obtuse" then some .obtuse else none

def rabs (x : Rat) : Rat := if x < 0 then -x else x

/-- `|x - y| <= atol + rtol * |y|` with `rtol = 1e-5`, `atol = 1e-8` -/
def closeQ (x y : Rat) : Bool :=
  decide (rabs (x - y) ≤ (1 : Rat) / 100000000 + (1 : Rat) / 100000 * rabs y)

/-- `np.allclose` on equal-shape matrices; `none` if the shapes differ -/
def allcloseMat (A B : Mat) : Option Bool :=
  if A.length = B.length ∧ (A.map List.length) = (B.map List.length) then
    some ((List.zipWith (fun a b => (List.zipWith closeQ a b).all id) A B).all id)
  else none

def handle (args : List String) : String :=
  match args with
  | ["dom", w, a, b] =>
    match parseMat w, parseVec a, parseVec b with
    | some W, some a, some b => fmtBool (dominates W a b)
    | _, _, _ => bad
  | ["domB", w, a, b] =>
    match parseMat w, parseMat a, parseMat b with
    | some W, some A, some B =>
      if A.length = B.length then fmtBools (List.zipWith (dominates W) A B) else bad
    | _, _, _ => bad
  | ["inside", w, x] =>
    match parseMat w, parseVec x with
    | some W, some x => fmtBool (inCone W x)
    | _, _ => bad
  | ["insideB", w, x] =>
    match parseMat w, parseMat x with
    | some W, some X => fmtBools (X.map (inCone W))
    | _, _ => bad
  | ["ident", m] =>
    match m.toNat? with
    | some m => fmtMat (identMat m)
    | none => bad
  | ["allclose", a, b] =>
    match parseMat a, parseMat b with
    | some A, some B =>
      match allcloseMat A B with
      | some r => fmtBool r
      | none => "shape"
    | _, _ => bad
  | ["theta2d", t] =>
    match parseFloatQ t with
    | some θ => fmtFMat (get2dW θ)
    | none => bad
  | ["theta2dclosed", t] =>
    match parseFloatQ t with
    | some θ => fmtFMat (get2dWClosed θ)
    | none => bad
  | ["cone3d", k] =>
    match parseKind k with
    | some k => fmtFMat (cone3D (α := Float) k)
    | none => bad
  | ["icecream", k, t] =>
    match k.toNat?, parseFloatQ t with
    | some K, some θ => fmtFMat (iceCreamW K θ)
    | _, _ => bad
  | ["icerot"] => fmtFMat (iceRot (α := Float))
  | ["iceaxis"] => fmtFVec (iceAxis (α := Float))
  | _ => bad

end VOPy.Drv.C12
