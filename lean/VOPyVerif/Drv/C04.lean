import VOPyVerif.Drv.Proto
import VOPyVerif.Model.Schedules
/-! Driver front end for property C04 (confidence schedules and region construction).

Numbers in: naturals for `round`, `m`, `K`; exact rationals `num/den` (from
`float.as_integer_ratio()`, turned into the same `Float` by `Proto.ratToFloat`) for `noise_var`,
`delta`, `conf_contraction`, `v_hat`, means, covariances, scales.  Floats out: the IEEE-754 bit
pattern as a decimal natural (`Float.toBits`), `nan` for NaN — never a decimal rendering.

* `paveba    <noise_var> <round> <m> <K> <delta> <c>`  → `Sched.pavebaRadius`   (PaVeBa.compute_radius)
* `pavebagp  <round> <m> <K> <delta> <c>`              → `Sched.pavebaGpAlpha`  (PaVeBaGP.compute_alpha)
* `partialgp <round> <K> <delta> <c>`                  → `Sched.partialGpAlpha` (PaVeBaPartialGP.compute_alpha)
* `vogp      <round> <m> <K> <delta> <c>`              → `Sched.vogpBeta`       (VOGP.compute_beta)
* `epal      <round> <m> <K> <delta> <c>`              → `Sched.epalBeta`       (EpsilonPAL.compute_beta)
* `auer      <round> <m> <K> <delta> <c>`              → `Sched.auerBeta`       (Auer.compute_beta, original)
* `aueremp   <round> <m> <K> <delta> <c> <v_hat>`      → `Sched.auerBetaEmp`    (Auer.compute_beta, empirical)
* `rect <mean> <diag cov> <scale>` (three vectors of one length) → `lower;upper` bit vectors of
  `Sched.rectUpdate` (RectangularConfidenceRegion.update)
* `ell <mean> <cov> <scale>` → `center|sigma|alpha` of `Sched.ellUpdate`, exact rationals
  (EllipsoidalConfidenceRegion.update)
-/
namespace VOPy.Drv.C04
open VOPy VOPy.Proto VOPy.Sched

def fmtFloat (x : Float) : String := if x.isNaN then "nan" else toString x.toBits.toNat
def fmtFloats (l : List Float) : String := fmtList "," fmtFloat l

def pf (s : String) : Option Float := (parseRat s).map ratToFloat
def pn (s : String) : Option Nat := s.toNat?

def handle (args : List String) : String :=
  match args with
  | ["paveba", nv, t, m, k, d, c] =>
    match pf nv, pn t, pn m, pn k, pf d, pf c with
    | some nv, some t, some m, some k, some d, some c => fmtFloat (pavebaRadius nv t m k d c)
    | _, _, _, _, _, _ => bad
  | ["pavebagp", t, m, k, d, c] =>
    match pn t, pn m, pn k, pf d, pf c with
    | some t, some m, some k, some d, some c => fmtFloat (pavebaGpAlpha t m k d c)
    | _, _, _, _, _ => bad
  | ["partialgp", t, k, d, c] =>
    match pn t, pn k, pf d, pf c with
    | some t, some k, some d, some c => fmtFloat (partialGpAlpha t k d c)
    | _, _, _, _ => bad
  | ["vogp", t, m, k, d, c] =>
    match pn t, pn m, pn k, pf d, pf c with
    | some t, some m, some k, some d, some c => fmtFloat (vogpBeta t m k d c)
    | _, _, _, _, _ => bad
  | ["epal", t, m, k, d, c] =>
    match pn t, pn m, pn k, pf d, pf c with
    | some t, some m, some k, some d, some c => fmtFloat (epalBeta t m k d c)
    | _, _, _, _, _ => bad
  | ["auer", t, m, k, d, c] =>
    match pn t, pn m, pn k, pf d, pf c with
    | some t, some m, some k, some d, some c => fmtFloat (auerBeta t m k d c)
    | _, _, _, _, _ => bad
  | ["aueremp", t, m, k, d, c, v] =>
    match pn t, pn m, pn k, pf d, pf c, pf v with
    | some t, some m, some k, some d, some c, some v => fmtFloat (auerBetaEmp t m k d c v)
    | _, _, _, _, _, _ => bad
  | ["rect", mu, cv, sc] =>
    match parseVec mu, parseVec cv, parseVec sc with
    | some mu, some cv, some sc =>
      if mu.length = cv.length ∧ cv.length = sc.length then
        let r := rectUpdate (mu.map ratToFloat) (cv.map ratToFloat) (sc.map ratToFloat)
        fmtFloats r.1 ++ ";" ++ fmtFloats r.2
      else bad
    | _, _, _ => bad
  | ["ell", mu, cv, sc] =>
    match parseVec mu, parseMat cv, parseRat sc with
    | some mu, some cv, some sc =>
      let e := ellUpdate mu cv sc
      fmtVec e.center ++ "|" ++ fmtMat e.sigma ++ "|" ++ fmtRat e.alpha
    | _, _, _ => bad
  | _ => bad

end VOPy.Drv.C04
