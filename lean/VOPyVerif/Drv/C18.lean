import VOPyVerif.Drv.Proto
/-! Driver front end for property C18 (line protocol → executable model). -/
namespace VOPy.Drv.C18
open VOPy VOPy.Proto

def handle (args : List String) : String :=
  match args with
  | _ => bad

end VOPy.Drv.C18
