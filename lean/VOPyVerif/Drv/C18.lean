import VOPyVerif.Drv.Proto
import VOPyVerif.Model.Adaptive
import VOPyVerif.Model.AdaptiveVh
/-! Driver front end for property C18 (adaptive discretisation / VOGP_AD set surgery).

Requests (arguments separated by single spaces; inside an operation list operations are separated
by `;` and their fields by `:`; vectors are comma-separated rationals, nat lists comma-separated,
`_` = empty; Booleans `0`/`1`):

* `space <d> <m> <maxDepth> <sops>` — replay design-space operations from `Space.root d m maxDepth`
  with `Space.runOps`.  Operations:
  `R:<i>` = `refine_design(i)`; `Q:<i>:<b>` = `if should_refine_design(i) [comparison = b]: refine_design(i)`;
  `U:<i>:<lo>:<up>` = region of node `i` overwritten.
  Answer: `ok <points> <cells> <depths> <lowers> <uppers> <answers> <leaves> <leafOnly>` where `cells` has
  one row `lo0,hi0,lo1,hi1,…` per node, `answers` are the `should_refine_design` results in order, `leaves`
  the never-refined indices and `leafOnly` = `Space.leafOnly` (every refinement hit a leaf: the hypothesis
  of theorem `space_ops_invariant`); `none` if some operation is undefined (index out of range).
* `algo <d> <m> <maxDepth> <ops>` — replay VOGP_AD operations from `Algo.init d m maxDepth` with
  `Algo.apply`.  Operations: `U:<i>:<lo>:<up>` (modeling of one node), `D:<nats>` (discarding),
  `C:<nats>` (epsiloncovering, `nats` = not-covered members of S), `E:<c>:<b>` (evaluate_refine with
  candidate `c`, comparison `b`), `N` (round += 1), and two *set-up* operations used only to build
  arbitrary (possibly unreachable) states for single-phase comparisons: `R:<i>` (raw `refine_design(i)`
  leaving S, P alone) and `T:<S>:<P>:<latch>:<algMaxDepth>` (overwrite S, P, latch, max_discretization_depth).
  Answer: `ok <points> <cells> <depths> <lowers> <uppers> <S> <P> <latch> <algMaxDepth> <samples> <round> <leaves> <dropped>`
  (S, P, dropped sorted; `dropped` = ghost list of discarded designs), or `none@k` if operation number `k` is undefined in the model (the code would raise).
* `children <cell>` — `childCells` of one cell given as `lo0,hi0,lo1,hi1,…`; answer: the child cells
  (matrix, product order).

`RealLike` terms of `Model/AdaptiveVh.lean` evaluated at `Float` (floats IN: the exact `num/den` of
the Python float, turned into the same `Float` by `Proto.ratToFloat`; floats OUT: IEEE-754 bit
patterns as decimal naturals, `nan` for NaN):
* `vh <d> <m> <delta> <pointDepth> <offset> <lengthscales> <variances>` — `Vh.designVh`: one float
  per objective (`calculate_design_vh(model, i, depth_offset)`; `offset` a signed integer).
* `refine <d> <m> <delta> <pointDepth> <maxDepth> <lengthscales> <variances> <scale> <diagCov>` —
  `should_refine_design`: answer `<decision 0|1> <lhs floats> <rhs float>` with
  `lhs[j] = scale[j]·‖std‖`, `rhs = ‖Vh‖` (`Vh.refineLhs`, `Vh.refineRhs`) and the decision
  `Vh.shouldRefine` (depth gate first).
* `cmp <lhs floats> <rhs float>` — `Vh.allLe`: the comparison stage `np.all(lhs <= rhs)` on operands given
  exactly (answer `0`/`1`).
* `adbeta <noise_var> <delta> <det> <conf_contraction>` — `Vh.vogpAdBeta` (`VOGP_AD.compute_beta`
  given `det = np.linalg.det(Kn + I)`).
-/
namespace VOPy.Drv.C18
open VOPy VOPy.Proto VOPy.Adaptive

def parseNat (s : String) : Option Nat := s.toNat?

/-- `lo0,hi0,lo1,hi1,…` → cell -/
def pairUp : List Rat → Option Cell
  | [] => some []
  | a :: b :: r => (pairUp r).map (fun t => (a, b) :: t)
  | _ => none

def flatCell (c : Cell) : List Rat := c.flatMap (fun p => [p.1, p.2])

inductive DOp where
  | op (o : Op)
  | rawRefine (i : Nat)
  | setup (S P : List Nat) (latch : Bool) (amax : Nat)

def parseDOp (s : String) : Option DOp :=
  match s.splitOn ":" with
  | ["U", i, lo, up] => do
      let i ← parseNat i; let lo ← parseVec lo; let up ← parseVec up
      pure (.op (.update [(i, lo, up)]))
  | ["D", l] => (parseNats l).map (fun l => .op (.discard l))
  | ["C", l] => (parseNats l).map (fun l => .op (.cover l))
  | ["E", c, b] => do
      let c ← parseNat c; let b ← parseBool b
      pure (.op (.evalRefine c b))
  | ["N"] => some (.op .endRound)
  | ["R", i] => (parseNat i).map .rawRefine
  | ["T", s, p, l, k] => do
      let s ← parseNats s; let p ← parseNats p; let l ← parseBool l; let k ← parseNat k
      pure (.setup s p l k)
  | _ => none

def parseSOp (s : String) : Option SOp :=
  match s.splitOn ":" with
  | ["R", i] => (parseNat i).map .refine
  | ["Q", i, b] => do
      let i ← parseNat i; let b ← parseBool b
      pure (.guarded i b)
  | ["U", i, lo, up] => do
      let i ← parseNat i; let lo ← parseVec lo; let up ← parseVec up
      pure (.setRegion i lo up)
  | _ => none

def applyDOp (a : Algo) : DOp → Option Algo
  | .op o => a.apply o
  | .rawRefine i => (a.space.refine i).map (fun r => { a with space := r.1 })
  | .setup S P l k => some { a with S := S, P := P, latch := l, maxDepth := k }

/-- run, reporting the position of the first undefined operation -/
def runDOps (a : Algo) (k : Nat) : List DOp → Except Nat Algo
  | [] => .ok a
  | o :: os =>
    match applyDOp a o with
    | none => .error k
    | some a' => runDOps a' (k + 1) os

def sortNats (l : List Nat) : List Nat := l.mergeSort (fun a b => decide (a ≤ b))

def fmtSpace (s : Space) : String :=
  " ".intercalate [
    fmtMat (s.nodes.map (·.point)),
    fmtMat (s.nodes.map (fun n => flatCell n.cell)),
    fmtNats (s.nodes.map (·.depth)),
    fmtMat (s.nodes.map (·.lower)),
    fmtMat (s.nodes.map (·.upper))]

def fmtFloat (x : Float) : String := if x.isNaN then "nan" else toString x.toBits.toNat
def fmtFloats (l : List Float) : String := fmtList "," fmtFloat l
def pf (s : String) : Option Float := (parseRat s).map ratToFloat
def pfs (s : String) : Option (List Float) := (parseVec s).map (·.map ratToFloat)

/-- the `RealLike` ops (added without touching the ops below) -/
def handleVh (args : List String) : Option String :=
  match args with
  | ["vh", d, m, dl, pd, off, ls, vr] =>
    match parseNat d, parseNat m, pf dl, parseNat pd, off.toInt?, pfs ls, pfs vr with
    | some d, some m, some δ, some pd, some off, some ls, some vr =>
      if ls.length ≠ vr.length then some bad
      else some (fmtFloats (Vh.designVh d m δ pd off (ls.zip vr)))
    | _, _, _, _, _, _, _ => some bad
  | ["refine", d, m, dl, pd, md, ls, vr, sc, dc] =>
    match parseNat d, parseNat m, pf dl, parseNat pd, parseNat md, pfs ls, pfs vr, pfs sc, pfs dc with
    | some d, some m, some δ, some pd, some md, some ls, some vr, some sc, some dc =>
      if ls.length ≠ vr.length then some bad
      else
        let lv := ls.zip vr
        some (fmtBool (Vh.shouldRefine d m δ pd md lv sc dc) ++ " " ++
          fmtFloats (Vh.refineLhs sc dc) ++ " " ++ fmtFloat (Vh.refineRhs d m δ pd lv))
    | _, _, _, _, _, _, _, _, _ => some bad
  | ["cmp", l, r] =>
    match pfs l, pf r with
    | some l, some r => some (fmtBool (Vh.allLe l r))
    | _, _ => some bad
  | ["adbeta", nv, dl, det, c] =>
    match pf nv, pf dl, pf det, pf c with
    | some nv, some δ, some det, some c => some (fmtFloat (Vh.vogpAdBeta nv δ det c))
    | _, _, _, _ => some bad
  | _ => none

def handle (args : List String) : String :=
  match handleVh args with
  | some r => r
  | none =>
  match args with
  | ["space", d, m, k, ops] =>
    match parseNat d, parseNat m, parseNat k, parseList ";" parseSOp ops with
    | some d, some m, some k, some ops =>
      match (Space.root d m k).runOps ops with
      | none => "none"
      | some (s, ans) =>
        "ok " ++ fmtSpace s ++ " " ++ fmtBools ans ++ " " ++ fmtNats s.leaves ++ " " ++
          fmtBool ((Space.root d m k).leafOnly ops)
    | _, _, _, _ => bad
  | ["algo", d, m, k, ops] =>
    match parseNat d, parseNat m, parseNat k, parseList ";" parseDOp ops with
    | some d, some m, some k, some ops =>
      match runDOps (Algo.init d m k) 0 ops with
      | .error j => "none@" ++ toString j
      | .ok a =>
        "ok " ++ fmtSpace a.space ++ " " ++ " ".intercalate [
          fmtNats (sortNats a.S), fmtNats (sortNats a.P), fmtBool a.latch, toString a.maxDepth,
          toString a.samples, toString a.round, fmtNats a.space.leaves, fmtNats (sortNats a.dropped)]
    | _, _, _, _ => bad
  | ["children", c] =>
    match (parseVec c).bind pairUp with
    | some c => fmtMat ((childCells c).map flatCell)
    | none => bad
  | _ => bad

end VOPy.Drv.C18
