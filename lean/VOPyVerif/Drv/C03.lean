import VOPyVerif.Drv.Proto
import VOPyVerif.Drv.C02
import VOPyVerif.Model.Steps
/-! Driver front end for property C03 (P-entry exactly when nothing can still ε-cover; U; Auer's
hold-back).  Argument formats as in `Drv/C02.lean` (its parsers are reused).  Pairs / triples of
sets are answered as `S';P'` / `S';P';U'`, each sorted ascending.

* `pareto <S> <P> <U> <n> <cov>`            → `S';P'` of the PaVeBa-family `pareto_updating()`
* `useful <S> <P> <n> <cov>`                → `U'` of `useful_updating()`; `cov[s][p]` = R_s covered by R_p
* `round <S> <P> <U> <n> <dom> <cov>`       → `S';P';U'` after discarding, pareto_updating, useful_updating
* `cover <S> <P> <n> <cov>`                 → `S';P'` of VOGP / ε-PAL `epsiloncovering()`
* `coverad <S> <P> <n> <cov> <depths> <maxDepth> <enabled>` → `S';P';e'` of VOGP_AD's gated version
  (`depths`: comma-separated depth per design index `0..n-1`; `enabled`, `e'`: `0/1`)
* `vround <S> <P> <n> <dom> <cov> <pess>`   → `S';P'` after discarding + epsiloncovering
* `auer <eps> <S> <P> <centres> <widths>`   → `S';P'` of Auer `pareto_updating()`, widths by design
* `auerpos <eps> <S> <P> <centres> <rows>`  → literal mirror: `rows[k]` read for the k-th element of `S`
  (`S` in iteration order; `|rows| ≥ |S|`)
* `around <eps> <S> <P> <centres> <widths>` → `S';P'` after Auer's discarding + pareto_updating, by design
* `geomrect`, `geomelldom`, `geomballcov`, `ellcov` — the exact-geometry ops documented in `Drv/C02.lean`
* `aroundpos <eps> <S> <P> <centres> <rows>`→ the same as the ORIGINAL code ran it: `rows` aligned with `S`
  before discarding (`|rows| = |S|`) and re-read by position after `S` shrank
-/
namespace VOPy.Drv.C03
open VOPy VOPy.Proto VOPy.Steps VOPy.Drv.C02

def handle (args : List String) : String :=
  match geomHandle args with
  | some ans => ans
  | none =>
  match args with
  | ["pareto", s, p, u, n, c] =>
    match parseTable n c with
    | some (n, cov) =>
      match parseSet n s, parseSet n p, parseSet n u with
      | some S, some P, some U => let r := pavebaPareto cov S P U; fmtPair r.1 r.2
      | _, _, _ => bad
    | none => bad
  | ["useful", s, p, n, c] =>
    match parseTable n c with
    | some (n, cov) =>
      match parseSet n s, parseSet n p with
      | some S, some P => fmtNats (sortNat (pavebaUseful cov S P))
      | _, _ => bad
    | none => bad
  | ["round", s, p, u, n, d, c] =>
    match parseTable n d, parseTable n c with
    | some (n, dom), some (n', cov) =>
      if n ≠ n' then bad else
      match parseSet n s, parseSet n p, parseSet n u with
      | some S, some P, some U =>
        let r := pavebaRound dom cov S P U
        fmtPair r.1 r.2.1 ++ ";" ++ fmtNats (sortNat r.2.2)
      | _, _, _ => bad
    | _, _ => bad
  | ["cover", s, p, n, c] =>
    match parseTable n c with
    | some (n, cov) =>
      match parseSet n s, parseSet n p with
      | some S, some P => let r := epsilonCovering cov S P; fmtPair r.1 r.2
      | _, _ => bad
    | none => bad
  | ["coverad", s, p, n, c, dp, md, en] =>
    match parseTable n c, parseNats dp, md.toNat?, parseBool en with
    | some (n, cov), some D, some maxD, some e =>
      if D.length ≠ n then bad else
      match parseSet n s, parseSet n p with
      | some S, some P =>
        let r := epsilonCoveringAD cov (fun i => D.getD i 0) maxD e S P
        fmtPair r.1 r.2.1 ++ ";" ++ fmtBool r.2.2
      | _, _ => bad
    | _, _, _, _ => bad
  | ["vround", s, p, n, d, c, t] =>
    match parseTable n d, parseTable n c, parseTable n t with
    | some (n, dom), some (n', cov), some (n'', pd) =>
      if n ≠ n' || n ≠ n'' then bad else
      match parseSet n s, parseSet n p with
      | some S, some P => let r := vogpRound dom cov pd S P; fmtPair r.1 r.2
      | _, _ => bad
    | _, _, _ => bad
  | [op, e, s, p, c, w] =>
    match parseRat e, parseRows c, parseRows w with
    | some eps, some C, some Wd =>
      if !sameDim C Wd then bad else
      match parseSet C.length s, parseSet C.length p with
      | some S, some P =>
        if op = "auer" then
          if C.length ≠ Wd.length then bad else
          let r := auerPareto eps (rowFn C) (rowFn Wd) S P; fmtPair r.1 r.2
        else if op = "around" then
          if C.length ≠ Wd.length then bad else
          let r := auerRound eps (rowFn C) (rowFn Wd) S P; fmtPair r.1 r.2
        else if op = "auerpos" then
          if Wd.length < S.length then bad else
          let r := auerParetoPos eps (rowFn C) Wd S P; fmtPair r.1 r.2
        else if op = "aroundpos" then
          if Wd.length ≠ S.length then bad else
          let r := auerRoundPos eps (rowFn C) Wd S P; fmtPair r.1 r.2
        else bad
      | _, _ => bad
    | _, _, _ => bad
  | _ => bad

end VOPy.Drv.C03
