import VOPyVerif.Drv.Proto
import VOPyVerif.Model.Eval
/-! Driver front end for property C19 (gaps, ε-coverage, ε-F1).

Arguments: `<v>` vector, `<M>` matrix, `<q>` rational, `<I>` nat list (see `Drv/Proto.lean`).

* `smallm  <vi> <vj> <W> <alpha>` → `Eval.smallM` (flat `alpha_vec`): rational, or `ValueError`
* `smallmb <vi> <vj> <W> <alpha>` → `Eval.smallMB` (`(N,1)` column `alpha_vec`, numpy broadcast)
* `delta   <mu> <W> <alpha>`      → `Eval.delta`  : vector, or `ValueError`
* `deltab  <mu> <W> <alpha>`      → `Eval.deltaB` : vector, or `ValueError`
* `dist2   <vi> <vj> <W>`         → `d2 <q> <y> <lam>` (certified squared distance to the covering
                                     polyhedron), `infeasible <lam>` (certified empty) or `unknown`
* `iscov   <vi> <vj> <eps> <W>`   → `1` / `0` / `unknown`  (`Eval.isCoveredPt`)
* `kkt     <W> <b> <y> <lam>`     → `ok` / `fail` (`Eval.checkKKT` with `D = y.length`)
* `uncset  <P> <Phat> <mu> <eps> <W>` → nat list (`get_uncovered_set`), `IndexError`, `unknown`
* `uncsize <pts> <hat> <eps> <W>` → nat (`get_uncovered_size` on point arrays) or `unknown`
* `f1      <mu> <W> <alpha> <truth> <pred> <eps>` → rational, `nan`, `unknown`, `ValueError`,
                                     `IndexError`  (`Eval.f1`: gaps of the geometric definition)
* `f1b     …same…`                → `Eval.f1B` (gaps as the code computes them with the column α)
* `f1d     <mu> <W> <delta> <truth> <pred> <eps>` → score from a given gap vector
* `f1parts <mu> <W> <delta> <truth> <pred> <eps>` → `tp,fp,unc` or `unknown` / `IndexError`
-/
namespace VOPy.Drv.C19
open VOPy VOPy.Proto VOPy.Eval

def fmtOptRat : Option Rat → String
  | some q => fmtRat q
  | none => "ValueError"

def fmtOptVec : Option Vec → String
  | some v => fmtVec v
  | none => "ValueError"

def fmtF1 : F1Res → String
  | .val q => fmtRat q
  | .nan => "nan"
  | .unknown => "unknown"
  | .valueError => "ValueError"

def inRange (n : Nat) (l : List Nat) : Bool := l.all (· < n)

def handle (args : List String) : String :=
  match args with
  | ["smallm", vi, vj, w, a] =>
    match parseVec vi, parseVec vj, parseMat w, parseVec a with
    | some vi, some vj, some W, some α => fmtOptRat (smallM vi vj W α)
    | _, _, _, _ => bad
  | ["smallmb", vi, vj, w, a] =>
    match parseVec vi, parseVec vj, parseMat w, parseVec a with
    | some vi, some vj, some W, some α => fmtOptRat (smallMB vi vj W α)
    | _, _, _, _ => bad
  | ["delta", mu, w, a] =>
    match parseMat mu, parseMat w, parseVec a with
    | some mu, some W, some α => fmtOptVec (delta mu W α)
    | _, _, _ => bad
  | ["deltab", mu, w, a] =>
    match parseMat mu, parseMat w, parseVec a with
    | some mu, some W, some α => fmtOptVec (deltaB mu W α)
    | _, _, _ => bad
  | ["dist2", vi, vj, w] =>
    match parseVec vi, parseVec vj, parseMat w with
    | some vi, some vj, some W =>
      match coverSolve vi vj W with
      | .dist2 d y lam => s!"d2 {fmtRat d} {fmtVec y} {fmtVec lam}"
      | .infeasible lam => s!"infeasible {fmtVec lam}"
      | .unknown => "unknown"
    | _, _, _ => bad
  | ["iscov", vi, vj, e, w] =>
    match parseVec vi, parseVec vj, parseRat e, parseMat w with
    | some vi, some vj, some ε, some W =>
      match isCoveredPt vi vj ε W with
      | some b => fmtBool b
      | none => "unknown"
    | _, _, _, _ => bad
  | ["kkt", w, b, y, l] =>
    match parseMat w, parseVec b, parseVec y, parseVec l with
    | some W, some b, some y, some lam => if checkKKT y.length W b y lam then "ok" else "fail"
    | _, _, _, _ => bad
  | ["uncset", p, ph, mu, e, w] =>
    match parseNats p, parseNats ph, parseMat mu, parseRat e, parseMat w with
    | some P, some Ph, some mu, some ε, some W =>
      if !(inRange mu.length P && inRange mu.length Ph) then "IndexError" else
      match uncoveredSet (covIdx mu ε W) P Ph with
      | some l => fmtNats l
      | none => "unknown"
    | _, _, _, _, _ => bad
  | ["uncsize", p, ph, e, w] =>
    match parseMat p, parseMat ph, parseRat e, parseMat w with
    | some P, some Ph, some ε, some W =>
      match uncoveredSize (covPt ε W) P Ph with
      | some n => toString n
      | none => "unknown"
    | _, _, _, _ => bad
  | ["f1", mu, w, a, t, p, e] =>
    match parseMat mu, parseMat w, parseVec a, parseNats t, parseNats p, parseRat e with
    | some mu, some W, some α, some T, some P, some ε =>
      if !(inRange mu.length T && inRange mu.length P) then "IndexError" else
      fmtF1 (f1 mu W α T P ε)
    | _, _, _, _, _, _ => bad
  | ["f1b", mu, w, a, t, p, e] =>
    match parseMat mu, parseMat w, parseVec a, parseNats t, parseNats p, parseRat e with
    | some mu, some W, some α, some T, some P, some ε =>
      if !(inRange mu.length T && inRange mu.length P) then "IndexError" else
      fmtF1 (f1B mu W α T P ε)
    | _, _, _, _, _, _ => bad
  | ["f1d", mu, w, d, t, p, e] =>
    match parseMat mu, parseMat w, parseVec d, parseNats t, parseNats p, parseRat e with
    | some mu, some W, some ds, some T, some P, some ε =>
      if !(inRange mu.length T && inRange mu.length P) then "IndexError" else
      fmtF1 (f1FromDelta mu W (some ds) T P ε)
    | _, _, _, _, _, _ => bad
  | ["f1parts", mu, w, d, t, p, e] =>
    match parseMat mu, parseMat w, parseVec d, parseNats t, parseNats p, parseRat e with
    | some mu, some W, some ds, some T, some P, some ε =>
      if !(inRange mu.length T && inRange mu.length P) then "IndexError" else
      match f1Counts (covIdx mu ε W) (goodIdx ds ε) T P with
      | some (tp, fp, unc) => s!"{tp},{fp},{unc}"
      | none => "unknown"
    | _, _, _, _, _, _ => bad
  | _ => bad

end VOPy.Drv.C19
