import VOPyVerif.Drv.Proto
import VOPyVerif.Model.RegionUpdate
/-! Driver front end for property C14 (confidence-region updates).

* `rect <tau> <lower> <upper> <iter> <mean> <std> <scale>` — one `Rect.update` on the rectangle
  `(lower, upper, intersect_iteratively = iter)` with prediction `(mean, std)` (covariance only needs to
  be square here) and one scale row.  Answer `ok <lower'> <upper'> <b>` where `b = 1` iff the
  intersection test is borderline at slack `tau` (it flips when moved by `±tau`), or `ValueError`.
* `seq <R|E> <m> <n0> <tau> <ops>` — replays a sequence of calls on a design space of `n0` fresh
  regions (`R` rectangles / `E` ellipsoids) of dimension `m` with `Region.update` (the function the
  theorems are about).  `<ops>` is `@`-separated:
  * `U:<scale>:<idx>:<means>:<stds>:<covs>` — `update(model, scale, idx)`, where the model's prediction
    on the full design matrix is `means` (matrix, row `i` = design `i`), `stds` (matrix,
    `sqrt(diag cov)` per design) and `covs` (`|`-separated matrices); `<scale>` is `s=<q>` (0-d),
    `v=<vec>` (1-D), `m=<mat>` (2-D) or `o` (more than two axes);
  * `R:<i>:<k>` — `generate_child_designs(i)` creating `k` children;
  * `I:<b>:<idx>` — set `intersect_iteratively = b` on the listed regions.
  Answer: one token per op, separated by spaces: `<status>#<fuzzy>#<state>` with `<status>` `ok` or the
  exception name, `<fuzzy>` one bit per region (1 = some intersection decision that shaped the
  region's current value was borderline at slack `tau`), and `<state>` = `<lowers>#<uppers>` (matrices,
  one row per region) for rectangles, `<centers>#<alphas>#<sigmas>` for ellipsoids.
-/
namespace VOPy.Drv.C14
open VOPy VOPy.Proto VOPy.Region

def fmtMats (l : List Mat) : String := fmtList "|" fmtMat l

def parseScale (s : String) : Option Scale :=
  match s.splitOn "=" with
  | ["o"] => some .other
  | ["s", q] => (parseRat q).map .scalar
  | ["v", v] => (parseVec v).map .vec
  | ["m", m] => (parseMat m).map .mat
  | _ => none

def mkTable : List Vec → List Vec → List Mat → Option (List Pred)
  | [], [], [] => some []
  | m :: ms, s :: ss, c :: cs => (mkTable ms ss cs).map ({ mean := m, cov := c, std := s } :: ·)
  | _, _, _ => none

def parseCmd (s : String) : Option Op :=
  match s.splitOn ":" with
  | ["U", sc, idx, means, stds, covs] => do
    let sc ← parseScale sc
    let idx ← parseNats idx
    let ms ← parseMat means
    let ss ← parseMat stds
    let cs ← parseMats covs
    let t ← mkTable ms ss cs
    pure (.upd t sc idx)
  | ["R", i, k] => do
    let i ← i.toNat?
    let k ← k.toNat?
    pure (.refine i k)
  | ["I", b, idx] => do
    let b ← parseBool b
    let idx ← parseNats idx
    pure (.setIter b idx)
  | _ => none

def fmtState (regs : List Region) : String :=
  let rects := regs.filterMap (fun r => match r with | .rect q => some q | _ => none)
  let ells := regs.filterMap (fun r => match r with | .ell e => some e | _ => none)
  if ells.isEmpty then fmtMat (rects.map (·.lower)) ++ "#" ++ fmtMat (rects.map (·.upper))
  else fmtMat (ells.map (·.center)) ++ "#" ++ fmtVec (ells.map (·.alpha)) ++ "#" ++ fmtMats (ells.map (·.sigma))

/-- stepping pass that only tracks which regions were shaped by a borderline decision -/
def fuzzyLoop (τ : Rat) : List Region → List Bool → List (Nat × Pred × Vec) → List Bool
  | _, fz, [] => fz
  | regs, fz, (i, p, s) :: rest =>
    match regs[i]? with
    | none => fz
    | some r =>
      match r.update p s with
      | .error _ => fz
      | .ok r' =>
        let fz' := match r, bounds p.mean p.std s with
          | .rect q, some (L, U) =>
            if q.iter then (if borderline τ q.lower q.upper L U then fz.set i true else fz)
            else fz.set i false
          | _, _ => fz
        fuzzyLoop τ (regs.set i r') fz' rest

def fuzzyUpd (τ : Rat) (regs : List Region) (fz : List Bool) (table : List Pred) (sc : Scale)
    (idx : List Nat) : List Bool :=
  match scaleRows sc idx.length, lookupAll table idx with
  | some rows, some preds => fuzzyLoop τ regs fz (idx.zip (preds.zip rows))
  | _, _ => fz

def fmtTok (st : String) (fz : List Bool) (regs : List Region) : String :=
  st ++ "#" ++ fmtBools fz ++ "#" ++ fmtState regs

def replay (τ : Rat) : List Region → List Bool → List Op → List String
  | _, _, [] => []
  | regs, fz, o :: rest =>
    let r := step regs o
    let fz' := match o with
      | .upd table sc idx => fuzzyUpd τ regs fz table sc idx
      | .refine i k => if r.2.isNone then fz ++ List.replicate k (fz.getD i false) else fz
      | .setIter _ _ => fz
    fmtTok (match r.2 with | none => "ok" | some e => e.name) fz' r.1 :: replay τ r.1 fz' rest

def handle (args : List String) : String :=
  match args with
  | ["rect", tau, lo, up, it, mean, std, scale] =>
    match parseRat tau, parseVec lo, parseVec up, parseBool it, parseVec mean, parseVec std, parseVec scale with
    | some τ, some lo, some up, some it, some mean, some std, some scale =>
      let r : Rect := { lower := lo, upper := up, iter := it }
      let p : Pred := { mean := mean, cov := identMat std.length, std := std }
      match r.update p scale with
      | .error e => e.name
      | .ok r' =>
        let b := match bounds mean std scale with
          | some (L, U) => it && borderline τ lo up L U
          | none => false
        "ok " ++ fmtVec r'.lower ++ " " ++ fmtVec r'.upper ++ " " ++ fmtBool b
    | _, _, _, _, _, _, _ => bad
  | ["seq", kind, m, n0, tau, ops] =>
    match m.toNat?, n0.toNat?, parseRat tau, parseList "@" parseCmd ops with
    | some m, some n0, some τ, some cmds =>
      let r0 : Option Region := if kind = "R" then some (.rect (Rect.init m))
        else if kind = "E" then some (.ell (Ell.init m)) else none
      match r0 with
      | none => bad
      | some r0 => " ".intercalate (replay τ (List.replicate n0 r0) (List.replicate n0 false) cmds)
    | _, _, _, _ => bad
  | _ => bad

end VOPy.Drv.C14
