import VOPyVerif.Drv.Proto
import VOPyVerif.Model.Steps
import VOPyVerif.Model.Rect
import VOPyVerif.Model.Ellipsoid
import VOPyVerif.Model.Covered
import VOPyVerif.Model.Pessimistic
/-! Driver front end for property C02 (elimination exactly on a confidence-region certificate).

Index sets are comma-separated naturals (`_` = empty) **without duplicates**, in the iteration
order of the Python set (any order is accepted; answers are sorted ascending).  An oracle table is
`<n> <bits>`: `n` designs and the row-major `n·n` string of `0/1`, entry `i·n + j` = the oracle's
answer for the ordered pair `(i, j)` (`_` when `n = 0`).  Every index must be `< n`.
Centres / width rows are matrices (`;`-separated rows of `num/den`), all rows of equal length ≥ 1.

* `paveba <S> <U> <n> <dom>`                 → new `S` of the PaVeBa-family `discarding()`
* `pess <S> <P> <n> <pess>`                  → `compute_pessimistic_set()`; `pess[j][i]` = R_j pess.-dominates R_i
* `vogp <S> <P> <n> <dom> <pess>`            → new `S` of VOGP / VOGP_AD / ε-PAL `discarding()`
* `auer <S> <centres> <widths>`              → new `S` of Auer `discarding()`, `widths` row i = width of design i
* `auerpos <S> <centres> <rows>`             → same, literal mirror: `rows[k]` is read for the k-th element of `S`
* `elim_paveba <S> <P> <U> <n> <dom> <cov>`  → `S − (S' ∪ P')` after discarding + pareto_updating
* `elim_vogp <S> <P> <n> <dom> <cov> <pess>` → `S − (S' ∪ P')` after discarding + epsiloncovering
* `elim_auer <eps> <S> <P> <centres> <widths>` → `S − (S' ∪ P')` after Auer's round, widths by design

**Exact geometry** (real-geometry stream; shared with driver_c03): oracle tables recomputed from the
exported displayed regions by the models of C09 (`Rect.isDominatedTol`, `Ellipsoid.isDominatedTol`),
C10 (`Covered.rectIsCoveredTol`, `ballIsCoveredTol`, `ellVerdict`) and C11 (`Pess.isPtIn`), each
decided twice with the per-facet margin moved by `±tau`.  A table is the row-major `n·n` string over
`1` / `0` (robust: both verdicts agree), `?` (borderline or no certificate), `E` (the code's
`ValueError` slack guard); pairs outside `active` and the diagonal are `0`.

* `geomrect <W> <L> <U> <active> <sdom> <scov> <tau> <pess01>` → `dom|cov|pess` for rectangles
  (`L`, `U`: matrices of lower / upper bounds, one row per design; `pess` is `_` when not requested;
  `pess[j][i]` = `check_dominates(R_j, R_i)`)
* `geomelldom <W> <C> <Sigmas> <alphas> <active> <sdom> <tau>` → `dom` for ellipsoids
  (`Sigmas`: `|`-separated matrices)
* `geomballcov <W> <C> <alphas> <active> <scov> <tau>` → `cov` for balls (Σ = I, PaVeBa)
* `ellcov <W> <c1> <L1> <a1> <c2> <L2> <a2> <slack> <tau> <u1> <u2> <lam>` → `1`/`0`/`inconclusive`/
  `ValueError`: `Covered.ellVerdict` for one pair with per-facet slack `slack + tau` and numerically
  proposed certificates (`L Lᵀ = Σ` exactly; `_` for a missing certificate)
-/
namespace VOPy.Drv.C02
open VOPy VOPy.Proto VOPy.Steps

/-- oracle table: `n` and a bit string of length `n*n` -/
def parseTable (ns bits : String) : Option (Nat × Rel) := do
  let n ← ns.toNat?
  let bs ← parseBools bits
  if bs.length ≠ n * n then none
  else some (n, fun i j => if i < n ∧ j < n then bs.getD (i * n + j) false else false)

def nodupB (l : List Nat) : Bool :=
  match l with
  | [] => true
  | x :: xs => !xs.contains x && nodupB xs

/-- a valid index set below `n` -/
def parseSet (n : Nat) (s : String) : Option (List Nat) := do
  let l ← parseNats s
  if nodupB l && l.all (· < n) then some l else none

/-- matrix with rows of one common length ≥ 1 -/
def parseRows (s : String) : Option (List Vec) := do
  let m ← parseMat s
  match m with
  | [] => some []
  | r :: _ => if r.length ≥ 1 && m.all (fun x => x.length == r.length) then some m else none

def rowFn (m : List Vec) : Nat → Vec := fun i => m.getD i []

def fmtPair (a b : List Nat) : String := fmtNats (sortNat a) ++ ";" ++ fmtNats (sortNat b)

def sameDim (a b : List Vec) : Bool :=
  match a, b with
  | x :: _, y :: _ => x.length == y.length
  | _, _ => true

/-! ## exact geometry tables -/

/-- three-valued entry from the two band verdicts -/
def tri (a b : Option Bool) : Char :=
  match a, b with
  | some true, some true => '1'
  | some false, some false => '0'
  | _, _ => '?'

def verdictB : Covered.Verdict → Option Bool
  | .yes => some true
  | .no => some false
  | .inconclusive => none

/-- `check_dominates(R₁, R₂)` (exact-arithmetic model of C11) with every facet coordinate of the
tested vertices of `R₁` moved by `t`; monotone in `t`, `t = 0` is `Pess.checkDominates`. -/
def checkDomTol (W : Mat) (l1 u1 l2 u2 : Vec) (t : Rat) : Bool :=
  let verts1 := (Pess.vertices l1 u1).map (matVec W)
  let verts2 := (Pess.vertices l2 u2).map (matVec W)
  verts1.all fun p => Pess.isPtIn Pess.exact false (p.map (· + t)) verts2

def triTable (n : Nat) (active : List Nat) (f : Nat → Nat → Char) : String :=
  if n = 0 then "_" else
  String.ofList ((List.range (n * n)).map fun k =>
    let i := k / n
    let j := k % n
    if i != j && active.contains i && active.contains j then f i j else '0')

def rectTables (W : Mat) (L U : List Vec) (active : List Nat) (sdom scov : Vec) (tau : Rat)
    (wantPess : Bool) : String :=
  let n := L.length
  let get := fun (M : List Vec) i => M.getD i []
  let m := Covered.ncols W
  let dom := triTable n active fun i j =>
    match Rect.expandSlack m sdom with
    | none => 'E'
    | some s =>
      tri (some (Rect.isDominatedTol W (get L i) (get U i) (get L j) (get U j) s tau))
          (some (Rect.isDominatedTol W (get L i) (get U i) (get L j) (get U j) s (-tau)))
  let cov := triTable n active fun i j =>
    match Covered.rectIsCoveredTol W (get L i) (get U i) (get L j) (get U j) scov tau,
          Covered.rectIsCoveredTol W (get L i) (get U i) (get L j) (get U j) scov (-tau) with
    | some a, some b => tri (verdictB a) (verdictB b)
    | _, _ => 'E'
  let pess := if wantPess then triTable n active fun i j =>
      let a := checkDomTol W (get L i) (get U i) (get L j) (get U j) tau
      let b := checkDomTol W (get L i) (get U i) (get L j) (get U j) (-tau)
      if a == b then (if a then '1' else '0')
      else if get L i == get L j then
        -- identical lower corners (twin designs): the verdict sits ON the boundary by identity, not by a
        -- numerical accident; it is robust when the exact model and the binary64 mirror of the code agree
        let e := checkDomTol W (get L i) (get U i) (get L j) (get U j) 0
        let f := Pess.checkDominatesR Pess.r64 true W (get L i) (get U i) (get L j) (get U j)
        if e == f then (if e then '1' else '0') else '?'
      else '?'
    else "_"
  dom ++ "|" ++ cov ++ "|" ++ pess

def ellDomTable (W : Mat) (C : List Vec) (S : List Mat) (A : Vec) (active : List Nat) (sdom : Vec)
    (tau : Rat) : String :=
  triTable C.length active fun i j =>
    match Ellipsoid.expandSlack W.length sdom with
    | none => 'E'
    | some s =>
      tri (some (Ellipsoid.isDominatedTol W (C.getD i []) (S.getD i []) (A.getD i 0)
            (C.getD j []) (S.getD j []) (A.getD j 0) s tau))
          (some (Ellipsoid.isDominatedTol W (C.getD i []) (S.getD i []) (A.getD i 0)
            (C.getD j []) (S.getD j []) (A.getD j 0) s (-tau)))

def ballCovTable (W : Mat) (C : List Vec) (A : Vec) (active : List Nat) (scov : Vec) (tau : Rat) :
    String :=
  triTable C.length active fun i j =>
    match Covered.ballIsCoveredTol W (C.getD i []) (A.getD i 0) (C.getD j []) (A.getD j 0) scov tau,
          Covered.ballIsCoveredTol W (C.getD i []) (A.getD i 0) (C.getD j []) (A.getD j 0) scov (-tau) with
    | some a, some b => tri (verdictB a) (verdictB b)
    | _, _ => 'E'

/-- the geometry ops (shared by driver_c02 and driver_c03); `none` = not a geometry op -/
def geomHandle (args : List String) : Option String :=
  match args with
  | ["geomrect", w, l, u, a, sd, sc, t, p] =>
    some (match parseMat w, parseMat l, parseMat u, parseNats a, parseVec sd, parseVec sc, parseRat t,
        parseBool p with
    | some W, some L, some U, some act, some sd, some sc, some tau, some wp =>
      if L.length ≠ U.length || !act.all (· < L.length) then bad
      else rectTables W L U act sd sc tau wp
    | _, _, _, _, _, _, _, _ => bad)
  | ["geomelldom", w, c, sg, al, a, sd, t] =>
    some (match parseMat w, parseMat c, parseMats sg, parseVec al, parseNats a, parseVec sd, parseRat t with
    | some W, some C, some S, some A, some act, some sd, some tau =>
      if C.length ≠ S.length || C.length ≠ A.length || !act.all (· < C.length) then bad
      else ellDomTable W C S A act sd tau
    | _, _, _, _, _, _, _ => bad)
  | ["geomballcov", w, c, al, a, sc, t] =>
    some (match parseMat w, parseMat c, parseVec al, parseNats a, parseVec sc, parseRat t with
    | some W, some C, some A, some act, some sc, some tau =>
      if C.length ≠ A.length || !act.all (· < C.length) then bad
      else ballCovTable W C A act sc tau
    | _, _, _, _, _, _ => bad)
  | ["ellcov", w, c1, l1, a1, c2, l2, a2, s, tau, u1, u2, lam] =>
    some (match parseMat w, parseVec c1, parseMat l1, parseRat a1, parseVec c2, parseMat l2, parseRat a2 with
    | some W, some c1, some L1, some a1, some c2, some L2, some a2 =>
      match parseVec s, parseRat tau, parseVec u1, parseVec u2, parseVec lam with
      | some s, some tau, some u1, some u2, some lam =>
        match Covered.expandSlack W.length s with
        | none => "ValueError"
        | some t => (Covered.ellVerdict W c1 L1 a1 c2 L2 a2 (t.map (· + tau)) u1 u2 lam).toString
      | _, _, _, _, _ => bad
    | _, _, _, _, _, _, _ => bad)
  | _ => none

def handle (args : List String) : String :=
  match geomHandle args with
  | some ans => ans
  | none =>
  match args with
  | ["paveba", s, u, n, d] =>
    match parseTable n d with
    | some (n, dom) =>
      match parseSet n s, parseSet n u with
      | some S, some U => fmtNats (sortNat (pavebaDiscard dom S U))
      | _, _ => bad
    | none => bad
  | ["pess", s, p, n, t] =>
    match parseTable n t with
    | some (n, pd) =>
      match parseSet n s, parseSet n p with
      | some S, some P => fmtNats (sortNat (pessimisticSet pd S P))
      | _, _ => bad
    | none => bad
  | ["vogp", s, p, n, d, t] =>
    match parseTable n d, parseTable n t with
    | some (n, dom), some (n', pd) =>
      if n ≠ n' then bad else
      match parseSet n s, parseSet n p with
      | some S, some P => fmtNats (sortNat (vogpDiscard dom pd S P))
      | _, _ => bad
    | _, _ => bad
  | ["auer", s, c, w] =>
    match parseRows c, parseRows w with
    | some C, some Wd =>
      if C.length ≠ Wd.length || !sameDim C Wd then bad else
      match parseSet C.length s with
      | some S => fmtNats (sortNat (auerDiscard (rowFn C) (rowFn Wd) S))
      | none => bad
    | _, _ => bad
  | ["auerpos", s, c, r] =>
    match parseRows c, parseRows r with
    | some C, some R =>
      if !sameDim C R then bad else
      match parseSet C.length s with
      | some S => if S.length ≠ R.length then bad
                  else fmtNats (sortNat (auerDiscardPos (rowFn C) R S))
      | none => bad
    | _, _ => bad
  | ["elim_paveba", s, p, u, n, d, c] =>
    match parseTable n d, parseTable n c with
    | some (n, dom), some (n', cov) =>
      if n ≠ n' then bad else
      match parseSet n s, parseSet n p, parseSet n u with
      | some S, some P, some U =>
        let r := pavebaRound dom cov S P U
        fmtNats (sortNat (S.filter (fun i => !r.1.contains i && !r.2.1.contains i)))
      | _, _, _ => bad
    | _, _ => bad
  | ["elim_vogp", s, p, n, d, c, t] =>
    match parseTable n d, parseTable n c, parseTable n t with
    | some (n, dom), some (n', cov), some (n'', pd) =>
      if n ≠ n' || n ≠ n'' then bad else
      match parseSet n s, parseSet n p with
      | some S, some P =>
        let r := vogpRound dom cov pd S P
        fmtNats (sortNat (S.filter (fun i => !r.1.contains i && !r.2.contains i)))
      | _, _ => bad
    | _, _, _ => bad
  | ["elim_auer", e, s, p, c, w] =>
    match parseRat e, parseRows c, parseRows w with
    | some eps, some C, some Wd =>
      if C.length ≠ Wd.length || !sameDim C Wd then bad else
      match parseSet C.length s, parseSet C.length p with
      | some S, some P =>
        let r := auerRound eps (rowFn C) (rowFn Wd) S P
        fmtNats (sortNat (S.filter (fun i => !r.1.contains i && !r.2.contains i)))
      | _, _ => bad
    | _, _, _ => bad
  | _ => bad

end VOPy.Drv.C02
