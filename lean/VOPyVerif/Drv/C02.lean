import VOPyVerif.Drv.Proto
import VOPyVerif.Model.Steps
/-! Driver front end for property C02 (elimination exactly on a confidence-region certificate).

Index sets are comma-separated naturals (`_` = empty) **without duplicates**, in the iteration
order of the Python set (any order is accepted; answers are sorted ascending).  An oracle table is
`<n> <bits>`: `n` designs and the row-major `n·n` string of `0/1`, entry `i·n + j` = the oracle's
answer for the ordered pair `(i, j)` (`_` when `n = 0`).  Every index must be `< n`.
Centres / width rows are matrices (`;`-separated rows of `num/den`), all rows of equal length ≥ 1.

* `paveba <S> <U> <n> <dom>`                 → new `S` of the PaVeBa-family `discarding()`
* `pess <S> <P> <n> <pess>`                  → `compute_pessimistic_set()`; `pess[j][i]` = R_j pess.-dominates R_i
* `vogp <S> <P> <n> <dom> <pess>`            → new `S` of VOGP / VOGP_AD / ε-PAL `discarding()`
* `auer <S> <centres> <widths>`              → new `S` of Auer `discarding()`, `widths` row i = width of design i
* `auerpos <S> <centres> <rows>`             → same, literal mirror: `rows[k]` is read for the k-th element of `S`
* `elim_paveba <S> <P> <U> <n> <dom> <cov>`  → `S − (S' ∪ P')` after discarding + pareto_updating
* `elim_vogp <S> <P> <n> <dom> <cov> <pess>` → `S − (S' ∪ P')` after discarding + epsiloncovering
* `elim_auer <eps> <S> <P> <centres> <widths>` → `S − (S' ∪ P')` after Auer's round, widths by design
-/
namespace VOPy.Drv.C02
open VOPy VOPy.Proto VOPy.Steps

/-- oracle table: `n` and a bit string of length `n*n` -/
def parseTable (ns bits : String) : Option (Nat × Rel) := do
  let n ← ns.toNat?
  let bs ← parseBools bits
  if bs.length ≠ n * n then none
  else some (n, fun i j => if i < n ∧ j < n then bs.getD (i * n + j) false else false)

def nodupB (l : List Nat) : Bool :=
  match l with
  | [] => true
  | x :: xs => !xs.contains x && nodupB xs

/-- a valid index set below `n` -/
def parseSet (n : Nat) (s : String) : Option (List Nat) := do
  let l ← parseNats s
  if nodupB l && l.all (· < n) then some l else none

/-- matrix with rows of one common length ≥ 1 -/
def parseRows (s : String) : Option (List Vec) := do
  let m ← parseMat s
  match m with
  | [] => some []
  | r :: _ => if r.length ≥ 1 && m.all (fun x => x.length == r.length) then some m else none

def rowFn (m : List Vec) : Nat → Vec := fun i => m.getD i []

def fmtPair (a b : List Nat) : String := fmtNats (sortNat a) ++ ";" ++ fmtNats (sortNat b)

def sameDim (a b : List Vec) : Bool :=
  match a, b with
  | x :: _, y :: _ => x.length == y.length
  | _, _ => true

def handle (args : List String) : String :=
  match args with
  | ["paveba", s, u, n, d] =>
    match parseTable n d with
    | some (n, dom) =>
      match parseSet n s, parseSet n u with
      | some S, some U => fmtNats (sortNat (pavebaDiscard dom S U))
      | _, _ => bad
    | none => bad
  | ["pess", s, p, n, t] =>
    match parseTable n t with
    | some (n, pd) =>
      match parseSet n s, parseSet n p with
      | some S, some P => fmtNats (sortNat (pessimisticSet pd S P))
      | _, _ => bad
    | none => bad
  | ["vogp", s, p, n, d, t] =>
    match parseTable n d, parseTable n t with
    | some (n, dom), some (n', pd) =>
      if n ≠ n' then bad else
      match parseSet n s, parseSet n p with
      | some S, some P => fmtNats (sortNat (vogpDiscard dom pd S P))
      | _, _ => bad
    | _, _ => bad
  | ["auer", s, c, w] =>
    match parseRows c, parseRows w with
    | some C, some Wd =>
      if C.length ≠ Wd.length || !sameDim C Wd then bad else
      match parseSet C.length s with
      | some S => fmtNats (sortNat (auerDiscard (rowFn C) (rowFn Wd) S))
      | none => bad
    | _, _ => bad
  | ["auerpos", s, c, r] =>
    match parseRows c, parseRows r with
    | some C, some R =>
      if !sameDim C R then bad else
      match parseSet C.length s with
      | some S => if S.length ≠ R.length then bad
                  else fmtNats (sortNat (auerDiscardPos (rowFn C) R S))
      | none => bad
    | _, _ => bad
  | ["elim_paveba", s, p, u, n, d, c] =>
    match parseTable n d, parseTable n c with
    | some (n, dom), some (n', cov) =>
      if n ≠ n' then bad else
      match parseSet n s, parseSet n p, parseSet n u with
      | some S, some P, some U =>
        let r := pavebaRound dom cov S P U
        fmtNats (sortNat (S.filter (fun i => !r.1.contains i && !r.2.1.contains i)))
      | _, _, _ => bad
    | _, _ => bad
  | ["elim_vogp", s, p, n, d, c, t] =>
    match parseTable n d, parseTable n c, parseTable n t with
    | some (n, dom), some (n', cov), some (n'', pd) =>
      if n ≠ n' || n ≠ n'' then bad else
      match parseSet n s, parseSet n p with
      | some S, some P =>
        let r := vogpRound dom cov pd S P
        fmtNats (sortNat (S.filter (fun i => !r.1.contains i && !r.2.contains i)))
      | _, _ => bad
    | _, _, _ => bad
  | ["elim_auer", e, s, p, c, w] =>
    match parseRat e, parseRows c, parseRows w with
    | some eps, some C, some Wd =>
      if C.length ≠ Wd.length || !sameDim C Wd then bad else
      match parseSet C.length s, parseSet C.length p with
      | some S, some P =>
        let r := auerRound eps (rowFn C) (rowFn Wd) S P
        fmtNats (sortNat (S.filter (fun i => !r.1.contains i && !r.2.contains i)))
      | _, _ => bad
    | _, _, _ => bad
  | _ => bad

end VOPy.Drv.C02
