/-! Shared stdin→stdout loop of the per-property line-protocol drivers (import-free). -/
namespace VOPy.Drv

partial def loop (tag : String) (handle : List String → String) (hin hout : IO.FS.Stream) : IO Unit := do
  let line ← hin.getLine
  if line.isEmpty then return ()
  let ans :=
    match line.trimAscii.toString.splitOn " " with
    | ["ping"] => "pong"
    | t :: a => if t = tag then handle a else "bad-op"
    | _ => "bad-op"
  hout.putStrLn ans
  hout.flush
  loop tag handle hin hout

def run (tag : String) (handle : List String → String) : IO Unit := do
  loop tag handle (← IO.getStdin) (← IO.getStdout)

end VOPy.Drv
