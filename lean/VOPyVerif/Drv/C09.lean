import VOPyVerif.Drv.Proto
import VOPyVerif.Model.Rect
import VOPyVerif.Model.Ellipsoid
import VOPyVerif.Model.RegionUpdate
/-! Driver front end for property C09 ("is dominated" for rectangles and ellipsoids).

Slack arguments are the flattened slack array (`np.array(slackness).ravel()`): one entry for a
scalar.  Answers `1` / `0` for booleans, `ValueError` where the model's guard rejects the slack.

* `verts <l> <u>`                               → matrix `Rect.vertices l u`
* `rect <W> <l1> <u1> <l2> <u2> <s>`            → `Rect.isDominatedChecked` (`1`/`0`/`ValueError`)
* `recttol <W> <l1> <u1> <l2> <u2> <s> <t>`     → guard, then `Rect.isDominatedTol … t`
* `sqrtineq <p> <b> <c> <d>`                    → `Ellipsoid.sqrtIneq p b c d`
* `ell <W> <c1> <S1> <a1> <c2> <S2> <a2> <s>`   → `Ellipsoid.isDominatedChecked`
* `intersect <l> <u> <L> <U>`                    → `lower;upper` of `Region.Rect.intersect` (the C14 model of
  `RectangularConfidenceRegion.intersect`: componentwise max/min when the boxes overlap, else the new box);
  used to track the bounds a region SHOULD display in the shared-array history stream
* `elltol <W> <c1> <S1> <a1> <c2> <S2> <a2> <s> <t>` → guard, then `Ellipsoid.isDominatedTol … t`
-/
namespace VOPy.Drv.C09
open VOPy VOPy.Proto

def fmtOB : Option Bool → String
  | some b => fmtBool b
  | none => "ValueError"

def handle (args : List String) : String :=
  match args with
  | ["verts", l, u] =>
    match parseVec l, parseVec u with
    | some l, some u => fmtMat (Rect.vertices l u)
    | _, _ => bad
  | ["rect", w, l1, u1, l2, u2, s] =>
    match parseMat w, parseVec l1, parseVec u1, parseVec l2, parseVec u2, parseVec s with
    | some W, some l1, some u1, some l2, some u2, some s =>
      fmtOB (Rect.isDominatedChecked W l1 u1 l2 u2 s)
    | _, _, _, _, _, _ => bad
  | ["recttol", w, l1, u1, l2, u2, s, t] =>
    match parseMat w, parseVec l1, parseVec u1, parseVec l2, parseVec u2, parseVec s, parseRat t with
    | some W, some l1, some u1, some l2, some u2, some s, some t =>
      fmtOB ((Rect.expandSlack l1.length s).map fun s => Rect.isDominatedTol W l1 u1 l2 u2 s t)
    | _, _, _, _, _, _, _ => bad
  | ["intersect", l, u, l', u'] =>
    match parseVec l, parseVec u, parseVec l', parseVec u' with
    | some l, some u, some L, some U =>
      let r := Region.Rect.intersect { lower := l, upper := u, iter := true } L U
      fmtMat [r.lower, r.upper]
    | _, _, _, _ => bad
  | ["sqrtineq", p, b, c, d] =>
    match parseRat p, parseRat b, parseRat c, parseRat d with
    | some p, some b, some c, some d => fmtBool (Ellipsoid.sqrtIneq p b c d)
    | _, _, _, _ => bad
  | ["ell", w, c1, s1, a1, c2, s2, a2, s] =>
    match parseMat w, parseVec c1, parseMat s1, parseRat a1, parseVec c2, parseMat s2, parseRat a2,
        parseVec s with
    | some W, some c1, some S1, some a1, some c2, some S2, some a2, some s =>
      fmtOB (Ellipsoid.isDominatedChecked W c1 S1 a1 c2 S2 a2 s)
    | _, _, _, _, _, _, _, _ => bad
  | ["elltol", w, c1, s1, a1, c2, s2, a2, s, t] =>
    match parseMat w, parseVec c1, parseMat s1, parseRat a1, parseVec c2, parseMat s2, parseRat a2,
        parseVec s, parseRat t with
    | some W, some c1, some S1, some a1, some c2, some S2, some a2, some s, some t =>
      fmtOB ((Ellipsoid.expandSlack W.length s).map fun s =>
        Ellipsoid.isDominatedTol W c1 S1 a1 c2 S2 a2 s t)
    | _, _, _, _, _, _, _, _, _ => bad
  | _ => bad

end VOPy.Drv.C09
