import VOPyVerif.Drv.Proto
import VOPyVerif.Model.ConeConst
/-! Driver front end for property C17 (cone constants α, d₁, u*, β).

Certificates are *proposed* by the harness (rationals); every op below *verifies* them with the
checkers of `Model/ConeConst.lean` and answers `inconclusive` when a proposal does not verify
(never a default value).

* `alo  <W> <n> <x>`     → certified lower bound `w_n·x ≤ α_n` (rational) | `inconclusive`
* `ahi  <W> <n> <lam>`   → certified upper bound `α_n ≤ hi ≈ ‖w_n + Wᵀλ‖` | `inconclusive`
* `d1hi <W> <z>`         → certified upper bound `d₁ ≤ hi ≈ ‖z‖`           | `inconclusive`
* `d1lo <W> <lam>`       → certified lower bound `lo ≈ Σλ/‖Wᵀλ‖ ≤ d₁`      | `inconclusive`
* `inband <lo> <hi> <tol> <v>` → `ok` / `fail` : `lo − tol ≤ v ≤ hi + tol`
* `ustar <W> <u> <d> <z> <lam>` → `<n><c><f> <cert>` where `n`,`c`,`f` ∈ {0,1} are
  `unitNormOk u`, `inConeTol W u`, `feasTol W u d` and `<cert>` is `g,e,lo,bound`
  (`bound = 2(e+g)/lo` certified bound on the distance of `u/‖u‖` to `u*`) or `inconclusive`
* `beta <θ>`             → IEEE bit pattern (decimal natural) of `coneBeta θ` at `Float`; θ is the exact
  `num/den` of the Python float
-/
namespace VOPy.Drv.C17
open VOPy VOPy.Proto VOPy.ConeConst

def inconclusive : String := "inconclusive"

def fmtOpt (o : Option Rat) : String :=
  match o with
  | some r => fmtRat r
  | none => inconclusive

def handle (args : List String) : String :=
  match args with
  | ["alo", w, n, x] =>
    match parseMat w, n.toNat?, parseVec x with
    | some W, some n, some x => fmtOpt (alphaLo W n x)
    | _, _, _ => bad
  | ["ahi", w, n, l] =>
    match parseMat w, n.toNat?, parseVec l with
    | some W, some n, some lam => fmtOpt (alphaHi W n lam)
    | _, _, _ => bad
  | ["d1hi", w, z] =>
    match parseMat w, parseVec z with
    | some W, some z => fmtOpt (d1Hi W z)
    | _, _ => bad
  | ["d1lo", w, l] =>
    match parseMat w, parseVec l with
    | some W, some lam => fmtOpt (d1Lo W lam)
    | _, _ => bad
  | ["inband", lo, hi, tol, v] =>
    match parseRat lo, parseRat hi, parseRat tol, parseRat v with
    | some lo, some hi, some tol, some v => if lo - tol ≤ v && v ≤ hi + tol then "ok" else "fail"
    | _, _, _, _ => bad
  | ["ustar", w, u, d, z, l] =>
    match parseMat w, parseVec u, parseRat d, parseVec z, parseVec l with
    | some W, some u, some d, some z, some lam =>
      let flags := fmtBool (unitNormOk u) ++ fmtBool (inConeTol W u) ++ fmtBool (feasTol W u d)
      match ustarCert W u d z lam with
      | some c => flags ++ " " ++ fmtVec [c.1, c.2.1, c.2.2, dirBound c]
      | none => flags ++ " " ++ inconclusive
    | _, _, _, _, _ => bad
  | ["beta", t] =>
    match parseRat t with
    | some q => toString (coneBeta (ratToFloat q)).toBits.toNat
    | none => bad
  | _ => bad

end VOPy.Drv.C17
