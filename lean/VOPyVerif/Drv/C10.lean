import VOPyVerif.Drv.Proto
import VOPyVerif.Model.Covered
/-! Driver front end for property C10 ("is covered").

Verdicts are `1` (covered, certified), `0` (not covered, certified), `inconclusive` (no certificate
accepted by a checker).  `ValueError` mirrors the slack-size guard of the code.  For `rect` and `ball`
`inconclusive` is impossible on well-formed input (`rect_isCovered_iff`, `rect_band_iff`,
`ball_band_iff` in `Props/C10.lean`); the harness asserts this.

* `rect <W> <l1> <u1> <l2> <u2> <slack> <tau>` → `v₊,v₀,v₋` : `Covered.rectIsCoveredTol` with the
  per-facet margin `+tau`, `0`, `−tau` (`v₀` is the model of `RectangularConfidenceRegion.is_covered`),
  or `ValueError`.
* `rectfast <W> <l1> <u1> <l2> <u2> <slack> <tau>` → `v₊,v₀,v₋` of the fast path alone
  (`Covered.rectVerdictFast`: Kohler-pruned search on the reduced system + lifted certificate); an
  `inconclusive` here means `rect` had to take the complete fallback.
* `rectfm <W> <l1> <u1> <l2> <u2> <slack> <tau>` → `1`/`0`/`inconclusive` of the complete fallback alone
  (`LinCert.feasibleFM` on the full LP `rectSys` with margin `tau`), or `ValueError`.
* `rectcert <W> <l1> <u1> <l2> <u2> <slack> <tau>` → the raw certificate of the search on the reduced
  system: `witness <d>` / `farkas <y>` / `ValueError` (re-checked independently by the harness).
* `boxrows <l> <u>` → `<A>|<b>` : the matrix form `A z ≥ b` of the box `[l, u]` exactly as it enters `rectSys`
  (`axisRows m 1 0 l ++ axisRows m (−1) 0 (−u)`, i.e. `A = [I; −I]`, `b = [l; −u]`): the model's mirror of
  `hyperrectangle_get_region_matrix(lower, upper)`.
* `ball <W> <c1> <a1> <c2> <a2> <slack> <tau>` → `v₊,v₀,v₋` : `Covered.ballIsCoveredTol` (Σ = I), or
  `ValueError`.
* `ballproj <W> <c1> <c2> <slack>` → `<x>|<lam>` nearest point of `{d | W d ≥ t}` to `c2 − c1` with
  its KKT multipliers (checked), `none`, or `ValueError`.
* `ell <W> <c1> <L1> <a1> <c2> <L2> <a2> <slack> <tau> <u1> <u2> <lam>` → verdict of
  `Covered.ellVerdict` with per-facet slack `slack + tau` and the proposed certificates
  (`_` for a missing one), or `ValueError`.
* `feasible <n> <A> <b>` → `1`/`0`/`inconclusive` : `LinCert.feasible` (fast, pruned search) for `A x ≥ b`.
* `feasiblefm <n> <A> <b>` → `1`/`0`/`inconclusive` : `LinCert.feasibleFM` (plain Fourier–Motzkin, complete:
  `inconclusive` only if some row does not have `n` coefficients).
* `chkwit <n> <A> <b> <x>`, `chkfarkas <n> <A> <b> <y>`, `chkkkt <n> <A> <b> <c> <x> <lam>` →
  `ok` / `fail` : the three checkers of `Model/LinCert.lean`.
-/
namespace VOPy.Drv.C10
open VOPy VOPy.Proto VOPy.LinCert VOPy.Covered

def mkSys (A : Mat) (b : Vec) : Option Sys :=
  if A.length = b.length then some (List.zipWith (fun a bi => ⟨a, bi⟩) A b) else none

def three (f : Rat → Option Verdict) (tau : Rat) : String :=
  match f tau, f 0, f (-tau) with
  | some a, some b, some c => a.toString ++ "," ++ b.toString ++ "," ++ c.toString
  | _, _, _ => "ValueError"

def optB : Option Bool → String
  | some true => "1"
  | some false => "0"
  | none => "inconclusive"

def rectFastTol (W : Mat) (l1 u1 l2 u2 slack : Vec) (tau : Rat) : Option Verdict :=
  (expandSlack (ncols W) slack).map fun s =>
    rectVerdictFast W l1 u1 l2 u2 s (List.replicate W.length tau)

def okFail (b : Bool) : String := if b then "ok" else "fail"

def handle (args : List String) : String :=
  match args with
  | ["rect", w, l1, u1, l2, u2, s, tau] =>
    match parseMat w, parseVec l1, parseVec u1, parseVec l2, parseVec u2, parseVec s, parseRat tau with
    | some W, some l1, some u1, some l2, some u2, some s, some tau =>
      three (rectIsCoveredTol W l1 u1 l2 u2 s) tau
    | _, _, _, _, _, _, _ => bad
  | ["rectfast", w, l1, u1, l2, u2, s, tau] =>
    match parseMat w, parseVec l1, parseVec u1, parseVec l2, parseVec u2, parseVec s, parseRat tau with
    | some W, some l1, some u1, some l2, some u2, some s, some tau =>
      three (rectFastTol W l1 u1 l2 u2 s) tau
    | _, _, _, _, _, _, _ => bad
  | ["rectfm", w, l1, u1, l2, u2, s, tau] =>
    match parseMat w, parseVec l1, parseVec u1, parseVec l2, parseVec u2, parseVec s, parseRat tau with
    | some W, some l1, some u1, some l2, some u2, some s, some tau =>
      match expandSlack (ncols W) s with
      | none => "ValueError"
      | some sv =>
        optB (feasibleFM (2 * l1.length) (rectSys W l1 u1 l2 u2 sv (List.replicate W.length tau)))
    | _, _, _, _, _, _, _ => bad
  | ["rectcert", w, l1, u1, l2, u2, s, tau] =>
    match parseMat w, parseVec l1, parseVec u1, parseVec l2, parseVec u2, parseVec s, parseRat tau with
    | some W, some l1, some u1, some l2, some u2, some s, some tau =>
      match expandSlack (ncols W) s with
      | none => "ValueError"
      | some sv =>
        match solve l1.length (rectSysD W l1 u1 l2 u2 sv (List.replicate W.length tau)) with
        | .witness d => "witness " ++ fmtVec d
        | .farkas y => "farkas " ++ fmtVec y
    | _, _, _, _, _, _, _ => bad
  | ["boxrows", l, u] =>
    match parseVec l, parseVec u with
    | some l, some u =>
      let rows := axisRows l.length 1 0 l ++ axisRows l.length (-1) 0 (vneg u)
      fmtMat (rows.map (·.a)) ++ "|" ++ fmtVec (rows.map (·.b))
    | _, _ => bad
  | ["ball", w, c1, a1, c2, a2, s, tau] =>
    match parseMat w, parseVec c1, parseRat a1, parseVec c2, parseRat a2, parseVec s, parseRat tau with
    | some W, some c1, some a1, some c2, some a2, some s, some tau =>
      three (ballIsCoveredTol W c1 a1 c2 a2 s) tau
    | _, _, _, _, _, _, _ => bad
  | ["ballproj", w, c1, c2, s] =>
    match parseMat w, parseVec c1, parseVec c2, parseVec s with
    | some W, some c1, some c2, some s =>
      match expandSlack W.length s with
      | none => "ValueError"
      | some t =>
        match nearest c1.length (coneSys W t) (vsub c2 c1) with
        | some (x, lam) => fmtVec x ++ "|" ++ fmtVec lam
        | none => "none"
    | _, _, _, _ => bad
  | ["ell", w, c1, l1, a1, c2, l2, a2, s, tau, u1, u2, lam] =>
    match parseMat w, parseVec c1, parseMat l1, parseRat a1, parseVec c2, parseMat l2, parseRat a2 with
    | some W, some c1, some L1, some a1, some c2, some L2, some a2 =>
      match parseVec s, parseRat tau, parseVec u1, parseVec u2, parseVec lam with
      | some s, some tau, some u1, some u2, some lam =>
        match expandSlack W.length s with
        | none => "ValueError"
        | some t => (ellVerdict W c1 L1 a1 c2 L2 a2 (t.map (· + tau)) u1 u2 lam).toString
      | _, _, _, _, _ => bad
    | _, _, _, _, _, _, _ => bad
  | ["feasible", n, a, b] =>
    match n.toNat?, parseMat a, parseVec b with
    | some n, some A, some b =>
      match mkSys A b with
      | some S => optB (feasible n S)
      | none => bad
    | _, _, _ => bad
  | ["feasiblefm", n, a, b] =>
    match n.toNat?, parseMat a, parseVec b with
    | some n, some A, some b =>
      match mkSys A b with
      | some S => optB (feasibleFM n S)
      | none => bad
    | _, _, _ => bad
  | ["chkwit", n, a, b, x] =>
    match n.toNat?, parseMat a, parseVec b, parseVec x with
    | some n, some A, some b, some x =>
      match mkSys A b with
      | some S => okFail (checkWitness n S x)
      | none => bad
    | _, _, _, _ => bad
  | ["chkfarkas", n, a, b, y] =>
    match n.toNat?, parseMat a, parseVec b, parseVec y with
    | some n, some A, some b, some y =>
      match mkSys A b with
      | some S => okFail (checkFarkas n S y)
      | none => bad
    | _, _, _, _ => bad
  | ["chkkkt", n, a, b, c, x, lam] =>
    match n.toNat?, parseMat a, parseVec b, parseVec c, parseVec x, parseVec lam with
    | some n, some A, some b, some c, some x, some lam =>
      match mkSys A b with
      | some S => okFail (checkKKT n S c x lam)
      | none => bad
    | _, _, _, _, _, _ => bad
  | _ => bad

end VOPy.Drv.C10
