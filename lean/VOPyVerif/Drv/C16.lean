import VOPyVerif.Drv.Proto
import VOPyVerif.Model.Empirical
/-! Driver front end for property C16 (empirical mean/variance model).

* `run <m> <count> <noise> <tm><tv> <ops>` — replays a whole history on `Empirical.init` and answers
  one token per op, separated by single spaces.  `<ops>` is an `@`-separated list of
  * `A:<ints>:<Y>`  `add_sample(indices, Y_t)` (ints: comma-separated integers, `_` = empty; `Y`:
    matrix, one row per sample row, rows may have any length),
  * `C` `clear_data()`, `U` `update()`, `F:<tm><tv>` set the two flags,
  * `P:<ints>` `predict` for these design indices (does not change the state).
  Token: `ok` or the exception name (`ValueError`, `IndexError`, `AttributeError`, `TypeError`);
  for `P`: `ok=<means>=<covs>` with `<means>` a matrix (one row per index) and `<covs>` a
  `|`-separated list of matrices, all exact rationals.
* `stat <m> <noise> <samples>` — `<meanOf>` `<varOf>` of one sample list (matrix, one row per sample):
  the statistics the theorems of `Props/C16.lean` say `predict` reports.
-/
namespace VOPy.Drv.C16
open VOPy VOPy.Proto VOPy.Empirical

def parseInts (s : String) : Option (List Int) := parseList "," String.toInt? s

def fmtMats (l : List Mat) : String := fmtList "|" fmtMat l

def parseFlags (s : String) : Option (Bool × Bool) :=
  match s.toList with
  | [a, b] => do
    let x ← parseBool (String.singleton a)
    let y ← parseBool (String.singleton b)
    pure (x, y)
  | _ => none

inductive Cmd where
  | op (o : Op)
  | pred (idx : List Int)

def parseCmd (s : String) : Option Cmd :=
  match s.splitOn ":" with
  | ["C"] => some (.op .clear)
  | ["U"] => some (.op .update)
  | ["F", f] => (parseFlags f).map (fun (a, b) => .op (.setFlags a b))
  | ["P", i] => (parseInts i).map .pred
  | ["A", i, y] => do
    let idx ← parseInts i
    let Y ← parseMat y
    pure (.op (.add idx Y))
  | _ => none

def fmtErr : Option Err → String
  | none => "ok"
  | some e => e.name

def replay : State → List Cmd → List String
  | _, [] => []
  | st, .op o :: rest =>
    let r := step st o
    fmtErr r.2 :: replay r.1 rest
  | st, .pred idx :: rest =>
    (match predict st idx with
     | .error e => e.name
     | .ok (ms, vs) => "ok=" ++ fmtMat ms ++ "=" ++ fmtMats vs) :: replay st rest

def handle (args : List String) : String :=
  match args with
  | ["run", m, c, nz, f, ops] =>
    match m.toNat?, c.toNat?, parseRat nz, parseFlags f, parseList "@" parseCmd ops with
    | some m, some c, some nz, some (tm, tv), some cmds =>
      " ".intercalate (replay (init m c nz tm tv) cmds)
    | _, _, _, _, _ => bad
  | ["stat", m, nz, s] =>
    match m.toNat?, parseRat nz, parseMat s with
    | some m, some nz, some S => fmtVec (meanOf m S) ++ " " ++ fmtMat (varOf m nz S)
    | _, _, _ => bad
  | _ => bad

end VOPy.Drv.C16
