import VOPyVerif.Drv.Proto
import VOPyVerif.Drv.CoreOps
import VOPyVerif.Model.Accuracy
/-! Driver front end for property C01 (valid regions ⇒ ε-accurate Pareto set).

* `box <l> <u> <x>`                      → `1` / `0` : `Accuracy.inBox` (truth inside a displayed box)
* `ell <c> <Sigma> <alpha> <x>`          → `1` / `0` / `none` : `Accuracy.inEll`
  (`(x−c)ᵀ Σ⁻¹ (x−c) ≤ α²`, exact; `none` = singular `Σ` or wrong shapes)
* `final <W> <alpha> <eps> <M> <P>`      → `<a> <b> <wa> <wb>` : conclusions (a) `accA` and (b) `accB`
  as `1`/`0`, followed by the first witnesses (`-` if none): a design outside `P` that nothing in
  `P` dominates, and a pair `i,j` with `i ∈ P` and `m(i,j) > ε`
* `finalT <W> <t> <M> <P>`               → `1` / `0` : `Accuracy.accT` (conclusion in the code's own
  threshold units, `t = ε·α` per facet or `t = W·s` for an objective-space slack `s`)
* `side <W> <s> <epsalpha>`              → `1` / `0` : `Accuracy.slackSideCondition`
* `gap <W> <alpha> <mi> <mj>`            → the rational `m(i,j)` or `none`
* `errw <c> <beta> <mu>`                  → `1` / `0` : the premise of `auer_final_accurate` for one design:
  `c`, `β`, `μ` of one length, `Accuracy.errWithin c β μ` (‖c − μ‖_∞ ≤ min_d β_d) and `Accuracy.widthsPos β`
* `pround <n> <dom> <cov> <S> <P> <U>`   → `S';P';U'` (each sorted ascending) : one `Steps.pavebaRound`
  with the oracles given as row-major `n×n` bit tables (`dom[i][j]` = "region i is dominated by region j",
  `cov[i][j]` = "region i is covered by region j")
* `around <eps> <C> <B> <S> <P>`         → `S';P'` : one `Steps.auerRound` with centres `C` (row i = design i)
  and width rows `B`, every width looked up by design

* INTEGRATION: `pcore ball|rect …`, `vcore …` — whole runs through the executable decision core
  (`Model/Core.lean`: oracles computed from the displayed regions by the exact geometry models); see
  `Drv/CoreOps.lean` for the formats.

`M` is the matrix of true means (row `i` = design `i`).  Guards (else `bad-op`): `M` non-empty, all
rows of `M` and `W` of one length, `α` positive with one entry per facet, every index of `P` `< K`.
-/
namespace VOPy.Drv.C01
open VOPy VOPy.Proto VOPy.Accuracy

def shapesOk (W : Mat) (M : Mat) (P : List Nat) : Bool :=
  match M with
  | [] => false
  | r :: _ =>
    let m := r.length
    M.all (fun x => decide (x.length = m)) && W.all (fun w => decide (w.length = m)) &&
      P.all (fun i => decide (i < M.length))

def muOf (M : Mat) : Nat → Vec := fun i => M.getD i []

def fmtOptNat : Option Nat → String
  | none => "-"
  | some i => toString i

def fmtOptPair : Option (Nat × Nat) → String
  | none => "-"
  | some (i, j) => toString i ++ "," ++ toString j

def tableRel (n : Nat) (bits : List Bool) : Steps.Rel :=
  fun i j => decide (i < n) && decide (j < n) && bits.getD (i * n + j) false

def fmtSets (l : List (List Nat)) : String := ";".intercalate (l.map fun s => fmtNats (Steps.sortNat s))

def handle (args : List String) : String :=
  match args with
  | ["pround", n, d, c, s, p, u] =>
    match n.toNat?, parseBools d, parseBools c, parseNats s, parseNats p, parseNats u with
    | some n, some d, some c, some S, some P, some U =>
      if d.length = n * n ∧ c.length = n * n ∧ (S ++ P ++ U).all (fun i => decide (i < n)) then
        let r := Steps.pavebaRound (tableRel n d) (tableRel n c) S P U
        fmtSets [r.1, r.2.1, r.2.2]
      else bad
    | _, _, _, _, _, _ => bad
  | ["around", e, cm, bm, s, p] =>
    match parseRat e, parseMat cm, parseMat bm, parseNats s, parseNats p with
    | some e, some C, some B, some S, some P =>
      if C.length = B.length ∧ (S ++ P).all (fun i => decide (i < C.length)) then
        let r := Steps.auerRound e (fun i => C.getD i []) (fun i => B.getD i []) S P
        fmtSets [r.1, r.2]
      else bad
    | _, _, _, _, _ => bad
  | ["errw", c, b, x] =>
    match parseVec c, parseVec b, parseVec x with
    | some c, some b, some x =>
      fmtBool (decide (c.length = x.length) && decide (b.length = x.length) && errWithin c b x && widthsPos b)
    | _, _, _ => bad
  | ["box", l, u, x] =>
    match parseVec l, parseVec u, parseVec x with
    | some l, some u, some x => fmtBool (inBox l u x)
    | _, _, _ => bad
  | ["ell", c, sg, a, x] =>
    match parseVec c, parseMat sg, parseRat a, parseVec x with
    | some c, some Sg, some a, some x =>
      match inEll c Sg a x with
      | some b => fmtBool b
      | none => "none"
    | _, _, _, _ => bad
  | ["final", w, al, e, mm, p] =>
    match parseMat w, parseVec al, parseRat e, parseMat mm, parseNats p with
    | some W, some al, some e, some M, some P =>
      if shapesOk W M P && decide (al.length = W.length) && al.all (fun a => decide (0 < a)) then
        let K := M.length
        let mu := muOf M
        fmtBool (accA W K mu P) ++ " " ++ fmtBool (accB W al e K mu P) ++ " " ++
          fmtOptNat (accAWitness W K mu P) ++ " " ++ fmtOptPair (accBWitness W al e K mu P)
      else bad
    | _, _, _, _, _ => bad
  | ["finalT", w, t, mm, p] =>
    match parseMat w, parseVec t, parseMat mm, parseNats p with
    | some W, some t, some M, some P =>
      if shapesOk W M P && decide (t.length = W.length) then
        fmtBool (accT W t M.length (muOf M) P)
      else bad
    | _, _, _, _ => bad
  | ["side", w, s, ea] =>
    match parseMat w, parseVec s, parseVec ea with
    | some W, some s, some ea =>
      if W.all (fun r => decide (r.length = s.length)) then fmtBool (slackSideCondition W s ea) else bad
    | _, _, _ => bad
  | ["gap", w, al, a, b] =>
    match parseMat w, parseVec al, parseVec a, parseVec b with
    | some W, some al, some a, some b =>
      if decide (al.length = W.length) && al.all (fun x => decide (0 < x)) &&
          W.all (fun r => decide (r.length = a.length)) && decide (a.length = b.length) then
        match mGap W al a b with
        | some g => fmtRat g
        | none => "none"
      else bad
    | _, _, _, _ => bad
  | _ => (CoreOps.handle args).getD bad  -- INTEGRATION: whole runs through `Model/Core.lean`

end VOPy.Drv.C01
