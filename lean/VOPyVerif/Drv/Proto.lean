import VOPyVerif.Model.Basic
/-!
# Line protocol helpers (import-free)

One case per line: `<PROP> <op> <arg> <arg> …`, arguments separated by single spaces.
* rational: `num` or `num/den` (exact; produced by `float.as_integer_ratio()`)
* vector: comma-separated rationals, `_` for the empty vector
* matrix: `;`-separated vectors, `_` for the empty matrix
* list of matrices: `|`-separated
* nat list: comma-separated naturals, `_` for empty
-/
namespace VOPy.Proto

def parseRat (s : String) : Option Rat :=
  match s.splitOn "/" with
  | [n] => n.toInt?.map (fun i => (i : Rat))
  | [n, d] => do
      let i ← n.toInt?
      let k ← d.toNat?
      if k = 0 then none else some (mkRat i k)
  | _ => none

def parseList {α} (sep : String) (f : String → Option α) (s : String) : Option (List α) :=
  if s = "_" || s = "" then some [] else (s.splitOn sep).mapM f

def parseVec (s : String) : Option Vec := parseList "," parseRat s
def parseMat (s : String) : Option Mat := parseList ";" parseVec s
def parseMats (s : String) : Option (List Mat) := parseList "|" parseMat s
def parseNats (s : String) : Option (List Nat) := parseList "," String.toNat? s
def parseNatss (s : String) : Option (List (List Nat)) := parseList ";" parseNats s
def parseBool (s : String) : Option Bool :=
  if s = "1" || s = "T" then some true else if s = "0" || s = "F" then some false else none
def parseBools (s : String) : Option (List Bool) :=
  if s = "_" then some [] else s.toList.mapM (fun c => parseBool (String.singleton c))

def fmtRat (r : Rat) : String :=
  if r.den = 1 then toString r.num else toString r.num ++ "/" ++ toString r.den
def fmtList {α} (sep : String) (f : α → String) (l : List α) : String :=
  if l.isEmpty then "_" else sep.intercalate (l.map f)
def fmtVec (v : Vec) : String := fmtList "," fmtRat v
def fmtMat (m : Mat) : String := fmtList ";" fmtVec m
def fmtNats (l : List Nat) : String := fmtList "," toString l
def fmtBool (b : Bool) : String := if b then "1" else "0"
def fmtBools (l : List Bool) : String := if l.isEmpty then "_" else String.join (l.map fmtBool)

/-- answer used for anything that does not parse: never a default value -/
def bad : String := "bad-op"

end VOPy.Proto

namespace VOPy.Proto
/-- parse a decimal / scientific float literal such as `0.1`, `-3.5e-4`, `12` (for RealLike terms) -/
def parseFloat (s : String) : Option Float :=
  let s := s.trimAscii.toString
  let (neg, s) := if s.startsWith "-" then (true, (s.drop 1).toString) else (false, s)
  let (mant, ex) := match s.splitOn "e" with
    | [m] => (m, some (0 : Int))
    | [m, e] => (m, e.toInt?)
    | _ => (s, none)
  match ex with
  | none => none
  | some e =>
    let parts := mant.splitOn "."
    let r : Option (Nat × Nat) := match parts with
      | [i] => i.toNat?.map (fun n => (n, 0))
      | [i, f] => (if i.isEmpty then some 0 else i.toNat?).bind (fun n =>
          if f.isEmpty then some (n, 0) else f.toNat?.map (fun k => (n * 10 ^ f.length + k, f.length)))
      | _ => none
    r.map (fun (n, d) =>
      let e' : Int := e - d
      let v := if e' ≥ 0 then Float.ofScientific n false e'.toNat else Float.ofScientific n true (-e').toNat
      if neg then -v else v)
/-- exact float from the rational `num/den` of `as_integer_ratio` (den a power of two): exact -/
def ratToFloat (r : Rat) : Float :=
  Float.ofInt r.num / Float.ofNat r.den
end VOPy.Proto
