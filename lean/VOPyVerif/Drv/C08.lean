import VOPyVerif.Drv.Proto
import VOPyVerif.Model.Naive
/-! Driver front end for property C08 (NaiveElimination).

Floats cross the boundary as the decimal value of their IEEE-754 bit pattern (`<bits>`), in both
directions, so nothing is rounded by printing.

* `L <noise_var bits> <eps bits> <delta bits> <theta_deg bits> <m> <K>`
    → `<Lcode> <Lprop> <rawcode bits> <rawprop bits> <beta bits>`:
    `naiveLcode` (mirrors the constructor: `noise_var` where σ is meant), `naiveLprop`
    (σ = sqrt(noise_var)), the two arguments of `ceil`, and `coneBeta`, all at `Float`.
* `Lgen <c bits> <s bits> <beta bits> <eps bits> <delta bits> <m> <K>` → `<raw bits>`: `naiveLreal`.
* `means <samples>`                 → matrix `rowMeans samples`
    (`samples` = `|`-separated list of `t × m` matrices, one per design)
* `P <W> <samples>`                 → indices `naiveP W samples`
* `Pspec <W> <samples> <idx>`       → `ok`/`fail`: C13's relation `specOk` for `idx` against the
    model's means
* `margin <W> <samples>`            → `none` or the rational distance of the dominance decisions from a tie
* `run <L> <K> <W> <rounds>`        → `;`-separated `done:round:sample_count:P` records: the state
    after `__init__` (done = `-`) and after each `run_one_step` fed with the successive `K × m`
    matrices of `<rounds>` (`|`-separated).
-/
namespace VOPy.Drv.C08
open VOPy VOPy.Proto VOPy.Naive

def parseBits (s : String) : Option Float :=
  s.toNat?.bind fun n => if n < 2 ^ 64 then some (Float.ofBits n.toUInt64) else none

def fmtBits (x : Float) : String := toString x.toBits.toNat

def fmtRec (W : Mat) (done : String) (s : State) : String :=
  done ++ ":" ++ toString s.round ++ ":" ++ toString s.sampleCount ++ ":" ++ fmtNats (s.P W)

def runTrace (W : Mat) (s : State) : List (List Vec) → List String
  | [] => []
  | new :: rest =>
    let (s', d) := step s new
    fmtRec W (fmtBool d) s' :: runTrace W s' rest

def handle (args : List String) : String :=
  match args with
  | ["L", nv, e, d, th, m, k] =>
    match parseBits nv, parseBits e, parseBits d, parseBits th, m.toNat?, k.toNat? with
    | some nv, some e, some d, some th, some m, some k =>
      let β : Float := coneBeta th
      let rawc : Float := naiveLreal naiveC nv β e d m k
      let rawp : Float := naiveLreal naiveC (Float.sqrt nv) β e d m k
      " ".intercalate [toString (naiveLcode nv e d th m k), toString (naiveLprop nv e d th m k),
        fmtBits rawc, fmtBits rawp, fmtBits β]
    | _, _, _, _, _, _ => bad
  | ["Lgen", c, s, b, e, d, m, k] =>
    match parseBits c, parseBits s, parseBits b, parseBits e, parseBits d, m.toNat?, k.toNat? with
    | some c, some s, some b, some e, some d, some m, some k =>
      fmtBits (naiveLreal c s b e d m k)
    | _, _, _, _, _, _, _ => bad
  | ["means", x] =>
    match parseMats x with
    | some S => fmtMat (rowMeans S)
    | none => bad
  | ["P", w, x] =>
    match parseMat w, parseMats x with
    | some W, some S => fmtNats (naiveP W S)
    | _, _ => bad
  | ["Pspec", w, x, i] =>
    match parseMat w, parseMats x, parseNats i with
    | some W, some S, some I => if Pareto.specOk (dominates W) (rowMeans S) I then "ok" else "fail"
    | _, _, _ => bad
  | ["margin", w, x] =>
    match parseMat w, parseMats x with
    | some W, some S =>
      match margin W (rowMeans S) with
      | some r => fmtRat r
      | none => "none"
    | _, _ => bad
  | ["run", l, k, w, x] =>
    match l.toNat?, k.toNat?, parseMat w, parseMats x with
    | some L, some K, some W, some R =>
      let s0 := init K L
      ";".intercalate (fmtRec W "-" s0 :: runTrace W s0 R)
    | _, _, _, _ => bad
  | _ => bad

end VOPy.Drv.C08
