import VOPyVerif.Drv.Proto
import VOPyVerif.Model.Problem
/-! Driver front end for property C20 (problems: nearest-design lookup, decoupled evaluation, noise
map, data scaling).  Numbers are exact rationals; `_` is the empty list.

* `nearest <x> <X>`            → `Problem.nearestFirst x X` : index, or `none` when `X` is empty
* `band <x> <X> <tol>`         → indices whose squared distance is `≤ min + tol` (`nearestBand`)
* `eval <X> <Y> <xs>`          → `Problem.evaluate X Y xs` : matrix of looked-up rows, or `none`
* `dec <rawLen> <values> <ix>` → `Problem.decoupled`; `<ix>` is `all`, `i:<k>` or `l:<nats>`;
                                  answer `full:<mat>`, `v:<vec>`, `ValueError` or `IndexError`
* `noisy <F> <Z> <M>`          → `F + Z·M` (`Problem.noisy`)
* `applied <L>`                → the matrix the code multiplies the normal rows by (`appliedM L`)
* `gram <M>` / `llt <L>`       → `MᵀM` / `L Lᵀ`
* `covok <M> <L>`              → `ok` / `fail` : `MᵀM = L Lᵀ` exactly (`covOK`)
* `covclose <tol> <M> <S>`     → `ok` / `fail` : `|MᵀM − S| ≤ tol` entrywise (`covClose`)
* `minmax <col>`               → `Problem.minMax col`
* `minmaxclose <tol> <col> <out>` → `ok` / `fail` : `|minMax col − out| ≤ tol` entrywise
* `colstats <col>`             → `min,max,mean,popVar` of the column (exact)
* `scaled <tol> <col>`         → `ok` / `fail` : `|min| ≤ tol ∧ |max − 1| ≤ tol`
* `moments <tol> <col>`        → `ok` / `fail` : `|mean| ≤ tol ∧ |popVar − 1| ≤ tol`, exact arithmetic
* `std <col>`                  → `Problem.standardise col` (exact), or `irrational`
* `stdfclose <rtol> <col> <out>` → `ok` / `fail` : `standardiseF` at `Float` agrees with `out`
                                  entrywise within `rtol·(1 + |out|)`
* `norm <data> <bounds>` / `unnorm <data> <bounds>` → matrix, or `ValueError`; `<bounds>` is a matrix
                                  of `lower,upper` rows
-/
namespace VOPy.Drv.C20
open VOPy VOPy.Proto VOPy.Problem

def parseIx (s : String) : Option EvalIndex :=
  if s = "all" then some .all
  else match s.splitOn ":" with
    | ["i", k] => k.toNat?.map .one
    | ["l", ks] => (parseNats ks).map .perRow
    | _ => none

def fmtDec : DecOut → String
  | .full m => "full:" ++ fmtMat m
  | .comps v => "v:" ++ fmtVec v
  | .valueError => "ValueError"
  | .indexError => "IndexError"

def parseBounds (s : String) : Option (List (Rat × Rat)) :=
  (parseMat s).bind (fun m => m.mapM (fun r => match r with
    | [a, b] => some (a, b)
    | _ => none))

def okFail (b : Bool) : String := if b then "ok" else "fail"

def fabs (x : Float) : Float := if x < 0 then -x else x

def stdfClose (rtol : Float) (col out : List Float) : Bool :=
  let m := standardiseF col
  m.length == out.length &&
  (List.zipWith (fun a b => decide (fabs (a - b) ≤ rtol * (1 + fabs b))) m out).all id

def handle (args : List String) : String :=
  match args with
  | ["nearest", x, X] =>
    match parseVec x, parseMat X with
    | some x, some X => match nearestFirst x X with
      | some i => toString i
      | none => "none"
    | _, _ => bad
  | ["band", x, X, t] =>
    match parseVec x, parseMat X, parseRat t with
    | some x, some X, some t => fmtNats (nearestBand x X t)
    | _, _, _ => bad
  | ["eval", X, Y, xs] =>
    match parseMat X, parseMat Y, parseMat xs with
    | some X, some Y, some xs => match evaluate X Y xs with
      | some m => fmtMat m
      | none => "none"
    | _, _, _ => bad
  | ["dec", n, v, ix] =>
    match n.toNat?, parseMat v, parseIx ix with
    | some n, some v, some ix => fmtDec (decoupled n v ix)
    | _, _, _ => bad
  | ["noisy", f, z, m] =>
    match parseMat f, parseMat z, parseMat m with
    | some F, some Z, some M => fmtMat (noisy F Z M)
    | _, _, _ => bad
  | ["applied", l] =>
    match parseMat l with
    | some L => fmtMat (appliedM L)
    | _ => bad
  | ["gram", m] =>
    match parseMat m with
    | some M => fmtMat (gram M)
    | _ => bad
  | ["llt", l] =>
    match parseMat l with
    | some L => fmtMat (llt L)
    | _ => bad
  | ["covok", m, l] =>
    match parseMat m, parseMat l with
    | some M, some L => okFail (covOK M L)
    | _, _ => bad
  | ["covclose", t, m, s] =>
    match parseRat t, parseMat m, parseMat s with
    | some t, some M, some S => okFail (covClose t M S)
    | _, _, _ => bad
  | ["minmax", c] =>
    match parseVec c with
    | some c => fmtVec (minMax c)
    | _ => bad
  | ["minmaxclose", t, c, o] =>
    match parseRat t, parseVec c, parseVec o with
    | some t, some c, some o => okFail (matClose t [minMax c] [o])
    | _, _, _ => bad
  | ["colstats", c] =>
    match parseVec c with
    | some c => if c.isEmpty then bad else fmtVec [colMin c, colMax c, mean c, popVar c]
    | _ => bad
  | ["scaled", t, c] =>
    match parseRat t, parseVec c with
    | some t, some c =>
      if c.isEmpty then bad
      else okFail (decide (rabs (colMin c) ≤ t) && decide (rabs (colMax c - 1) ≤ t))
    | _, _ => bad
  | ["moments", t, c] =>
    match parseRat t, parseVec c with
    | some t, some c =>
      if c.isEmpty then bad
      else okFail (decide (rabs (mean c) ≤ t) && decide (rabs (popVar c - 1) ≤ t))
    | _, _ => bad
  | ["std", c] =>
    match parseVec c with
    | some c => if c.isEmpty then bad else match standardise c with
      | some v => fmtVec v
      | none => "irrational"
    | _ => bad
  | ["stdfclose", t, c, o] =>
    match parseRat t, parseVec c, parseVec o with
    | some t, some c, some o =>
      if c.isEmpty then bad
      else okFail (stdfClose (ratToFloat t) (c.map ratToFloat) (o.map ratToFloat))
    | _, _, _ => bad
  | ["norm", d, b] =>
    match parseMat d, parseBounds b with
    | some D, some B => match normalize D B with
      | some m => fmtMat m
      | none => "ValueError"
    | _, _ => bad
  | ["unnorm", d, b] =>
    match parseMat d, parseBounds b with
    | some D, some B => match unnormalize D B with
      | some m => fmtMat m
      | none => "ValueError"
    | _, _ => bad
  | _ => bad

end VOPy.Drv.C20
