import VOPyVerif.Proofs.AcqUnique
/-! C07: whole `evaluating()` steps of the evaluate-everything and of the decoupled algorithms. -/
namespace VOPy.Acq

theorem filter_zip_map_of_nodup {β : Type} (f : Nat → β) (i : Nat) : ∀ (A : List Nat), A.Nodup →
    ((A.zip (A.map f)).filter (fun r => r.1 == i)).map (·.2) = if i ∈ A then [f i] else []
  | [], _ => by simp
  | a :: A, h => by
    have ha := List.nodup_cons.mp h
    have ih := filter_zip_map_of_nodup f i A ha.2
    simp only [List.map_cons, List.zip_cons_cons, List.filter_cons]
    by_cases hai : a = i
    · subst hai
      have : a ∉ A := ha.1
      rw [if_neg this] at ih
      simp [ih]
    · have h1 : (a == i) = false := by simpa using hai
      have h2 : i ≠ a := fun h => hai h.symm
      simp only [h1, Bool.false_eq_true, if_false, ih, List.mem_cons, h2, false_or]

/-- result of one evaluate-everything step, design by design -/
theorem evaluateAllStep_spec {S U : List Nat} (hS : S.Nodup) (hU : U.Nodup) (observe : Nat → Vec)
    (samples out : List (List Vec)) (h : evaluateAllStep S U observe samples = some out) (i : Nat) :
    out[i]? = samples[i]?.map (fun s => if i ∈ S ∨ i ∈ U then s ++ [observe i] else s) := by
  simp only [evaluateAllStep] at h
  simp only [empAddSample] at h
  split at h
  · simp at h
  · split at h
    · simp at h
    · simp only [Option.some.injEq] at h
      subst h
      rw [foldl_modify_append_singleton, filter_zip_map_of_nodup observe i _ (evaluateAll_nodup hS hU)]
      congr 1
      funext s
      by_cases hi : i ∈ evaluateAll S U
      · rw [if_pos hi, if_pos (mem_evaluateAll.mp hi)]
      · rw [if_neg hi, if_neg (fun hm => hi (mem_evaluateAll.mpr hm))]; simp

theorem zip3_map {α β γ δ : Type} (l : List α) (f : α → β) (g : α → γ) (k : α → δ) :
    ((l.map f).zip (l.map g)).zip (l.map k) = l.map (fun x => ((f x, g x), k x)) := by
  induction l with
  | nil => rfl
  | cons a l ih => simp [ih]

end VOPy.Acq
