import VOPyVerif.Proofs.AcqDecSpec
/-! C07: tie-free inputs determine the batch completely (the correspondence harness compares
positions with the model exactly on such inputs), and a smaller batch is a prefix of a larger one. -/
namespace VOPy.Acq

/-- two lists drawn from a list on which `f` is injective and with equal `f`-images are equal -/
theorem eq_of_map_eq_of_inj {α β : Type} (f : α → β) {l : List α} (hl : (l.map f).Nodup) :
    ∀ {P P' : List α}, (∀ p ∈ P, p ∈ l) → (∀ p ∈ P', p ∈ l) → P.map f = P'.map f → P = P'
  | [], [], _, _, _ => rfl
  | [], _ :: _, _, _, h => by simp at h
  | _ :: _, [], _, _, h => by simp at h
  | a :: P, b :: P', h1, h2, h => by
    simp only [List.map_cons, List.cons.injEq] at h
    have hab : a = b :=
      List.inj_on_of_nodup_map hl (h1 a List.mem_cons_self) (h2 b List.mem_cons_self) h.1
    rw [hab, eq_of_map_eq_of_inj f hl (fun p hp => h1 p (List.mem_cons_of_mem _ hp))
      (fun p hp => h2 p (List.mem_cons_of_mem _ hp)) h.2]

/-- **Tie-free value lists determine the batch**: with pairwise distinct values, every batch
accepted by `DiscSpec` is the model's batch, positions included. -/
theorem DiscSpec.eq_model {vals : List Rat} {q : Nat} {picks : List (Nat × Rat)}
    (hv : vals.Nodup) (h : DiscSpec vals q picks) : picks = optimizeDiscrete vals q := by
  have hl : ((indexed vals).map (·.2)).Nodup := by rw [indexed_map_snd]; exact hv
  refine eq_of_map_eq_of_inj (·.2) hl (fun p hp => mem_indexed.mpr (h.cell p hp))
    (fun p hp => mem_indexed.mpr (optimizeDiscrete_mem hp)) ?_
  rw [h.values, optimizeDiscrete_values]

/-- **Tie-free tables determine the decoupled batch.** -/
theorem DecSpec.eq_model {table : List (List Rat)} {q : Nat} {sel : List Entry}
    (hv : table.flatten.Nodup) (h : DecSpec table q sel) : sel = optimizeDecoupled table q := by
  have hl : ((cellsFrom 0 table).map (·.val)).Nodup := by rw [cellsFrom_vals]; exact hv
  refine eq_of_map_eq_of_inj (·.val) hl (fun e he => (mem_cells_iff table e).mpr (h.cell e he))
    (fun e he => (mem_cells_iff table e).mpr (optimizeDecoupled_mem he)) ?_
  rw [h.values, optimizeDecoupled_values]

/-- a batch of size `q` is the beginning of every larger batch (the loop is greedy) -/
theorem pickLoop_take : ∀ (q k : Nat) (rem : List (Nat × Rat)),
    pickLoop q rem = (pickLoop (q + k) rem).take q
  | 0, k, rem => by simp
  | q + 1, k, rem => by
    by_cases hne : rem = []
    · subst hne; simp
    · have hqk : q + 1 + k = q + k + 1 := by omega
      rw [hqk]
      -- both sides unfold through the same arg-max
      cases ha : argmax (rem.map (·.2)) with
      | none => exact absurd (List.map_eq_nil_iff.mp (argmax_eq_none.mp ha)) hne
      | some p =>
        obtain ⟨i, v⟩ := p
        cases he : rem[i]? with
        | none => simp [pickLoop, ha, he]
        | some x =>
          simp only [pickLoop, ha, he, List.take_succ_cons]
          rw [← pickLoop_take q k (rem.eraseIdx i)]

end VOPy.Acq
