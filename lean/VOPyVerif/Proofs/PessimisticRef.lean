import VOPyVerif.Proofs.PessimisticSpec
/-!
# Helper lemmas for C11, part 4: the certificate checkers of the exact reference are sound

`checkWitness = true` ⇒ the witness proves feasibility; `checkFarkas = true` ⇒ *no* point of the box
(with coordinates in any ordered field `L ⊇ ℚ`, e.g. real) is feasible.  Nothing is claimed about
the Fourier–Motzkin search itself (`fmSolve`): its answers are only ever used through the checkers.
-/
namespace VOPy.Pess
set_option linter.unusedSectionVars false
set_option linter.unusedSimpArgs false

section Generic
variable {K : Type} [Field K] [LinearOrder K] [IsStrictOrderedRing K]

theorem gdot_add_left : ∀ (a b y : List K), a.length = b.length →
    gdot (List.zipWith (· + ·) a b) y = gdot a y + gdot b y
  | [], [], y, _ => by simp [gdot]
  | a :: as, b :: bs, [], _ => by simp [gdot]
  | a :: as, b :: bs, y :: ys, h => by
    have ih := gdot_add_left as bs ys (by simpa using h)
    simp only [List.zipWith_cons_cons, gdot, ih]; ring
  | [], _ :: _, _, h => by simp at h
  | _ :: _, [], _, h => by simp at h

theorem gdot_sub_left : ∀ (a b y : List K), a.length = b.length →
    gdot (List.zipWith (· - ·) a b) y = gdot a y - gdot b y
  | [], [], y, _ => by simp [gdot]
  | a :: as, b :: bs, [], _ => by simp [gdot]
  | a :: as, b :: bs, y :: ys, h => by
    have ih := gdot_sub_left as bs ys (by simpa using h)
    simp only [List.zipWith_cons_cons, gdot, ih]; ring
  | [], _ :: _, _, h => by simp at h
  | _ :: _, [], _, h => by simp at h

theorem gdot_smul_left (c : K) : ∀ (a y : List K), gdot (a.map (c * ·)) y = c * gdot a y
  | [], y => by simp [gdot]
  | a :: as, [] => by simp [gdot]
  | a :: as, y :: ys => by
    simp only [List.map_cons, gdot, gdot_smul_left c as ys]; ring

theorem gdot_replicate_zero (m : Nat) : ∀ (y : List K), gdot (List.replicate m (0 : K)) y = 0 := by
  induction m with
  | zero => intro y; simp [gdot]
  | succ m ih =>
    intro y
    cases y with
    | nil => simp [gdot, List.replicate_succ]
    | cons a y => simp [gdot, List.replicate_succ, ih y]

theorem gdot_all_zero : ∀ (v y : List K), (∀ c ∈ v, c = 0) → gdot v y = 0
  | [], y, _ => by simp [gdot]
  | a :: v, [], _ => by simp [gdot]
  | a :: v, y :: ys, h => by
    have ha : a = 0 := h a (List.mem_cons_self ..)
    have := gdot_all_zero v ys (fun c hc => h c (List.mem_cons_of_mem _ hc))
    simp [gdot, ha, this]

/-- non-negative weights: the dot product is monotone in the second argument -/
theorem gdot_mono : ∀ (mu a b : List K), (∀ c ∈ mu, 0 ≤ c) → List.Forall₂ (· ≤ ·) a b →
    gdot mu a ≤ gdot mu b
  | [], a, b, _, _ => by simp [gdot]
  | c :: mu, [], [], _, _ => by simp [gdot]
  | c :: mu, a :: as, b :: bs, h, hab => by
    cases hab with
    | cons hab hrest =>
      have ih := gdot_mono mu as bs (fun c hc => h c (List.mem_cons_of_mem _ hc)) hrest
      have hc : 0 ≤ c := h c (List.mem_cons_self ..)
      simp only [gdot]
      nlinarith [mul_le_mul_of_nonneg_left hab hc]

/-- generic copy of the model's `combRows` -/
def gcombRows (m : Nat) : List K → List (List K) → List K
  | c :: lam, r :: rows => List.zipWith (· + ·) (r.map (c * ·)) (gcombRows m lam rows)
  | _, _ => List.replicate m 0

theorem gcombRows_length (m : Nat) : ∀ (lam : List K) (rows : List (List K)),
    (∀ r ∈ rows, r.length = m) → (gcombRows m lam rows).length = m
  | [], _, _ => by simp [gcombRows]
  | _ :: _, [], _ => by simp [gcombRows]
  | c :: lam, r :: rows, h => by
    have ih := gcombRows_length m lam rows (fun r hr => h r (List.mem_cons_of_mem _ hr))
    simp [gcombRows, ih, h r (List.mem_cons_self ..)]

/-- `(Σ λ_k r_k) · y = Σ λ_k (r_k · y)` -/
theorem gdot_gcombRows (m : Nat) (y : List K) : ∀ (lam : List K) (rows : List (List K)),
    (∀ r ∈ rows, r.length = m) →
    gdot (gcombRows m lam rows) y = gdot lam (rows.map (fun r => gdot r y))
  | [], _, _ => by simp [gcombRows, gdot, gdot_replicate_zero]
  | _ :: _, [], _ => by simp [gcombRows, gdot, gdot_replicate_zero]
  | c :: lam, r :: rows, h => by
    have hrows : ∀ r ∈ rows, r.length = m := fun r hr => h r (List.mem_cons_of_mem _ hr)
    have ih := gdot_gcombRows m y lam rows hrows
    have hl : (r.map (c * ·)).length = (gcombRows m lam rows).length := by
      rw [gcombRows_length m lam rows hrows]; simp [h r (List.mem_cons_self ..)]
    simp only [gcombRows, List.map_cons, gdot]
    rw [gdot_add_left _ _ _ hl, gdot_smul_left, ih]

end Generic

/-! ## casts of the model's vector operations -/
section Cast
variable {L : Type} [Field L] [LinearOrder L] [IsStrictOrderedRing L]

theorem castV_vadd (a b : Vec) : (castV (vadd a b) : List L) = List.zipWith (· + ·) (castV a) (castV b) := by
  simp [castV, vadd, List.map_zipWith, List.zipWith_map]

theorem castV_vsub (a b : Vec) : (castV (vsub a b) : List L) = List.zipWith (· - ·) (castV a) (castV b) := by
  simp [castV, vsub, List.map_zipWith, List.zipWith_map]

theorem castV_smul (c : Rat) (a : Vec) : (castV (smul c a) : List L) = (castV a).map ((c : L) * ·) := by
  simp [castV, smul]

theorem castV_combRows (m : Nat) : ∀ (lam : Vec) (rows : List Vec),
    (castV (combRows m lam rows) : List L) = gcombRows m (castV lam) (rows.map castV)
  | [], _ => by simp [combRows, gcombRows, castV]
  | _ :: _, [] => by simp [combRows, gcombRows, castV]
  | c :: lam, r :: rows => by
    have ih := castV_combRows m lam rows
    simp only [combRows, castV_vadd, castV_smul, ih]
    simp [gcombRows, castV]

theorem forall₂_castV {a b : Vec} (h : List.Forall₂ (· ≤ ·) a b) :
    List.Forall₂ (· ≤ ·) (castV a : List L) (castV b) := by
  induction h with
  | nil => simp [castV]
  | cons hab _ ih => exact List.Forall₂.cons (Rat.cast_le.mpr hab) ih

theorem GInBox.forall₂ {K : Type} [Field K] [LinearOrder K] [IsStrictOrderedRing K] :
    ∀ {l u y : List K}, GInBox l u y → List.Forall₂ (· ≤ ·) l y ∧ List.Forall₂ (· ≤ ·) y u
  | [], [], [], _ => ⟨.nil, .nil⟩
  | l :: ls, u :: us, y :: ys, h => by
    have ih := GInBox.forall₂ h.2.2
    exact ⟨.cons h.1 ih.1, .cons h.2.1 ih.2⟩
  | [], [], _ :: _, h => by simp [GInBox] at h
  | [], _ :: _, _, h => by simp [GInBox] at h
  | _ :: _, [], _, h => by simp [GInBox] at h
  | _ :: _, _ :: _, [], h => by simp [GInBox] at h

end Cast

/-! ## the checkers -/

theorem GInBox_of_vle : ∀ {l u y : Vec}, y.length = l.length → u.length = l.length →
    vle l y = true → vle y u = true → GInBox l u y
  | [], [], [], _, _, _, _ => trivial
  | l :: ls, u :: us, y :: ys, h1, h2, h3, h4 => by
    simp only [vle, List.zipWith_cons_cons, List.all_cons, Bool.and_eq_true, decide_eq_true_eq,
      id_eq] at h3 h4
    exact ⟨h3.1, h4.1, GInBox_of_vle (by simpa using h1) (by simpa using h2) h3.2 h4.2⟩
  | [], _ :: _, _, _, h2, _, _ => by simp at h2
  | [], [], _ :: _, h1, _, _, _ => by simp at h1
  | _ :: _, [], _, _, h2, _, _ => by simp at h2
  | _ :: _, _ :: _, [], h1, _, _, _ => by simp at h1

/-- list of (facet row, allowance) pairs of the reference problem -/
abbrev facetList (W : Mat) (s : Vec) : List (Vec × Rat) := W.zip s

theorem zipWith_all_iff (W : Mat) (s : Vec) (f : Vec → Rat → Bool) :
    (List.zipWith f W s).all id = true ↔ ∀ p ∈ W.zip s, f p.1 p.2 = true := by
  induction W generalizing s with
  | nil => simp
  | cons w W ih =>
    cases s with
    | nil => simp
    | cons si s => simp [ih s]

/-- **checked witness ⇒ feasible** -/
theorem checkWitness_sound {W : Mat} {x l u s y : Vec} (h : checkWitness W x l u s y = true) :
    GInBox l u y ∧ ∀ p ∈ facetList W s, p.2 ≤ dot p.1 x - dot p.1 y := by
  simp only [checkWitness, Bool.and_eq_true, beq_iff_eq] at h
  obtain ⟨⟨⟨⟨h1, h2⟩, h3⟩, h4⟩, h5⟩ := h
  refine ⟨GInBox_of_vle h1 h2 h3 h4, ?_⟩
  rw [zipWith_all_iff] at h5
  intro p hp
  simpa using h5 p hp

theorem castV_cons {L : Type} [Field L] [LinearOrder L] [IsStrictOrderedRing L] (a : Rat) (v : Vec) :
    (castV (a :: v) : List L) = (a : L) :: castV v := rfl

/-- facet values at a feasible `y` are below the right-hand sides, row by row -/
theorem rows_le {L : Type} [Field L] [LinearOrder L] [IsStrictOrderedRing L] (x : Vec) (y : List L) :
    ∀ (W : Mat) (s : Vec), W.length = s.length →
      (∀ p ∈ W.zip s, (p.2 : L) ≤ gdot (castV p.1) (castV x) - gdot (castV p.1) y) →
      List.Forall₂ (· ≤ ·) ((W.map (castV (L := L))).map (fun r => gdot r y))
        (castV (List.zipWith (fun w si => dot w x - si) W s))
  | [], [], _, _ => by simp [castV]
  | w :: W, si :: s, hs, hd => by
    have ih := rows_le x y W s (by simpa using hs) (fun p hp => hd p (by simp [hp]))
    have h0 := hd (w, si) (by simp)
    simp only [gdot_castV, gdot_eq_dot] at h0
    simp only [List.map_cons, List.zipWith_cons_cons, castV_cons]
    refine List.Forall₂.cons ?_ ih
    push_cast
    linarith
  | [], _ :: _, hs, _ => by simp at hs
  | _ :: _, [], hs, _ => by simp at hs

/-- **checked Farkas certificate ⇒ infeasible**, for witnesses with coordinates in any ordered
field `L ⊇ ℚ` -/
theorem checkFarkas_sound {L : Type} [Field L] [LinearOrder L] [IsStrictOrderedRing L]
    {W : Mat} {x l u s lam : Vec} (h : checkFarkas W x l u s lam = true) :
    ¬ ∃ y : List L, GInBox (castV l) (castV u) y ∧
      ∀ p ∈ facetList W s, (p.2 : L) ≤ gdot (castV p.1) (castV x) - gdot (castV p.1) y := by
  rintro ⟨y, hy, hd⟩
  simp only [checkFarkas, Bool.and_eq_true, beq_iff_eq, List.all_eq_true, decide_eq_true_eq] at h
  obtain ⟨⟨⟨⟨⟨⟨hlen, hs⟩, hW⟩, hu⟩, hnn⟩, hzero⟩, hneg⟩ := h
  set N := W.length
  set m := l.length
  set lamW := lam.take N
  set muU := (lam.drop N).take m
  set muL := lam.drop (N + m)
  have hylen : y.length = m := by rw [(GInBox.length_eq hy).1]; simp [m]
  have hWm : ∀ r ∈ W.map (castV (L := L)), r.length = m := by
    intro r hr
    obtain ⟨w, hw, rfl⟩ := List.mem_map.mp hr
    simpa using hW w hw
  have hmuU : muU.length = m := by simp [muU, hlen]
  have hmuL : muL.length = m := by simp [muL, hlen]; omega
  -- the combination vanishes, so its dot product with y is 0
  have hz : gdot (castV (vsub (vadd (combRows m lamW W) muU) muL) : List L) y = 0 := by
    apply gdot_all_zero
    intro c hc
    simp only [castV, List.mem_map] at hc
    obtain ⟨q, hq, rfl⟩ := hc
    rw [hzero q hq]; simp
  have hcl : (gcombRows m (castV lamW : List L) (W.map castV)).length = m :=
    gcombRows_length m _ _ hWm
  rw [castV_vsub, castV_vadd, castV_combRows,
    gdot_sub_left _ _ _ (by simp [hcl, hmuU, hmuL]),
    gdot_add_left _ _ _ (by simp [hcl, hmuU]),
    gdot_gcombRows m y _ _ hWm] at hz
  -- bound each of the three parts
  have nnW : ∀ c ∈ (castV lamW : List L), 0 ≤ c := by
    intro c hc
    simp only [castV, List.mem_map] at hc
    obtain ⟨q, hq, rfl⟩ := hc
    exact Rat.cast_nonneg.mpr (hnn q (List.mem_of_mem_take hq))
  have nnU : ∀ c ∈ (castV muU : List L), 0 ≤ c := by
    intro c hc
    simp only [castV, List.mem_map] at hc
    obtain ⟨q, hq, rfl⟩ := hc
    exact Rat.cast_nonneg.mpr (hnn q (List.mem_of_mem_drop (List.mem_of_mem_take hq)))
  have nnL : ∀ c ∈ (castV muL : List L), 0 ≤ c := by
    intro c hc
    simp only [castV, List.mem_map] at hc
    obtain ⟨q, hq, rfl⟩ := hc
    exact Rat.cast_nonneg.mpr (hnn q (List.mem_of_mem_drop hq))
  have hbox := GInBox.forall₂ hy
  have e1 : gdot (castV muU : List L) y ≤ gdot (castV muU) (castV u) := gdot_mono _ _ _ nnU hbox.2
  have e2 : gdot (castV muL : List L) (castV l) ≤ gdot (castV muL) y := gdot_mono _ _ _ nnL hbox.1
  have e3 : gdot (castV lamW : List L) ((W.map castV).map (fun r => gdot r y)) ≤
      gdot (castV lamW) (castV (List.zipWith (fun w si => dot w x - si) W s)) :=
    gdot_mono _ _ _ nnW (rows_le x y W s hs.symm hd)
  have hnegL : gdot (castV lamW : List L) (castV (List.zipWith (fun w si => dot w x - si) W s))
      + gdot (castV muU) (castV u) - gdot (castV muL) (castV l) < 0 := by
    simp only [gdot_castV, gdot_eq_dot]
    exact_mod_cast hneg
  linarith

/-! ## the reference decision -/

/-- the semantic statement with per-facet allowances `s` (positive = required margin, negative =
relaxation): `∀ x ∈ box R₁ ⊂ ℝᵐ, ∃ y ∈ box R₂, ∀ i, w_i·x − w_i·y ≥ s_i` -/
def PessDomS (W : Mat) (s : Vec) (R1 R2 : Region) : Prop :=
  ∀ x : List ℝ, GInBox (castV R1.1) (castV R1.2) x →
    ∃ y : List ℝ, GInBox (castV R2.1) (castV R2.2) y ∧
      ∀ p ∈ facetList W s, (p.2 : ℝ) ≤ gdot (castV p.1) x - gdot (castV p.1) y

theorem refPoint_true {W : Mat} {x l u s : Vec} (h : refPoint W x l u s = some true) :
    ∃ y, checkWitness W x l u s y = true := by
  unfold refPoint at h
  split at h
  · rename_i y _
    split at h
    · rename_i hc; exact ⟨y, hc⟩
    · simp at h
  · split at h <;> simp at h

theorem refPoint_false {W : Mat} {x l u s : Vec} (h : refPoint W x l u s = some false) :
    ∃ lam, checkFarkas W x l u s lam = true := by
  unfold refPoint at h
  split at h
  · split at h <;> simp at h
  · rename_i lam _
    split at h
    · rename_i hc; exact ⟨lam, hc⟩
    · simp at h

end VOPy.Pess
