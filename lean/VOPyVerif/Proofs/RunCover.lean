import VOPyVerif.Proofs.RunInv
/-!
# VOGP_AD: `P` is monotone up to replacing a refined node by its children — over whole runs

`State.parent` records the tree (`parent[k]` = the node whose refinement created `k`).  `Covers s p`
says that node `p` is *represented* in `P`: it is a member, or it has been refined and every child is
represented.  `Covers` is preserved by every call, hence along every run.
-/
namespace VOPy.Run
open VOPy VOPy.Steps

/-- `k` is a child of `p` in the tree recorded in `s.parent` (children are created after their
parent, so they carry larger indices; the root is its own `parent` entry and nobody's child) -/
def IsChild (s : State) (k p : Nat) : Prop := p < k ∧ s.parent[k]? = some p

/-- node `p` is represented in `P`: a member, or refined with every child represented -/
inductive Covers (s : State) : Nat → Prop
  | here {p : Nat} : p ∈ s.P → Covers s p
  | split {p : Nat} : (∃ k, IsChild s k p) → (∀ k, IsChild s k p → Covers s k) → Covers s p

/-- tree invariant: one `parent` entry per node; a node that has children is in neither set -/
structure TreeInv (s : State) : Prop where
  len : s.parent.length = s.depths.length
  out : ∀ k p, IsChild s k p → p ∉ s.S ∧ p ∉ s.P

theorem treeInv_init (c : Cfg) (hc : c.alg = .vogpAD) : TreeInv (init c) := by
  refine ⟨by simp [init, hc], ?_⟩
  intro k p ⟨hlt, hp⟩
  simp only [init, hc] at hp
  cases k with
  | zero => omega
  | succ k => simp at hp

theorem getElem?_grow (l : List Nat) (b d k : Nat) :
    (l ++ List.replicate b d)[k]? =
      if k < l.length then l[k]? else if k < l.length + b then some d else none := by
  by_cases h : k < l.length
  · simp only [h, if_true]; exact List.getElem?_append_left h
  · simp only [h, if_false]
    rw [List.getElem?_append_right (by omega), List.getElem?_replicate]
    by_cases h2 : k < l.length + b
    · simp only [h2, if_true]; rw [if_pos (by omega)]
    · simp only [h2, if_false]; rw [if_neg (by omega)]

/-- children after refining `d` (with `n` nodes before): the old ones, and the fresh nodes under `d` -/
theorem isChild_grow {s s' : State} {c : Cfg} {d : Nat}
    (hp : s'.parent = s.parent ++ List.replicate c.branch d) (k p : Nat) :
    IsChild s' k p ↔ IsChild s k p ∨ (p < k ∧ k ∈ childIds c s.parent.length ∧ p = d) := by
  unfold IsChild
  rw [hp, getElem?_grow, mem_childIds]
  constructor
  · rintro ⟨hlt, h⟩
    by_cases h1 : k < s.parent.length
    · rw [if_pos h1] at h; exact Or.inl ⟨hlt, h⟩
    · rw [if_neg h1] at h
      by_cases h2 : k < s.parent.length + c.branch
      · rw [if_pos h2] at h
        exact Or.inr ⟨hlt, ⟨by omega, h2⟩, (Option.some.inj h).symm⟩
      · rw [if_neg h2] at h; cases h
  · rintro (⟨hlt, h⟩ | ⟨hlt, ⟨h1, h2⟩, rfl⟩)
    · have hk : k < s.parent.length := by
        rcases Nat.lt_or_ge k s.parent.length with h' | h'
        · exact h'
        · rw [List.getElem?_eq_none h'] at h; cases h
      exact ⟨hlt, by rw [if_pos hk]; exact h⟩
    · exact ⟨hlt, by rw [if_neg (by omega), if_pos h2]⟩

/-- one call preserves the tree invariant and every `Covers` fact -/
theorem cover_step (c : Cfg) (s : State) (e : Env) (hc : c.alg = .vogpAD) (hbr : 0 < c.branch)
    (hw : WF c s) (ht : TreeInv s) :
    TreeInv (step c s e).1 ∧ ∀ p, Covers s p → Covers (step c s e).1 p := by
  cases h : isDone c s
  · rw [step_of_not_done e h, active_ad hc]
    have F := adActive_facts c s e hw hc
    cases hr : (adActive c s e).refined with
    | none =>
      obtain ⟨T, hD⟩ := F.plain hr
      have hpar := F.parentPlain hr
      have hch : ∀ k p, IsChild (adActive c s e).st k p ↔ IsChild s k p := by
        intro k p; unfold IsChild; rw [hpar]
      refine ⟨⟨by rw [hpar, hD]; exact ht.len, ?_⟩, ?_⟩
      · intro k p hkp
        obtain ⟨h1, h2⟩ := ht.out k p ((hch k p).mp hkp)
        refine ⟨fun hs => h1 (T.sub.subset hs), fun hp => ?_⟩
        rcases T.from_ p hp with h3 | h3
        · exact h2 h3
        · exact h1 h3
      · intro p hp
        induction hp with
        | here hm => exact Covers.here (T.keep _ hm)
        | split hex _ ih =>
          obtain ⟨k0, hk0⟩ := hex
          exact Covers.split ⟨k0, (hch k0 _).mpr hk0⟩ (fun k hk => ih k ((hch k _).mp hk))
    | some d =>
      obtain ⟨R, _⟩ := F.refine d hr
      have hpar := F.parentRefine d hr
      have hn : s.parent.length = s.depths.length := ht.len
      have hdn : d < s.depths.length := hw.bound hc d R.was
      have hch := fun k p => isChild_grow (c := c) hpar k p
      refine ⟨⟨?_, ?_⟩, ?_⟩
      · rw [hpar, R.depths_eq]; simp only [List.length_append, List.length_replicate]; omega
      · intro k p hkp
        rcases (hch k p).mp hkp with hold | ⟨_, _, rfl⟩
        · obtain ⟨h1, h2⟩ := ht.out k p hold
          have hk : k < s.parent.length := by
            rcases Nat.lt_or_ge k s.parent.length with h' | h'
            · exact h'
            · have := hold.2; rw [List.getElem?_eq_none h'] at this; cases this
          have hpk : p < s.depths.length := by have := hold.1; omega
          refine ⟨fun hs => ?_, fun hp => ?_⟩
          · rcases R.S_from p hs with h3 | h3
            · exact h1 h3
            · have := ((mem_childIds c _ p).mp h3).1; omega
          · rcases R.P_from p hp with h3 | h3 | h3
            · exact h2 h3
            · exact h1 h3
            · have := ((mem_childIds c _ p).mp h3).1; omega
        · exact ⟨R.notS, R.notP⟩
      · intro p hp
        induction hp with
        | @here p hm =>
          rcases R.P_keep p hm with h1 | h1
          · exact Covers.here h1
          · subst h1
            have hkid : s.depths.length ∈ childIds c s.parent.length := by
              rw [mem_childIds]; omega
            refine Covers.split ⟨s.depths.length, (hch _ _).mpr (Or.inr ⟨hdn, hkid, rfl⟩)⟩ ?_
            intro k hk
            rcases (hch k p).mp hk with hold | ⟨_, hkk, _⟩
            · exact absurd hm (ht.out k p hold).2
            · exact Covers.here (R.kidsP hm k (hn ▸ hkk))
        | @split p hex _ ih =>
          obtain ⟨k0, hk0⟩ := hex
          have hout := ht.out k0 p hk0
          have hpd : p ≠ d := by
            intro hpd
            rcases R.was with h1 | h1
            · exact hout.1 (hpd ▸ h1)
            · exact hout.2 (hpd ▸ h1)
          refine Covers.split ⟨k0, (hch k0 p).mpr (Or.inl hk0)⟩ ?_
          intro k hk
          rcases (hch k p).mp hk with hold | ⟨_, _, h3⟩
          · exact ih k hold
          · exact absurd h3 hpd
  · rw [step_of_done e h]
    exact ⟨ht, fun p hp => hp⟩

/-- whole runs -/
theorem cover_run (c : Cfg) (s : State) (es : List Env) (hc : c.alg = .vogpAD) (hbr : 0 < c.branch)
    (hw : WF c s) (ht : TreeInv s) :
    TreeInv (run c s es).1 ∧ ∀ p, Covers s p → Covers (run c s es).1 p := by
  have hel : c.alg.elim = true := by simp [hc, Alg.elim]
  induction es generalizing s with
  | nil => exact ⟨ht, fun p hp => hp⟩
  | cons e es ih =>
    rw [run_cons]
    obtain ⟨t1, c1⟩ := cover_step c s e hc hbr hw ht
    obtain ⟨t2, c2⟩ := ih _ (wf_step c s e hw hel) t1
    exact ⟨t2, fun p hp => c2 p (c1 p hp)⟩

end VOPy.Run
