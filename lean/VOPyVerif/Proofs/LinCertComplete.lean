import VOPyVerif.Proofs.LinCert
import Mathlib.Tactic.FieldSimp
import Mathlib.Tactic.Positivity
/-!
# Completeness of Fourier–Motzkin elimination with multiplier tracking (`fmPlain`)

For every well-formed rational system `A x ≥ b` (`n` unknowns, finitely many rows) the plain
Fourier–Motzkin search of `Model/LinCert.lean` returns a certificate the checker accepts:

* `fmPlain_witness`   — a returned witness satisfies every row it was given (back-substitution);
* `fmPlain_farkas`    — returned multipliers are `≥ 0`, combine the rows to `0 · x ≥ b` with `b > 0`;
* `feasibleFM_complete`, `feasibleC_complete` — hence `feasibleFM` / `feasibleC` never answer `none`;
* `feasibleC_true_iff`, `feasibleC_false_iff` — and therefore *decide* real feasibility
  (this is Farkas' lemma for rational data, with the alternative computed).
-/
namespace VOPy.LinCert

/-! ### rational list vectors -/

@[simp] theorem dot_nil_left (x : Vec) : dot [] x = 0 := by simp [dot]
@[simp] theorem dot_nil_right (x : Vec) : dot x [] = 0 := by cases x <;> simp [dot]
@[simp] theorem dot_cons (a b : ℚ) (as bs : Vec) : dot (a :: as) (b :: bs) = a * b + dot as bs := rfl

@[simp] theorem vadd_length (a b : Vec) : (vadd a b).length = min a.length b.length := by
  simp [vadd]
@[simp] theorem vsub_length (a b : Vec) : (vsub a b).length = min a.length b.length := by
  simp [vsub]
@[simp] theorem smul_length (c : ℚ) (a : Vec) : (smul c a).length = a.length := by simp [smul]
@[simp] theorem zeros_length (n : ℕ) : (zeros n).length = n := by simp [zeros]

theorem zeros_succ (n : ℕ) : zeros (n + 1) = 0 :: zeros n := by simp [zeros, List.replicate_succ]

theorem dot_smul_left (c : ℚ) : ∀ a x : Vec, dot (smul c a) x = c * dot a x
  | [], x => by simp [smul]
  | _ :: _, [] => by simp
  | a :: as, x :: xs => by
    have := dot_smul_left c as xs
    simp only [smul] at this
    simp [smul, this]; ring

theorem dot_vadd_left : ∀ a b x : Vec, a.length = b.length →
    dot (vadd a b) x = dot a x + dot b x
  | [], [], x, _ => by simp [vadd]
  | [], _ :: _, _, h => by simp at h
  | _ :: _, [], _, h => by simp at h
  | a :: as, b :: bs, [], _ => by simp
  | a :: as, b :: bs, x :: xs, h => by
    have := dot_vadd_left as bs xs (by simpa using h)
    simp only [vadd] at this
    simp [vadd, this]; ring

theorem dot_zeros_left : ∀ (n : ℕ) (x : Vec), dot (zeros n) x = 0
  | 0, x => by simp [zeros]
  | n + 1, [] => by simp
  | n + 1, x :: xs => by
    rw [zeros_succ, dot_cons, dot_zeros_left n xs]; ring

theorem dot_of_isZero {a : Vec} (h : isZero a = true) (x : Vec) : dot a x = 0 := by
  rw [(isZero_iff a).1 h]; exact dot_zeros_left _ _

theorem isZero_zeros (n : ℕ) : isZero (zeros n) = true := by
  simp [isZero, zeros]

theorem smul_zeros (c : ℚ) (n : ℕ) : smul c (zeros n) = zeros n := by
  simp [smul, zeros]

theorem vadd_zeros_right : ∀ (a : Vec) (n : ℕ), a.length = n → vadd a (zeros n) = a
  | [], _, _ => by simp [vadd]
  | a :: as, 0, h => by simp at h
  | a :: as, n + 1, h => by
    have := vadd_zeros_right as n (by simpa using h)
    simp only [vadd] at this
    simp [zeros_succ, vadd, this]

theorem vadd_zeros_zeros (n : ℕ) : vadd (zeros n) (zeros n) = zeros n :=
  vadd_zeros_right _ _ (zeros_length n)

theorem vadd_zeros_left : ∀ (a : Vec) (n : ℕ), a.length = n → vadd (zeros n) a = a
  | [], _, _ => by simp [vadd]
  | a :: as, 0, h => by simp at h
  | a :: as, n + 1, h => by
    have := vadd_zeros_left as n (by simpa using h)
    simp only [vadd] at this
    simp [zeros_succ, vadd, this]

theorem smul_one (a : Vec) : smul 1 a = a := by simp [smul]

theorem smul_smul (c d : ℚ) (a : Vec) : smul c (smul d a) = smul (c * d) a := by
  simp [smul, mul_assoc]

theorem smul_append (c : ℚ) (a b : Vec) : smul c (a ++ b) = smul c a ++ smul c b := by
  simp [smul]

theorem smul_cons (c x : ℚ) (a : Vec) : smul c (x :: a) = c * x :: smul c a := by simp [smul]

theorem smul_vadd (c : ℚ) : ∀ a b : Vec, smul c (vadd a b) = vadd (smul c a) (smul c b)
  | [], _ => by simp [smul, vadd]
  | _ :: _, [] => by simp [smul, vadd]
  | a :: as, b :: bs => by
    have := smul_vadd c as bs
    simp only [smul, vadd] at this
    simp [smul, vadd, this]; ring

theorem add_smul_vec (c d : ℚ) (a : Vec) : smul (c + d) a = vadd (smul c a) (smul d a) := by
  induction a with
  | nil => simp [smul, vadd]
  | cons x a ih =>
    simp only [smul, vadd] at ih
    simp [smul, vadd, ih]; ring

theorem vadd_vadd_vadd_comm : ∀ a b c d : Vec,
    vadd (vadd a b) (vadd c d) = vadd (vadd a c) (vadd b d)
  | [], _, _, _ => by simp [vadd]
  | _ :: _, [], _, _ => by simp [vadd]
  | _ :: _, _ :: _, [], _ => by simp [vadd]
  | _ :: _, _ :: _, _ :: _, [] => by simp [vadd]
  | a :: as, b :: bs, c :: cs, d :: ds => by
    have := vadd_vadd_vadd_comm as bs cs ds
    simp only [vadd] at this
    simp [vadd, this]; ring

theorem vadd_append : ∀ (a b c d : Vec), a.length = c.length →
    vadd (a ++ b) (c ++ d) = vadd a c ++ vadd b d
  | [], b, [], d, _ => by simp [vadd]
  | [], _, _ :: _, _, h => by simp at h
  | _ :: _, _, [], _, h => by simp at h
  | a :: as, b, c :: cs, d, h => by
    have := vadd_append as b cs d (by simpa using h)
    simp only [vadd] at this
    simp [vadd, this]

theorem zeros_append_zero (k : ℕ) (v : Vec) : zeros k ++ 0 :: v = zeros (k + 1) ++ v := by
  simp only [zeros]
  rw [List.replicate_succ', List.append_assoc]; rfl

/-! ### `maxList`, `minList`, `between` -/

theorem maxList_eq_none : ∀ l : List ℚ, maxList l = none ↔ l = []
  | [] => by simp [maxList]
  | x :: xs => by
    simp only [maxList]
    cases maxList xs <;> simp

theorem maxList_ge : ∀ (l : List ℚ) (m : ℚ), maxList l = some m → ∀ x ∈ l, x ≤ m
  | [], _, h => by simp [maxList] at h
  | x :: xs, m, h => by
    simp only [maxList] at h
    cases hm : maxList xs with
    | none =>
      rw [hm] at h
      have : xs = [] := (maxList_eq_none xs).1 hm
      simp only [Option.some.injEq] at h
      subst this; subst h
      simp
    | some m' =>
      rw [hm] at h
      simp only [Option.some.injEq] at h
      have ih := maxList_ge xs m' hm
      intro y hy
      rcases List.mem_cons.1 hy with rfl | hy
      · rw [← h]; split <;> [assumption; exact le_refl _]
      · have := ih y hy
        rw [← h]; split
        · exact this
        · rename_i hn; exact le_trans this (le_of_lt (not_le.1 hn))

theorem minList_eq_none : ∀ l : List ℚ, minList l = none ↔ l = []
  | [] => by simp [minList]
  | x :: xs => by
    simp only [minList]
    cases minList xs <;> simp

theorem minList_le : ∀ (l : List ℚ) (m : ℚ), minList l = some m → ∀ x ∈ l, m ≤ x
  | [], _, h => by simp [minList] at h
  | x :: xs, m, h => by
    simp only [minList] at h
    cases hm : minList xs with
    | none =>
      rw [hm] at h
      have : xs = [] := (minList_eq_none xs).1 hm
      simp only [Option.some.injEq] at h
      subst this; subst h
      simp
    | some m' =>
      rw [hm] at h
      simp only [Option.some.injEq] at h
      have ih := minList_le xs m' hm
      intro y hy
      rcases List.mem_cons.1 hy with rfl | hy
      · rw [← h]; split <;> [assumption; exact le_refl _]
      · have := ih y hy
        rw [← h]; split
        · exact this
        · rename_i hn; exact le_trans (le_of_lt (not_le.1 hn)) this

theorem maxList_mem : ∀ (l : List ℚ) (m : ℚ), maxList l = some m → m ∈ l
  | [], _, h => by simp [maxList] at h
  | x :: xs, m, h => by
    simp only [maxList] at h
    cases hm : maxList xs with
    | none => rw [hm] at h; simp only [Option.some.injEq] at h; simp [h]
    | some m' =>
      rw [hm] at h
      simp only [Option.some.injEq] at h
      have ih := maxList_mem xs m' hm
      rw [← h]; split
      · exact List.mem_cons_of_mem _ ih
      · exact List.mem_cons_self

theorem minList_mem : ∀ (l : List ℚ) (m : ℚ), minList l = some m → m ∈ l
  | [], _, h => by simp [minList] at h
  | x :: xs, m, h => by
    simp only [minList] at h
    cases hm : minList xs with
    | none => rw [hm] at h; simp only [Option.some.injEq] at h; simp [h]
    | some m' =>
      rw [hm] at h
      simp only [Option.some.injEq] at h
      have ih := minList_mem xs m' hm
      rw [← h]; split
      · exact List.mem_cons_of_mem _ ih
      · exact List.mem_cons_self

/-- if every lower bound is below every upper bound, `between` picks a point in between -/
theorem between_spec (L U : List ℚ) (h : ∀ l ∈ L, ∀ u ∈ U, l ≤ u) :
    (∀ l ∈ L, l ≤ between (maxList L) (minList U)) ∧
    (∀ u ∈ U, between (maxList L) (minList U) ≤ u) := by
  cases hL : maxList L with
  | none =>
    have hL' := (maxList_eq_none L).1 hL
    cases hU : minList U with
    | none =>
      have hU' := (minList_eq_none U).1 hU
      subst hL'; subst hU'; simp
    | some hi =>
      subst hL'
      exact ⟨by simp, fun u hu => by simpa [between] using minList_le U hi hU u hu⟩
  | some lo =>
    cases hU : minList U with
    | none =>
      have hU' := (minList_eq_none U).1 hU
      subst hU'
      exact ⟨fun l hl => by simpa [between] using maxList_ge L lo hL l hl, by simp⟩
    | some hi =>
      have hlh : lo ≤ hi := h lo (maxList_mem L lo hL) hi (minList_mem U hi hU)
      simp only [between]
      constructor
      · intro l hl
        have := maxList_ge L lo hL l hl
        linarith
      · intro u hu
        have := minList_le U hi hU u hu
        linarith

/-! ### one elimination step: shapes of the derived rows -/

theorem mem_posRows {rows : List Row} {p : Row} :
    p ∈ posRows rows ↔ ∃ r ∈ rows, 0 < headD r.a ∧ p = scaleTail (1 / headD r.a) r := by
  simp only [posRows, List.mem_map, List.mem_filter, decide_eq_true_eq]
  constructor
  · rintro ⟨r, ⟨hr, hh⟩, rfl⟩; exact ⟨r, hr, hh, rfl⟩
  · rintro ⟨r, hr, hh, rfl⟩; exact ⟨r, ⟨hr, hh⟩, rfl⟩

theorem mem_negRows {rows : List Row} {q : Row} :
    q ∈ negRows rows ↔ ∃ r ∈ rows, headD r.a < 0 ∧ q = scaleTail (-1 / headD r.a) r := by
  simp only [negRows, List.mem_map, List.mem_filter, decide_eq_true_eq]
  constructor
  · rintro ⟨r, ⟨hr, hh⟩, rfl⟩; exact ⟨r, hr, hh, rfl⟩
  · rintro ⟨r, hr, hh, rfl⟩; exact ⟨r, ⟨hr, hh⟩, rfl⟩

theorem mem_zerRows {rows : List Row} {z : Row} :
    z ∈ zerRows rows ↔ ∃ r ∈ rows, headD r.a = 0 ∧ z = scaleTail 1 r := by
  simp only [zerRows, List.mem_map, List.mem_filter, decide_eq_true_eq]
  constructor
  · rintro ⟨r, ⟨hr, hh⟩, rfl⟩; exact ⟨r, hr, hh, rfl⟩
  · rintro ⟨r, hr, hh, rfl⟩; exact ⟨r, ⟨hr, hh⟩, rfl⟩

theorem mem_crossRows {pos neg : List Row} {c : Row} :
    c ∈ crossRows pos neg ↔ ∃ p ∈ pos, ∃ q ∈ neg, c = addRow p q := by
  simp only [crossRows, List.mem_flatMap, List.mem_map]
  constructor
  · rintro ⟨p, hp, q, hq, rfl⟩; exact ⟨p, hp, q, hq, rfl⟩
  · rintro ⟨p, hp, q, hq, rfl⟩; exact ⟨p, hp, q, hq, rfl⟩

/-- a vector with `n + 1` entries is its head followed by its tail -/
theorem eq_headD_cons_tail {a : Vec} {n : ℕ} (h : a.length = n + 1) :
    a = headD a :: a.tail ∧ a.tail.length = n := by
  cases a with
  | nil => simp at h
  | cons x xs => exact ⟨rfl, by simpa using h⟩

theorem scaleTail_length {c : ℚ} {r : Row} {n : ℕ} (h : r.a.length = n + 1) :
    (scaleTail c r).a.length = n := by
  simp [scaleTail, (eq_headD_cons_tail h).2]

/-- every row handed to the next level has one unknown less -/
theorem next_length {n : ℕ} {rows : List Row} (hwf : ∀ r ∈ rows, r.a.length = n + 1) :
    ∀ r ∈ zerRows rows ++ crossRows (posRows rows) (negRows rows), r.a.length = n := by
  intro r hr
  rcases List.mem_append.1 hr with hz | hc
  · obtain ⟨r0, hr0, -, rfl⟩ := mem_zerRows.1 hz
    exact scaleTail_length (hwf r0 hr0)
  · obtain ⟨p, hp, q, hq, rfl⟩ := mem_crossRows.1 hc
    obtain ⟨r1, hr1, -, rfl⟩ := mem_posRows.1 hp
    obtain ⟨r2, hr2, -, rfl⟩ := mem_negRows.1 hq
    simp [addRow, scaleTail_length (hwf r1 hr1), scaleTail_length (hwf r2 hr2)]

/-! ### the witness half: back-substitution satisfies every row -/

theorem aux_pos (h x0 D B : ℚ) (hh : 0 < h) (H : 1 / h * B - 1 / h * D ≤ x0) :
    B ≤ h * x0 + D := by
  have h1 := mul_le_mul_of_nonneg_left H hh.le
  have e : h * (1 / h * B - 1 / h * D) = B - D := by field_simp
  rw [e] at h1; linarith

theorem aux_neg (h x0 D B : ℚ) (hh : h < 0) (H : x0 ≤ -1 / h * D - -1 / h * B) :
    B ≤ h * x0 + D := by
  have hne : h ≠ 0 := ne_of_lt hh
  have h1 := mul_le_mul_of_nonneg_left H (by linarith : (0 : ℚ) ≤ -h)
  have e : -h * (-1 / h * D - -1 / h * B) = D - B := by field_simp; ring
  rw [e] at h1; linarith

/-- **A witness returned by plain Fourier–Motzkin satisfies every row it was given.** -/
theorem fmPlain_witness : ∀ (n : ℕ) (rows : List Row) (x : Vec),
    (∀ r ∈ rows, r.a.length = n) → fmPlain n rows = .witness x →
    x.length = n ∧ ∀ r ∈ rows, r.b ≤ dot r.a x
  | 0, rows, x, hwf, h => by
    simp only [fmPlain] at h
    split at h
    · cases h
    · rename_i hnone
      simp only [Result.witness.injEq] at h
      subst h
      refine ⟨rfl, fun r hr => ?_⟩
      have := List.find?_eq_none.1 hnone r hr
      simp only [decide_eq_true_eq, not_lt] at this
      simpa using this
  | n + 1, rows, x, hwf, h => by
    simp only [fmPlain] at h
    split at h
    · cases h
    · rename_i xt hxt
      simp only [Result.witness.injEq] at h
      subst h
      have hlen := next_length hwf
      obtain ⟨hxl, hsat⟩ := fmPlain_witness n _ xt
        (fun r hr => hlen r (List.mem_filter.1 hr).1) hxt
      -- every derived row holds at `xt`, the dropped trivial ones included
      have hall : ∀ r ∈ zerRows rows ++ crossRows (posRows rows) (negRows rows),
          r.b ≤ dot r.a xt := by
        intro r hr
        by_cases ht : trivialRow r = true
        · simp only [trivialRow, Bool.and_eq_true, decide_eq_true_eq] at ht
          rw [dot_of_isZero ht.1]; exact ht.2
        · exact hsat r (List.mem_filter.2 ⟨hr, by simpa using ht⟩)
      -- lower bounds are below upper bounds
      have hLU : ∀ l ∈ (posRows rows).map (fun p => p.b - dot p.a xt),
          ∀ u ∈ (negRows rows).map (fun q => dot q.a xt - q.b), l ≤ u := by
        intro l hl u hu
        obtain ⟨p, hp, rfl⟩ := List.mem_map.1 hl
        obtain ⟨q, hq, rfl⟩ := List.mem_map.1 hu
        have hc := hall (addRow p q)
          (List.mem_append_right _ (mem_crossRows.2 ⟨p, hp, q, hq, rfl⟩))
        have hpl : p.a.length = q.a.length := by
          obtain ⟨r1, hr1, -, rfl⟩ := mem_posRows.1 hp
          obtain ⟨r2, hr2, -, rfl⟩ := mem_negRows.1 hq
          rw [scaleTail_length (hwf r1 hr1), scaleTail_length (hwf r2 hr2)]
        simp only [addRow] at hc
        rw [dot_vadd_left _ _ _ hpl] at hc
        linarith
      obtain ⟨hlo, hhi⟩ := between_spec _ _ hLU
      refine ⟨by simp [hxl], fun r hr => ?_⟩
      obtain ⟨hra, -⟩ := eq_headD_cons_tail (hwf r hr)
      set x0 := pickX0 (posRows rows) (negRows rows) xt with hx0
      rw [hra, dot_cons]
      rcases lt_trichotomy (headD r.a) 0 with hneg | hzero | hpos
      · have := hhi _ (List.mem_map.2 ⟨_, mem_negRows.2 ⟨r, hr, hneg, rfl⟩, rfl⟩)
        change x0 ≤ _ at this
        simp only [scaleTail, dot_smul_left] at this
        exact aux_neg _ _ _ _ hneg this
      · have := hall _ (List.mem_append_left _ (mem_zerRows.2 ⟨r, hr, hzero, rfl⟩))
        simp only [scaleTail, dot_smul_left] at this
        rw [hzero]; linarith
      · have := hlo _ (List.mem_map.2 ⟨_, mem_posRows.2 ⟨r, hr, hpos, rfl⟩, rfl⟩)
        change _ ≤ x0 at this
        simp only [scaleTail, dot_smul_left] at this
        exact aux_pos _ _ _ _ hpos this

/-! ### the Farkas half: multipliers stay non-negative and combine the original rows -/

theorem lincomb_length (n : ℕ) : ∀ (R : List Vec) (y : Vec), (∀ r ∈ R, r.length = n) →
    (lincomb n R y).length = n
  | [], _, _ => by simp [lincomb]
  | _ :: _, [], _ => by simp [lincomb]
  | r :: R, y :: ys, h => by
    have ih := lincomb_length n R ys (fun r hr => h r (List.mem_cons_of_mem _ hr))
    simp [lincomb, ih, h r List.mem_cons_self]

theorem lincomb_smul (n : ℕ) (c : ℚ) : ∀ (R : List Vec) (y : Vec),
    lincomb n R (smul c y) = smul c (lincomb n R y)
  | [], y => by simp only [lincomb, smul_zeros]
  | _ :: _, [] => by
    have : VOPy.smul c [] = [] := rfl
    rw [this]; simp only [lincomb, smul_zeros]
  | r :: R, y :: ys => by
    have ih := lincomb_smul n c R ys
    simp only [smul_cons, lincomb, ih, smul_vadd, smul_smul]

theorem lincomb_vadd (n : ℕ) : ∀ (R : List Vec) (y y' : Vec), y.length = y'.length →
    (∀ r ∈ R, r.length = n) →
    lincomb n R (vadd y y') = vadd (lincomb n R y) (lincomb n R y')
  | [], y, y', _, _ => by simp only [lincomb, vadd_zeros_zeros]
  | _ :: _, [], [], _, _ => by
    have : vadd ([] : Vec) [] = [] := rfl
    rw [this]; simp only [lincomb, vadd_zeros_zeros]
  | _ :: _, [], _ :: _, h, _ => by simp at h
  | _ :: _, _ :: _, [], h, _ => by simp at h
  | r :: R, y :: ys, y' :: ys', h, hR => by
    have ih := lincomb_vadd n R ys ys' (by simpa using h)
      (fun r hr => hR r (List.mem_cons_of_mem _ hr))
    have e : vadd (y :: ys) (y' :: ys') = (y + y') :: vadd ys ys' := by simp [vadd]
    rw [e]
    simp only [lincomb, ih, add_smul_vec]
    exact vadd_vadd_vadd_comm _ _ _ _

theorem combB_smul (c : ℚ) : ∀ (S : Sys) (y : Vec), combB S (smul c y) = c * combB S y
  | [], y => by simp [combB]
  | _ :: _, [] => by simp [combB, smul]
  | r :: S, y :: ys => by
    simp only [smul_cons, combB, combB_smul c S ys]; ring

theorem combB_vadd : ∀ (S : Sys) (y y' : Vec), y.length = y'.length →
    combB S (vadd y y') = combB S y + combB S y'
  | [], y, y', _ => by simp [combB]
  | _ :: _, [], [], _ => by simp [combB, vadd]
  | _ :: _, [], _ :: _, h => by simp at h
  | _ :: _, _ :: _, [], h => by simp at h
  | r :: S, y :: ys, y' :: ys', h => by
    have ih := combB_vadd S ys ys' (by simpa using h)
    have e : vadd (y :: ys) (y' :: ys') = (y + y') :: vadd ys ys' := by simp [vadd]
    rw [e]
    simp only [combB, ih]; ring

/-- `y ≥ 0` has one entry per row of `S` and combines the rows to `a · x ≥ b` -/
def Comb (n : ℕ) (S : Sys) (y a : Vec) (b : ℚ) : Prop :=
  y.length = S.length ∧ (∀ v ∈ y, (0 : ℚ) ≤ v) ∧ combA n S y = a ∧ combB S y = b

theorem Comb.smul {n : ℕ} {S : Sys} {y a : Vec} {b c : ℚ} (hc : 0 ≤ c) (h : Comb n S y a b) :
    Comb n S (smul c y) (smul c a) (c * b) := by
  obtain ⟨h1, h2, h3, h4⟩ := h
  refine ⟨by simp [h1], ?_, ?_, ?_⟩
  · intro v hv
    simp only [VOPy.smul, List.mem_map] at hv
    obtain ⟨w, hw, rfl⟩ := hv
    exact mul_nonneg hc (h2 w hw)
  · rw [← h3]; exact lincomb_smul n c _ y
  · rw [← h4]; exact combB_smul c S y

theorem Comb.add {n : ℕ} {S : Sys} (hwf : ∀ r ∈ S, r.a.length = n) {y y' a a' : Vec} {b b' : ℚ}
    (h : Comb n S y a b) (h' : Comb n S y' a' b') :
    Comb n S (vadd y y') (vadd a a') (b + b') := by
  obtain ⟨h1, h2, h3, h4⟩ := h
  obtain ⟨h1', h2', h3', h4'⟩ := h'
  refine ⟨by simp [h1, h1'], ?_, ?_, ?_⟩
  · intro v hv
    simp only [vadd] at hv
    obtain ⟨i, hi, rfl⟩ := List.mem_iff_getElem.1 hv
    simp only [List.getElem_zipWith]
    exact add_nonneg (h2 _ (List.getElem_mem _)) (h2' _ (List.getElem_mem _))
  · rw [← h3, ← h3']
    exact lincomb_vadd n _ y y' (by rw [h1, h1']) (by
      intro r hr
      obtain ⟨s, hs, rfl⟩ := List.mem_map.1 hr
      exact hwf s hs)
  · rw [← h4, ← h4']; exact combB_vadd S y y' (by rw [h1, h1'])

/-- invariant of the rows at elimination level `k`: the multipliers combine the original rows to
`(0, …, 0, a) · x ≥ b` with `k` leading zeros -/
def RowInv (n0 : ℕ) (S : Sys) (k : ℕ) (r : Row) : Prop := Comb n0 S r.y (zeros k ++ r.a) r.b

theorem RowInv.scaleTail {n0 : ℕ} {S : Sys} {k n : ℕ} {r : Row} {c : ℚ} (hc : 0 ≤ c)
    (hl : r.a.length = n + 1) (h : RowInv n0 S k r) :
    Comb n0 S (scaleTail c r).y (zeros k ++ (c * headD r.a) :: (scaleTail c r).a)
      (scaleTail c r).b := by
  have := Comb.smul hc h
  rw [smul_append, smul_zeros] at this
  have e := (eq_headD_cons_tail hl).1
  rw [e, smul_cons] at this
  simpa [LinCert.scaleTail] using this

theorem fmPlain_farkas (n0 : ℕ) (S : Sys) (hwf : ∀ r ∈ S, r.a.length = n0) :
    ∀ (n k : ℕ) (rows : List Row) (y : Vec), k + n = n0 →
    (∀ r ∈ rows, r.a.length = n) → (∀ r ∈ rows, RowInv n0 S k r) →
    fmPlain n rows = .farkas y → ∃ b, 0 < b ∧ Comb n0 S y (zeros n0) b
  | 0, k, rows, y, hk, hlen, hinv, h => by
    simp only [fmPlain] at h
    split at h
    · rename_i r hr
      simp only [Result.farkas.injEq] at h
      subst h
      have hmem := List.mem_of_find?_eq_some hr
      have hb := List.find?_some hr
      simp only [decide_eq_true_eq] at hb
      have hi := hinv r hmem
      have ha : r.a = [] := List.length_eq_zero_iff.1 (hlen r hmem)
      have hk' : k = n0 := by omega
      refine ⟨r.b, hb, ?_⟩
      simpa [RowInv, ha, hk'] using hi
    · cases h
  | n + 1, k, rows, y, hk, hlen, hinv, h => by
    simp only [fmPlain] at h
    split at h
    · rename_i y' hy'
      simp only [Result.farkas.injEq] at h
      subst h
      refine fmPlain_farkas n0 S hwf n (k + 1) _ y' (by omega)
        (fun r hr => next_length hlen r (List.mem_filter.1 hr).1) ?_ hy'
      intro r hr
      have hr' := (List.mem_filter.1 hr).1
      rcases List.mem_append.1 hr' with hz | hc
      · obtain ⟨r0, hr0, hh, rfl⟩ := mem_zerRows.1 hz
        have := RowInv.scaleTail (c := 1) (by norm_num) (hlen r0 hr0) (hinv r0 hr0)
        rw [hh, mul_zero, zeros_append_zero] at this
        exact this
      · obtain ⟨p, hp, q, hq, rfl⟩ := mem_crossRows.1 hc
        obtain ⟨r1, hr1, h1, rfl⟩ := mem_posRows.1 hp
        obtain ⟨r2, hr2, h2, rfl⟩ := mem_negRows.1 hq
        have c1 := RowInv.scaleTail (c := 1 / headD r1.a) (by positivity) (hlen r1 hr1)
          (hinv r1 hr1)
        have c2 := RowInv.scaleTail (c := -1 / headD r2.a)
          (by rw [neg_div, one_div, ← inv_neg]; exact inv_nonneg.2 (by linarith))
          (hlen r2 hr2) (hinv r2 hr2)
        have e1 : 1 / headD r1.a * headD r1.a = 1 := by field_simp
        have e2 : -1 / headD r2.a * headD r2.a = -1 := by
          have : headD r2.a ≠ 0 := ne_of_lt h2
          field_simp
        rw [e1] at c1; rw [e2] at c2
        have := Comb.add hwf c1 c2
        rw [vadd_append _ _ _ _ (by simp), vadd_zeros_zeros] at this
        have e3 : vadd ((1 : ℚ) :: (LinCert.scaleTail (1 / headD r1.a) r1).a)
            ((-1 : ℚ) :: (LinCert.scaleTail (-1 / headD r2.a) r2).a) =
            0 :: (addRow (LinCert.scaleTail (1 / headD r1.a) r1)
              (LinCert.scaleTail (-1 / headD r2.a) r2)).a := by
          simp [vadd, addRow]
        rw [e3, zeros_append_zero] at this
        exact this
    · cases h

/-! ### the initial rows -/

theorem unitVec_zero (k : ℕ) : unitVec (k + 1) 0 = 1 :: zeros k := by
  simp only [unitVec, List.range_succ_eq_map, List.map_cons, List.map_map, if_true, zeros,
    List.cons.injEq, true_and]
  rw [List.eq_replicate_iff]
  refine ⟨by simp, ?_⟩
  intro b hb
  obtain ⟨j, -, rfl⟩ := List.mem_map.1 hb
  simp

theorem unitVec_succ (k i : ℕ) : unitVec (k + 1) (i + 1) = 0 :: unitVec k i := by
  simp only [unitVec, List.range_succ_eq_map, List.map_cons, List.map_map, List.cons.injEq]
  refine ⟨by simp, ?_⟩
  apply List.map_congr_left
  intro j _
  simp

theorem unitVec_length (k i : ℕ) : (unitVec k i).length = k := by simp [unitVec]

theorem unitVec_nonneg (k i : ℕ) : ∀ v ∈ unitVec k i, (0 : ℚ) ≤ v := by
  intro v hv
  obtain ⟨j, -, rfl⟩ := List.mem_map.1 hv
  split <;> norm_num

theorem lincomb_zeros (n : ℕ) : ∀ (R : List Vec) (k : ℕ), (∀ r ∈ R, r.length = n) →
    lincomb n R (zeros k) = zeros n
  | [], _, _ => by simp [lincomb]
  | _ :: _, 0, _ => by simp [lincomb, zeros]
  | r :: R, k + 1, h => by
    rw [zeros_succ]
    simp only [lincomb]
    rw [lincomb_zeros n R k (fun r hr => h r (List.mem_cons_of_mem _ hr))]
    have : VOPy.smul 0 r = zeros n := by
      simp only [VOPy.smul, zeros, zero_mul]
      rw [List.eq_replicate_iff]
      exact ⟨by simp [h r List.mem_cons_self], by simp⟩
    rw [this, vadd_zeros_zeros]

theorem combB_zeros : ∀ (S : Sys) (k : ℕ), combB S (zeros k) = 0
  | [], _ => by simp [combB]
  | _ :: _, 0 => by simp [combB, zeros]
  | r :: S, k + 1 => by rw [zeros_succ]; simp [combB, combB_zeros S k]

theorem comb_unitVec (n : ℕ) : ∀ (S : Sys) (i : ℕ) (hi : i < S.length),
    (∀ r ∈ S, r.a.length = n) →
    combA n S (unitVec S.length i) = S[i].a ∧ combB S (unitVec S.length i) = S[i].b
  | [], i, hi, _ => by simp at hi
  | r :: S, 0, _, h => by
    have hR : ∀ v ∈ S.map (·.a), v.length = n := by
      intro v hv; obtain ⟨s, hs, rfl⟩ := List.mem_map.1 hv
      exact h s (List.mem_cons_of_mem _ hs)
    simp only [List.length_cons, unitVec_zero, combA, List.map_cons, lincomb, combB,
      List.getElem_cons_zero, combB_zeros]
    rw [lincomb_zeros n _ _ hR, smul_one, vadd_zeros_right _ _ (h r List.mem_cons_self)]
    exact ⟨rfl, by ring⟩
  | r :: S, i + 1, hi, h => by
    have ih := comb_unitVec n S i (by simpa using hi) (fun r hr => h r (List.mem_cons_of_mem _ hr))
    have hlen : (combA n S (unitVec S.length i)).length = n := by
      apply lincomb_length
      intro v hv; obtain ⟨s, hs, rfl⟩ := List.mem_map.1 hv
      exact h s (List.mem_cons_of_mem _ hs)
    simp only [combA] at ih hlen
    simp only [List.length_cons, unitVec_succ, combA, List.map_cons, lincomb, combB,
      List.getElem_cons_succ, ih.2]
    have : VOPy.smul 0 r.a = zeros n := by
      simp only [VOPy.smul, zeros, zero_mul]
      rw [List.eq_replicate_iff]
      exact ⟨by simp [h r List.mem_cons_self], by simp⟩
    rw [this, ← ih.1]
    refine ⟨?_, by ring⟩
    exact vadd_zeros_left _ _ hlen

theorem mem_initRows {S : Sys} {r : Row} (h : r ∈ initRows S) :
    ∃ (i : ℕ) (hi : i < S.length), r = ⟨S[i].a, S[i].b, unitVec S.length i⟩ := by
  simp only [initRows, List.mem_map] at h
  obtain ⟨⟨s, i⟩, hm, rfl⟩ := h
  rw [List.mem_zipIdx_iff_getElem?] at hm
  obtain ⟨hi, hs⟩ := List.getElem?_eq_some_iff.1 hm
  simp only at hs
  exact ⟨i, hi, by simp [hs]⟩

theorem initRows_cover {S : Sys} {s : Ineq} (h : s ∈ S) :
    ∃ r ∈ initRows S, r.a = s.a ∧ r.b = s.b := by
  obtain ⟨i, hi, rfl⟩ := List.mem_iff_getElem.1 h
  refine ⟨⟨S[i].a, S[i].b, unitVec S.length i⟩, ?_, rfl, rfl⟩
  simp only [initRows, List.mem_map]
  exact ⟨(S[i], i), List.mem_zipIdx_iff_getElem?.2 (by simp [hi]), rfl⟩

/-! ### completeness -/

/-- **A witness found by plain Fourier–Motzkin passes the witness checker.** -/
theorem solvePlain_witness {n : ℕ} {S : Sys} {x : Vec} (hwf : wf n S = true)
    (h : solvePlain n S = .witness x) : checkWitness n S x = true := by
  have hwf' := (wf_iff n S).1 hwf
  have hrows : ∀ r ∈ initRows S, r.a.length = n := by
    intro r hr
    obtain ⟨i, hi, rfl⟩ := mem_initRows hr
    exact hwf' _ (List.getElem_mem _)
  obtain ⟨hx, hs⟩ := fmPlain_witness n _ x hrows h
  simp only [checkWitness, Bool.and_eq_true, decide_eq_true_eq]
  refine ⟨⟨hx, hwf⟩, (satisfies_iff S x).2 fun s hsS => ?_⟩
  obtain ⟨r, hr, ha, hb⟩ := initRows_cover hsS
  rw [← ha, ← hb]; exact hs r hr

/-- **Multipliers found by plain Fourier–Motzkin pass the Farkas checker.** -/
theorem solvePlain_farkas {n : ℕ} {S : Sys} {y : Vec} (hwf : wf n S = true)
    (h : solvePlain n S = .farkas y) : checkFarkas n S y = true := by
  have hwf' := (wf_iff n S).1 hwf
  have hlen : ∀ r ∈ initRows S, r.a.length = n := by
    intro r hr
    obtain ⟨i, hi, rfl⟩ := mem_initRows hr
    exact hwf' _ (List.getElem_mem _)
  have hinv : ∀ r ∈ initRows S, RowInv n S 0 r := by
    intro r hr
    obtain ⟨i, hi, rfl⟩ := mem_initRows hr
    obtain ⟨e1, e2⟩ := comb_unitVec n S i hi hwf'
    exact ⟨unitVec_length _ _, unitVec_nonneg _ _, by simpa [zeros] using e1, e2⟩
  obtain ⟨b, hb, h1, h2, h3, h4⟩ := fmPlain_farkas n S hwf' n 0 _ y (by omega) hlen hinv h
  simp only [checkFarkas, Bool.and_eq_true, decide_eq_true_eq]
  exact ⟨⟨⟨hwf, (allNonneg_iff y).2 h2⟩, by rw [h3]; exact isZero_zeros n⟩, by rw [h4]; exact hb⟩

/-- **Plain Fourier–Motzkin with multiplier tracking is complete**: on a well-formed system the
certified decision is never `none`. -/
theorem feasibleFM_complete (n : ℕ) (S : Sys) (hwf : wf n S = true) :
    feasibleFM n S = some true ∨ feasibleFM n S = some false := by
  unfold feasibleFM
  cases h : solvePlain n S with
  | witness x => left; simp [solvePlain_witness hwf h]
  | farkas y => right; simp [solvePlain_farkas hwf h]

theorem feasibleFM_sound (n : ℕ) (S : Sys) :
    (feasibleFM n S = some true → ∃ x : Vec, checkWitness n S x = true) ∧
    (feasibleFM n S = some false → ∃ y : Vec, checkFarkas n S y = true) := by
  unfold feasibleFM
  cases h : solvePlain n S with
  | witness x =>
    simp only
    constructor
    · intro h'; split at h'
      · rename_i hw; exact ⟨x, hw⟩
      · cases h'
    · intro h'; split at h' <;> cases h'
  | farkas y =>
    simp only
    constructor
    · intro h'; split at h' <;> cases h'
    · intro h'; split at h'
      · rename_i hf; exact ⟨y, hf⟩
      · cases h'

theorem feasible_cert (n : ℕ) (S : Sys) :
    (feasible n S = some true → ∃ x : Vec, checkWitness n S x = true) ∧
    (feasible n S = some false → ∃ y : Vec, checkFarkas n S y = true) := by
  unfold feasible
  cases h : solve n S with
  | witness x =>
    simp only
    constructor
    · intro h'; split at h'
      · rename_i hw; exact ⟨x, hw⟩
      · cases h'
    · intro h'; split at h' <;> cases h'
  | farkas y =>
    simp only
    constructor
    · intro h'; split at h' <;> cases h'
    · intro h'; split at h'
      · rename_i hf; exact ⟨y, hf⟩
      · cases h'

/-- `feasibleC` only answers with a checked certificate. -/
theorem feasibleC_cert (n : ℕ) (S : Sys) :
    (feasibleC n S = some true → ∃ x : Vec, checkWitness n S x = true) ∧
    (feasibleC n S = some false → ∃ y : Vec, checkFarkas n S y = true) := by
  unfold feasibleC
  cases h : feasible n S with
  | some b =>
    simp only [Option.some.injEq]
    exact ⟨fun hb => (feasible_cert n S).1 (by rw [h, hb]), fun hb => (feasible_cert n S).2 (by rw [h, hb])⟩
  | none => exact feasibleFM_sound n S

/-- **The decision is total**: on a well-formed system `feasibleC` answers `some true` or
`some false`, never `none`. -/
theorem feasibleC_complete (n : ℕ) (S : Sys) (hwf : wf n S = true) :
    feasibleC n S = some true ∨ feasibleC n S = some false := by
  unfold feasibleC
  cases h : feasible n S with
  | some b => cases b <;> simp
  | none => exact feasibleFM_complete n S hwf

/-- **`feasibleC` decides real feasibility** (positive half). -/
theorem feasibleC_true_iff (n : ℕ) (S : Sys) (hwf : wf n S = true) :
    feasibleC n S = some true ↔ ∃ x : RVec, RSat n S x := by
  constructor
  · intro h
    obtain ⟨x, hx⟩ := (feasibleC_cert n S).1 h
    exact ⟨castV x, checkWitness_sound hx⟩
  · intro hex
    rcases feasibleC_complete n S hwf with h | h
    · exact h
    · obtain ⟨y, hy⟩ := (feasibleC_cert n S).2 h
      exact absurd hex (checkFarkas_sound hy)

/-- **`feasibleC` decides real feasibility** (negative half). -/
theorem feasibleC_false_iff (n : ℕ) (S : Sys) (hwf : wf n S = true) :
    feasibleC n S = some false ↔ ¬ ∃ x : RVec, RSat n S x := by
  constructor
  · intro h
    obtain ⟨y, hy⟩ := (feasibleC_cert n S).2 h
    exact checkFarkas_sound hy
  · intro hne
    rcases feasibleC_complete n S hwf with h | h
    · exact absurd ((feasibleC_true_iff n S hwf).1 h) hne
    · exact h

/-- **Farkas' lemma for rational data** (with the alternative computed): a well-formed system has a
rational solution or non-negative rational multipliers refuting it. -/
theorem farkas_alternative (n : ℕ) (S : Sys) (hwf : wf n S = true) :
    (∃ x : Vec, checkWitness n S x = true) ∨ (∃ y : Vec, checkFarkas n S y = true) := by
  rcases feasibleFM_complete n S hwf with h | h
  · exact Or.inl ((feasibleFM_sound n S).1 h)
  · exact Or.inr ((feasibleFM_sound n S).2 h)

/-- a rational system with a real solution has a rational solution -/
theorem rat_solution_of_real {n : ℕ} {S : Sys} (hwf : wf n S = true) (h : ∃ x : RVec, RSat n S x) :
    ∃ x : Vec, checkWitness n S x = true := by
  rcases farkas_alternative n S hwf with hx | ⟨y, hy⟩
  · exact hx
  · exact absurd h (checkFarkas_sound hy)

end VOPy.LinCert
