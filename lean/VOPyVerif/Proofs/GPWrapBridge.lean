import VOPyVerif.Model.GPWrap
import VOPyVerif.Proofs.GPWrapAlg
import Mathlib.Algebra.Order.Field.Rat
import Mathlib.Tactic.FieldSimp
/-!
Helper lemmas for C15, part 3: the executable `GPWrap.posterior` (lists of `Rat`, checked solve)
refines the `Matrix` formula `quad` of `Proofs/GPWrapAlg.lean`.
-/
namespace VOPy.GPWrap
open Matrix VOPy.GPWrap.Alg

/-- list → function on `Fin n` (entries beyond the list are 0; used with `v.length = n`) -/
def toVecN (n : Nat) (v : Vec) : Fin n → ℚ := fun i => v.getD i 0

/-- list of rows → matrix (used with `M.length = r`, all rows of length `c`) -/
def toMatN (r c : Nat) (M : Mat) : Matrix (Fin r) (Fin c) ℚ := fun i j => (M.getD i []).getD j 0

theorem dot_eq_dotProduct (n : Nat) (a b : Vec) (ha : a.length = n) (hb : b.length = n) :
    dot a b = toVecN n a ⬝ᵥ toVecN n b := by
  induction n generalizing a b with
  | zero =>
    have : a = [] := List.length_eq_zero_iff.mp ha
    subst this
    simp [dot, dotProduct]
  | succ n ih =>
    match a, b, ha, hb with
    | x :: a', y :: b', ha, hb =>
      simp only [List.length_cons, Nat.add_right_cancel_iff] at ha hb
      simp only [dot, dotProduct, Fin.sum_univ_succ, toVecN]
      rw [ih a' b' ha hb]
      simp [dotProduct, toVecN]

theorem matVec_getD (r c : Nat) (A : Mat) (x : Vec) (hA : A.length = r)
    (hrow : ∀ row ∈ A, row.length = c) (hx : x.length = c) (i : Fin r) :
    (matVec A x).getD i 0 = (toMatN r c A *ᵥ toVecN c x) i := by
  have hi : i.1 < A.length := by rw [hA]; exact i.2
  simp only [matVec, mulVec, toMatN]
  rw [List.getD_eq_getElem?_getD, List.getElem?_map, List.getElem?_eq_getElem hi]
  simp only [Option.map_some, Option.getD_some]
  rw [dot_eq_dotProduct c _ _ (hrow _ (List.getElem_mem hi)) hx]
  congr 1
  funext j
  simp [toVecN, List.getD_eq_getElem?_getD, List.getElem?_eq_getElem hi]

theorem smul_getD (δ : ℚ) (b : Vec) (i : Nat) : (smul δ b).getD i 0 = δ * b.getD i 0 := by
  simp only [smul, List.getD_eq_getElem?_getD, List.getElem?_map]
  cases b[i]? <;> simp

theorem getD_zipWith {α β γ : Type} (f : α → β → γ) (a : List α) (b : List β) (i : Nat)
    (ha : i < a.length) (hb : i < b.length) (d : γ) (da : α) (db : β) :
    (List.zipWith f a b).getD i d = f (a.getD i da) (b.getD i db) := by
  simp [List.getD_eq_getElem?_getD, List.getElem?_zipWith, List.getElem?_eq_getElem ha,
    List.getElem?_eq_getElem hb]

/-- what the checker establishes, in `Matrix` form -/
theorem isScaledSolution_spec (n : Nat) (A : Mat) (δ : ℚ) (z b : Vec)
    (h : isScaledSolution A δ z b = true) (hn : A.length = n) :
    δ ≠ 0 ∧ z.length = n ∧ b.length = n ∧ (∀ row ∈ A, row.length = n) ∧
      toMatN n n A *ᵥ toVecN n z = δ • toVecN n b := by
  simp only [isScaledSolution, Bool.and_eq_true, decide_eq_true_eq, beq_iff_eq,
    List.all_eq_true] at h
  obtain ⟨⟨⟨⟨hδ, hz⟩, hb⟩, hrow⟩, hmv⟩ := h
  have hz' : z.length = n := by rw [hz, hn]
  have hrow' : ∀ row ∈ A, row.length = n := fun row hr => by rw [hrow row hr, hz']
  refine ⟨hδ, hz', by rw [hb, hn], hrow', ?_⟩
  funext i
  rw [← matVec_getD n n A z hn hrow' hz' i, hmv, smul_getD]
  simp [toVecN]

/-- the rescaled vector `z/δ` solves the system -/
theorem isScaledSolution_mulVec (n : Nat) (A : Mat) (δ : ℚ) (z b : Vec)
    (h : isScaledSolution A δ z b = true) (hn : A.length = n) :
    toMatN n n A *ᵥ (δ⁻¹ • toVecN n z) = toVecN n b := by
  obtain ⟨hδ, -, -, -, hmv⟩ := isScaledSolution_spec n A δ z b h hn
  rw [Matrix.mulVec_smul, hmv, smul_smul, inv_mul_cancel₀ hδ, one_smul]

theorem solveMany_spec (A : Mat) (bs : List Vec) (δ : ℚ) (zs : List Vec) (piv : Option ℚ)
    (h : solveMany A bs = some (δ, zs, piv)) :
    zs.length = bs.length ∧ ∀ zb ∈ zs.zip bs, isScaledSolution A δ zb.1 zb.2 = true := by
  unfold solveMany at h
  split at h
  · exact absurd h (by simp)
  · split at h
    · rename_i hc
      simp only [Option.some.injEq, Prod.mk.injEq] at h
      obtain ⟨rfl, rfl, -⟩ := h
      simp only [Bool.and_eq_true, beq_iff_eq, List.all_eq_true] at hc
      exact ⟨hc.1, hc.2⟩
    · exact absurd h (by simp)

theorem length_madd (A Bm : Mat) : (madd A Bm).length = min A.length Bm.length := by
  simp [madd]

/-- `dot k z / δ` is `kᵀ A⁻¹ b` once `z` passed the check against `b` -/
theorem dot_div_eq_quad (n : Nat) (A : Mat) (δ : ℚ) (z b k : Vec)
    (h : isScaledSolution A δ z b = true) (hn : A.length = n) (hk : k.length = n)
    (hdet : IsUnit (toMatN n n A).det) :
    dot k z / δ = quad (toMatN n n A) (toVecN n k) (toVecN n b) := by
  obtain ⟨hδ, hz, -, -, -⟩ := isScaledSolution_spec n A δ z b h hn
  rw [← quad_eq_of_mulVec_eq _ hdet _ _ _ (isScaledSolution_mulVec n A δ z b h hn),
    dot_eq_dotProduct n k z hk hz, dotProduct_smul, smul_eq_mul]
  field_simp

/-- **Refinement.**  Whenever the executable `posterior` answers, and the system matrix is
non-singular, the answer is the closed form `mean₀* + k*ᵀ(K+N)⁻¹(y − mean₀)`,
`k** − k*ᵀ(K+N)⁻¹k*` over Mathlib matrices. -/
theorem posterior_spec (K noise kT kss : Mat) (y m0 m0s : Vec) (q : Post)
    (h : posterior K noise kT kss y m0 m0s = some q)
    (hdet : IsUnit (toMatN y.length y.length (madd K noise)).det) :
    q.mean.length = m0s.length ∧ q.cov.length = m0s.length ∧
    (∀ i : Fin m0s.length, q.mean.getD i 0 = m0s.getD i 0 +
      quad (toMatN y.length y.length (madd K noise)) (toVecN y.length (kT.getD i []))
        (toVecN y.length (vsub y m0))) ∧
    (∀ i j : Fin m0s.length, (q.cov.getD i []).getD j 0 = (kss.getD i []).getD j 0 -
      quad (toMatN y.length y.length (madd K noise)) (toVecN y.length (kT.getD i []))
        (toVecN y.length (kT.getD j []))) := by
  unfold posterior at h
  split at h
  · exact absurd h (by simp)
  rename_i hd0
  have hd : dimsOk K noise kT kss y m0 m0s = true := by simpa using hd0
  simp only [dimsOk, Bool.and_eq_true, beq_iff_eq, List.all_eq_true] at hd
  obtain ⟨⟨⟨⟨⟨⟨⟨⟨hK, hKr⟩, hN⟩, hNr⟩, hm0⟩, hkT⟩, hkTr⟩, hkss⟩, hkssr⟩ := hd
  split at h
  · rename_i δ zα zV piv hsolve
    simp only [Option.some.injEq] at h
    subst h
    obtain ⟨hlen, hsol⟩ := solveMany_spec _ _ _ _ _ hsolve
    simp only [List.length_cons, Nat.add_right_cancel_iff] at hlen
    have hA : (madd K noise).length = y.length := by rw [length_madd, hK, hN, Nat.min_self]
    have hα : isScaledSolution (madd K noise) δ zα (vsub y m0) = true :=
      hsol (zα, vsub y m0) (by simp)
    have hV : ∀ j : Fin m0s.length,
        isScaledSolution (madd K noise) δ (zV.getD j []) (kT.getD j []) = true := by
      intro j
      have h1 : j.1 < zV.length := by rw [hlen, hkT]; exact j.2
      have h2 : j.1 < kT.length := by rw [hkT]; exact j.2
      apply hsol (zV.getD j [], kT.getD j [])
      rw [List.zip_cons_cons]
      apply List.mem_cons_of_mem
      have : (zV.getD j [], kT.getD j []) = (zV.zip kT)[j.1]'(by simp [h1, h2]) := by
        simp [List.getD_eq_getElem?_getD, List.getElem?_eq_getElem h1, List.getElem?_eq_getElem h2]
      rw [this]
      exact List.getElem_mem _
    have hkrow : ∀ i : Fin m0s.length, (kT.getD i []).length = y.length := by
      intro i
      have h2 : i.1 < kT.length := by rw [hkT]; exact i.2
      rw [List.getD_eq_getElem?_getD, List.getElem?_eq_getElem h2]
      exact hkTr _ (List.getElem_mem h2)
    refine ⟨by simp [hkT], by simp [hkss, hkT], ?_, ?_⟩
    · intro i
      have h2 : i.1 < kT.length := by rw [hkT]; exact i.2
      simp only
      rw [getD_zipWith _ _ _ _ i.2 h2 0 0 []]
      rw [dot_div_eq_quad y.length _ δ zα (vsub y m0) _ hα hA (hkrow i) hdet]
    · intro i j
      have h2 : i.1 < kT.length := by rw [hkT]; exact i.2
      have h1 : i.1 < kss.length := by rw [hkss]; exact i.2
      have h3 : j.1 < zV.length := by rw [hlen, hkT]; exact j.2
      have h4 : j.1 < (kss.getD i []).length := by
        rw [List.getD_eq_getElem?_getD, List.getElem?_eq_getElem h1]
        simp only [Option.getD_some]
        rw [hkssr _ (List.getElem_mem h1)]; exact j.2
      simp only
      rw [getD_zipWith _ _ _ _ h1 h2 [] [] []]
      rw [getD_zipWith _ _ _ _ h4 h3 0 0 []]
      rw [dot_div_eq_quad y.length _ δ (zV.getD j []) (kT.getD j []) _ (hV j) hA (hkrow i) hdet]
  · exact absurd h (by simp)

/-- `posterior_spec` with the sizes named (avoids casts between `Fin (l.map f).length` and
`Fin l.length` downstream) -/
theorem posterior_spec' (n t : Nat) (K noise kT kss : Mat) (y m0 m0s : Vec) (q : Post)
    (h : posterior K noise kT kss y m0 m0s = some q) (hn : y.length = n) (ht : m0s.length = t)
    (hdet : IsUnit (toMatN n n (madd K noise)).det) :
    q.mean.length = t ∧ q.cov.length = t ∧
    (∀ i : Fin t, q.mean.getD i 0 = m0s.getD i 0 +
      quad (toMatN n n (madd K noise)) (toVecN n (kT.getD i [])) (toVecN n (vsub y m0))) ∧
    (∀ i j : Fin t, (q.cov.getD i []).getD j 0 = (kss.getD i []).getD j 0 -
      quad (toMatN n n (madd K noise)) (toVecN n (kT.getD i [])) (toVecN n (kT.getD j []))) := by
  subst hn ht
  exact posterior_spec K noise kT kss y m0 m0s q h hdet

/-- shapes of an answer of `posterior` -/
theorem posterior_shapes (K noise kT kss : Mat) (y m0 m0s : Vec) (q : Post)
    (h : posterior K noise kT kss y m0 m0s = some q) :
    q.mean.length = m0s.length ∧ q.cov.length = m0s.length ∧
      ∀ row ∈ q.cov, row.length = m0s.length := by
  unfold posterior at h
  split at h
  · exact absurd h (by simp)
  rename_i hd0
  have hd : dimsOk K noise kT kss y m0 m0s = true := by simpa using hd0
  simp only [dimsOk, Bool.and_eq_true, beq_iff_eq, List.all_eq_true] at hd
  obtain ⟨⟨⟨⟨⟨⟨⟨⟨hK, hKr⟩, hN⟩, hNr⟩, hm0⟩, hkT⟩, hkTr⟩, hkss⟩, hkssr⟩ := hd
  split at h
  · rename_i δ zα zV piv hsolve
    simp only [Option.some.injEq] at h
    subst h
    obtain ⟨hlen, -⟩ := solveMany_spec _ _ _ _ _ hsolve
    simp only [List.length_cons, Nat.add_right_cancel_iff] at hlen
    refine ⟨by simp [hkT], by simp [hkss, hkT], ?_⟩
    intro row hrow
    simp only [List.mem_iff_getElem, List.length_zipWith] at hrow
    obtain ⟨i, hi, rfl⟩ := hrow
    rw [List.getElem_zipWith, List.length_zipWith, hlen]
    have h1 : i < kss.length := by omega
    have := hkssr _ (List.getElem_mem h1)
    omega
  · exact absurd h (by simp)

end VOPy.GPWrap
