import VOPyVerif.Model.Thompson
import VOPyVerif.Proofs.RealInst
import Mathlib.Analysis.SpecialFunctions.BinaryEntropy
import Mathlib.Analysis.Convex.Jensen
import Mathlib.Algebra.BigOperators.Group.Finset.Basic
import Mathlib.Algebra.BigOperators.Field
import Mathlib.Data.Rat.Cast.Order
import Mathlib.Data.List.Nodup
import Mathlib.Data.List.Perm.Subperm
import Mathlib.Data.Nat.Choose.Basic
import Mathlib.Tactic.Linarith
import Mathlib.Tactic.Positivity
import Mathlib.Tactic.FieldSimp
import Mathlib.Tactic.Ring
/-!
# Helper lemmas for the Thompson-entropy acquisition (`Model/Thompson.lean`)

Counting over the index tuples, probability bounds, the `ℝ` reading of `binaryEntropy`
(= `Real.binEntropy / log 2`), and Jensen's inequality for the information gain.
-/
namespace VOPy.Thompson
open VOPy.RealLike

/-! ## tuples -/

theorem mem_tuples {n m : Nat} {t : List Nat} :
    t ∈ tuples n m ↔ t.length = m ∧ ∀ a ∈ t, a < n := by
  induction m generalizing t with
  | zero =>
    simp only [tuples, List.mem_singleton]
    constructor
    · rintro rfl; simp
    · rintro ⟨h, _⟩; exact List.length_eq_zero_iff.mp h
  | succ m ih =>
    simp only [tuples, List.mem_flatMap, List.mem_range, List.mem_map]
    constructor
    · rintro ⟨a, ha, t', ht', rfl⟩
      obtain ⟨h1, h2⟩ := ih.mp ht'
      refine ⟨by simp [h1], ?_⟩
      intro b hb
      rcases List.mem_cons.mp hb with rfl | hb
      · exact ha
      · exact h2 b hb
    · rintro ⟨hl, hb⟩
      cases t with
      | nil => simp at hl
      | cons a t' =>
        refine ⟨a, hb a (by simp), t', ih.mpr ⟨by simpa using hl, fun b hb' => hb b (by simp [hb'])⟩, rfl⟩

theorem length_tuples (n m : Nat) : (tuples n m).length = n ^ m := by
  induction m with
  | zero => simp [tuples]
  | succ m ih =>
    simp only [tuples, List.length_flatMap, List.length_map, ih, List.map_const', List.length_range,
      List.sum_replicate_nat]
    rw [pow_succ, Nat.mul_comm]

theorem sum_map_range (f : Nat → Nat) (n : Nat) :
    ((List.range n).map f).sum = ∑ a ∈ Finset.range n, f a := by
  induction n with
  | zero => simp
  | succ n ih => simp [List.range_succ, Finset.sum_range_succ, ih]

/-- the tuples with a prescribed entry on axis `j` number `n^(m-1)` -/
theorem count_coord {n m j s : Nat} (hj : j < m) (hs : s < n) :
    (tuples n m).countP (fun t => t[j]? == some s) = n ^ (m - 1) := by
  induction m generalizing j with
  | zero => omega
  | succ m ih =>
    simp only [tuples, List.countP_flatMap, Function.comp_def, List.countP_map]
    rw [sum_map_range]
    cases j with
    | zero =>
      have : ∀ a ∈ Finset.range n,
          (tuples n m).countP (fun x : List Nat => (a :: x)[0]? == some s)
            = if a = s then n ^ m else 0 := by
        intro a _
        by_cases h : a = s
        · subst h
          simp [length_tuples]
        · simp [h]
      rw [Finset.sum_congr rfl this, Finset.sum_ite_eq' (Finset.range n) s (fun _ => n ^ m)]
      simp [hs]
    | succ j' =>
      have hj' : j' < m := by omega
      have : ∀ a ∈ Finset.range n,
          (tuples n m).countP (fun x : List Nat => (a :: x)[j' + 1]? == some s)
            = n ^ (m - 1) := by
        intro a _
        have := ih hj'
        simpa using this
      rw [Finset.sum_congr rfl this]
      simp only [Finset.sum_const, Finset.card_range, smul_eq_mul, Nat.add_sub_cancel]
      cases m with
      | zero => omega
      | succ k => simp [pow_succ, Nat.mul_comm]

/-- splitting a count along axis `j` -/
theorem sum_count_split (n j : Nat) (q : List Nat → Bool) (L : List (List Nat))
    (hL : ∀ t ∈ L, ∃ s, s < n ∧ t[j]? = some s) :
    ∑ s ∈ Finset.range n, L.countP (fun t => t[j]? == some s && q t) = L.countP q := by
  induction L with
  | nil => simp
  | cons t L ih =>
    simp only [List.countP_cons]
    rw [Finset.sum_add_distrib, ih (fun t' ht' => hL t' (by simp [ht']))]
    congr 1
    obtain ⟨s0, hs0, hts⟩ := hL t (by simp)
    by_cases hq : q t
    · have : ∀ s ∈ Finset.range n,
          (if (t[j]? == some s && q t) = true then 1 else 0) = if s = s0 then 1 else 0 := by
        intro s _
        simp only [hts, hq, Bool.and_true, beq_iff_eq, Option.some.injEq]
        by_cases h : s = s0
        · simp [h]
        · simp [h, Ne.symm h]
      rw [Finset.sum_congr rfl this, Finset.sum_ite_eq' (Finset.range n) s0 (fun _ => 1)]
      simp [hs0, hq]
    · simp [hq]

theorem tuples_coord {n m j : Nat} (hj : j < m) {t : List Nat} (ht : t ∈ tuples n m) :
    ∃ s, s < n ∧ t[j]? = some s := by
  obtain ⟨hl, hb⟩ := mem_tuples.mp ht
  have hjl : j < t.length := by omega
  exact ⟨t[j], hb _ (List.getElem_mem hjl), List.getElem?_eq_getElem hjl⟩

/-! ## counts and probabilities -/

theorem priorCount_le (n m : Nat) (mem : Mask) (i : Nat) : priorCount n m mem i ≤ n ^ m := by
  unfold priorCount
  calc _ ≤ (tuples n m).length := List.countP_le_length
    _ = n ^ m := length_tuples n m

theorem postCount_le (n m j s : Nat) (mem : Mask) (i : Nat) : postCount n m j s mem i ≤ n ^ (m - 1) := by
  unfold postCount
  by_cases hj : j < m
  · by_cases hs : s < n
    · calc _ ≤ (tuples n m).countP (fun t => t[j]? == some s) :=
            List.countP_mono_left (fun t _ h => by simp only [Bool.and_eq_true] at h; exact h.1)
        _ = n ^ (m - 1) := count_coord hj hs
    · have : (tuples n m).countP (fun t => t[j]? == some s && mem t i) = 0 := by
        rw [List.countP_eq_zero]
        intro t ht
        obtain ⟨s', hs', hts⟩ := tuples_coord hj ht
        simp only [hts, Bool.and_eq_true, beq_iff_eq, Option.some.injEq, not_and]
        intro h; omega
      omega
  · have : (tuples n m).countP (fun t => t[j]? == some s && mem t i) = 0 := by
      rw [List.countP_eq_zero]
      intro t ht
      obtain ⟨hl, _⟩ := mem_tuples.mp ht
      have : t[j]? = none := List.getElem?_eq_none (by omega)
      simp [this]
    omega

theorem sum_postCount {n m j : Nat} (hj : j < m) (mem : Mask) (i : Nat) :
    ∑ s ∈ Finset.range n, postCount n m j s mem i = priorCount n m mem i := by
  unfold postCount priorCount
  exact sum_count_split n j (fun t => mem t i) (tuples n m) (fun t ht => tuples_coord hj ht)

theorem priorProb_nonneg (n m : Nat) (mem : Mask) (i : Nat) : 0 ≤ priorProb n m mem i := by
  unfold priorProb; positivity

theorem priorProb_le_one {n : Nat} (hn : 0 < n) (m : Nat) (mem : Mask) (i : Nat) :
    priorProb n m mem i ≤ 1 := by
  unfold priorProb
  have hpos : (0 : ℚ) < ((n ^ m : Nat) : ℚ) := by exact_mod_cast Nat.pow_pos hn
  rw [div_le_one hpos]
  exact_mod_cast priorCount_le n m mem i

theorem postProb_nonneg (n m j s : Nat) (mem : Mask) (i : Nat) : 0 ≤ postProb n m j s mem i := by
  unfold postProb; positivity

theorem postProb_le_one {n : Nat} (hn : 0 < n) (m j s : Nat) (mem : Mask) (i : Nat) :
    postProb n m j s mem i ≤ 1 := by
  unfold postProb
  have hpos : (0 : ℚ) < ((n ^ (m - 1) : Nat) : ℚ) := by exact_mod_cast Nat.pow_pos hn
  rw [div_le_one hpos]
  exact_mod_cast postCount_le n m j s mem i

/-- the prior probability is the average of the posterior probabilities over the evaluated
objective's Thompson sample -/
theorem priorProb_eq_avg {n m j : Nat} (hn : 0 < n) (hj : j < m) (mem : Mask) (i : Nat) :
    priorProb n m mem i = (∑ s ∈ Finset.range n, postProb n m j s mem i) / n := by
  unfold priorProb postProb
  rw [← sum_postCount hj mem i, ← Finset.sum_div]
  push_cast
  have hn' : (n : ℚ) ≠ 0 := by exact_mod_cast (Nat.pos_iff_ne_zero.mp hn)
  have hm : m = (m - 1) + 1 := by omega
  have : ((n : ℚ)) ^ m = (n : ℚ) ^ (m - 1) * n := by
    conv_lhs => rw [hm, pow_succ]
  rw [this, div_div]

/-! ## the `ℝ` reading of the entropy term -/

@[simp] theorem ofRat_real (r : ℚ) : (ofRat r : ℝ) = (r : ℝ) := by
  unfold ofRat
  simp only [ofNat_real]
  rw [Rat.cast_def]
  split
  · rename_i h
    congr 1
    rw [← Int.cast_natCast, Int.natCast_natAbs, abs_of_neg h]; push_cast; ring
  · rename_i h
    congr 1
    rw [← Int.cast_natCast, Int.natCast_natAbs, abs_of_nonneg (not_lt.mp h)]

/-- over `ℝ` the guard of `xlogy` is invisible (`Real.log 0 = 0`) -/
theorem xlogy_real (p : ℚ) : (xlogy p : ℝ) = (p : ℝ) * Real.log p := by
  unfold xlogy
  split
  · rename_i h; subst h; simp
  · simp

theorem binaryEntropy_real (p : ℚ) :
    (binaryEntropy p : ℝ) = Real.binEntropy (p : ℝ) / Real.log 2 := by
  unfold binaryEntropy
  simp only [xlogy_real, log_real, ofNat_real]
  rw [Real.binEntropy, Real.log_inv, Real.log_inv]
  push_cast
  ring

theorem foldl_add_real (l : List ℝ) (a : ℝ) : l.foldl (· + ·) a = a + l.sum := by
  induction l generalizing a with
  | nil => simp
  | cons x xs ih => simp [ih, add_assoc]

@[simp] theorem sumL_real (l : List ℝ) : sumL l = l.sum := by
  simp [sumL, foldl_add_real]

theorem sum_map_range_real (f : Nat → ℝ) (n : Nat) :
    ((List.range n).map f).sum = ∑ a ∈ Finset.range n, f a := by
  induction n with
  | zero => simp
  | succ n ih => simp [List.range_succ, Finset.sum_range_succ, ih]

theorem log_two_pos : 0 < Real.log 2 := Real.log_pos (by norm_num)

theorem binaryEntropy_nonneg {p : ℚ} (h0 : 0 ≤ p) (h1 : p ≤ 1) : (0 : ℝ) ≤ binaryEntropy p := by
  rw [binaryEntropy_real]
  have h0' : (0 : ℝ) ≤ (p : ℝ) := by exact_mod_cast h0
  have h1' : (p : ℝ) ≤ 1 := by exact_mod_cast h1
  exact div_nonneg (Real.binEntropy_nonneg h0' h1') log_two_pos.le

theorem binaryEntropy_le_one (p : ℚ) : (binaryEntropy p : ℝ) ≤ 1 := by
  rw [binaryEntropy_real, div_le_one log_two_pos]
  exact Real.binEntropy_le_log_two

theorem meanPostEntropy_real (n m j : Nat) (mem : Mask) (i : Nat) :
    (meanPostEntropy n m j mem i : ℝ) =
      (∑ s ∈ Finset.range n, Real.binEntropy ((postProb n m j s mem i : ℚ) : ℝ) / Real.log 2) / n := by
  unfold meanPostEntropy
  simp only [sumL_real, ofNat_real]
  rw [sum_map_range_real]
  congr 1
  exact Finset.sum_congr rfl (fun s _ => binaryEntropy_real _)

theorem meanPostEntropy_nonneg {n : Nat} (hn : 0 < n) (m j : Nat) (mem : Mask) (i : Nat) :
    (0 : ℝ) ≤ meanPostEntropy n m j mem i := by
  rw [meanPostEntropy_real]
  apply div_nonneg _ (by positivity)
  apply Finset.sum_nonneg
  intro s _
  have := binaryEntropy_nonneg (postProb_nonneg n m j s mem i) (postProb_le_one hn m j s mem i)
  rwa [binaryEntropy_real] at this

/-- Jensen: the mean posterior entropy does not exceed the prior entropy -/
theorem meanPostEntropy_le_prior {n m j : Nat} (hn : 0 < n) (hj : j < m) (mem : Mask) (i : Nat) :
    (meanPostEntropy n m j mem i : ℝ) ≤ binaryEntropy (priorProb n m mem i) := by
  rw [meanPostEntropy_real, binaryEntropy_real, ← Finset.sum_div, div_div, mul_comm, ← div_div]
  apply div_le_div_of_nonneg_right _ log_two_pos.le
  have hconc : ConcaveOn ℝ (Set.Icc (0 : ℝ) 1) Real.binEntropy := Real.strictConcave_binEntropy.concaveOn
  have hn' : (0 : ℝ) < n := by exact_mod_cast hn
  have key := hconc.le_map_sum (t := Finset.range n) (w := fun _ => (1 : ℝ) / n)
    (p := fun s => ((postProb n m j s mem i : ℚ) : ℝ))
    (fun _ _ => by positivity)
    (by simp [Finset.sum_const, Finset.card_range]; field_simp)
    (fun s _ => ⟨by exact_mod_cast postProb_nonneg n m j s mem i,
                 by exact_mod_cast postProb_le_one hn m j s mem i⟩)
  simp only [smul_eq_mul] at key
  have e1 : ∑ s ∈ Finset.range n, 1 / (n : ℝ) * Real.binEntropy ((postProb n m j s mem i : ℚ) : ℝ)
      = (∑ s ∈ Finset.range n, Real.binEntropy ((postProb n m j s mem i : ℚ) : ℝ)) / n := by
    rw [Finset.sum_div]; exact Finset.sum_congr rfl (fun s _ => by ring)
  have e2 : ∑ s ∈ Finset.range n, 1 / (n : ℝ) * ((postProb n m j s mem i : ℚ) : ℝ)
      = ((priorProb n m mem i : ℚ) : ℝ) := by
    rw [priorProb_eq_avg hn hj mem i]
    push_cast
    rw [Finset.sum_div]; exact Finset.sum_congr rfl (fun s _ => by ring)
  rw [e1, e2] at key
  exact key

/-! ## combinations and the filled mask -/

theorem mem_combsFrom {n r lo : Nat} {t : List Nat} :
    t ∈ combsFrom n r lo ↔ t.length = r ∧ t.Pairwise (· < ·) ∧ ∀ a ∈ t, lo ≤ a ∧ a < n := by
  induction r generalizing lo t with
  | zero =>
    simp only [combsFrom, List.mem_singleton]
    constructor
    · rintro rfl; simp
    · rintro ⟨h, _⟩; exact List.length_eq_zero_iff.mp h
  | succ r ih =>
    simp only [combsFrom, List.mem_flatMap, List.mem_range'_1, List.mem_map]
    constructor
    · rintro ⟨a, ⟨hlo, hhi⟩, t', ht', rfl⟩
      obtain ⟨h1, h2, h3⟩ := ih.mp ht'
      refine ⟨by simp [h1], ?_, ?_⟩
      · rw [List.pairwise_cons]
        exact ⟨fun b hb => by have := (h3 b hb).1; omega, h2⟩
      · intro b hb
        rcases List.mem_cons.mp hb with rfl | hb
        · omega
        · have := h3 b hb; omega
    · rintro ⟨hl, hp, hb⟩
      cases t with
      | nil => simp at hl
      | cons a t' =>
        rw [List.pairwise_cons] at hp
        have ha := hb a (by simp)
        refine ⟨a, ⟨ha.1, by omega⟩, t', ih.mpr ⟨by simpa using hl, hp.2, ?_⟩, rfl⟩
        intro b hb'
        have h1 := hp.1 b hb'
        have h2 := hb b (by simp [hb'])
        omega

/-- `itertools.combinations(range(n), r)`: exactly the strictly increasing `r`-tuples below `n` -/
theorem mem_combinations {n r : Nat} {t : List Nat} :
    t ∈ combinations n r ↔ t.length = r ∧ t.Pairwise (· < ·) ∧ ∀ a ∈ t, a < n := by
  unfold combinations
  rw [mem_combsFrom]
  simp

theorem combinations_subset_tuples {n r : Nat} {t : List Nat} (h : t ∈ combinations n r) :
    t ∈ tuples n r := by
  obtain ⟨h1, _, h3⟩ := mem_combinations.mp h
  exact mem_tuples.mpr ⟨h1, h3⟩

theorem lookup_mem {β : Type} (l : List (List Nat × β)) (k : List Nat) (v : β)
    (h : l.lookup k = some v) : (k, v) ∈ l := by
  obtain ⟨l₁, l₂, rfl, _⟩ := List.lookup_eq_some_iff.mp h
  simp

/-- an entry of the filled mask can only be set at a strictly increasing index tuple -/
theorem filledMask_true {n m : Nat} {pareto : List (List Nat)} {t : List Nat} {i : Nat}
    (h : filledMask n m pareto t i = true) :
    t ∈ combinations n m ∧ ∃ P ∈ pareto, i ∈ P := by
  unfold filledMask at h
  split at h
  · rename_i P hP
    have hm := lookup_mem _ _ _ hP
    exact ⟨(List.of_mem_zip hm).1, P, (List.of_mem_zip hm).2, by simpa using h⟩
  · simp at h

theorem nodup_cons_flatMap {l : List Nat} (hl : l.Nodup) (f : Nat → List (List Nat))
    (hf : ∀ a ∈ l, (f a).Nodup) : (l.flatMap (fun a => (f a).map (a :: ·))).Nodup := by
  rw [List.nodup_flatMap]
  refine ⟨fun a ha => (hf a ha).map (fun x y h => by simpa using h), ?_⟩
  refine hl.imp_of_mem ?_
  intro a b _ _ hab
  simp only [Function.onFun]
  intro x hx hy
  obtain ⟨x', _, rfl⟩ := List.mem_map.mp hx
  obtain ⟨y', _, h⟩ := List.mem_map.mp hy
  simp at h
  exact hab h.1.symm

theorem nodup_tuples (n m : Nat) : (tuples n m).Nodup := by
  induction m with
  | zero => simp [tuples]
  | succ m ih => exact nodup_cons_flatMap List.nodup_range (fun _ => tuples n m) (fun _ _ => ih)

theorem nodup_combsFrom (n r lo : Nat) : (combsFrom n r lo).Nodup := by
  induction r generalizing lo with
  | zero => simp [combsFrom]
  | succ r ih =>
    exact nodup_cons_flatMap (List.nodup_range' (step := 1)) (fun a => combsFrom n r (a + 1))
      (fun a _ => ih (a + 1))

theorem length_combsFrom (n r lo : Nat) : (combsFrom n r lo).length = (n - lo).choose r := by
  induction r generalizing lo with
  | zero => simp [combsFrom]
  | succ r ih =>
    generalize hk : n - lo = k
    induction k generalizing lo with
    | zero => simp [combsFrom, hk]
    | succ k ihk =>
      have h1 : n - (lo + 1) = k := by omega
      have e : combsFrom n (r + 1) lo =
          (combsFrom n r (lo + 1)).map (lo :: ·) ++ combsFrom n (r + 1) (lo + 1) := by
        simp only [combsFrom, hk, h1, List.range'_succ, List.flatMap_cons]
      rw [e, List.length_append, List.length_map, ih, ihk (lo + 1) h1, h1, Nat.choose_succ_succ]

theorem length_combinations (n r : Nat) : (combinations n r).length = n.choose r := by
  simp [combinations, length_combsFrom]

/-- only the `C(n, m)` strictly increasing tuples can carry a `True`: the count over the FULL
tensor is at most `C(n, m)` -/
theorem priorCount_filled_le (n m : Nat) (pareto : List (List Nat)) (i : Nat) :
    priorCount n m (filledMask n m pareto) i ≤ n.choose m := by
  unfold priorCount
  rw [← length_combinations, List.countP_eq_length_filter]
  apply List.Subperm.length_le
  apply List.subperm_of_subset ((nodup_tuples n m).filter _)
  intro t ht
  exact (filledMask_true (List.mem_filter.mp ht).2).1

theorem lookup_zip_getElem {β : Type} (ks : List (List Nat)) (vs : List β) (hnd : ks.Nodup)
    (k : Nat) (h1 : k < ks.length) (h2 : k < vs.length) :
    (ks.zip vs).lookup ks[k] = some vs[k] := by
  induction ks generalizing vs k with
  | nil => simp at h1
  | cons a ks ih =>
    cases vs with
    | nil => simp at h2
    | cons v vs =>
      cases k with
      | zero => simp
      | succ k =>
        have hne : ks[k]'(by simpa using h1) ≠ a := by
          intro h
          have := (List.nodup_cons.mp hnd).1
          exact this (h ▸ List.getElem_mem _)
        simp only [List.zip_cons_cons, List.getElem_cons_succ, List.lookup_cons]
        have : (ks[k]'(by simpa using h1) == a) = false := by simpa using hne
        rw [this]
        exact ih vs (List.nodup_cons.mp hnd).2 k (by simpa using h1) (by simpa using h2)

/-- the fill loop sets, at the `k`-th combination, exactly the designs of the `k`-th Pareto set -/
theorem filledMask_at {n m : Nat} {pareto : List (List Nat)} (k : Nat)
    (h1 : k < (combinations n m).length) (h2 : k < pareto.length) (i : Nat) :
    filledMask n m pareto ((combinations n m)[k]) i = pareto[k].contains i := by
  unfold filledMask
  have hnd : (combinations n m).Nodup := nodup_combsFrom n m 0
  rw [lookup_zip_getElem _ _ hnd k h1 h2]

end VOPy.Thompson
