import VOPyVerif.Proofs.Empirical
/-!
# Helper lemmas for C16: the batch statistics are *running* statistics

The model (like `EmpiricalMeanVarModel.update`) recomputes `np.mean` / `np.var` from all stored
samples.  These lemmas show that the result is the one an incremental (Welford) accumulator would
hold, so "running statistics of all samples" is literally true of the reported numbers:

* `mean_snoc` — `mean (c ++ [x]) = mean c + (x − mean c)/(n+1)`;
* `sumSqDev_snoc` — `(n+1)·popVar (c ++ [x]) = n·popVar c + (x − mean c)·(x − mean (c ++ [x]))`;
* `mean_ge_of_forall_ge`, `mean_le_of_forall_le` — the mean lies in the range of the samples;
* `popVar_const` — identical samples have variance `0`.
-/
namespace VOPy.Empirical

theorem mean_snoc (c : List Rat) (x : Rat) :
    mean (c ++ [x]) = mean c + (x - mean c) / ((c.length : Rat) + 1) := by
  by_cases hc : c = []
  · subst hc; simp [mean]
  · have hn : (c.length : Rat) ≠ 0 := by
      have : 0 < c.length := List.length_pos_iff.mpr hc
      exact_mod_cast this.ne'
    have hn1 : (c.length : Rat) + 1 ≠ 0 := by positivity
    simp only [mean, List.sum_append, List.sum_cons, List.sum_nil, List.length_append,
      List.length_cons, List.length_nil]
    push_cast
    field_simp
    ring

theorem mean_ge_of_forall_ge (c : List Rat) (lo : Rat) (hc : c ≠ []) (h : ∀ x ∈ c, lo ≤ x) :
    lo ≤ mean c := by
  have hn : (0 : Rat) < (c.length : Rat) := by
    have : 0 < c.length := List.length_pos_iff.mpr hc
    exact_mod_cast this
  have hs : (c.length : Rat) * lo ≤ c.sum := by
    clear hn hc
    induction c with
    | nil => simp
    | cons a as ih =>
      have h1 : lo ≤ a := h a (by simp)
      have h2 := ih (fun x hx => h x (by simp [hx]))
      simp only [List.length_cons, List.sum_cons]
      push_cast
      linarith
  unfold mean
  rw [le_div_iff₀ hn]
  linarith

theorem mean_le_of_forall_le (c : List Rat) (hi : Rat) (hc : c ≠ []) (h : ∀ x ∈ c, x ≤ hi) :
    mean c ≤ hi := by
  have hn : (0 : Rat) < (c.length : Rat) := by
    have : 0 < c.length := List.length_pos_iff.mpr hc
    exact_mod_cast this
  have hs : c.sum ≤ (c.length : Rat) * hi := by
    clear hn hc
    induction c with
    | nil => simp
    | cons a as ih =>
      have h1 : a ≤ hi := h a (by simp)
      have h2 := ih (fun x hx => h x (by simp [hx]))
      simp only [List.length_cons, List.sum_cons]
      push_cast
      linarith
  unfold mean
  rw [div_le_iff₀ hn]
  linarith

/-- Welford's recurrence for the sum of squared deviations `n·popVar`. -/
theorem sumSqDev_snoc (c : List Rat) (x : Rat) :
    ((c.length : Rat) + 1) * popVar (c ++ [x]) =
      (c.length : Rat) * popVar c + (x - mean c) * (x - mean (c ++ [x])) := by
  by_cases hc : c = []
  · subst hc; simp [popVar, mean]
  · have hn : (c.length : Rat) ≠ 0 := by
      have : 0 < c.length := List.length_pos_iff.mpr hc
      exact_mod_cast this.ne'
    have hn1 : (c.length : Rat) + 1 ≠ 0 := by positivity
    rw [popVar_eq_meanSq_sub c hc, popVar_eq_meanSq_sub (c ++ [x]) (by simp)]
    simp only [mean, List.map_append, List.map_cons, List.map_nil, List.sum_append, List.sum_cons,
      List.sum_nil, List.length_append, List.length_cons, List.length_nil, List.length_map]
    push_cast
    field_simp
    ring

theorem popVar_const (n : Nat) (x : Rat) : popVar (List.replicate n x) = 0 := by
  by_cases hn : n = 0
  · subst hn; simp [popVar, mean]
  · have hq : (n : Rat) ≠ 0 := by exact_mod_cast hn
    have hm : mean (List.replicate n x) = x := by
      simp only [mean, List.sum_replicate, List.length_replicate, nsmul_eq_mul]
      field_simp
    unfold popVar
    rw [hm]
    simp [mean, List.map_replicate]

end VOPy.Empirical
