import VOPyVerif.Proofs.InvBasic
/-!
# Invariances of the pessimistic rectangle comparison (`Model/Pessimistic.lean`, exact instance)

`check_dominates` maps the vertices of both rectangles through `W` and runs the extended-polytope
membership test (`isPtIn`: vertex test, then edge intersections) in facet space.  A common
translation of the rectangles translates every mapped vertex by `W τ`, a positive scaling scales
them; the membership test only uses differences, ratios of differences and comparisons, so it is
invariant under both.  Helpers for the invariance section of `Props/C11.lean`.
-/
namespace VOPy.PessInv
open VOPy VOPy.Inv VOPy.Pess

/-! ## the interpolation step -/

theorem zipWith_interp_vadd (t : ℚ) : ∀ (a b σ : Vec), a.length = σ.length → b.length = σ.length →
    List.zipWith (fun x y => x + t * (y - x)) (vadd a σ) (vadd b σ) =
      vadd (List.zipWith (fun x y => x + t * (y - x)) a b) σ
  | [], _, _, _, _ => by simp [vadd]
  | _ :: _, [], _, _, _ => by simp [vadd]
  | _ :: _, _ :: _, [], h, _ => by simp at h
  | x :: a, y :: b, z :: σ, ha, hb => by
    have := zipWith_interp_vadd t a b σ (by simpa using ha) (by simpa using hb)
    simp only [vadd, List.zipWith_cons_cons, List.cons.injEq] at this ⊢
    exact ⟨by ring, this⟩

theorem zipWith_interp_smul (t k : ℚ) : ∀ (a b : Vec),
    List.zipWith (fun x y => x + t * (y - x)) (smul k a) (smul k b) =
      smul k (List.zipWith (fun x y => x + t * (y - x)) a b)
  | [], _ => by simp [smul]
  | _ :: _, [] => by simp [smul]
  | x :: a, y :: b => by
    have := zipWith_interp_smul t k a b
    simp only [smul, List.map_cons, List.zipWith_cons_cons, List.cons.injEq] at this ⊢
    exact ⟨by ring, this⟩

theorem getElem?_of_lt {v : Vec} {d : Nat} (h : d < v.length) : v[d]? = some v[d] :=
  List.getElem?_eq_getElem h

theorem lineSegAt_translate (v1 v2 p σ : Vec) (d : Nat) (h1 : v1.length = σ.length)
    (h2 : v2.length = σ.length) (hp : p.length = σ.length) :
    lineSegAt exact false (vadd v1 σ) (vadd v2 σ) (vadd p σ) d =
      (lineSegAt exact false v1 v2 p d).map (fun q => vadd q σ) := by
  unfold lineSegAt
  simp only [getElem?_vadd]
  by_cases hd : d < σ.length
  · have d1 : d < v1.length := by omega
    have d2 : d < v2.length := by omega
    have dp : d < p.length := by omega
    rw [getElem?_of_lt d1, getElem?_of_lt d2, getElem?_of_lt dp, getElem?_of_lt hd]
    simp only [exact]
    have e1 : v2[d] + σ[d] - (v1[d] + σ[d]) = v2[d] - v1[d] := by ring
    have e2 : p[d] + σ[d] - (v1[d] + σ[d]) = p[d] - v1[d] := by ring
    rw [e1, e2]
    split
    · rfl
    · split
      · rfl
      · simp only [Bool.false_eq_true, if_false, Option.map_some, Option.some.injEq]
        exact zipWith_interp_vadd _ v1 v2 σ h1 h2
  · have n1 : v1[d]? = none := List.getElem?_eq_none (by omega)
    simp [n1]

theorem lineSegAt_scale (k : ℚ) (hk : 0 < k) (v1 v2 p : Vec) (d : Nat) :
    lineSegAt exact false (smul k v1) (smul k v2) (smul k p) d =
      (lineSegAt exact false v1 v2 p d).map (smul k) := by
  unfold lineSegAt
  simp only [getElem?_smul]
  cases ha : v1[d]? with
  | none => simp
  | some a =>
    cases hb : v2[d]? with
    | none => simp
    | some b =>
      cases hc : p[d]? with
      | none => simp
      | some c =>
        simp only [Option.map_some, exact]
        have hk0 : k ≠ 0 := ne_of_gt hk
        have e1 : k * b - k * a = k * (b - a) := by ring
        have e2 : k * c - k * a = k * (c - a) := by ring
        rw [e1, e2, mul_div_mul_left _ _ hk0]
        have e3 : (k * (b - a) = 0) = (b - a = 0) := propext (by simp [hk0])
        simp only [e3]
        split
        · rfl
        · split
          · rfl
          · simp only [Bool.false_eq_true, if_false, Option.map_some, Option.some.injEq]
            exact zipWith_interp_smul _ k v1 v2

theorem lineSegAt_length {v1 v2 p q : Vec} {d : Nat} (h : lineSegAt exact false v1 v2 p d = some q) :
    q.length = min v1.length v2.length := by
  unfold lineSegAt at h
  split at h
  · simp only [exact] at h
    split at h
    · cases h
    · split at h
      · cases h
      · simp only [Bool.false_eq_true, if_false, Option.some.injEq] at h
        rw [← h]; simp
  · cases h

/-! ## one edge -/

theorem edgeHit_translate (p v1 v2 σ : Vec) (d : Nat) (hp : p.length = σ.length)
    (h1 : v1.length = σ.length) (h2 : v2.length = σ.length) :
    edgeHit exact false (vadd p σ) d (vadd v1 σ) (vadd v2 σ) = edgeHit exact false p d v1 v2 := by
  unfold edgeHit
  rw [lineSegAt_translate v1 v2 p σ d h1 h2 hp]
  simp only [getElem?_vadd]
  by_cases hd : d < σ.length
  · have d1 : d < v1.length := by omega
    have d2 : d < v2.length := by omega
    have dp : d < p.length := by omega
    rw [getElem?_of_lt d1, getElem?_of_lt d2, getElem?_of_lt dp, getElem?_of_lt hd]
    simp only [add_le_add_iff_right]
    congr 1
    cases hq : lineSegAt exact false v1 v2 p d with
    | none => rfl
    | some q =>
      simp only [Option.map_some]
      have hl : q.length = σ.length := by rw [lineSegAt_length hq, h1, h2]; simp
      exact vle_vadd q p σ hl hp
  · have n1 : v1[d]? = none := List.getElem?_eq_none (by omega)
    simp [n1]

theorem edgeHit_scale (k : ℚ) (hk : 0 < k) (p v1 v2 : Vec) (d : Nat) :
    edgeHit exact false (smul k p) d (smul k v1) (smul k v2) = edgeHit exact false p d v1 v2 := by
  unfold edgeHit
  rw [lineSegAt_scale k hk v1 v2 p d]
  simp only [getElem?_smul]
  cases ha : v1[d]? with
  | none => simp
  | some a =>
    cases hc : p[d]? with
    | none => simp
    | some c =>
      cases hb : v2[d]? with
      | none => simp
      | some b =>
        simp only [Option.map_some, mul_le_mul_iff_right₀ hk]
        congr 1
        cases hq : lineSegAt exact false v1 v2 p d with
        | none => rfl
        | some q =>
          simp only [Option.map_some]
          exact vle_smul k hk q p

/-! ## the membership test -/

theorem polyDim_map (g : Vec → Vec) (poly : List Vec) (hg : ∀ v ∈ poly, (g v).length = v.length) :
    polyDim (poly.map g) = polyDim poly := by
  cases poly with
  | nil => rfl
  | cons v _ => simp [polyDim, hg v (by simp)]

theorem isPtIn_map (g : Vec → Vec) (p : Vec) (poly : List Vec)
    (hlen : ∀ v ∈ poly, (g v).length = v.length)
    (hv : ∀ v ∈ poly, vle (g v) (g p) = vle v p)
    (he : ∀ d, ∀ v1 ∈ poly, ∀ v2 ∈ poly,
      edgeHit exact false (g p) d (g v1) (g v2) = edgeHit exact false p d v1 v2) :
    isPtIn exact false (g p) (poly.map g) = isPtIn exact false p poly := by
  unfold isPtIn
  rw [polyDim_map g poly hlen, List.any_map]
  congr 1
  · exact any_congr (fun v hv' => hv v hv')
  · apply any_congr
    intro d _
    rw [List.zipIdx_map, List.any_map]
    apply any_congr
    intro a ha
    simp only [Function.comp_apply]
    rw [List.any_map]
    apply any_congr
    intro b hb
    have ha' : a.1 ∈ poly := (List.mem_zipIdx' ha).2 ▸ List.getElem_mem _
    have hb' : b.1 ∈ poly := (List.mem_zipIdx' hb).2 ▸ List.getElem_mem _
    simp only [Function.comp_apply, Prod.map_fst, Prod.map_snd, id_eq]
    rw [he d a.1 ha' b.1 hb']

theorem isPtIn_translate (p σ : Vec) (poly : List Vec) (hp : p.length = σ.length)
    (hpoly : ∀ v ∈ poly, v.length = σ.length) :
    isPtIn exact false (vadd p σ) (poly.map (fun v => vadd v σ)) = isPtIn exact false p poly :=
  isPtIn_map (fun v => vadd v σ) p poly (fun v hv => by simp [hpoly v hv])
    (fun v hv => vle_vadd v p σ (hpoly v hv) hp)
    (fun d v1 h1 v2 h2 => edgeHit_translate p v1 v2 σ d hp (hpoly v1 h1) (hpoly v2 h2))

theorem isPtIn_scale (k : ℚ) (hk : 0 < k) (p : Vec) (poly : List Vec) :
    isPtIn exact false (smul k p) (poly.map (smul k)) = isPtIn exact false p poly :=
  isPtIn_map (smul k) p poly (fun v _ => by simp) (fun v _ => vle_smul k hk v p)
    (fun d v1 _ v2 _ => edgeHit_scale k hk p v1 v2 d)

/-! ## `check_dominates` and the pessimistic set -/

theorem mapped_vertices_translate (W : Mat) (l u τ : Vec) (hl : l.length = τ.length)
    (hu : u.length = τ.length) :
    (vertices (vadd l τ) (vadd u τ)).map (matVec W) =
      ((vertices l u).map (matVec W)).map (fun v => vadd v (matVec W τ)) := by
  rw [pess_vertices_eq, pess_vertices_eq, rect_vertices_vadd l u τ hl hu, List.map_map, List.map_map]
  apply List.map_congr_left
  intro v hv
  have := rect_vertices_length l u (hl.trans hu.symm) v hv
  simp only [Function.comp_apply]
  exact matVec_vadd W v τ (this.trans hl)

theorem mapped_vertices_scale (W : Mat) (k : ℚ) (l u : Vec) :
    (vertices (smul k l) (smul k u)).map (matVec W) = ((vertices l u).map (matVec W)).map (smul k) := by
  rw [pess_vertices_eq, pess_vertices_eq, rect_vertices_smul, List.map_map, List.map_map]
  apply List.map_congr_left
  intro v _
  simp only [Function.comp_apply]
  exact matVec_smul W k v

theorem checkDominates_translate (W : Mat) (l1 u1 l2 u2 τ : Vec)
    (h1 : l1.length = τ.length) (h2 : u1.length = τ.length) (h3 : l2.length = τ.length)
    (h4 : u2.length = τ.length) :
    checkDominates W (vadd l1 τ) (vadd u1 τ) (vadd l2 τ) (vadd u2 τ) = checkDominates W l1 u1 l2 u2 := by
  unfold checkDominates checkDominatesR
  simp only
  rw [mapped_vertices_translate W l1 u1 τ h1 h2, mapped_vertices_translate W l2 u2 τ h3 h4,
    List.all_map]
  apply all_congr
  intro p hp
  obtain ⟨v, _, rfl⟩ := List.mem_map.1 hp
  simp only [Function.comp_apply]
  apply isPtIn_translate
  · simp
  · intro q hq
    obtain ⟨v', _, rfl⟩ := List.mem_map.1 hq
    simp

theorem checkDominates_scale (W : Mat) (k : ℚ) (hk : 0 < k) (l1 u1 l2 u2 : Vec) :
    checkDominates W (smul k l1) (smul k u1) (smul k l2) (smul k u2) = checkDominates W l1 u1 l2 u2 := by
  unfold checkDominates checkDominatesR
  simp only
  rw [mapped_vertices_scale, mapped_vertices_scale, List.all_map]
  apply all_congr
  intro p _
  simp only [Function.comp_apply]
  exact isPtIn_scale k hk p _

theorem pessimisticSet_map (g : Vec × Vec → Vec × Vec) (W : Mat) (regions : List (Vec × Vec))
    (active : List Nat)
    (hg : ∀ rj ∈ regions, ∀ ri ∈ regions,
      checkDominates W (g rj).1 (g rj).2 (g ri).1 (g ri).2 = checkDominates W rj.1 rj.2 ri.1 ri.2) :
    pessimisticSet W (regions.map g) active = pessimisticSet W regions active := by
  unfold pessimisticSet pessimisticSetR
  apply List.filter_congr
  intro i _
  congr 1
  apply any_congr
  intro j _
  congr 1
  simp only [List.getElem?_map]
  cases hj : regions[j]? with
  | none => rfl
  | some rj =>
    cases hi : regions[i]? with
    | none => rfl
    | some ri =>
      simp only [Option.map_some]
      exact hg rj (List.mem_of_getElem? hj) ri (List.mem_of_getElem? hi)

end VOPy.PessInv
