import VOPyVerif.Proofs.CoveredGeom
import VOPyVerif.Proofs.LinCertKKT
/-!
# Totality of the ball verdict

`ballVerdict` projects `c₂ − c₁` on the polyhedron `{d | W d ≥ t}` by enumerating active sets
(`LinCert.nearest`), and asks `LinCert.feasibleC` for a Farkas certificate if that finds nothing.
With `Proofs/LinCertKKT.lean` (the enumeration finds the KKT point of every non-empty polyhedron)
and `Proofs/LinCertComplete.lean` (Fourier–Motzkin is complete) the verdict is never
`inconclusive` once the guard (radii `≥ 0`, equal dimensions, cone rows of the right length) holds,
hence it *decides* `Cov (ball …) (ball …)`.
-/
namespace VOPy.Covered
open VOPy.LinCert

theorem coneSys_wf (m : ℕ) (W : Mat) (t : Vec) (hW : ∀ w ∈ W, w.length = m) :
    wf m (coneSys W t) = true := by
  rw [wf_iff]
  intro r hr
  simp only [coneSys] at hr
  obtain ⟨i, hi, rfl⟩ := List.mem_iff_getElem.1 hr
  simp only [List.getElem_zipWith]
  exact hW _ (List.getElem_mem _)

/-- **The ball verdict is total**: radii `≥ 0`, centres of equal dimension `m` and cone rows with
`m` entries ⇒ never `inconclusive`. -/
theorem ballVerdict_total (W : Mat) (c1 c2 t : Vec) (a1 a2 : ℚ) (ha1 : 0 ≤ a1) (ha2 : 0 ≤ a2)
    (hc : c2.length = c1.length) (hW : ∀ w ∈ W, w.length = c1.length) :
    ballVerdict W c1 a1 c2 a2 t ≠ .inconclusive := by
  have hwf := coneSys_wf c1.length W t hW
  unfold ballVerdict
  simp only
  split
  · rename_i hg
    simp only [Bool.or_eq_true, decide_eq_true_eq, bne_iff_ne, ne_eq] at hg
    rcases hg with (h | h) | h
    · exact absurd ha1 (not_le.2 h)
    · exact absurd ha2 (not_le.2 h)
    · exact absurd hc h
  · split
    · split <;> simp
    · rename_i hn
      rcases feasibleC_complete _ _ hwf with h | h
      · exfalso
        obtain ⟨x, lam, hx⟩ := nearest_complete c1.length (coneSys W t) (vsub c2 c1) hwf
          (by simp [hc]) ((feasibleC_cert _ _).1 h)
        rw [hx] at hn; cases hn
      · rw [h]; simp

/-- **The ball verdict decides** `Cov`: `yes ↔ Cov`. -/
theorem ballVerdict_yes_iff (W : Mat) (c1 c2 t : Vec) (a1 a2 : ℚ) (ha1 : 0 ≤ a1) (ha2 : 0 ≤ a2)
    (hc : c2.length = c1.length) (hW : ∀ w ∈ W, w.length = c1.length) (ht : W.length = t.length) :
    ballVerdict W c1 a1 c2 a2 t = .yes ↔ Cov (ball c1 a1) (ball c2 a2) W (zeros c1.length) t := by
  constructor
  · exact ballVerdict_yes W c1 c2 t a1 a2 ht
  · intro hcov
    cases hv : ballVerdict W c1 a1 c2 a2 t with
    | yes => rfl
    | no => exact absurd hcov (ballVerdict_no W c1 c2 t a1 a2 ht hv)
    | inconclusive => exact absurd hv (ballVerdict_total W c1 c2 t a1 a2 ha1 ha2 hc hW)

/-- **The ball verdict decides** `Cov`: `no ↔ ¬Cov`. -/
theorem ballVerdict_no_iff (W : Mat) (c1 c2 t : Vec) (a1 a2 : ℚ) (ha1 : 0 ≤ a1) (ha2 : 0 ≤ a2)
    (hc : c2.length = c1.length) (hW : ∀ w ∈ W, w.length = c1.length) (ht : W.length = t.length) :
    ballVerdict W c1 a1 c2 a2 t = .no ↔ ¬ Cov (ball c1 a1) (ball c2 a2) W (zeros c1.length) t := by
  constructor
  · exact ballVerdict_no W c1 c2 t a1 a2 ht
  · intro hcov
    cases hv : ballVerdict W c1 a1 c2 a2 t with
    | yes => exact absurd (ballVerdict_yes W c1 c2 t a1 a2 ht hv) hcov
    | no => rfl
    | inconclusive => exact absurd hv (ballVerdict_total W c1 c2 t a1 a2 ha1 ha2 hc hW)

end VOPy.Covered
