import Mathlib.Analysis.InnerProductSpace.Basic
import Mathlib.Tactic.Linarith
import Mathlib.Tactic.Positivity
/-!
# Cone constants in a real inner product space (abstract layer of C17)

A polyhedral cone is given by a finite list `ws` of facet normals in a real inner product space `E`:
`C = {x | ∀ w ∈ ws, 0 ≤ ⟪w, x⟫}`.  For a functional `c` (in VOPy: the `n`-th normal `w_n`)

* `alpha ws c = sup {⟪c, x⟫ | x ∈ C, ‖x‖ ≤ 1}`              (`utils.get_alpha`),
* `d1 ws      = inf {‖z‖ | ∀ w ∈ ws, 1 ≤ ⟪w, z⟫}`            (`VOGP.compute_u_star`, second output),
* `IsMinNorm ws z*` : `z*` is feasible and of minimum norm; `u* = z*/‖z*‖`.

Proved here: weak duality for both problems (a non-negative multiplier list gives the opposite
bound through Cauchy–Schwarz), `alpha` / `d1` are the least upper / greatest lower bounds and lie in
every certified interval, strong-convexity stability `‖z − z*‖² ≤ ‖z‖² − ‖z*‖²`, uniqueness of the
minimum-norm point, `u* ∈ C`, `‖u*‖ = 1`, and the bound on the distance of unit directions used by the
`u*` certificate.
-/
namespace VOPy.ConeConst
open scoped RealInnerProductSpace

variable {E : Type*} [NormedAddCommGroup E] [InnerProductSpace ℝ E]

/-- `Σ_i λ_i • w_i`, multipliers and normals paired positionally (`Wᵀλ`) -/
noncomputable def comb : List ℝ → List E → E
  | l :: ls, w :: ws => l • w + comb ls ws
  | _, _ => 0

@[simp] theorem comb_nil_left (ws : List E) : comb [] ws = 0 := by
  cases ws <;> rfl
@[simp] theorem comb_nil_right (ls : List ℝ) : comb ls ([] : List E) = 0 := by
  cases ls <;> rfl
@[simp] theorem comb_cons (l : ℝ) (ls : List ℝ) (w : E) (ws : List E) :
    comb (l :: ls) (w :: ws) = l • w + comb ls ws := rfl

/-- membership in the polyhedral cone with facet normals `ws` -/
def InCone (ws : List E) (x : E) : Prop := ∀ w ∈ ws, 0 ≤ ⟪w, x⟫

/-- feasibility for the `d₁` problem: every facet functional is at least one -/
def Feas1 (ws : List E) (z : E) : Prop := ∀ w ∈ ws, 1 ≤ ⟪w, z⟫

/-- all multipliers non-negative -/
def NonnegL (lam : List ℝ) : Prop := ∀ l ∈ lam, 0 ≤ l

theorem inner_comb_nonneg {ws : List E} {x : E} (hx : InCone ws x) :
    ∀ {lam : List ℝ}, NonnegL lam → 0 ≤ ⟪comb lam ws, x⟫ := by
  induction ws with
  | nil => intro lam _; simp
  | cons w ws ih =>
    intro lam hl
    cases lam with
    | nil => simp
    | cons l ls =>
      rw [comb_cons, inner_add_left, real_inner_smul_left]
      have h1 : 0 ≤ l := hl l (by simp)
      have h2 : 0 ≤ ⟪w, x⟫ := hx w (by simp)
      have h3 := ih (fun w' hw' => hx w' (List.mem_cons_of_mem _ hw'))
        (lam := ls) (fun l' hl' => hl l' (List.mem_cons_of_mem _ hl'))
      have := mul_nonneg h1 h2
      linarith

theorem sum_le_inner_comb {ws : List E} {z : E} (hz : Feas1 ws z) :
    ∀ {lam : List ℝ}, NonnegL lam → lam.length ≤ ws.length → lam.sum ≤ ⟪comb lam ws, z⟫ := by
  induction ws with
  | nil =>
    intro lam _ hlen
    have : lam = [] := List.eq_nil_of_length_eq_zero (Nat.le_zero.mp hlen)
    subst this; simp
  | cons w ws ih =>
    intro lam hl hlen
    cases lam with
    | nil => simp
    | cons l ls =>
      rw [comb_cons, inner_add_left, real_inner_smul_left, List.sum_cons]
      have h1 : 0 ≤ l := hl l (by simp)
      have h2 : 1 ≤ ⟪w, z⟫ := hz w (by simp)
      have h3 := ih (fun w' hw' => hz w' (List.mem_cons_of_mem _ hw'))
        (lam := ls) (fun l' hl' => hl l' (List.mem_cons_of_mem _ hl'))
        (by simpa using hlen)
      nlinarith

/-- **Weak duality for α.**  For `x` in the cone with `‖x‖ ≤ 1` and multipliers `λ ≥ 0`:
`⟪c, x⟫ ≤ ‖c + Σ λ_i w_i‖`. -/
theorem alpha_weak_duality (ws : List E) (c x : E) (lam : List ℝ) (hx : InCone ws x)
    (hn : ‖x‖ ≤ 1) (hl : NonnegL lam) : ⟪c, x⟫ ≤ ‖c + comb lam ws‖ := by
  have h1 : ⟪c, x⟫ ≤ ⟪c + comb lam ws, x⟫ := by
    rw [inner_add_left]; linarith [inner_comb_nonneg hx hl]
  have h2 := real_inner_le_norm (c + comb lam ws) x
  have h3 : ‖c + comb lam ws‖ * ‖x‖ ≤ ‖c + comb lam ws‖ * 1 :=
    mul_le_mul_of_nonneg_left hn (norm_nonneg _)
  linarith

/-- **Weak duality for d₁.**  For feasible `z` (`⟪w, z⟫ ≥ 1` for every facet) and `λ ≥ 0`:
`Σλ ≤ ‖z‖ · ‖Σ λ_i w_i‖`. -/
theorem d1_weak_duality (ws : List E) (z : E) (lam : List ℝ) (hz : Feas1 ws z)
    (hl : NonnegL lam) (hlen : lam.length ≤ ws.length) : lam.sum ≤ ‖z‖ * ‖comb lam ws‖ := by
  have h1 := sum_le_inner_comb hz hl hlen
  have h2 := real_inner_le_norm (comb lam ws) z
  linarith [mul_comm ‖z‖ ‖comb lam ws‖]

/-! ### α as a supremum -/

/-- values of the functional `c` on the unit-ball part of the cone -/
def alphaSet (ws : List E) (c : E) : Set ℝ := {v | ∃ x, InCone ws x ∧ ‖x‖ ≤ 1 ∧ ⟪c, x⟫ = v}

/-- `α = sup {⟪c, x⟫ | x ∈ C, ‖x‖ ≤ 1}` -/
noncomputable def alpha (ws : List E) (c : E) : ℝ := sSup (alphaSet ws c)

theorem zero_mem_alphaSet (ws : List E) (c : E) : (0 : ℝ) ∈ alphaSet ws c :=
  ⟨0, fun w _ => by simp, by simp, by simp⟩

theorem alphaSet_bddAbove (ws : List E) (c : E) : BddAbove (alphaSet ws c) := by
  refine ⟨‖c‖, ?_⟩
  rintro v ⟨x, hx, hn, rfl⟩
  have := alpha_weak_duality ws c x [] hx hn (fun _ h => by simp at h)
  simpa using this

/-- `alpha` is the least upper bound of the attainable values (the set is non-empty and bounded) -/
theorem isLUB_alpha (ws : List E) (c : E) : IsLUB (alphaSet ws c) (alpha ws c) :=
  isLUB_csSup ⟨0, zero_mem_alphaSet ws c⟩ (alphaSet_bddAbove ws c)

theorem alpha_nonneg (ws : List E) (c : E) : 0 ≤ alpha ws c :=
  (isLUB_alpha ws c).1 (zero_mem_alphaSet ws c)

/-- a primal witness bounds `α` from below -/
theorem le_alpha (ws : List E) (c x : E) (hx : InCone ws x) (hn : ‖x‖ ≤ 1) :
    ⟪c, x⟫ ≤ alpha ws c :=
  (isLUB_alpha ws c).1 ⟨x, hx, hn, rfl⟩

/-- a dual multiplier list bounds `α` from above -/
theorem alpha_le (ws : List E) (c : E) (lam : List ℝ) (hl : NonnegL lam) :
    alpha ws c ≤ ‖c + comb lam ws‖ := by
  refine (isLUB_alpha ws c).2 ?_
  rintro v ⟨x, hx, hn, rfl⟩
  exact alpha_weak_duality ws c x lam hx hn hl

/-- matching primal and dual certificates determine `α`, and the supremum is attained -/
theorem alpha_eq_of_certificates (ws : List E) (c x : E) (lam : List ℝ) (hx : InCone ws x)
    (hn : ‖x‖ ≤ 1) (hl : NonnegL lam) (heq : ⟪c, x⟫ = ‖c + comb lam ws‖) :
    alpha ws c = ⟪c, x⟫ ∧ IsGreatest (alphaSet ws c) ⟪c, x⟫ := by
  have h1 := le_alpha ws c x hx hn
  have h2 := alpha_le ws c lam hl
  refine ⟨le_antisymm (heq ▸ h2) h1, ⟨x, hx, hn, rfl⟩, ?_⟩
  rintro v ⟨y, hy, hyn, rfl⟩
  rw [heq]
  exact alpha_weak_duality ws c y lam hy hyn hl

/-! ### d₁ as an infimum, the minimum-norm point -/

/-- norms of the feasible points -/
def d1Set (ws : List E) : Set ℝ := {r | ∃ z, Feas1 ws z ∧ ‖z‖ = r}

/-- `d₁ = inf {‖z‖ | ⟪w, z⟫ ≥ 1 for every facet}` -/
noncomputable def d1 (ws : List E) : ℝ := sInf (d1Set ws)

theorem d1Set_bddBelow (ws : List E) : BddBelow (d1Set ws) :=
  ⟨0, by rintro r ⟨z, _, rfl⟩; exact norm_nonneg z⟩

/-- a feasible point bounds `d₁` from above -/
theorem d1_le (ws : List E) (z : E) (hz : Feas1 ws z) : d1 ws ≤ ‖z‖ :=
  csInf_le (d1Set_bddBelow ws) ⟨z, hz, rfl⟩

/-- a lower bound valid for every feasible point bounds `d₁` from below, provided the problem is
feasible -/
theorem le_d1 (ws : List E) (lo : ℝ) (hfeas : ∃ z, Feas1 ws z)
    (h : ∀ z, Feas1 ws z → lo ≤ ‖z‖) : lo ≤ d1 ws := by
  obtain ⟨z0, hz0⟩ := hfeas
  refine le_csInf ⟨‖z0‖, z0, hz0, rfl⟩ ?_
  rintro r ⟨z, hz, rfl⟩
  exact h z hz

/-- dual bound in division-free form: `lo ≥ 0`, `lo · ‖Σ λ_i w_i‖ ≤ Σλ` ⇒ `lo ≤ ‖z‖` for every
feasible `z` -/
theorem dual_le_norm (ws : List E) (z : E) (lam : List ℝ) (lo : ℝ) (hz : Feas1 ws z)
    (hl : NonnegL lam) (hlen : lam.length ≤ ws.length)
    (hlo : lo * ‖comb lam ws‖ ≤ lam.sum) (hpos : 0 < ‖comb lam ws‖) : lo ≤ ‖z‖ := by
  have h1 := d1_weak_duality ws z lam hz hl hlen
  by_contra hlt
  push Not at hlt
  have : ‖z‖ * ‖comb lam ws‖ < lo * ‖comb lam ws‖ := mul_lt_mul_of_pos_right hlt hpos
  linarith

/-- `z*` is a feasible point of minimum norm -/
def IsMinNorm (ws : List E) (zs : E) : Prop := Feas1 ws zs ∧ ∀ z, Feas1 ws z → ‖zs‖ ≤ ‖z‖

theorem d1_eq_of_isMinNorm (ws : List E) (zs : E) (h : IsMinNorm ws zs) : d1 ws = ‖zs‖ :=
  le_antisymm (d1_le ws zs h.1) (le_d1 ws _ ⟨zs, h.1⟩ h.2)

theorem feas1_convex (ws : List E) (a b : E) (ha : Feas1 ws a) (hb : Feas1 ws b) (t : ℝ)
    (h0 : 0 ≤ t) (h1 : t ≤ 1) : Feas1 ws (a + t • (b - a)) := by
  intro w hw
  have e : ⟪w, a + t • (b - a)⟫ = (1 - t) * ⟪w, a⟫ + t * ⟪w, b⟫ := by
    rw [inner_add_right, real_inner_smul_right, inner_sub_right]; ring
  rw [e]
  have := ha w hw
  have := hb w hw
  nlinarith

/-- first-order optimality of the minimum-norm point: `⟪z*, z − z*⟫ ≥ 0` for feasible `z` -/
theorem inner_minNorm_nonneg (ws : List E) (zs z : E) (h : IsMinNorm ws zs) (hz : Feas1 ws z) :
    0 ≤ ⟪zs, z - zs⟫ := by
  set a := ⟪zs, z - zs⟫ with ha
  set b := ‖z - zs‖ ^ 2 with hb
  have hb0 : 0 ≤ b := by positivity
  -- along the segment the squared norm is `‖z*‖² + 2 t a + t² b`
  have key : ∀ t : ℝ, 0 ≤ t → t ≤ 1 → 0 ≤ 2 * t * a + t ^ 2 * b := by
    intro t h0 h1
    have hf := feas1_convex ws zs z h.1 hz t h0 h1
    have hle := h.2 _ hf
    have hsq : ‖zs‖ ^ 2 ≤ ‖zs + t • (z - zs)‖ ^ 2 := by
      have := norm_nonneg zs
      nlinarith
    rw [norm_add_sq_real, real_inner_smul_right, norm_smul, mul_pow, Real.norm_eq_abs,
      sq_abs] at hsq
    nlinarith
  by_contra hneg
  push Not at hneg
  by_cases hbz : b = 0
  · have := key 1 (by norm_num) (by norm_num)
    rw [hbz] at this
    linarith
  · have hbpos : 0 < b := lt_of_le_of_ne hb0 (Ne.symm hbz)
    by_cases hcase : -a / b ≤ 1
    · have ht0 : 0 ≤ -a / b := div_nonneg (by linarith) hb0
      have := key (-a / b) ht0 hcase
      have e : 2 * (-a / b) * a + (-a / b) ^ 2 * b = -(a ^ 2) / b := by
        field_simp; ring
      rw [e] at this
      have : 0 < a ^ 2 / b := div_pos (by nlinarith) hbpos
      rw [neg_div] at *
      linarith
    · push Not at hcase
      have hlt : b < -a := by
        rwa [lt_div_iff₀ hbpos, one_mul] at hcase
      have := key 1 (by norm_num) (by norm_num)
      nlinarith

/-- **Strong-convexity stability.**  If `z*` is the minimum-norm feasible point then every feasible
`z` satisfies `‖z − z*‖² ≤ ‖z‖² − ‖z*‖²`: a near-optimal feasible point is near `z*`. -/
theorem minNorm_stability (ws : List E) (zs z : E) (h : IsMinNorm ws zs) (hz : Feas1 ws z) :
    ‖z - zs‖ ^ 2 ≤ ‖z‖ ^ 2 - ‖zs‖ ^ 2 := by
  have h1 := inner_minNorm_nonneg ws zs z h hz
  have h2 : ‖z‖ ^ 2 = ‖zs‖ ^ 2 + 2 * ⟪zs, z - zs⟫ + ‖z - zs‖ ^ 2 := by
    have : z = zs + (z - zs) := by abel
    conv_lhs => rw [this]
    exact norm_add_sq_real zs (z - zs)
  linarith

/-- the minimum-norm feasible point is unique -/
theorem minNorm_unique (ws : List E) (z1 z2 : E) (h1 : IsMinNorm ws z1) (h2 : IsMinNorm ws z2) :
    z1 = z2 := by
  have h := minNorm_stability ws z2 z1 h2 h1.1
  have e : ‖z1‖ = ‖z2‖ := le_antisymm (h1.2 z2 h2.1) (h2.2 z1 h1.1)
  rw [e, sub_self] at h
  have : ‖z1 - z2‖ = 0 := by
    have := norm_nonneg (z1 - z2)
    nlinarith
  exact sub_eq_zero.mp (norm_eq_zero.mp this)

theorem minNorm_ne_zero (ws : List E) (zs : E) (h : IsMinNorm ws zs) (hne : ws ≠ []) : zs ≠ 0 := by
  intro h0
  obtain ⟨w, hw⟩ := List.exists_mem_of_ne_nil ws hne
  have := h.1 w hw
  rw [h0, inner_zero_right] at this
  linarith

/-- **`u* = z*/‖z*‖` is a unit vector of the cone** (it even has `⟪w, u*⟫ ≥ 1/‖z*‖ > 0` for every
facet), as soon as the cone has at least one facet. -/
theorem ustar_mem_cone (ws : List E) (zs : E) (h : IsMinNorm ws zs) (hne : ws ≠ []) :
    ‖(1 / ‖zs‖) • zs‖ = 1 ∧ InCone ws ((1 / ‖zs‖) • zs) ∧
      ∀ w ∈ ws, 1 / ‖zs‖ ≤ ⟪w, (1 / ‖zs‖) • zs⟫ := by
  have hz : zs ≠ 0 := minNorm_ne_zero ws zs h hne
  have hpos : 0 < ‖zs‖ := norm_pos_iff.mpr hz
  have hfac : ∀ w ∈ ws, 1 / ‖zs‖ ≤ ⟪w, (1 / ‖zs‖) • zs⟫ := by
    intro w hw
    rw [real_inner_smul_right]
    have := h.1 w hw
    have hinv : 0 ≤ 1 / ‖zs‖ := by positivity
    nlinarith
  refine ⟨?_, ?_, hfac⟩
  · rw [norm_smul, Real.norm_eq_abs, abs_of_pos (by positivity)]
    field_simp
  · intro w hw
    have : 0 < 1 / ‖zs‖ := by positivity
    linarith [hfac w hw]

/-- distance of unit directions: `‖a/‖a‖ − b/‖b‖‖ ≤ 2‖a − b‖/‖b‖` -/
theorem unit_dir_dist (a b : E) (ha : a ≠ 0) (hb : b ≠ 0) :
    ‖(1 / ‖a‖) • a - (1 / ‖b‖) • b‖ ≤ 2 * ‖a - b‖ / ‖b‖ := by
  have hpa : 0 < ‖a‖ := norm_pos_iff.mpr ha
  have hpb : 0 < ‖b‖ := norm_pos_iff.mpr hb
  have e : (1 / ‖a‖) • a - (1 / ‖b‖) • b = (1 / ‖b‖) • (a - b) + (1 / ‖a‖ - 1 / ‖b‖) • a := by
    rw [smul_sub, sub_smul]; abel
  rw [e]
  refine (norm_add_le _ _).trans ?_
  rw [norm_smul, norm_smul, Real.norm_eq_abs, Real.norm_eq_abs, abs_of_pos (by positivity : 0 < 1 / ‖b‖)]
  have h1 : |1 / ‖a‖ - 1 / ‖b‖| * ‖a‖ = |‖b‖ - ‖a‖| / ‖b‖ := by
    have : 1 / ‖a‖ - 1 / ‖b‖ = (‖b‖ - ‖a‖) / (‖a‖ * ‖b‖) := by field_simp
    rw [this, abs_div, abs_of_pos (by positivity : 0 < ‖a‖ * ‖b‖)]
    field_simp
  rw [h1]
  have h2 : |‖b‖ - ‖a‖| ≤ ‖a - b‖ := by
    rw [abs_sub_comm]; exact abs_norm_sub_norm_le a b
  have : |‖b‖ - ‖a‖| / ‖b‖ ≤ ‖a - b‖ / ‖b‖ := div_le_div_of_nonneg_right h2 hpb.le
  have e2 : 2 * ‖a - b‖ / ‖b‖ = 1 / ‖b‖ * ‖a - b‖ + ‖a - b‖ / ‖b‖ := by ring
  rw [e2]
  linarith

/-- **The `u*` certificate.**  Let `z` be feasible, `λ ≥ 0` with `Σ λ_i w_i ≠ 0`, `z*` the
minimum-norm feasible point, and `zc ≠ 0` any point (the implementation's `d₁·u*`).  If
`‖zc − z‖ ≤ e`, `‖z‖² − (Σλ)²/‖Σλ_i w_i‖² ≤ g²` and `0 < lo`, `lo² ≤ (Σλ)²/‖Σλ_i w_i‖²`, then the unit
directions of `zc` and `z*` differ by at most `2 (e + g)/lo`. -/
theorem ustar_certificate (ws : List E) (z zs zc : E) (lam : List ℝ) (e g lo : ℝ)
    (hz : Feas1 ws z) (hl : NonnegL lam) (hlen : lam.length ≤ ws.length)
    (hq : 0 < ‖comb lam ws‖) (hs : IsMinNorm ws zs) (hc : zc ≠ 0)
    (he : ‖zc - z‖ ≤ e) (hg0 : 0 ≤ g)
    (hg : ‖z‖ ^ 2 - lam.sum ^ 2 / ‖comb lam ws‖ ^ 2 ≤ g ^ 2)
    (hlo0 : 0 < lo) (hlo : lo ^ 2 ≤ lam.sum ^ 2 / ‖comb lam ws‖ ^ 2) :
    lo ≤ ‖zs‖ ∧ ‖z - zs‖ ≤ g ∧
      ‖(1 / ‖zc‖) • zc - (1 / ‖zs‖) • zs‖ ≤ 2 * (e + g) / lo := by
  have hwd := d1_weak_duality ws zs lam hs.1 hl hlen
  have hsum0 : 0 ≤ lam.sum := List.sum_nonneg hl
  have hq2 : 0 < ‖comb lam ws‖ ^ 2 := by positivity
  -- ‖z*‖² ≥ (Σλ)²/‖comb‖²
  have hdual : lam.sum ^ 2 / ‖comb lam ws‖ ^ 2 ≤ ‖zs‖ ^ 2 := by
    rw [div_le_iff₀ hq2]
    have h0 : 0 ≤ ‖zs‖ * ‖comb lam ws‖ := by positivity
    nlinarith
  have hlozs : lo ≤ ‖zs‖ := by
    have := norm_nonneg zs
    nlinarith
  have hstab := minNorm_stability ws zs z hs hz
  have hzg : ‖z - zs‖ ≤ g := by
    have := norm_nonneg (z - zs)
    nlinarith
  have hzs0 : zs ≠ 0 := by
    intro h0; rw [h0, norm_zero] at hlozs; linarith
  refine ⟨hlozs, hzg, ?_⟩
  have hd := unit_dir_dist zc zs hc hzs0
  have htri : ‖zc - zs‖ ≤ e + g := by
    have : zc - zs = (zc - z) + (z - zs) := by abel
    rw [this]
    exact (norm_add_le _ _).trans (by linarith)
  have hzspos : 0 < ‖zs‖ := norm_pos_iff.mpr hzs0
  have h1 : 2 * ‖zc - zs‖ / ‖zs‖ ≤ 2 * (e + g) / ‖zs‖ :=
    div_le_div_of_nonneg_right (by linarith) hzspos.le
  have heg : 0 ≤ 2 * (e + g) := by
    have := norm_nonneg (zc - zs); linarith
  have h2 : 2 * (e + g) / ‖zs‖ ≤ 2 * (e + g) / lo :=
    div_le_div_of_nonneg_left heg hlo0 hlozs
  linarith

end VOPy.ConeConst
