import VOPyVerif.Model.Eval
import Mathlib.Algebra.Order.Field.Basic
import Mathlib.Order.Bounds.Defs
import Mathlib.Tactic.Ring
import Mathlib.Tactic.Linarith
import Mathlib.Tactic.Positivity
/-!
# Helper lemmas for C19, part 1: the gap formula `smallM` / `delta` over an ordered field

Everything here is about the generic terms of `Model/Eval.lean` instantiated at an arbitrary
linearly ordered field `K` (ℚ for the driver, ℝ for the geometric statement).
-/
set_option linter.unusedSectionVars false
namespace VOPy.Eval

variable {K : Type} [Field K] [LinearOrder K] [IsStrictOrderedRing K]

/-! ## the cone, its unit ball, admissible shifts (specification side) -/

/-- `x ∈ C = {x | W x ≥ 0}` -/
def InCone (W : List (List K)) (x : List K) : Prop := ∀ w ∈ W, 0 ≤ gdot w x

/-- `x` lies in the interior side of every facet: `W x > 0` -/
def InInterior (W : List (List K)) (x : List K) : Prop := ∀ w ∈ W, 0 < gdot w x

/-- `s · u` -/
def gscale (s : K) (u : List K) : List K := u.map (s * ·)

/-- `a + b` -/
def gadd (a b : List K) : List K := List.zipWith (· + ·) a b

/-- `s` is an admissible uniform shift for the difference `d = μ_j − μ_i`:
`d − s·u ∈ C` for **every** `u ∈ C` with `‖u‖² ≤ 1` (vectors of dimension `D`). -/
def Shift (W : List (List K)) (D : Nat) (d : List K) (s : K) : Prop :=
  ∀ u : List K, u.length = D → InCone W u → gdot u u ≤ 1 → InCone W (gsub d (gscale s u))

/-- `a = max {w · u | u ∈ C, ‖u‖² ≤ 1}`, attained (what C17 certifies for `α_n`), and positive. -/
def IsAlpha (W : List (List K)) (D : Nat) (w : List K) (a : K) : Prop :=
  0 < a ∧
  (∀ u : List K, u.length = D → InCone W u → gdot u u ≤ 1 → gdot w u ≤ a) ∧
  (∃ u : List K, u.length = D ∧ InCone W u ∧ gdot u u ≤ 1 ∧ gdot w u = a)

/-! ## `gdot` algebra -/

@[simp] theorem gdot_nil_left (b : List K) : gdot ([] : List K) b = 0 := by
  unfold gdot; rfl

@[simp] theorem gdot_nil_right (a : List K) : gdot a ([] : List K) = 0 := by
  cases a <;> (unfold gdot; rfl)

@[simp] theorem gdot_cons (a : K) (as : List K) (b : K) (bs : List K) :
    gdot (a :: as) (b :: bs) = a * b + gdot as bs := by
  rw [gdot]

theorem gdot_comm (a b : List K) : gdot a b = gdot b a := by
  induction a generalizing b with
  | nil => simp
  | cons x xs ih =>
    cases b with
    | nil => simp
    | cons y ys => simp [ih ys, mul_comm]

theorem gdot_self_nonneg (a : List K) : 0 ≤ gdot a a := by
  induction a with
  | nil => simp
  | cons x xs ih => simp only [gdot_cons]; nlinarith [mul_self_nonneg x]

/-- `2 a·b ≤ a·a + b·b` (any lengths: missing coordinates only add squares on the right) -/
theorem two_gdot_le (a b : List K) : 2 * gdot a b ≤ gdot a a + gdot b b := by
  induction a generalizing b with
  | nil => simpa using gdot_self_nonneg b
  | cons x xs ih =>
    cases b with
    | nil => simpa using gdot_self_nonneg (x :: xs)
    | cons y ys =>
      simp only [gdot_cons]
      nlinarith [ih ys, mul_self_nonneg (x - y)]

theorem gdot_gsub (w a b : List K) (h : a.length = b.length) :
    gdot w (gsub a b) = gdot w a - gdot w b := by
  induction w generalizing a b with
  | nil => simp
  | cons x xs ih =>
    cases a with
    | nil =>
      cases b with
      | nil => simp [gsub]
      | cons _ _ => simp at h
    | cons y ys =>
      cases b with
      | nil => simp at h
      | cons z zs =>
        have h' : ys.length = zs.length := by simpa using h
        have := ih ys zs h'
        simp only [gsub, List.zipWith_cons_cons, gdot_cons] at this ⊢
        rw [this]; ring

theorem gdot_gadd (w a b : List K) (h : a.length = b.length) :
    gdot w (gadd a b) = gdot w a + gdot w b := by
  induction w generalizing a b with
  | nil => simp
  | cons x xs ih =>
    cases a with
    | nil =>
      cases b with
      | nil => simp [gadd]
      | cons _ _ => simp at h
    | cons y ys =>
      cases b with
      | nil => simp at h
      | cons z zs =>
        have h' : ys.length = zs.length := by simpa using h
        have := ih ys zs h'
        simp only [gadd, List.zipWith_cons_cons, gdot_cons] at this ⊢
        rw [this]; ring

theorem gdot_gscale (w u : List K) (s : K) : gdot w (gscale s u) = s * gdot w u := by
  induction w generalizing u with
  | nil => simp
  | cons x xs ih =>
    cases u with
    | nil => simp [gscale]
    | cons y ys =>
      have := ih ys
      simp only [gscale, List.map_cons, gdot_cons] at this ⊢
      rw [this]; ring

@[simp] theorem gscale_length (s : K) (u : List K) : (gscale s u).length = u.length := by
  simp [gscale]

theorem gdot_replicate_zero (w : List K) (n : Nat) : gdot w (List.replicate n (0 : K)) = 0 := by
  induction w generalizing n with
  | nil => simp
  | cons x xs ih =>
    cases n with
    | zero => simp
    | succ n => simp [List.replicate_succ, ih n]

theorem gsub_replicate_zero (d : List K) : gsub d (List.replicate d.length (0 : K)) = d := by
  induction d with
  | nil => simp [gsub]
  | cons x xs ih =>
    simp only [gsub, List.length_cons, List.replicate_succ, List.zipWith_cons_cons, sub_zero] at ih ⊢
    rw [ih]

/-! ## `relu`, `gmin`, `gmax`, `minL` -/

theorem relu_eq_max (x : K) : relu x = max 0 x := by
  unfold relu; split_ifs with h
  · exact (max_eq_left h.le).symm
  · exact (max_eq_right (not_lt.mp h)).symm

theorem relu_nonneg (x : K) : 0 ≤ relu x := by rw [relu_eq_max]; exact le_max_left _ _

theorem relu_of_nonneg {x : K} (h : 0 ≤ x) : relu x = x := by rw [relu_eq_max]; exact max_eq_right h

theorem relu_of_nonpos {x : K} (h : x ≤ 0) : relu x = 0 := by rw [relu_eq_max]; exact max_eq_left h

theorem le_relu (x : K) : x ≤ relu x := by rw [relu_eq_max]; exact le_max_right _ _

theorem relu_eq_zero_iff (x : K) : relu x = 0 ↔ x ≤ 0 := by
  rw [relu_eq_max]; exact max_eq_left_iff

theorem gmin_eq_min (a b : K) : gmin a b = min a b := by
  unfold gmin; split_ifs with h
  · exact (min_eq_right h.le).symm
  · exact (min_eq_left (not_lt.mp h)).symm

theorem gmax_eq_max (a b : K) : gmax a b = max a b := by
  unfold gmax; split_ifs with h
  · exact (max_eq_right h.le).symm
  · exact (max_eq_left (not_lt.mp h)).symm

theorem foldl_gmin_spec (l : List K) (x : K) :
    (l.foldl gmin x = x ∨ l.foldl gmin x ∈ l) ∧ l.foldl gmin x ≤ x ∧ ∀ y ∈ l, l.foldl gmin x ≤ y := by
  induction l generalizing x with
  | nil => simp
  | cons a as ih =>
    obtain ⟨h1, h2, h3⟩ := ih (gmin x a)
    simp only [List.foldl_cons, List.mem_cons]
    have hm : gmin x a = min x a := gmin_eq_min x a
    refine ⟨?_, ?_, ?_⟩
    · rcases h1 with h1 | h1
      · rw [h1, hm]
        rcases min_choice x a with h | h
        · left; exact h
        · right; left; exact h
      · right; right; exact h1
    · exact h2.trans (hm ▸ min_le_left x a)
    · intro y hy
      rcases hy with rfl | hy
      · exact h2.trans (hm ▸ min_le_right x y)
      · exact h3 y hy

/-- `minL` returns a member that is a lower bound -/
theorem minL_spec {l : List K} {m : K} (h : minL l = some m) : m ∈ l ∧ ∀ y ∈ l, m ≤ y := by
  cases l with
  | nil => simp [minL] at h
  | cons x xs =>
    simp only [minL, Option.some.injEq] at h
    obtain ⟨h1, h2, h3⟩ := foldl_gmin_spec xs x
    rw [h] at h1 h2 h3
    refine ⟨?_, ?_⟩
    · rcases h1 with h1 | h1
      · rw [h1]; exact List.mem_cons_self
      · exact List.mem_cons_of_mem _ h1
    · intro y hy
      rcases List.mem_cons.mp hy with rfl | hy
      · exact h2
      · exact h3 y hy

theorem minL_isSome_of_ne_nil {l : List K} (h : l ≠ []) : ∃ m, minL l = some m := by
  cases l with
  | nil => exact absurd rfl h
  | cons x xs => exact ⟨_, rfl⟩

/-! ## the quotient list of `smallM` -/

/-- entries of `prods / α` are exactly `relu (w·d) / a` for the paired rows `(w, a)` -/
theorem mem_quot_iff (f : List K → K) (W : List (List K)) (α : List K) (q : K) :
    q ∈ List.zipWith (· / ·) (W.map f) α ↔ ∃ p ∈ W.zip α, q = f p.1 / p.2 := by
  induction W generalizing α with
  | nil => simp
  | cons w W ih =>
    cases α with
    | nil => simp
    | cons a α =>
      simp only [List.map_cons, List.zipWith_cons_cons, List.mem_cons, List.zip_cons_cons, ih α]
      constructor
      · rintro (rfl | ⟨p, hp, rfl⟩)
        · exact ⟨(w, a), Or.inl rfl, rfl⟩
        · exact ⟨p, Or.inr hp, rfl⟩
      · rintro ⟨p, hp | hp, rfl⟩
        · left; rw [hp]
        · right; exact ⟨p, hp, rfl⟩

theorem exists_zip_of_mem {W : List (List K)} {α : List K} (hlen : α.length = W.length)
    {w : List K} (hw : w ∈ W) : ∃ a, (w, a) ∈ W.zip α := by
  induction W generalizing α with
  | nil => simp at hw
  | cons w' W ih =>
    cases α with
    | nil => simp at hlen
    | cons a α =>
      rcases List.mem_cons.mp hw with rfl | hw
      · exact ⟨a, by simp⟩
      · obtain ⟨a', ha'⟩ := ih (by simpa using hlen) hw
        exact ⟨a', by simp [ha']⟩

theorem mem_left_of_zip {W : List (List K)} {α : List K} {p : List K × K} (hp : p ∈ W.zip α) :
    p.1 ∈ W := (List.of_mem_zip hp).1

/-- unfolding of `smallM` -/
theorem smallM_eq_some_iff (vi vj : List K) (W : List (List K)) (α : List K) (M : K) :
    smallM vi vj W α = some M ↔
      α.length = W.length ∧
      minL (List.zipWith (· / ·) (W.map (fun w => relu (gdot w (gsub vj vi)))) α) = some M := by
  unfold smallM prods
  split_ifs with h
  · simp [h]
  · simp [h]

/-- `smallM` is defined exactly when there is at least one facet and one constant per facet -/
theorem smallM_isSome (vi vj : List K) (W : List (List K)) (α : List K)
    (hlen : α.length = W.length) (hW : W ≠ []) : ∃ M, smallM vi vj W α = some M := by
  have : List.zipWith (· / ·) (prods vi vj W) α ≠ [] := by
    cases W with
    | nil => exact absurd rfl hW
    | cons w W =>
      cases α with
      | nil => simp at hlen
      | cons a α => simp [prods]
  obtain ⟨m, hm⟩ := minL_isSome_of_ne_nil this
  exact ⟨m, by unfold smallM; rw [if_pos hlen]; exact hm⟩

/-- The value of `smallM`: it is one of the quotients and below all of them. -/
theorem smallM_spec {vi vj : List K} {W : List (List K)} {α : List K} {M : K}
    (h : smallM vi vj W α = some M) :
    (∃ p ∈ W.zip α, M = relu (gdot p.1 (gsub vj vi)) / p.2) ∧
    ∀ p ∈ W.zip α, M ≤ relu (gdot p.1 (gsub vj vi)) / p.2 := by
  obtain ⟨_, hm⟩ := (smallM_eq_some_iff vi vj W α M).mp h
  obtain ⟨h1, h2⟩ := minL_spec hm
  refine ⟨(mem_quot_iff _ W α M).mp h1, ?_⟩
  intro p hp
  exact h2 _ ((mem_quot_iff _ W α _).mpr ⟨p, hp, rfl⟩)

theorem smallM_nonneg {vi vj : List K} {W : List (List K)} {α : List K} {M : K}
    (h : smallM vi vj W α = some M) (hα : ∀ p ∈ W.zip α, 0 < p.2) : 0 ≤ M := by
  obtain ⟨⟨p, hp, rfl⟩, _⟩ := smallM_spec h
  exact div_nonneg (relu_nonneg _) (hα p hp).le

/-- `m(i,j) > 0` exactly when `μ_j − μ_i` is strictly inside every facet -/
theorem smallM_pos_iff {vi vj : List K} {W : List (List K)} {α : List K} {M : K}
    (h : smallM vi vj W α = some M) (hα : ∀ p ∈ W.zip α, 0 < p.2) :
    0 < M ↔ InInterior W (gsub vj vi) := by
  have hlen := ((smallM_eq_some_iff vi vj W α M).mp h).1
  obtain ⟨⟨p, hp, hM⟩, hle⟩ := smallM_spec h
  constructor
  · intro hpos w hw
    obtain ⟨a, ha⟩ := exists_zip_of_mem hlen hw
    have h1 := hle (w, a) ha
    have h2 : 0 < relu (gdot w (gsub vj vi)) / a := lt_of_lt_of_le hpos h1
    have h3 : 0 < relu (gdot w (gsub vj vi)) := by
      by_contra hcon
      have : relu (gdot w (gsub vj vi)) = 0 := le_antisymm (not_lt.mp hcon) (relu_nonneg _)
      rw [this, zero_div] at h2
      exact lt_irrefl _ h2
    by_contra hcon
    rw [relu_of_nonpos (not_lt.mp hcon)] at h3
    exact lt_irrefl _ h3
  · intro hin
    rw [hM]
    have := hin p.1 (mem_left_of_zip hp)
    rw [relu_of_nonneg this.le]
    exact div_pos this (hα p hp)

/-! ## `smallM` is the largest admissible uniform shift -/

section Gap
variable {vi vj : List K} {W : List (List K)} {α : List K} {D : Nat} {M : K}

/-- If `μ_j − μ_i ∉ C` the formula gives `0` and no shift (not even `0`) is admissible. -/
theorem smallM_of_not_inCone (h : smallM vi vj W α = some M) (hα : ∀ p ∈ W.zip α, 0 < p.2)
    (hd : (gsub vj vi).length = D) (hnot : ¬ InCone W (gsub vj vi)) :
    M = 0 ∧ ∀ s, ¬ Shift W D (gsub vj vi) s := by
  have hlen := ((smallM_eq_some_iff vi vj W α M).mp h).1
  refine ⟨?_, ?_⟩
  · unfold InCone at hnot
    push Not at hnot
    obtain ⟨w, hw, hneg⟩ := hnot
    obtain ⟨a, ha⟩ := exists_zip_of_mem hlen hw
    have h1 := (smallM_spec h).2 (w, a) ha
    simp only [relu_of_nonpos hneg.le, zero_div] at h1
    exact le_antisymm h1 (smallM_nonneg h hα)
  · intro s hs
    apply hnot
    have := hs (List.replicate D 0) (by simp) (fun w _ => by rw [gdot_replicate_zero])
      (by rw [gdot_replicate_zero]; exact zero_le_one)
    have hz : gscale s (List.replicate D (0 : K)) = List.replicate D 0 := by
      simp [gscale]
    rw [hz, ← hd, gsub_replicate_zero] at this
    exact this

/-- If `μ_j − μ_i ∈ C`: a non-negative `s` is an admissible shift **iff** `s ≤ smallM`. -/
theorem shift_iff_le_smallM (h : smallM vi vj W α = some M)
    (hα : ∀ p ∈ W.zip α, IsAlpha W D p.1 p.2)
    (hd : (gsub vj vi).length = D) (hin : InCone W (gsub vj vi)) {s : K} (hs : 0 ≤ s) :
    Shift W D (gsub vj vi) s ↔ s ≤ M := by
  have hlen := ((smallM_eq_some_iff vi vj W α M).mp h).1
  obtain ⟨⟨p0, hp0, hM⟩, hle⟩ := smallM_spec h
  constructor
  · -- necessity: test the shift on the unit vector attaining α_n, for the facet realising the min
    intro hshift
    obtain ⟨hapos, _, u, hu, huC, hu1, hatt⟩ := hα p0 hp0
    have := hshift u hu huC hu1 p0.1 (mem_left_of_zip hp0)
    rw [gdot_gsub _ _ _ (by simp [hd, hu]), gdot_gscale, hatt] at this
    rw [hM, relu_of_nonneg (hin p0.1 (mem_left_of_zip hp0)), le_div_iff₀ hapos]
    linarith
  · -- sufficiency
    intro hsM u hu huC hu1 w hw
    obtain ⟨a, ha⟩ := exists_zip_of_mem hlen hw
    obtain ⟨hapos, hub, _⟩ := hα (w, a) ha
    have h1 : s ≤ relu (gdot w (gsub vj vi)) / a := hsM.trans (hle (w, a) ha)
    rw [relu_of_nonneg (hin w hw), le_div_iff₀ hapos] at h1
    have h2 : gdot w u ≤ a := hub u hu huC hu1
    rw [gdot_gsub _ _ _ (by simp [hd, hu]), gdot_gscale]
    have : s * gdot w u ≤ s * a := mul_le_mul_of_nonneg_left h2 hs
    linarith

end Gap

/-! ## `delta` -/

/-- the accumulator loop returns `max acc (max_j m(i,j))` -/
theorem deltaRowWith_spec (sm : List K → List K → Option K) (vi : List K) (mu : List (List K))
    (acc r : K) (h : deltaRowWith sm vi mu acc = some r) :
    acc ≤ r ∧ (r = acc ∨ ∃ vj ∈ mu, sm vi vj = some r) ∧
    ∀ vj ∈ mu, ∃ m, sm vi vj = some m ∧ m ≤ r := by
  induction mu generalizing acc with
  | nil =>
    simp only [deltaRowWith, Option.some.injEq] at h
    subst h
    simp
  | cons v rest ih =>
    simp only [deltaRowWith] at h
    cases hm : sm vi v with
    | none => simp [hm] at h
    | some m =>
      simp only [hm] at h
      obtain ⟨h1, h2, h3⟩ := ih (gmax acc m) h
      rw [gmax_eq_max] at h1 h2
      refine ⟨(le_max_left _ _).trans h1, ?_, ?_⟩
      · rcases h2 with h2 | ⟨vj, hvj, hr⟩
        · rcases max_choice acc m with hc | hc
          · left; rw [h2, hc]
          · right; exact ⟨v, List.mem_cons_self, by rw [hm, h2, hc]⟩
        · right; exact ⟨vj, List.mem_cons_of_mem _ hvj, hr⟩
      · intro vj hvj
        rcases List.mem_cons.mp hvj with rfl | hvj
        · exact ⟨m, hm, (le_max_right _ _).trans h1⟩
        · exact h3 vj hvj

/-- **Zero gap.**  `Δ_i = 0` iff no row of `mu` lies strictly inside every facet seen from `vi`. -/
theorem deltaRow_eq_zero_iff {vi : List K} {mu W : List (List K)} {α : List K} {r : K}
    (h : deltaRow vi mu W α = some r) (hα : ∀ p ∈ W.zip α, 0 < p.2) :
    r = 0 ↔ ∀ vj ∈ mu, ¬ InInterior W (gsub vj vi) := by
  obtain ⟨h1, h2, h3⟩ := deltaRowWith_spec _ vi mu 0 r h
  constructor
  · intro hr vj hvj hint
    obtain ⟨m, hm, hle⟩ := h3 vj hvj
    have := (smallM_pos_iff hm hα).mpr hint
    rw [hr] at hle
    exact absurd this (not_lt.mpr hle)
  · intro hall
    rcases h2 with h2 | ⟨vj, hvj, hr⟩
    · exact h2
    · have hnp : ¬ 0 < r := fun hp => hall vj hvj ((smallM_pos_iff hr hα).mp hp)
      exact le_antisymm (not_lt.mp hnp) h1

theorem deltaRow_nonneg {vi : List K} {mu W : List (List K)} {α : List K} {r : K}
    (h : deltaRow vi mu W α = some r) : 0 ≤ r :=
  (deltaRowWith_spec _ vi mu 0 r h).1

/-- `Δ_i` is the largest `m(i,j)` (or `0`): an upper bound of all of them that is attained. -/
theorem deltaRow_spec {vi : List K} {mu W : List (List K)} {α : List K} {r : K}
    (h : deltaRow vi mu W α = some r) :
    (r = 0 ∨ ∃ vj ∈ mu, smallM vi vj W α = some r) ∧
    ∀ vj ∈ mu, ∃ m, smallM vi vj W α = some m ∧ m ≤ r :=
  (deltaRowWith_spec _ vi mu 0 r h).2

/-- entries of `delta` are the `deltaRow`s -/
theorem deltaWith_spec (sm : List K → List K → Option K) (mu : List (List K)) (ds : List K)
    (h : deltaWith sm mu = some ds) :
    List.Forall₂ (fun vi d => deltaRowWith sm vi mu 0 = some d) mu ds := by
  unfold deltaWith at h
  generalize hf : (fun vi => deltaRowWith sm vi mu 0) = f at h
  have key : ∀ (l : List (List K)) (ds : List K), l.mapM f = some ds →
      List.Forall₂ (fun vi d => f vi = some d) l ds := by
    intro l
    induction l with
    | nil => intro ds h; simp at h; subst h; exact List.Forall₂.nil
    | cons a l ih =>
      intro ds h
      rw [List.mapM_cons] at h
      cases hfa : f a with
      | none => simp [hfa] at h
      | some d =>
        cases hl : l.mapM f with
        | none => simp [hfa, hl] at h
        | some ds' =>
          simp [hfa, hl] at h
          subst h
          exact List.Forall₂.cons hfa (ih ds' hl)
  have := key mu ds h
  subst hf
  exact this

theorem delta_spec {mu W : List (List K)} {α : List K} {ds : List K}
    (h : delta mu W α = some ds) :
    List.Forall₂ (fun vi d => deltaRow vi mu W α = some d) mu ds :=
  deltaWith_spec _ mu ds h


/-! ## the broadcast variant `smallMB` (what the code computes with the `(N,1)` column `alpha_vec`) -/

theorem mem_table_iff (f : List K → K) (W : List (List K)) (α : List K) (q : K) :
    q ∈ α.flatMap (fun a => (W.map f).map (· / a)) ↔ ∃ a ∈ α, ∃ w ∈ W, q = f w / a := by
  simp only [List.mem_flatMap, List.mem_map]
  constructor
  · rintro ⟨a, ha, _, ⟨w, hw, rfl⟩, rfl⟩; exact ⟨a, ha, w, hw, rfl⟩
  · rintro ⟨a, ha, w, hw, rfl⟩; exact ⟨a, ha, _, ⟨w, hw, rfl⟩, rfl⟩

theorem smallMB_eq_some_iff (vi vj : List K) (W : List (List K)) (α : List K) (B : K) :
    smallMB vi vj W α = some B ↔
      α.length = W.length ∧
      minL (α.flatMap (fun a => (W.map (fun w => relu (gdot w (gsub vj vi)))).map (· / a))) = some B := by
  unfold smallMB prods
  split_ifs with h
  · simp [h]
  · simp [h]

theorem smallMB_isSome (vi vj : List K) (W : List (List K)) (α : List K)
    (hlen : α.length = W.length) (hW : W ≠ []) : ∃ B, smallMB vi vj W α = some B := by
  have : α.flatMap (fun a => (prods vi vj W).map (· / a)) ≠ [] := by
    cases W with
    | nil => exact absurd rfl hW
    | cons w W =>
      cases α with
      | nil => simp at hlen
      | cons a α => simp [prods]
  obtain ⟨m, hm⟩ := minL_isSome_of_ne_nil this
  exact ⟨m, by unfold smallMB; rw [if_pos hlen]; exact hm⟩

/-- The broadcast value is the minimum of the whole table `relu (w_k·d) / α_n`. -/
theorem smallMB_spec {vi vj : List K} {W : List (List K)} {α : List K} {B : K}
    (h : smallMB vi vj W α = some B) :
    (∃ a ∈ α, ∃ w ∈ W, B = relu (gdot w (gsub vj vi)) / a) ∧
    ∀ a ∈ α, ∀ w ∈ W, B ≤ relu (gdot w (gsub vj vi)) / a := by
  obtain ⟨_, hm⟩ := (smallMB_eq_some_iff vi vj W α B).mp h
  obtain ⟨h1, h2⟩ := minL_spec hm
  refine ⟨(mem_table_iff _ W α B).mp h1, ?_⟩
  intro a ha w hw
  exact h2 _ ((mem_table_iff _ W α _).mpr ⟨a, ha, w, hw, rfl⟩)

/-- the broadcast value never exceeds the gap … -/
theorem smallMB_le_smallM {vi vj : List K} {W : List (List K)} {α : List K} {B M : K}
    (hB : smallMB vi vj W α = some B) (hM : smallM vi vj W α = some M) : B ≤ M := by
  obtain ⟨⟨p, hp, rfl⟩, _⟩ := smallM_spec hM
  exact (smallMB_spec hB).2 p.2 (List.of_mem_zip hp).2 p.1 (List.of_mem_zip hp).1

/-- … and equals it when all the `α_n` coincide (orthant, the symmetric bundled cones). -/
theorem smallMB_eq_smallM_of_const {vi vj : List K} {W : List (List K)} {α : List K} {B M a0 : K}
    (hB : smallMB vi vj W α = some B) (hM : smallM vi vj W α = some M)
    (hconst : ∀ a ∈ α, a = a0) : B = M := by
  apply le_antisymm (smallMB_le_smallM hB hM)
  have hlen := ((smallM_eq_some_iff vi vj W α M).mp hM).1
  obtain ⟨⟨a, ha, w, hw, rfl⟩, _⟩ := smallMB_spec hB
  obtain ⟨a', ha'⟩ := exists_zip_of_mem hlen hw
  have := (smallM_spec hM).2 (w, a') ha'
  rw [hconst a ha, ← hconst a' (List.of_mem_zip ha').2]
  exact this

theorem smallMB_nonneg {vi vj : List K} {W : List (List K)} {α : List K} {B : K}
    (h : smallMB vi vj W α = some B) (hα : ∀ a ∈ α, 0 < a) : 0 ≤ B := by
  obtain ⟨⟨a, ha, w, _, rfl⟩, _⟩ := smallMB_spec h
  exact div_nonneg (relu_nonneg _) (hα a ha).le

theorem smallMB_pos_iff {vi vj : List K} {W : List (List K)} {α : List K} {B : K}
    (h : smallMB vi vj W α = some B) (hα : ∀ a ∈ α, 0 < a) :
    0 < B ↔ InInterior W (gsub vj vi) := by
  have hlen := ((smallMB_eq_some_iff vi vj W α B).mp h).1
  obtain ⟨⟨a0, ha0, w0, hw0, hB⟩, hle⟩ := smallMB_spec h
  constructor
  · intro hpos w hw
    have h2 : 0 < relu (gdot w (gsub vj vi)) / a0 := lt_of_lt_of_le hpos (hle a0 ha0 w hw)
    have h3 : 0 < relu (gdot w (gsub vj vi)) := by
      by_contra hcon
      have : relu (gdot w (gsub vj vi)) = 0 := le_antisymm (not_lt.mp hcon) (relu_nonneg _)
      rw [this, zero_div] at h2
      exact lt_irrefl _ h2
    by_contra hcon
    rw [relu_of_nonpos (not_lt.mp hcon)] at h3
    exact lt_irrefl _ h3
  · intro hin
    rw [hB, relu_of_nonneg (hin w0 hw0).le]
    exact div_pos (hin w0 hw0) (hα a0 ha0)

/-- zero law for the accumulator loop, for any pairwise gap function that is non-negative and
positive exactly on interior domination -/
theorem deltaRowWith_eq_zero_iff (sm : List K → List K → Option K) (W : List (List K))
    {vi : List K} {mu : List (List K)} {r : K}
    (hsm : ∀ vj m, sm vi vj = some m → (0 < m ↔ InInterior W (gsub vj vi)))
    (h : deltaRowWith sm vi mu 0 = some r) :
    r = 0 ↔ ∀ vj ∈ mu, ¬ InInterior W (gsub vj vi) := by
  obtain ⟨h1, h2, h3⟩ := deltaRowWith_spec _ vi mu 0 r h
  constructor
  · intro hr vj hvj hint
    obtain ⟨m, hm, hle⟩ := h3 vj hvj
    have := (hsm vj m hm).mpr hint
    rw [hr] at hle
    exact absurd this (not_lt.mpr hle)
  · intro hall
    rcases h2 with h2 | ⟨vj, hvj, hr⟩
    · exact h2
    · have hnp : ¬ 0 < r := fun hp => hall vj hvj ((hsm vj r hr).mp hp)
      exact le_antisymm (not_lt.mp hnp) h1

theorem deltaB_spec {mu W : List (List K)} {α : List K} {ds : List K}
    (h : deltaB mu W α = some ds) :
    List.Forall₂ (fun vi d => deltaRowWith (fun a b => smallMB a b W α) vi mu 0 = some d) mu ds :=
  deltaWith_spec _ mu ds h

/-- `deltaWith` is defined as soon as the pairwise gap function is -/
theorem deltaWith_isSome (sm : List K → List K → Option K) (mu : List (List K))
    (hsm : ∀ vi vj, ∃ m, sm vi vj = some m) : ∃ ds, deltaWith sm mu = some ds := by
  unfold deltaWith
  have hrow : ∀ vi : List K, ∃ d, deltaRowWith sm vi mu 0 = some d := by
    intro vi
    have : ∀ (l : List (List K)) (acc : K), ∃ d, deltaRowWith sm vi l acc = some d := by
      intro l
      induction l with
      | nil => intro acc; exact ⟨acc, rfl⟩
      | cons v rest ih =>
        intro acc
        obtain ⟨m, hm⟩ := hsm vi v
        obtain ⟨d, hd⟩ := ih (gmax acc m)
        exact ⟨d, by simp only [deltaRowWith, hm]; exact hd⟩
    exact this mu 0
  have : ∀ l : List (List K), ∃ ds, l.mapM (fun vi => deltaRowWith sm vi mu 0) = some ds := by
    intro l
    induction l with
    | nil => exact ⟨[], rfl⟩
    | cons v rest ih =>
      obtain ⟨d, hd⟩ := hrow v
      obtain ⟨ds, hds⟩ := ih
      exact ⟨d :: ds, by rw [List.mapM_cons, hd, hds]; rfl⟩
  exact this mu

theorem forall₂_zip {α β : Type} {R : α → β → Prop} {l1 : List α} {l2 : List β}
    (h : List.Forall₂ R l1 l2) : ∀ p ∈ l1.zip l2, R p.1 p.2 := by
  induction h with
  | nil => simp
  | cons hab _ ih =>
    intro p hp
    rcases List.mem_cons.mp (by simpa using hp) with rfl | hp
    · exact hab
    · exact ih p hp

theorem pos_of_mem_zip {W : List (List K)} {α : List K} (hα : ∀ a ∈ α, 0 < a) :
    ∀ p ∈ W.zip α, 0 < p.2 := fun p hp => hα p.2 (List.of_mem_zip hp).2

/-- non-vacuity of `IsAlpha`: for the positive orthant of `ℚ²` both constants are `1` -/
theorem isAlpha_orthant2 : List.Forall₂ (IsAlpha (K := ℚ) [[1,0],[0,1]] 2) [[1,0],[0,1]] [1,1] := by
  refine List.Forall₂.cons ⟨one_pos, ?_, ⟨[1,0], rfl, ?_, ?_, ?_⟩⟩
    (List.Forall₂.cons ⟨one_pos, ?_, ⟨[0,1], rfl, ?_, ?_, ?_⟩⟩ List.Forall₂.nil)
  · intro u hu _ h1
    obtain ⟨x, y, rfl⟩ := List.length_eq_two.mp hu
    simp only [gdot_cons, gdot_nil_left] at h1 ⊢
    nlinarith [mul_self_nonneg y, mul_self_nonneg (x - 1)]
  · intro w hw; simp at hw; rcases hw with rfl | rfl <;> simp
  · simp
  · simp
  · intro u hu _ h1
    obtain ⟨x, y, rfl⟩ := List.length_eq_two.mp hu
    simp only [gdot_cons, gdot_nil_left] at h1 ⊢
    nlinarith [mul_self_nonneg x, mul_self_nonneg (y - 1)]
  · intro w hw; simp at hw; rcases hw with rfl | rfl <;> simp
  · simp
  · simp

end VOPy.Eval
