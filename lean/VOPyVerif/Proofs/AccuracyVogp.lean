import VOPyVerif.Proofs.AccuracySets
/-!
# C05, VOGP / ε-PAL: the invariant over rounds, abstractly

The true values enter through two relations on design indices,

* `near j i` — "μ_j + slack ≽ μ_i" (j matches i up to the slack),
* `sd j i`   — "μ_j ≽ μ_i + slack" (j dominates i by more than the slack),

and the geometry through `VRoundSound`.  Nothing at all is assumed about the pessimistic test
(`pessDom` is arbitrary): the proof only uses that a discard needs a witness `j ≠ i` among the living
designs.
-/
namespace VOPy.Accuracy
open VOPy VOPy.Steps

/-- invariant of a VOGP / ε-PAL run -/
structure VInv (K : Nat) (near sd : Nat → Nat → Prop) (S P : List Nat) : Prop where
  nodupS : S.Nodup
  nodupP : P.Nodup
  disj : ∀ x, x ∈ S → x ∉ P
  lt : ∀ x, x ∈ S ∨ x ∈ P → x < K
  /-- every isolated design is still alive -/
  isoKept : ∀ i, i < K → (∀ j, j < K → j ≠ i → ¬ near j i) → i ∈ S ∨ i ∈ P
  /-- no living design dominates a member of `P` by more than the slack -/
  internal : ∀ i, i ∈ P → ∀ j, (j ∈ S ∨ j ∈ P) → j ≠ i → ¬ sd j i

/-- what validity of the displayed regions of `S ∪ P` gives about one round's oracles -/
structure VRoundSound (near sd : Nat → Nat → Prop) (isDom isCov : Rel) (S P : List Nat) : Prop where
  dom_sound : ∀ i, i ∈ S → ∀ j, (j ∈ S ∨ j ∈ P) → j ≠ i → isDom i j = true → near j i
  cov_sound : ∀ i, i ∈ S → ∀ j, (j ∈ S ∨ j ∈ P) → j ≠ i → isCov i j = false → ¬ sd j i

theorem vinv_init (K : Nat) (near sd : Nat → Nat → Prop) : VInv K near sd (List.range K) [] where
  nodupS := List.nodup_range
  nodupP := List.nodup_nil
  disj := by simp
  lt := by simp
  isoKept := fun i hi _ => Or.inl (List.mem_range.mpr hi)
  internal := by simp

theorem mem_pessimisticSet {pessDom : Rel} {S P : List Nat} {x : Nat}
    (h : x ∈ pessimisticSet pessDom S P) : x ∈ S ∨ x ∈ P := by
  unfold pessimisticSet at h
  exact mem_union.mp (List.mem_filter.mp h).1

/-- a discarded design has a witness `j ≠ i` among the living designs -/
theorem mem_vogpToDiscard {isDom pessDom : Rel} {S P : List Nat} {i : Nat}
    (h : i ∈ vogpToDiscard isDom pessDom S P) :
    i ∈ S ∧ ∃ j, (j ∈ S ∨ j ∈ P) ∧ j ≠ i ∧ isDom i j = true := by
  unfold vogpToDiscard at h
  simp only [List.mem_filter, List.any_eq_true, Bool.not_eq_true', List.contains_eq_mem,
    decide_eq_false_iff_not] at h
  obtain ⟨⟨hiS, hip⟩, j, hj, hij⟩ := h
  refine ⟨hiS, j, mem_pessimisticSet hj, ?_, hij⟩
  intro hji
  subst hji
  exact hip hj

theorem mem_vogpDiscard {isDom pessDom : Rel} {S P : List Nat} (hS : S.Nodup) {x : Nat} :
    x ∈ vogpDiscard isDom pessDom S P ↔ x ∈ S ∧ x ∉ vogpToDiscard isDom pessDom S P := by
  unfold vogpDiscard
  exact mem_removeAll hS

theorem mem_coverNew {isCov : Rel} {S1 P : List Nat} {x : Nat} :
    x ∈ coverNew isCov S1 P ↔ x ∈ S1 ∧ ∀ j, (j ∈ S1 ∨ j ∈ P) → j ≠ x → isCov x j = false := by
  unfold coverNew
  simp only [List.mem_filter, Bool.not_eq_true', anyOther_eq_false, mem_union]

/-- **One round preserves the invariant** — for an arbitrary pessimistic oracle. -/
theorem vogp_step {K : Nat} {near sd : Nat → Nat → Prop} {isDom isCov pessDom : Rel}
    {S P : List Nat} (hinv : VInv K near sd S P) (hs : VRoundSound near sd isDom isCov S P) :
    VInv K near sd (vogpRound isDom isCov pessDom S P).1 (vogpRound isDom isCov pessDom S P).2 := by
  have hround : vogpRound isDom isCov pessDom S P =
      (removeAll (vogpDiscard isDom pessDom S P) (coverNew isCov (vogpDiscard isDom pessDom S P) P),
       addAll P (coverNew isCov (vogpDiscard isDom pessDom S P) P)) := rfl
  rw [hround]
  have hS1nd : (vogpDiscard isDom pessDom S P).Nodup := nodup_removeAll hinv.nodupS
  have hmemS1 : ∀ x, x ∈ vogpDiscard isDom pessDom S P ↔
      x ∈ S ∧ x ∉ vogpToDiscard isDom pessDom S P := fun x => mem_vogpDiscard hinv.nodupS
  generalize vogpDiscard isDom pessDom S P = S1 at *
  have hmemNew : ∀ x, x ∈ coverNew isCov S1 P ↔
      x ∈ S1 ∧ ∀ j, (j ∈ S1 ∨ j ∈ P) → j ≠ x → isCov x j = false := fun x => mem_coverNew
  generalize coverNew isCov S1 P = new at *
  have hS1sub : ∀ x, x ∈ S1 → x ∈ S := fun x hx => ((hmemS1 x).mp hx).1
  have hNsub : ∀ x, x ∈ new → x ∈ S1 := fun x hx => ((hmemNew x).mp hx).1
  have hmemS2 : ∀ x, x ∈ removeAll S1 new ↔ x ∈ S1 ∧ x ∉ new := fun x => mem_removeAll hS1nd
  have hmemP2 : ∀ x, x ∈ addAll P new ↔ x ∈ P ∨ x ∈ new := fun x => mem_addAll
  have halive : ∀ x, (x ∈ removeAll S1 new ∨ x ∈ addAll P new) ↔ (x ∈ S1 ∨ x ∈ P) := by
    intro x
    rw [hmemS2, hmemP2]
    constructor
    · rintro (⟨h, _⟩ | h | h)
      · exact Or.inl h
      · exact Or.inr h
      · exact Or.inl (hNsub x h)
    · rintro (h | h)
      · by_cases hn : x ∈ new
        · exact Or.inr (Or.inr hn)
        · exact Or.inl ⟨h, hn⟩
      · exact Or.inr (Or.inl h)
  refine
    { nodupS := nodup_removeAll hS1nd
      nodupP := nodup_addAll hinv.nodupP
      disj := ?_, lt := ?_, isoKept := ?_, internal := ?_ }
  · intro x hx
    rw [hmemS2] at hx
    rw [hmemP2]
    rintro (h | h)
    · exact hinv.disj x (hS1sub x hx.1) h
    · exact hx.2 h
  · intro x hx
    rcases (halive x).mp hx with h | h
    · exact hinv.lt x (Or.inl (hS1sub x h))
    · exact hinv.lt x (Or.inr h)
  · intro i hiK hiso
    rw [halive]
    rcases hinv.isoKept i hiK hiso with hiS | hiP
    · left
      rw [hmemS1]
      refine ⟨hiS, fun hd => ?_⟩
      obtain ⟨_, j, hj, hji, hij⟩ := mem_vogpToDiscard hd
      exact hiso j (hinv.lt j hj) hji (hs.dom_sound i hiS j hj hji hij)
    · exact Or.inr hiP
  · intro i hi j hj hji
    have hj' : j ∈ S1 ∨ j ∈ P := (halive j).mp hj
    rcases (hmemP2 i).mp hi with h | h
    · exact hinv.internal i h j (hj'.elim (fun h1 => Or.inl (hS1sub j h1)) Or.inr) hji
    · obtain ⟨hi1, hnc⟩ := (hmemNew i).mp h
      exact hs.cov_sound i (hS1sub i hi1) j (hj'.elim (fun h1 => Or.inl (hS1sub j h1)) Or.inr) hji
        (hnc j hj' hji)

/-- **The invariant holds after every round** of a run all of whose rounds are sound. -/
theorem vogp_run_inv {K : Nat} {near sd : Nat → Nat → Prop} (isDom isCov pessDom : Nat → Rel) (T : Nat)
    (hs : ∀ r, r < T → VRoundSound near sd (isDom r) (isCov r)
      (vogpRun K isDom isCov pessDom r).1 (vogpRun K isDom isCov pessDom r).2) :
    VInv K near sd (vogpRun K isDom isCov pessDom T).1 (vogpRun K isDom isCov pessDom T).2 := by
  induction T with
  | zero => exact vinv_init K near sd
  | succ T ih =>
    have h := ih (fun r hr => hs r (Nat.lt_succ_of_lt hr))
    exact vogp_step h (hs T (Nat.lt_succ_self T))

end VOPy.Accuracy
