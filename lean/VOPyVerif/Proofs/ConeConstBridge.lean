import VOPyVerif.Proofs.ConeConst
import VOPyVerif.Proofs.ParetoDominates
import VOPyVerif.Model.ConeConst
import Mathlib.Analysis.InnerProductSpace.PiL2
/-!
# From the `Rat` certificate checkers to `ℝ^m` (C17)

`toE m v` reads a rational list as a point of `EuclideanSpace ℝ (Fin m)`.  For lists of the right
length, `dot` is the inner product, `normSq` the squared norm, `tmulVec` the combination `comb`, and
the Boolean shape/sign tests of `Model/ConeConst.lean` are the hypotheses of the abstract duality
theorems of `Proofs/ConeConst.lean`.  The soundness theorems at the end say: whenever a checker
accepts, the certified bound holds for the *real* optimum — over all real points of the cone, not
only rational ones.
-/
namespace VOPy.ConeConst
open scoped RealInnerProductSpace

/-- a rational list as a point of `ℝ^m` (missing coordinates read as 0; the checkers insist on
length `m`) -/
noncomputable def toE (m : ℕ) (v : Vec) : EuclideanSpace ℝ (Fin m) :=
  WithLp.toLp 2 (fun i : Fin m => ((v.getD i 0 : ℚ) : ℝ))

@[simp] theorem toE_apply (m : ℕ) (v : Vec) (i : Fin m) : toE m v i = ((v.getD i 0 : ℚ) : ℝ) := rfl

/-- the cone of a rational matrix, as a list of facet normals in `ℝ^m` -/
noncomputable def facets (m : ℕ) (W : Mat) : List (EuclideanSpace ℝ (Fin m)) := W.map (toE m)

/-- rational multipliers as reals -/
def castL (lam : Vec) : List ℝ := lam.map (fun q => ((q : ℚ) : ℝ))

/-! ### coordinates of the list operations -/

theorem getD_vadd : ∀ (a b : Vec) (i : ℕ), a.length = b.length →
    (vadd a b).getD i 0 = a.getD i 0 + b.getD i 0
  | [], [], i, _ => by simp [vadd]
  | x :: ta, y :: tb, 0, _ => by simp [vadd]
  | x :: ta, y :: tb, i + 1, h => by
    have := getD_vadd ta tb i (by simpa using h)
    simpa [vadd] using this
  | [], y :: tb, _, h => by simp at h
  | x :: ta, [], _, h => by simp at h

theorem getD_vsub : ∀ (a b : Vec) (i : ℕ), a.length = b.length →
    (vsub a b).getD i 0 = a.getD i 0 - b.getD i 0
  | [], [], i, _ => by simp [vsub]
  | x :: ta, y :: tb, 0, _ => by simp [vsub]
  | x :: ta, y :: tb, i + 1, h => by
    have := getD_vsub ta tb i (by simpa using h)
    simpa [vsub] using this
  | [], y :: tb, _, h => by simp at h
  | x :: ta, [], _, h => by simp at h

theorem getD_smul (c : Rat) : ∀ (a : Vec) (i : ℕ), (smul c a).getD i 0 = c * a.getD i 0
  | [], i => by simp [smul]
  | x :: ta, 0 => by simp [smul]
  | x :: ta, i + 1 => by
    have := getD_smul c ta i
    simpa [smul] using this

theorem length_vadd (a b : Vec) : (vadd a b).length = min a.length b.length := by
  simp [vadd]
theorem length_vsub (a b : Vec) : (vsub a b).length = min a.length b.length := by
  simp [vsub]
theorem length_smul (c : Rat) (a : Vec) : (smul c a).length = a.length := by
  simp [smul]

theorem toE_vadd (m : ℕ) (a b : Vec) (h : a.length = b.length) :
    toE m (vadd a b) = toE m a + toE m b := by
  ext i
  simp only [PiLp.add_apply, toE_apply]
  rw [getD_vadd a b i h]; push_cast; rfl

theorem toE_vsub (m : ℕ) (a b : Vec) (h : a.length = b.length) :
    toE m (vsub a b) = toE m a - toE m b := by
  ext i
  simp only [PiLp.sub_apply, toE_apply]
  rw [getD_vsub a b i h]; push_cast; rfl

theorem toE_smul (m : ℕ) (c : Rat) (a : Vec) : toE m (smul c a) = ((c : ℚ) : ℝ) • toE m a := by
  ext i
  simp only [PiLp.smul_apply, toE_apply, smul_eq_mul]
  rw [getD_smul c a i]; push_cast; rfl

theorem toE_zeros (m : ℕ) : toE m (zeros m) = 0 := by
  ext i
  simp [zeros]

/-! ### inner product and norm -/

theorem sum_getD_mul : ∀ (m : ℕ) (a b : Vec), a.length = m → b.length = m →
    ∑ i : Fin m, ((a.getD i 0 : ℚ) : ℝ) * ((b.getD i 0 : ℚ) : ℝ) = ((dot a b : ℚ) : ℝ)
  | 0, a, b, ha, hb => by
    have ha' : a = [] := List.eq_nil_of_length_eq_zero ha
    have hb' : b = [] := List.eq_nil_of_length_eq_zero hb
    subst ha' hb'
    simp [dot]
  | m + 1, [], _, ha, _ => by simp at ha
  | m + 1, _ :: _, [], _, hb => by simp at hb
  | m + 1, x :: ta, y :: tb, ha, hb => by
    rw [Fin.sum_univ_succ]
    have ih := sum_getD_mul m ta tb (by simpa using ha) (by simpa using hb)
    simp only [Fin.val_zero, List.getD_cons_zero, Fin.val_succ, List.getD_cons_succ, dot]
    rw [ih]
    push_cast
    ring

theorem inner_toE (m : ℕ) (a b : Vec) (ha : a.length = m) (hb : b.length = m) :
    ⟪toE m a, toE m b⟫ = ((dot a b : ℚ) : ℝ) := by
  rw [← sum_getD_mul m a b ha hb]
  simp only [toE, EuclideanSpace.inner_toLp_toLp, dotProduct, star_trivial]
  exact Finset.sum_congr rfl (fun i _ => mul_comm _ _)

theorem norm_sq_toE (m : ℕ) (a : Vec) (ha : a.length = m) :
    ‖toE m a‖ ^ 2 = ((normSq a : ℚ) : ℝ) := by
  rw [← real_inner_self_eq_norm_sq, inner_toE m a a ha ha, normSq]

/-- `‖v‖ ≤ hi` from the squared test -/
theorem norm_le_of_sq (m : ℕ) (a : Vec) (ha : a.length = m) (hi : Rat) (h0 : 0 ≤ hi)
    (h : normSq a ≤ hi * hi) : ‖toE m a‖ ≤ ((hi : ℚ) : ℝ) := by
  have h1 : ‖toE m a‖ ^ 2 ≤ ((hi : ℚ) : ℝ) ^ 2 := by
    rw [norm_sq_toE m a ha, pow_two]
    exact_mod_cast h
  have h2 : (0 : ℝ) ≤ ((hi : ℚ) : ℝ) := by exact_mod_cast h0
  exact abs_le_of_sq_le_sq' h1 h2 |>.2 |> fun h => by
    have := abs_of_nonneg (norm_nonneg (toE m a))
    linarith [le_abs_self ‖toE m a‖]

/-! ### shapes, signs, combinations -/

theorem rowsOk_iff (m : ℕ) (W : Mat) : rowsOk m W = true ↔ ∀ w ∈ W, w.length = m := by
  simp [rowsOk, List.all_eq_true]

theorem allNonneg_iff (v : Vec) : allNonneg v = true ↔ ∀ t ∈ v, 0 ≤ t := by
  simp [allNonneg, List.all_eq_true]

theorem nonnegL_castL (lam : Vec) (h : allNonneg lam = true) : NonnegL (castL lam) := by
  rw [allNonneg_iff] at h
  intro l hl
  simp only [castL, List.mem_map] at hl
  obtain ⟨q, hq, rfl⟩ := hl
  exact_mod_cast h q hq

theorem sum_castL : ∀ lam : Vec, (castL lam).sum = ((vsum lam : ℚ) : ℝ)
  | [] => by simp [castL, vsum]
  | a :: t => by
    have := sum_castL t
    simp only [castL, List.map_cons, List.sum_cons, vsum] at this ⊢
    rw [this]; push_cast; rfl

theorem length_tmulVec (m : ℕ) : ∀ (W : Mat) (lam : Vec), rowsOk m W = true →
    (tmulVec m W lam).length = m
  | [], lam, _ => by cases lam <;> simp [tmulVec, zeros]
  | w :: W, [], _ => by simp [tmulVec, zeros]
  | w :: W, l :: ls, h => by
    have hw : w.length = m := (rowsOk_iff m _).mp h w (by simp)
    have hW : rowsOk m W = true :=
      (rowsOk_iff m W).mpr (fun w' hw' => (rowsOk_iff m _).mp h w' (List.mem_cons_of_mem _ hw'))
    have ih := length_tmulVec m W ls hW
    simp [tmulVec, length_vadd, length_smul, hw, ih]

theorem toE_tmulVec (m : ℕ) : ∀ (W : Mat) (lam : Vec), rowsOk m W = true →
    toE m (tmulVec m W lam) = comb (castL lam) (facets m W)
  | [], lam, _ => by cases lam <;> simp [tmulVec, toE_zeros, facets, castL]
  | w :: W, [], _ => by simp [tmulVec, toE_zeros, facets, castL]
  | w :: W, l :: ls, h => by
    have hw : w.length = m := (rowsOk_iff m _).mp h w (by simp)
    have hW : rowsOk m W = true :=
      (rowsOk_iff m W).mpr (fun w' hw' => (rowsOk_iff m _).mp h w' (List.mem_cons_of_mem _ hw'))
    have ih := toE_tmulVec m W ls hW
    have hl := length_tmulVec m W ls hW
    have e : tmulVec m (w :: W) (l :: ls) = vadd (smul l w) (tmulVec m W ls) := rfl
    rw [e, toE_vadd m _ _ (by rw [length_smul, hw, hl]), toE_smul, ih]
    simp [facets, castL]

theorem inCone_facets (m : ℕ) (W : Mat) (x : Vec) (hW : rowsOk m W = true) (hx : x.length = m) :
    inCone W x = true ↔ InCone (facets m W) (toE m x) := by
  rw [VOPy.inCone_iff]
  simp only [InCone, facets, List.forall_mem_map]
  refine forall₂_congr (fun w hw => ?_)
  rw [inner_toE m w x ((rowsOk_iff m W).mp hW w hw) hx]
  exact_mod_cast Iff.rfl

theorem allGeOne_facets (m : ℕ) (W : Mat) (z : Vec) (hW : rowsOk m W = true) (hz : z.length = m) :
    allGeOne (matVec W z) = true ↔ Feas1 (facets m W) (toE m z) := by
  simp only [allGeOne, matVec, List.all_map, List.all_eq_true, Function.comp_apply,
    decide_eq_true_eq, Feas1, facets, List.forall_mem_map]
  refine forall₂_congr (fun w hw => ?_)
  rw [inner_toE m w z ((rowsOk_iff m W).mp hW w hw) hz]
  exact_mod_cast Iff.rfl

/-! ### soundness of the checkers -/

/-- accepted primal certificate ⇒ `lo ≤ α` -/
theorem alphaPrimalOk_sound (m : ℕ) (W : Mat) (c x : Vec) (lo : Rat)
    (h : alphaPrimalOk m W c x lo = true) :
    ((lo : ℚ) : ℝ) ≤ alpha (facets m W) (toE m c) := by
  simp only [alphaPrimalOk, Bool.and_eq_true, beq_iff_eq, decide_eq_true_eq] at h
  obtain ⟨⟨⟨⟨⟨hW, hc⟩, hx⟩, hcone⟩, hn⟩, hlo⟩ := h
  have h1 : InCone (facets m W) (toE m x) := (inCone_facets m W x hW hx).mp hcone
  have h2 : ‖toE m x‖ ≤ 1 := by
    have := norm_le_of_sq m x hx 1 (by norm_num) (by simpa using hn)
    simpa using this
  have h3 := le_alpha (facets m W) (toE m c) (toE m x) h1 h2
  rw [inner_toE m c x hc hx] at h3
  have : ((lo : ℚ) : ℝ) ≤ ((dot c x : ℚ) : ℝ) := by exact_mod_cast hlo
  linarith

/-- accepted dual certificate ⇒ `α ≤ hi` -/
theorem alphaDualOk_sound (m : ℕ) (W : Mat) (c lam : Vec) (hi : Rat)
    (h : alphaDualOk m W c lam hi = true) :
    alpha (facets m W) (toE m c) ≤ ((hi : ℚ) : ℝ) := by
  simp only [alphaDualOk, Bool.and_eq_true, beq_iff_eq, decide_eq_true_eq] at h
  obtain ⟨⟨⟨⟨⟨hW, hc⟩, _⟩, hnn⟩, h0⟩, hsq⟩ := h
  have h1 := alpha_le (facets m W) (toE m c) (castL lam) (nonnegL_castL lam hnn)
  have hl := length_tmulVec m W lam hW
  have e : toE m c + comb (castL lam) (facets m W) = toE m (vadd c (tmulVec m W lam)) := by
    rw [toE_vadd m _ _ (by rw [hc, hl]), toE_tmulVec m W lam hW]
  rw [e] at h1
  have h2 := norm_le_of_sq m (vadd c (tmulVec m W lam)) (by rw [length_vadd, hc, hl]; simp) hi h0 hsq
  linarith

/-- accepted primal certificate for `d₁` ⇒ the point is feasible and `d₁ ≤ hi` -/
theorem d1PrimalOk_sound (m : ℕ) (W : Mat) (z : Vec) (hi : Rat)
    (h : d1PrimalOk m W z hi = true) :
    Feas1 (facets m W) (toE m z) ∧ d1 (facets m W) ≤ ((hi : ℚ) : ℝ) := by
  simp only [d1PrimalOk, d1Feasible, Bool.and_eq_true, beq_iff_eq, decide_eq_true_eq] at h
  obtain ⟨⟨⟨⟨hW, hz⟩, hf⟩, h0⟩, hsq⟩ := h
  have h1 : Feas1 (facets m W) (toE m z) := (allGeOne_facets m W z hW hz).mp hf
  exact ⟨h1, (d1_le _ _ h1).trans (norm_le_of_sq m z hz hi h0 hsq)⟩

/-- accepted dual certificate for `d₁` ⇒ `lo ≤ ‖z‖` for every real feasible point -/
theorem d1DualOk_sound (m : ℕ) (W : Mat) (lam : Vec) (lo : Rat)
    (h : d1DualOk m W lam lo = true) (z : EuclideanSpace ℝ (Fin m))
    (hz : Feas1 (facets m W) z) : ((lo : ℚ) : ℝ) ≤ ‖z‖ := by
  simp only [d1DualOk, dualFeasible, Bool.and_eq_true, Bool.or_eq_true, beq_iff_eq,
    decide_eq_true_eq] at h
  obtain ⟨⟨⟨⟨hW, hlen⟩, hnn⟩, h0⟩, hcase⟩ := h
  rcases hcase with hz0 | ⟨hq, hsq⟩
  · rw [hz0]; simp
  · have hl := length_tmulVec m W lam hW
    have hnorm := norm_sq_toE m (tmulVec m W lam) hl
    rw [toE_tmulVec m W lam hW] at hnorm
    have hqR : (0 : ℝ) < ((normSq (tmulVec m W lam) : ℚ) : ℝ) := by exact_mod_cast hq
    have hpos : 0 < ‖comb (castL lam) (facets m W)‖ := by
      have hn0 := norm_nonneg (comb (castL lam) (facets m W))
      rcases hn0.lt_or_eq with hlt | heq
      · exact hlt
      · rw [← heq] at hnorm; norm_num at hnorm; linarith
    have hsum0 : (0 : ℝ) ≤ ((vsum lam : ℚ) : ℝ) := by
      rw [← sum_castL]; exact List.sum_nonneg (nonnegL_castL lam hnn)
    have hloR : (0 : ℝ) ≤ ((lo : ℚ) : ℝ) := by exact_mod_cast h0
    have hsqR : ((lo : ℚ) : ℝ) * ((lo : ℚ) : ℝ) * ((normSq (tmulVec m W lam) : ℚ) : ℝ) ≤
        ((vsum lam : ℚ) : ℝ) * ((vsum lam : ℚ) : ℝ) := by exact_mod_cast hsq
    have hlo : ((lo : ℚ) : ℝ) * ‖comb (castL lam) (facets m W)‖ ≤ (castL lam).sum := by
      rw [sum_castL]
      rw [← hnorm] at hsqR
      have hprod : 0 ≤ ((lo : ℚ) : ℝ) * ‖comb (castL lam) (facets m W)‖ := mul_nonneg hloR hpos.le
      by_contra hcon
      push Not at hcon
      nlinarith
    exact dual_le_norm (facets m W) z (castL lam) _ hz (nonnegL_castL lam hnn)
      (by simp [castL, facets, hlen]) hlo hpos

/-! ### the driver-level functions -/

theorem alphaLo_sound (W : Mat) (n : ℕ) (x : Vec) (lo : Rat) (h : alphaLo W n x = some lo) :
    ∃ wn, W[n]? = some wn ∧
      ((lo : ℚ) : ℝ) ≤ alpha (facets (dimOf W) W) (toE (dimOf W) wn) := by
  unfold alphaLo at h
  cases hw : W[n]? with
  | none => rw [hw] at h; simp at h
  | some wn =>
    rw [hw] at h
    simp only at h
    split_ifs at h with hc
    injection h with h
    subst h
    exact ⟨wn, rfl, alphaPrimalOk_sound _ W wn x _ hc⟩

theorem alphaHi_sound (W : Mat) (n : ℕ) (lam : Vec) (hi : Rat) (h : alphaHi W n lam = some hi) :
    ∃ wn, W[n]? = some wn ∧
      alpha (facets (dimOf W) W) (toE (dimOf W) wn) ≤ ((hi : ℚ) : ℝ) := by
  unfold alphaHi at h
  cases hw : W[n]? with
  | none => rw [hw] at h; simp at h
  | some wn =>
    rw [hw] at h
    simp only at h
    split_ifs at h with hc
    injection h with h
    subst h
    exact ⟨wn, rfl, alphaDualOk_sound _ W wn lam _ hc⟩

theorem d1Hi_sound (W : Mat) (z : Vec) (hi : Rat) (h : d1Hi W z = some hi) :
    Feas1 (facets (dimOf W) W) (toE (dimOf W) z) ∧
      d1 (facets (dimOf W) W) ≤ ((hi : ℚ) : ℝ) := by
  unfold d1Hi at h
  simp only at h
  split_ifs at h with hc
  injection h with h
  subst h
  exact d1PrimalOk_sound _ W z _ hc

theorem d1Lo_sound (W : Mat) (lam : Vec) (lo : Rat) (h : d1Lo W lam = some lo)
    (z : EuclideanSpace ℝ (Fin (dimOf W))) (hz : Feas1 (facets (dimOf W) W) z) :
    ((lo : ℚ) : ℝ) ≤ ‖z‖ := by
  unfold d1Lo at h
  simp only at h
  split_ifs at h with hc
  injection h with h
  subst h
  exact d1DualOk_sound _ W lam _ hc z hz

theorem unit_dir_smul {E : Type*} [NormedAddCommGroup E] [InnerProductSpace ℝ E] (u : E) (d : ℝ)
    (hd : 0 < d) (hu : u ≠ 0) : (1 / ‖d • u‖) • (d • u) = (1 / ‖u‖) • u := by
  have hpu : 0 < ‖u‖ := norm_pos_iff.mpr hu
  rw [norm_smul, Real.norm_eq_abs, abs_of_pos hd, smul_smul]
  congr 1
  field_simp

/-- **Soundness of the `u*` certificate.**  If `ustarCert W u d z λ = some c` then for the (unique)
minimum-norm feasible point `z*` of the real problem: `lo ≤ ‖z*‖`, the proposal `z` is within `g` of
`z*`, and the unit direction of the implementation's `u` is within `dirBound c = 2(e+g)/lo` of
`u* = z*/‖z*‖`. -/
theorem ustarCert_sound (W : Mat) (u : Vec) (d : Rat) (z lam : Vec) (c : Rat × Rat × Rat)
    (h : ustarCert W u d z lam = some c) (zs : EuclideanSpace ℝ (Fin (dimOf W)))
    (hs : IsMinNorm (facets (dimOf W) W) zs) :
    ((c.2.2 : ℚ) : ℝ) ≤ ‖zs‖ ∧ ‖toE (dimOf W) z - zs‖ ≤ ((c.1 : ℚ) : ℝ) ∧
      ‖(1 / ‖toE (dimOf W) u‖) • toE (dimOf W) u - (1 / ‖zs‖) • zs‖ ≤ ((dirBound c : ℚ) : ℝ) := by
  unfold ustarCert at h
  simp only at h
  split_ifs at h with hc
  injection h with h
  subst h
  simp only [Bool.and_eq_true, beq_iff_eq, decide_eq_true_eq, d1Feasible, dualFeasible] at hc
  obtain ⟨⟨⟨⟨⟨⟨⟨⟨⟨⟨⟨⟨⟨hW, hzl⟩, hzf⟩, ⟨⟨_, hll⟩, hnn⟩⟩, hq⟩, hlo0⟩, hlo⟩, hd⟩, hul⟩, hun⟩, hg0⟩,
    hg⟩, he0⟩, he⟩ := hc
  have hfeas : Feas1 (facets (dimOf W) W) (toE (dimOf W) z) := (allGeOne_facets (dimOf W) W z hW hzl).mp hzf
  have hl := length_tmulVec (dimOf W) W lam hW
  have hnorm := norm_sq_toE (dimOf W) (tmulVec (dimOf W) W lam) hl
  rw [toE_tmulVec (dimOf W) W lam hW] at hnorm
  have hqR : (0 : ℝ) < ((normSq (tmulVec (dimOf W) W lam) : ℚ) : ℝ) := by exact_mod_cast hq
  have hpos : 0 < ‖comb (castL lam) (facets (dimOf W) W)‖ := by
    have hn0 := norm_nonneg (comb (castL lam) (facets (dimOf W) W))
    rcases hn0.lt_or_eq with hlt | heq
    · exact hlt
    · rw [← heq] at hnorm; norm_num at hnorm; linarith
  -- the dual value squared
  have hdsq : d1DualSq W lam = vsum lam * vsum lam / normSq (tmulVec (dimOf W) W lam) := by
    unfold d1DualSq
    simp only
    rw [if_neg (not_le.mpr hq)]
  have hdsqR : ((d1DualSq W lam : ℚ) : ℝ) =
      (castL lam).sum ^ 2 / ‖comb (castL lam) (facets (dimOf W) W)‖ ^ 2 := by
    rw [hdsq, sum_castL, hnorm]; push_cast; ring
  have hdR : (0 : ℝ) < ((d : ℚ) : ℝ) := by exact_mod_cast hd
  have hu0 : toE (dimOf W) u ≠ 0 := by
    intro h0
    have := norm_sq_toE (dimOf W) u hul
    rw [h0, norm_zero] at this
    have hunR : (0 : ℝ) < ((normSq u : ℚ) : ℝ) := by exact_mod_cast hun
    norm_num at this
    linarith
  have hzc : toE (dimOf W) (smul d u) ≠ 0 := by
    rw [toE_smul]
    exact smul_ne_zero hdR.ne' hu0
  have hsub : toE (dimOf W) (smul d u) - toE (dimOf W) z = toE (dimOf W) (vsub (smul d u) z) := by
    rw [toE_vsub (dimOf W) _ _ (by rw [length_smul, hul, hzl])]
  have heR : ‖toE (dimOf W) (smul d u) - toE (dimOf W) z‖ ≤ ((sqrtUp (normSq (vsub (smul d u) z)) : ℚ) : ℝ) := by
    rw [hsub]
    exact norm_le_of_sq (dimOf W) _ (by rw [length_vsub, length_smul, hul, hzl]; simp) _ he0 he
  have hg0R : (0 : ℝ) ≤ ((sqrtUp (normSq z - d1DualSq W lam) : ℚ) : ℝ) := by
    exact_mod_cast hg0
  have hgR : ‖toE (dimOf W) z‖ ^ 2 - (castL lam).sum ^ 2 / ‖comb (castL lam) (facets (dimOf W) W)‖ ^ 2 ≤
      ((sqrtUp (normSq z - d1DualSq W lam) : ℚ) : ℝ) ^ 2 := by
    rw [← hdsqR, norm_sq_toE (dimOf W) z hzl, pow_two]
    exact_mod_cast hg
  have hloR : (0 : ℝ) < ((sqrtDown (d1DualSq W lam) : ℚ) : ℝ) := by
    exact_mod_cast hlo0
  have hlo2R : ((sqrtDown (d1DualSq W lam) : ℚ) : ℝ) ^ 2 ≤
      (castL lam).sum ^ 2 / ‖comb (castL lam) (facets (dimOf W) W)‖ ^ 2 := by
    rw [← hdsqR, pow_two]
    exact_mod_cast hlo
  have key := ustar_certificate (facets (dimOf W) W) (toE (dimOf W) z) zs (toE (dimOf W) (smul d u)) (castL lam) _ _ _
    hfeas (nonnegL_castL lam hnn) (by simp [castL, facets, hll]) hpos hs hzc heR hg0R hgR hloR hlo2R
  refine ⟨key.1, key.2.1, ?_⟩
  have hdir := key.2.2
  rw [toE_smul, unit_dir_smul (toE (dimOf W) u) _ hdR hu0] at hdir
  refine hdir.trans (le_of_eq ?_)
  simp only [dirBound]
  push_cast
  ring

/-- an accepted `u*` certificate contains a feasible point of the real problem -/
theorem ustarCert_feasible (W : Mat) (u : Vec) (d : Rat) (z lam : Vec) (c : Rat × Rat × Rat)
    (h : ustarCert W u d z lam = some c) : Feas1 (facets (dimOf W) W) (toE (dimOf W) z) := by
  unfold ustarCert at h
  simp only at h
  split_ifs at h with hc
  simp only [Bool.and_eq_true, beq_iff_eq, decide_eq_true_eq, d1Feasible, dualFeasible] at hc
  obtain ⟨⟨⟨⟨⟨⟨⟨⟨⟨⟨⟨⟨⟨hW, hzl⟩, hzf⟩, _⟩, _⟩, _⟩, _⟩, _⟩, _⟩, _⟩, _⟩, _⟩, _⟩, _⟩ := hc
  exact (allGeOne_facets _ W z hW hzl).mp hzf

/-- the unit-norm test of relation (R): `| ‖u‖ − 1 | ≤ 10⁻⁹` -/
theorem unitNormOk_sound (m : ℕ) (u : Vec) (hu : u.length = m) (h : unitNormOk u = true) :
    |‖toE m u‖ - 1| ≤ ((tolUnit : ℚ) : ℝ) := by
  simp only [unitNormOk, Bool.and_eq_true, decide_eq_true_eq] at h
  obtain ⟨h1, h2⟩ := h
  have hn := norm_sq_toE m u hu
  have h1R : (1 - ((tolUnit : ℚ) : ℝ)) * (1 - ((tolUnit : ℚ) : ℝ)) ≤ ‖toE m u‖ ^ 2 := by
    rw [hn]; exact_mod_cast h1
  have h2R : ‖toE m u‖ ^ 2 ≤ (1 + ((tolUnit : ℚ) : ℝ)) * (1 + ((tolUnit : ℚ) : ℝ)) := by
    rw [hn]; exact_mod_cast h2
  have ht : ((tolUnit : ℚ) : ℝ) = 1 / 1000000000 := by simp [tolUnit]
  have hnn := norm_nonneg (toE m u)
  rw [abs_le]
  constructor <;> nlinarith

end VOPy.ConeConst
