import VOPyVerif.Proofs.AccuracyGeom
import VOPyVerif.Proofs.AccuracyPaveba
import VOPyVerif.Proofs.AccuracyVogp
/-!
# From valid confidence regions to sound oracles (C01, C05)

Regions are predicates on vectors.  `SemDominated` / `SemCoverable` are the semantic ∀∀ / ∃∃
meanings of `confidence_region_is_dominated` / `confidence_region_is_covered` (C09 / C10 tie the
code's Booleans to them).  This file derives, for a PaVeBa-family run, the per-round `RoundSound`
from

* the oracles deciding the semantic predicates on the displayed regions,
* validity: the true mean of every *active* design (S ∪ U) is inside the region displayed in that
  round, regions of designs that are not active keep their last displayed value,
* non-degeneracy of the active regions (two points on which some facet functional differs),

so that the chain *valid regions ⇒ oracle soundness ⇒ accuracy* is explicit; and the analogous
(simpler) statement for VOGP / ε-PAL.
-/
namespace VOPy.Accuracy
open VOPy VOPy.Steps

/-- a region: a set of vectors -/
abbrev Region := Vec → Prop

/-- `∀ z ∈ R₁, ∀ z' ∈ R₂, z' ≽ z`  (zero slack) -/
def SemDominated (W : Mat) (R1 R2 : Region) : Prop :=
  ∀ z, R1 z → ∀ z', R2 z' → dominates W z' z = true

/-- `∃ z ∈ R₁, ∃ z' ∈ R₂, ∀ n, w_n·(z' − z) ≥ t_n`  (facet thresholds `t`) -/
def SemCoverable (W : Mat) (t : Vec) (R1 R2 : Region) : Prop :=
  ∃ z, R1 z ∧ ∃ z', R2 z' ∧ notCovers W t z z' = false

/-- `∀ z ∈ R₁, ∀ z' ∈ R₂, z' + s ≽ z`  (slack `s` in objective space) -/
def SemDominatedS (W : Mat) (s : Vec) (R1 R2 : Region) : Prop :=
  ∀ z, R1 z → ∀ z', R2 z' → dominates W (vadd z' s) z = true

/-- `∃ z ∈ R₁, ∃ z' ∈ R₂, z' ≽ z + s`  (slack `s` in objective space) -/
def SemCoverableS (W : Mat) (s : Vec) (R1 R2 : Region) : Prop :=
  ∃ z, R1 z ∧ ∃ z', R2 z' ∧ dominates W z' (vadd z s) = true

/-! ### region domination is a strict partial order on non-empty, non-degenerate regions -/

theorem semDominated_trans (W : Mat) (m : Nat) (R1 R2 R3 : Region)
    (h1 : ∀ z, R1 z → z.length = m) (h2 : ∀ z, R2 z → z.length = m) (h3 : ∀ z, R3 z → z.length = m)
    (hne : ∃ z, R2 z) (h12 : SemDominated W R1 R2) (h23 : SemDominated W R2 R3) :
    SemDominated W R1 R3 := by
  intro z hz z'' hz''
  obtain ⟨z', hz'⟩ := hne
  exact dominates_trans W z'' z' z ((h3 z'' hz'').trans (h2 z' hz').symm)
    ((h2 z' hz').trans (h1 z hz).symm) (h23 z' hz' z'' hz'') (h12 z hz z' hz')

/-- a region on which some facet functional is not constant does not dominate itself -/
theorem semDominated_irrefl (W : Mat) (m : Nat) (R : Region) (hlen : ∀ z, R z → z.length = m)
    (hnd : ∃ z, R z ∧ ∃ z', R z' ∧ ∃ w ∈ W, dot w z ≠ dot w z') : ¬ SemDominated W R R := by
  intro h
  obtain ⟨z, hz, z', hz', w, hw, hne⟩ := hnd
  have h1 := (dominates_iff W z' z).mp (h z hz z' hz') w hw
  have h2 := (dominates_iff W z z').mp (h z' hz' z hz) w hw
  rw [dot_vsub _ _ _ ((hlen z' hz').trans (hlen z hz).symm)] at h1
  rw [dot_vsub _ _ _ ((hlen z hz).trans (hlen z' hz').symm)] at h2
  exact hne (le_antisymm (by linarith) (by linarith))

/-! ### bookkeeping facts of a PaVeBa run that need no hypothesis -/

theorem pavebaRound_nodup {isDom isCov : Rel} {S P U : List Nat} (hS : S.Nodup) :
    (pavebaRound isDom isCov S P U).1.Nodup := by
  have hround : (pavebaRound isDom isCov S P U).1 =
      removeAll (pavebaDiscard isDom S U) (pavebaNewPareto isCov (pavebaDiscard isDom S U) U) := rfl
  rw [hround]
  exact nodup_removeAll (nodup_removeAll hS)

theorem pavebaRun_nodup (K : Nat) (isDom isCov : Nat → Rel) :
    ∀ r, (pavebaRun K isDom isCov r).1.Nodup := by
  intro r
  induction r with
  | zero => exact List.nodup_range
  | succ r ih => exact pavebaRound_nodup ih

/-- the living designs (S ∪ P) of round `r + 1` were alive in round `r` -/
theorem pavebaRun_alive_antitone (K : Nat) (isDom isCov : Nat → Rel) (r x : Nat)
    (h : x ∈ (pavebaRun K isDom isCov (r + 1)).1 ∨ x ∈ (pavebaRun K isDom isCov (r + 1)).2.1) :
    x ∈ (pavebaRun K isDom isCov r).1 ∨ x ∈ (pavebaRun K isDom isCov r).2.1 :=
  paveba_alive_antitone (pavebaRun_nodup K isDom isCov r) x h

/-- `U ⊆ P` along the run -/
theorem pavebaRun_U_sub_P (K : Nat) (isDom isCov : Nat → Rel) :
    ∀ r x, x ∈ (pavebaRun K isDom isCov r).2.2 → x ∈ (pavebaRun K isDom isCov r).2.1 := by
  intro r
  cases r with
  | zero => intro x hx; simp [pavebaRun] at hx
  | succ r =>
    intro x hx
    have : (pavebaRun K isDom isCov (r + 1)).2.2 =
        pavebaUseful (isCov r) (pavebaRun K isDom isCov (r + 1)).1 (pavebaRun K isDom isCov (r + 1)).2.1 := rfl
    rw [this] at hx
    unfold pavebaUseful at hx
    exact (List.mem_filter.mp hx).1

/-! ### the truth relations for a cone `W`, thresholds `t` and true means `μ` -/

/-- the `Truth` structure of the PaVeBa proof instantiated at
`dom j i := μ_j ≽ μ_i`, `good i j := ∃ n, w_n·(μ_j − μ_i) < t_n` -/
theorem truth_of_means (W : Mat) (t : Vec) (m K : Nat) (mu : Nat → Vec)
    (hmu : ∀ i, i < K → (mu i).length = m)
    (hpos : ∃ n, ∃ _ : n < W.length, ∃ h2 : n < t.length, 0 < t[n]) :
    Truth K (fun j i => dominates W (mu j) (mu i) = true)
      (fun i j => notCovers W t (mu i) (mu j) = true) where
  dom_trans := fun i j k hi hj hk h1 h2 =>
    dominates_trans W _ _ _ ((hmu i hi).trans (hmu j hj).symm) ((hmu j hj).trans (hmu k hk).symm) h1 h2
  good_refl := fun i _ => notCovers_self W t (mu i) hpos
  good_mono := fun i k j hi hk hj h1 h2 =>
    notCovers_mono W t _ _ _ ((hmu i hi).trans (hmu k hk).symm) ((hmu k hk).trans (hmu j hj).symm) h1 h2

/-! ### valid regions ⇒ sound oracles, PaVeBa family -/

/-- **Valid regions give sound oracles (PaVeBa family).**  `R r i` is the region object of design
`i` as the decision phases of round `r` see it.  Hypotheses: the two oracles decide the semantic
predicates; the truth is inside the region of every design *active* in round `r` (S ∪ U, the ones
`modeling()` refreshes); a design that is not active keeps its region; active regions are
non-degenerate.  Conclusion: every round is `RoundSound`. -/
theorem paveba_roundSound_of_valid_regions (W : Mat) (t : Vec) (m K : Nat) (mu : Nat → Vec)
    (R : Nat → Nat → Region) (isDom isCov : Nat → Rel) (T : Nat)
    (hlen : ∀ r i z, R r i z → z.length = m)
    (hDom : ∀ r, r < T → ∀ i j, isDom r i j = true ↔ SemDominated W (R r i) (R r j))
    (hCov : ∀ r, r < T → ∀ i j, isCov r i j = false → ¬ SemCoverable W t (R r i) (R r j))
    (hvalid : ∀ r, r < T → ∀ i,
      (i ∈ (pavebaRun K isDom isCov r).1 ∨ i ∈ (pavebaRun K isDom isCov r).2.2) → R r i (mu i))
    (hpersist : ∀ r, r + 1 < T → ∀ i,
      ¬ (i ∈ (pavebaRun K isDom isCov (r + 1)).1 ∨ i ∈ (pavebaRun K isDom isCov (r + 1)).2.2) →
      R (r + 1) i = R r i)
    (hnondeg : ∀ r, r < T → ∀ i,
      (i ∈ (pavebaRun K isDom isCov r).1 ∨ i ∈ (pavebaRun K isDom isCov r).2.2) →
      ∃ z, R r i z ∧ ∃ z', R r i z' ∧ ∃ w ∈ W, dot w z ≠ dot w z') :
    ∀ r, r < T → RoundSound (fun j i => dominates W (mu j) (mu i) = true)
      (fun i j => notCovers W t (mu i) (mu j) = true) (isDom r) (isCov r)
      (pavebaRun K isDom isCov r).1 (pavebaRun K isDom isCov r).2.1 (pavebaRun K isDom isCov r).2.2 := by
  -- the truth is inside the region of every *living* design (S ∪ P), refreshed or not
  have halive : ∀ r, r < T → ∀ i,
      (i ∈ (pavebaRun K isDom isCov r).1 ∨ i ∈ (pavebaRun K isDom isCov r).2.1) → R r i (mu i) := by
    intro r
    induction r with
    | zero =>
      intro h0 i hi
      rcases hi with hi | hi
      · exact hvalid 0 h0 i (Or.inl hi)
      · simp [pavebaRun] at hi
    | succ r ih =>
      intro hr i hi
      by_cases hact : i ∈ (pavebaRun K isDom isCov (r + 1)).1 ∨ i ∈ (pavebaRun K isDom isCov (r + 1)).2.2
      · exact hvalid (r + 1) hr i hact
      · rw [hpersist r hr i hact]
        exact ih (Nat.lt_of_succ_lt hr) i (pavebaRun_alive_antitone K isDom isCov r i hi)
  intro r hr
  have hact_alive : ∀ i, (i ∈ (pavebaRun K isDom isCov r).1 ∨ i ∈ (pavebaRun K isDom isCov r).2.2) →
      (i ∈ (pavebaRun K isDom isCov r).1 ∨ i ∈ (pavebaRun K isDom isCov r).2.1) :=
    fun i hi => hi.elim Or.inl (fun h => Or.inr (pavebaRun_U_sub_P K isDom isCov r i h))
  refine ⟨?_, ?_, ?_, ?_⟩
  · intro i hi j hj _ hij
    exact (hDom r hr i j).mp hij (mu i) (hvalid r hr i (Or.inl hi)) (mu j) (hvalid r hr j hj)
  · intro i j k _ hj _ hij hjk
    rw [hDom r hr] at hij hjk ⊢
    exact semDominated_trans W m _ _ _ (hlen r i) (hlen r j) (hlen r k) ⟨mu j, hvalid r hr j hj⟩ hij hjk
  · intro i hi
    cases h : isDom r i i with
    | false => rfl
    | true =>
      exact absurd ((hDom r hr i i).mp h) (semDominated_irrefl W m _ (hlen r i) (hnondeg r hr i hi))
  · intro i j hi hj _ hij
    have hnot := hCov r hr i j hij
    cases h : notCovers W t (mu i) (mu j) with
    | true => rfl
    | false => exact absurd ⟨mu i, halive r hr i hi, mu j, halive r hr j hj, h⟩ hnot

/-! ### valid regions ⇒ sound oracles, VOGP / ε-PAL -/

/-- **Valid regions give sound oracles (VOGP / ε-PAL).**  All regions of S ∪ P are refreshed every
round; only the implications "oracle says dominated ⇒ ∀∀" and "oracle says not covered ⇒ ¬∃∃" are
needed, and nothing about the pessimistic test. -/
theorem vogp_roundSound_of_valid_regions (W : Mat) (s : Vec) (K : Nat) (mu : Nat → Vec)
    (R : Nat → Nat → Region) (isDom isCov pessDom : Nat → Rel) (T : Nat)
    (hDom : ∀ r, r < T → ∀ i j, isDom r i j = true → SemDominatedS W s (R r i) (R r j))
    (hCov : ∀ r, r < T → ∀ i j, isCov r i j = false → ¬ SemCoverableS W s (R r i) (R r j))
    (hvalid : ∀ r, r < T → ∀ i,
      (i ∈ (vogpRun K isDom isCov pessDom r).1 ∨ i ∈ (vogpRun K isDom isCov pessDom r).2) →
      R r i (mu i)) :
    ∀ r, r < T → VRoundSound (fun j i => dominates W (vadd (mu j) s) (mu i) = true)
      (fun j i => dominates W (mu j) (vadd (mu i) s) = true) (isDom r) (isCov r)
      (vogpRun K isDom isCov pessDom r).1 (vogpRun K isDom isCov pessDom r).2 := by
  intro r hr
  refine ⟨?_, ?_⟩
  · intro i hi j hj _ hij
    exact hDom r hr i j hij (mu i) (hvalid r hr i (Or.inl hi)) (mu j) (hvalid r hr j hj)
  · intro i hi j hj _ hij hsd
    exact hCov r hr i j hij ⟨mu i, hvalid r hr i (Or.inl hi), mu j, hvalid r hr j hj, hsd⟩

end VOPy.Accuracy

namespace VOPy.Accuracy
open VOPy VOPy.Steps

/-! ### objective-space slack versus facet thresholds -/

/-- A slack `s` in objective space is the facet-threshold vector `W·s`: "`z'` covers `z` with
thresholds `W s`" (`notCovers … = false`) iff `z' ≽ z + s`, for vectors of one length. -/
theorem notCovers_matVec_iff (W : Mat) (s z z' : Vec) (hz : z.length = s.length) (hz' : z'.length = z.length) :
    notCovers W (matVec W s) z z' = false ↔ dominates W z' (vadd z s) = true := by
  rw [← Bool.not_eq_true, notCovers_iff, dominates_iff_get]
  have hl : (matVec W s).length = W.length := by simp [matVec]
  constructor
  · intro h n hn
    have : ¬ dot W[n] (vsub z' z) < (matVec W s)[n]'(by omega) := fun hc => h ⟨n, hn, by omega, hc⟩
    have hm : (matVec W s)[n]'(by omega) = dot W[n] s := by simp [matVec]
    rw [hm] at this
    rw [dot_vsub _ _ _ (by rw [length_vadd _ _ hz, hz']), dot_vadd _ _ _ hz]
    rw [dot_vsub _ _ _ hz'] at this
    linarith
  · rintro h ⟨n, hn, hn2, hlt⟩
    have hm : (matVec W s)[n]'hn2 = dot W[n] s := by simp [matVec]
    rw [hm, dot_vsub _ _ _ hz'] at hlt
    have := h n hn
    rw [dot_vsub _ _ _ (by rw [length_vadd _ _ hz, hz']), dot_vadd _ _ _ hz] at this
    linarith

/-- the semantic covering predicate with an objective-space slack is the one with thresholds `W·s` -/
theorem semCoverableS_iff (W : Mat) (s : Vec) (R1 R2 : Region)
    (h1 : ∀ z, R1 z → z.length = s.length) (h2 : ∀ z, R2 z → z.length = s.length) :
    SemCoverableS W s R1 R2 ↔ SemCoverable W (matVec W s) R1 R2 := by
  constructor
  · rintro ⟨z, hz, z', hz', h⟩
    exact ⟨z, hz, z', hz', (notCovers_matVec_iff W s z z' (h1 z hz) ((h2 z' hz').trans (h1 z hz).symm)).mpr h⟩
  · rintro ⟨z, hz, z', hz', h⟩
    exact ⟨z, hz, z', hz', (notCovers_matVec_iff W s z z' (h1 z hz) ((h2 z' hz').trans (h1 z hz).symm)).mp h⟩

/-! ### decidable sufficient conditions for round soundness (used for the non-vacuity examples) -/

/-- Boolean check of `RoundSound` at the true means for a concrete state and concrete oracles -/
def roundSoundB (W : Mat) (t : Vec) (mu : Nat → Vec) (isDom isCov : Rel) (S P U : List Nat) : Bool :=
  let A := S ++ U
  let L := S ++ P
  S.all (fun i => A.all (fun j => j == i || !isDom i j || dominates W (mu j) (mu i))) &&
  A.all (fun i => A.all (fun j => A.all (fun k => !(isDom i j && isDom j k) || isDom i k))) &&
  A.all (fun i => !isDom i i) &&
  L.all (fun i => L.all (fun j => j == i || isCov i j || notCovers W t (mu i) (mu j)))

theorem roundSound_of_check (W : Mat) (t : Vec) (mu : Nat → Vec) (isDom isCov : Rel) (S P U : List Nat)
    (h : roundSoundB W t mu isDom isCov S P U = true) :
    RoundSound (fun j i => dominates W (mu j) (mu i) = true)
      (fun i j => notCovers W t (mu i) (mu j) = true) isDom isCov S P U := by
  unfold roundSoundB at h
  simp only [Bool.and_eq_true, List.all_eq_true, List.mem_append, Bool.or_eq_true, beq_iff_eq,
    Bool.not_eq_true', Bool.and_eq_false_imp] at h
  obtain ⟨⟨⟨h1, h2⟩, h3⟩, h4⟩ := h
  refine ⟨?_, ?_, ?_, ?_⟩
  · intro i hi j hj hne hij
    rcases h1 i hi j hj with (h | h) | h
    · exact absurd h hne
    · rw [h] at hij; exact absurd hij (by simp)
    · exact h
  · intro i j k hi hj hk hij hjk
    rcases h2 i hi j hj k hk with h | h
    · have := h hij
      rw [this] at hjk; exact absurd hjk (by simp)
    · exact h
  · intro i hi; exact h3 i hi
  · intro i j hi hj hne hij
    rcases h4 i hi j hj with (h | h) | h
    · exact absurd h hne
    · rw [h] at hij; exact absurd hij (by simp)
    · exact h

/-- Boolean check of `VRoundSound` at the true values -/
def vroundSoundB (W : Mat) (s : Vec) (mu : Nat → Vec) (isDom isCov : Rel) (S P : List Nat) : Bool :=
  let L := S ++ P
  S.all (fun i => L.all (fun j => j == i || !isDom i j || dominates W (vadd (mu j) s) (mu i))) &&
  S.all (fun i => L.all (fun j => j == i || isCov i j || !dominates W (mu j) (vadd (mu i) s)))

theorem vroundSound_of_check (W : Mat) (s : Vec) (mu : Nat → Vec) (isDom isCov : Rel) (S P : List Nat)
    (h : vroundSoundB W s mu isDom isCov S P = true) :
    VRoundSound (fun j i => dominates W (vadd (mu j) s) (mu i) = true)
      (fun j i => dominates W (mu j) (vadd (mu i) s) = true) isDom isCov S P := by
  unfold vroundSoundB at h
  simp only [Bool.and_eq_true, List.all_eq_true, List.mem_append, Bool.or_eq_true, beq_iff_eq,
    Bool.not_eq_true'] at h
  obtain ⟨h1, h2⟩ := h
  refine ⟨?_, ?_⟩
  · intro i hi j hj hne hij
    rcases h1 i hi j hj with (h | h) | h
    · exact absurd h hne
    · rw [h] at hij; exact absurd hij (by simp)
    · exact h
  · intro i hi j hj hne hij hsd
    rcases h2 i hi j hj with (h | h) | h
    · exact absurd h hne
    · rw [h] at hij; exact absurd hij (by simp)
    · rw [h] at hsd; exact absurd hsd (by simp)

end VOPy.Accuracy
