import VOPyVerif.Proofs.EvalHV
import Mathlib.MeasureTheory.Group.Measure
/-!
# Helper lemmas for C19: translation law of the (mathematical) hypervolume

`HV W ref S = volume (⋃_{p∈S} [ref, W p])`.  Translating every point by `t` moves every box corner
`W p` by `W t`; if the reference point is moved by `W t` as well (which is what the code's
data-dependent reference `ref = min_p W p` does), the dominated region is translated by `W t` and its
Lebesgue measure is unchanged.
-/
namespace VOPy.Eval
open MeasureTheory

variable {n m : Nat}

theorem hvRegion_translate (W : Matrix (Fin n) (Fin m) ℝ) (ref : Fin n → ℝ) (S : Set (Fin m → ℝ))
    (t : Fin m → ℝ) :
    hvRegion W (W.mulVec t + ref) ((fun p => t + p) '' S) =
      (fun x => W.mulVec t + x) '' hvRegion W ref S := by
  ext x
  simp only [hvRegion, Set.mem_iUnion, Set.mem_image, Set.mem_Icc, exists_prop]
  constructor
  · rintro ⟨_, ⟨p, hp, rfl⟩, h1, h2⟩
    refine ⟨x - W.mulVec t, ⟨p, hp, ?_, ?_⟩, by simp⟩
    · intro k
      have := h1 k
      simp only [Pi.add_apply, Pi.sub_apply] at this ⊢
      linarith
    · intro k
      have := h2 k
      rw [Matrix.mulVec_add] at this
      simp only [Pi.add_apply, Pi.sub_apply] at this ⊢
      linarith
  · rintro ⟨y, ⟨p, hp, h1, h2⟩, rfl⟩
    refine ⟨t + p, ⟨p, hp, rfl⟩, ?_, ?_⟩
    · intro k
      have := h1 k
      simp only [Pi.add_apply] at this ⊢
      linarith
    · intro k
      have := h2 k
      rw [Matrix.mulVec_add]
      simp only [Pi.add_apply] at this ⊢
      linarith

/-- **Translation law of the hypervolume.** -/
theorem hv_translate' (W : Matrix (Fin n) (Fin m) ℝ) (ref : Fin n → ℝ) (S : Set (Fin m → ℝ))
    (t : Fin m → ℝ) :
    HV W (W.mulVec t + ref) ((fun p => t + p) '' S) = HV W ref S := by
  unfold HV
  rw [hvRegion_translate, Set.image_add_left, measure_preimage_add]

end VOPy.Eval
