import VOPyVerif.Proofs.Problem
import Mathlib.LinearAlgebra.Matrix.RowCol
import Mathlib.Data.Matrix.Basic
import Mathlib.Data.List.OfFn
import Mathlib.Algebra.BigOperators.Fin
import Mathlib.Algebra.Module.BigOperators
/-! Helper lemmas for C20: the list-of-rows model of the noise map agrees with Mathlib's `Matrix`
operations (`toRows` encoding), and the second-moment algebra of `x ↦ x · M`. -/
namespace VOPy.Problem
open Matrix

/-- the list-of-rows encoding of a matrix, as the driver receives it -/
def toRows {r c : Nat} (M : Matrix (Fin r) (Fin c) ℚ) : Mat :=
  List.ofFn (fun i => List.ofFn (fun j => M i j))

theorem toRows_length {r c : Nat} (M : Matrix (Fin r) (Fin c) ℚ) : (toRows M).length = r := by
  simp [toRows]

theorem toRows_getElem {r c : Nat} (M : Matrix (Fin r) (Fin c) ℚ) (i : Nat) (hi : i < r) :
    (toRows M)[i]'(by rw [toRows_length]; exact hi) = List.ofFn (fun j => M ⟨i, hi⟩ j) := by
  simp [toRows]

theorem toRows_injective {r c : Nat} : Function.Injective (toRows (r := r) (c := c)) := by
  intro A B h
  ext i j
  have h1 := congrArg (fun l : Mat => l[i.1]?) h
  simp only [toRows, List.getElem?_ofFn, i.2, ↓reduceDIte, Option.some.injEq] at h1
  have h2 := congrArg (fun l : Vec => l[j.1]?) h1
  simpa [List.getElem?_ofFn, j.2] using h2

theorem dot_ofFn : ∀ {n : Nat} (a b : Fin n → ℚ), dot (List.ofFn a) (List.ofFn b) = ∑ i, a i * b i
  | 0, a, b => by simp [dot]
  | n + 1, a, b => by
    rw [List.ofFn_succ, List.ofFn_succ, dot, dot_ofFn, Fin.sum_univ_succ]

theorem transposeN_toRows {r c : Nat} (M : Matrix (Fin r) (Fin c) ℚ) :
    transposeN c (toRows M) = toRows Mᵀ := by
  apply List.ext_getElem
  · simp [transposeN, toRows]
  · intro j h1 h2
    have hj : j < c := by simpa [transposeN] using h1
    rw [toRows_getElem _ j hj]
    simp only [transposeN, List.getElem_map, List.getElem_range]
    apply List.ext_getElem
    · simp [toRows]
    · intro i h3 h4
      have hi : i < r := by simpa [toRows] using h3
      simp only [List.getElem_map, List.getElem_ofFn, transpose_apply]
      rw [toRows_getElem _ i hi]
      simp [List.getD_eq_getElem?_getD, hj]

theorem transpose_toRows {r c : Nat} (hr : 0 < r) (M : Matrix (Fin r) (Fin c) ℚ) :
    VOPy.Problem.transpose (toRows M) = toRows Mᵀ := by
  unfold VOPy.Problem.transpose
  have : ((toRows M).headD []).length = c := by
    obtain ⟨k, rfl⟩ : ∃ k, r = k + 1 := ⟨r - 1, by omega⟩
    simp [toRows, List.ofFn_succ]
  rw [this, transposeN_toRows]

theorem vecMat_toRows {r c : Nat} (hr : 0 < r) (z : Fin r → ℚ) (M : Matrix (Fin r) (Fin c) ℚ) :
    vecMat (List.ofFn z) (toRows M) = List.ofFn (z ᵥ* M) := by
  unfold vecMat
  rw [transpose_toRows hr]
  apply List.ext_getElem
  · simp [toRows]
  · intro j h1 h2
    have hj : j < c := by simpa using h2
    simp only [List.getElem_map, List.getElem_ofFn]
    rw [toRows_getElem _ j hj, dot_ofFn]
    simp [vecMul, dotProduct]

theorem matMul_toRows {n r c : Nat} (hr : 0 < r) (A : Matrix (Fin n) (Fin r) ℚ)
    (B : Matrix (Fin r) (Fin c) ℚ) : matMul (toRows A) (toRows B) = toRows (A * B) := by
  unfold matMul
  apply List.ext_getElem
  · simp [toRows]
  · intro i h1 h2
    have hi : i < n := by simpa [toRows] using h2
    simp only [List.getElem_map]
    rw [toRows_getElem _ i hi, toRows_getElem _ i hi, vecMat_toRows hr]
    congr 1

theorem gram_toRows {r c : Nat} (hr : 0 < r) (M : Matrix (Fin r) (Fin c) ℚ) :
    gram (toRows M) = toRows (Mᵀ * M) := by
  unfold gram
  rw [transpose_toRows hr, matMul_toRows hr]

theorem llt_toRows {r c : Nat} (hr : 0 < r) (hc : 0 < c) (L : Matrix (Fin r) (Fin c) ℚ) :
    llt (toRows L) = toRows (L * Lᵀ) := by
  unfold llt
  rw [transpose_toRows hr, matMul_toRows hc]

theorem matAdd_toRows {r c : Nat} (A B : Matrix (Fin r) (Fin c) ℚ) :
    matAdd (toRows A) (toRows B) = toRows (A + B) := by
  unfold matAdd
  apply List.ext_getElem
  · simp [toRows]
  · intro i h1 h2
    have hi : i < r := by simpa [toRows] using h2
    simp only [List.getElem_zipWith]
    rw [toRows_getElem _ i hi, toRows_getElem _ i hi, toRows_getElem _ i hi]
    unfold vadd
    apply List.ext_getElem
    · simp
    · intro j h3 h4
      simp

theorem noisy_toRows {n d m : Nat} (hd : 0 < d) (F : Matrix (Fin n) (Fin m) ℚ)
    (Z : Matrix (Fin n) (Fin d) ℚ) (M : Matrix (Fin d) (Fin m) ℚ) :
    noisy (toRows F) (toRows Z) (toRows M) = toRows (F + Z * M) := by
  unfold noisy
  rw [matMul_toRows hd, matAdd_toRows]

theorem covOK_toRows {d : Nat} (hd : 0 < d) (M L : Matrix (Fin d) (Fin d) ℚ) :
    covOK (toRows M) (toRows L) = true ↔ Mᵀ * M = L * Lᵀ := by
  unfold covOK
  rw [gram_toRows hd, llt_toRows hd hd, beq_iff_eq]
  exact toRows_injective.eq_iff

/-! ## second-moment algebra -/

section Moments
variable {R : Type} [CommRing R] {d m : Nat}

theorem vecMulVec_vecMul (v : Fin d → R) (M : Matrix (Fin d) (Fin m) R) :
    vecMulVec (v ᵥ* M) (v ᵥ* M) = Mᵀ * vecMulVec v v * M := by
  rw [vecMulVec_eq (Fin 1), vecMulVec_eq (Fin 1), replicateCol_vecMul, replicateRow_vecMul,
    transpose_mul, transpose_replicateRow, Matrix.mul_assoc, Matrix.mul_assoc, Matrix.mul_assoc]

theorem second_moment_vecMul {ι : Type} [Fintype ι] (p : ι → R) (x : ι → Fin d → R)
    (M : Matrix (Fin d) (Fin m) R) :
    ∑ k, p k • vecMulVec (x k ᵥ* M) (x k ᵥ* M) = Mᵀ * (∑ k, p k • vecMulVec (x k) (x k)) * M := by
  rw [Matrix.mul_sum, Matrix.sum_mul]
  apply Finset.sum_congr rfl
  intro k _
  rw [vecMulVec_vecMul, Matrix.mul_smul, Matrix.smul_mul]

theorem first_moment_vecMul {ι : Type} [Fintype ι] (p : ι → R) (x : ι → Fin d → R)
    (M : Matrix (Fin d) (Fin m) R) :
    ∑ k, p k • (x k ᵥ* M) = (∑ k, p k • x k) ᵥ* M := by
  rw [Matrix.sum_vecMul]
  apply Finset.sum_congr rfl
  intro k _
  rw [Matrix.smul_vecMul]

end Moments

end VOPy.Problem
