import VOPyVerif.Proofs.ConeConst
import VOPyVerif.Proofs.RealInst
import VOPyVerif.Model.ConeConst
import Mathlib.Analysis.SpecialFunctions.Trigonometric.Basic
import Mathlib.Tactic.FieldSimp
import Mathlib.Tactic.Ring
/-!
# The 2-D θ-cone: closed form of α and β (C17)

Two unit facet normals `w₁, w₂` with `⟪w₁, w₂⟫ = −cos θ` (`0 < θ < π`; this is `get_2d_w(θ)`: the angle
between the normals is `π − θ`).  Explicit primal/dual witnesses give

* `θ ≤ π/2`: `x = (w₁ + cos θ · w₂)/sin θ` on the facet of `w₂`, `λ = (0, cos θ)` ⇒ `α₁ = sin θ`;
* `θ ≥ π/2`: `x = w₁`, `λ = 0` ⇒ `α₁ = 1`,

and symmetrically for `w₂`; the supremum is attained.  `coneBeta` (the `RealLike` term mirroring
`ConeTheta2D.beta`) evaluated at `ℝ` is `1/sin θ` resp. `1`, i.e. `1/α`.
-/
namespace VOPy.ConeConst
open scoped RealInnerProductSpace
open Real

variable {E : Type*} [NormedAddCommGroup E] [InnerProductSpace ℝ E]

/-- the cone does not depend on the order of its two facets -/
theorem alpha_swap (w1 w2 c : E) : alpha [w1, w2] c = alpha [w2, w1] c := by
  unfold alpha
  congr 1
  ext v
  simp only [alphaSet, InCone, List.mem_cons, List.not_mem_nil, or_false, forall_eq_or_imp,
    forall_eq, Set.mem_ofPred_eq]
  constructor <;> rintro ⟨x, ⟨h1, h2⟩, h3⟩ <;> exact ⟨x, ⟨h2, h1⟩, h3⟩

theorem norm_sq_add_cos_smul (w1 w2 : E) (θ : ℝ) (h1 : ‖w1‖ = 1) (h2 : ‖w2‖ = 1)
    (h12 : ⟪w1, w2⟫ = -cos θ) : ‖w1 + cos θ • w2‖ ^ 2 = sin θ ^ 2 := by
  rw [norm_add_sq_real, real_inner_smul_right, norm_smul, h1, h2, h12, Real.norm_eq_abs, mul_one,
    sq_abs]
  have := sin_sq_add_cos_sq θ
  nlinarith

theorem norm_add_cos_smul (w1 w2 : E) (θ : ℝ) (h1 : ‖w1‖ = 1) (h2 : ‖w2‖ = 1)
    (h12 : ⟪w1, w2⟫ = -cos θ) (h0 : 0 < θ) (hπ : θ < π) : ‖w1 + cos θ • w2‖ = sin θ :=
  (sq_eq_sq₀ (norm_nonneg _) (sin_pos_of_pos_of_lt_pi h0 hπ).le).mp
    (norm_sq_add_cos_smul w1 w2 θ h1 h2 h12)

/-- acute (or right) θ-cone: `α₁ = sin θ`, attained at `x = (w₁ + cos θ · w₂)/sin θ` -/
theorem alpha_theta_acute (w1 w2 : E) (θ : ℝ) (h1 : ‖w1‖ = 1) (h2 : ‖w2‖ = 1)
    (h12 : ⟪w1, w2⟫ = -cos θ) (h0 : 0 < θ) (hle : θ ≤ π / 2) :
    alpha [w1, w2] w1 = sin θ ∧ IsGreatest (alphaSet [w1, w2] w1) (sin θ) := by
  have hπ : θ < π := by linarith [pi_pos]
  have hs : 0 < sin θ := sin_pos_of_pos_of_lt_pi h0 hπ
  have hc : 0 ≤ cos θ := cos_nonneg_of_neg_pi_div_two_le_of_le (by linarith [pi_pos]) hle
  have hnorm := norm_add_cos_smul w1 w2 θ h1 h2 h12 h0 hπ
  have h11 : ⟪w1, w1⟫ = 1 := by rw [real_inner_self_eq_norm_sq, h1]; norm_num
  have h22 : ⟪w2, w2⟫ = 1 := by rw [real_inner_self_eq_norm_sq, h2]; norm_num
  have h21 : ⟪w2, w1⟫ = -cos θ := by rw [real_inner_comm]; exact h12
  have hsc := sin_sq_add_cos_sq θ
  set x : E := (1 / sin θ) • (w1 + cos θ • w2) with hx
  have hx1 : ⟪w1, x⟫ = sin θ := by
    rw [hx, real_inner_smul_right, inner_add_right, real_inner_smul_right, h11, h12]
    field_simp
    nlinarith
  have hx2 : ⟪w2, x⟫ = 0 := by
    rw [hx, real_inner_smul_right, inner_add_right, real_inner_smul_right, h22, h21]
    ring
  have hcone : InCone [w1, w2] x := by
    intro w hw
    simp only [List.mem_cons, List.not_mem_nil, or_false] at hw
    rcases hw with rfl | rfl
    · rw [hx1]; exact hs.le
    · rw [hx2]
  have hxn : ‖x‖ ≤ 1 := by
    rw [hx, norm_smul, hnorm, Real.norm_eq_abs, abs_of_pos (by positivity)]
    field_simp
    exact le_refl _
  have hl : NonnegL [0, cos θ] := by
    intro l hl
    simp only [List.mem_cons, List.not_mem_nil, or_false] at hl
    rcases hl with rfl | rfl
    · exact le_refl _
    · exact hc
  have hcomb : w1 + comb [0, cos θ] [w1, w2] = w1 + cos θ • w2 := by
    simp
  have heq : ⟪w1, x⟫ = ‖w1 + comb [0, cos θ] [w1, w2]‖ := by
    rw [hcomb, hnorm, hx1]
  have := alpha_eq_of_certificates [w1, w2] w1 x [0, cos θ] hcone hxn hl heq
  rw [hx1] at this
  exact this

/-- obtuse (or right) θ-cone: `α₁ = 1`, attained at `x = w₁` -/
theorem alpha_theta_obtuse (w1 w2 : E) (θ : ℝ) (h1 : ‖w1‖ = 1)
    (h12 : ⟪w1, w2⟫ = -cos θ) (hge : π / 2 ≤ θ) (hπ : θ < π) :
    alpha [w1, w2] w1 = 1 ∧ IsGreatest (alphaSet [w1, w2] w1) 1 := by
  have hc : cos θ ≤ 0 := cos_nonpos_of_pi_div_two_le_of_le hge (by linarith [pi_pos])
  have h11 : ⟪w1, w1⟫ = 1 := by rw [real_inner_self_eq_norm_sq, h1]; norm_num
  have h21 : ⟪w2, w1⟫ = -cos θ := by rw [real_inner_comm]; exact h12
  have hcone : InCone [w1, w2] w1 := by
    intro w hw
    simp only [List.mem_cons, List.not_mem_nil, or_false] at hw
    rcases hw with rfl | rfl
    · rw [h11]; norm_num
    · rw [h21]; linarith
  have heq : ⟪w1, w1⟫ = ‖w1 + comb [] [w1, w2]‖ := by
    simp [h1]
  have := alpha_eq_of_certificates [w1, w2] w1 w1 [] hcone h1.le (fun _ h => by simp at h) heq
  rw [h11] at this
  exact this

/-- **Closed form of α for the 2-D θ-cone**, both facets, every `θ ∈ (0, π)`. -/
theorem alpha_theta (w1 w2 : E) (θ : ℝ) (h1 : ‖w1‖ = 1) (h2 : ‖w2‖ = 1)
    (h12 : ⟪w1, w2⟫ = -cos θ) (h0 : 0 < θ) (hπ : θ < π) :
    alpha [w1, w2] w1 = (if θ ≤ π / 2 then sin θ else 1) ∧
    alpha [w1, w2] w2 = (if θ ≤ π / 2 then sin θ else 1) := by
  have h21 : ⟪w2, w1⟫ = -cos θ := by rw [real_inner_comm]; exact h12
  by_cases hle : θ ≤ π / 2
  · simp only [hle, if_true]
    refine ⟨(alpha_theta_acute w1 w2 θ h1 h2 h12 h0 hle).1, ?_⟩
    rw [alpha_swap]
    exact (alpha_theta_acute w2 w1 θ h2 h1 h21 h0 hle).1
  · simp only [hle, if_false]
    have hge : π / 2 ≤ θ := le_of_lt (not_le.mp hle)
    refine ⟨(alpha_theta_obtuse w1 w2 θ h1 h12 hge hπ).1, ?_⟩
    rw [alpha_swap]
    exact (alpha_theta_obtuse w2 w1 θ h2 h21 hge hπ).1

/-! ### `coneBeta` at `ℝ` -/

/-- the branch test of `ConeTheta2D.beta` at `ℝ` -/
noncomputable instance : LtB ℝ := ⟨fun a b => decide (a < b)⟩

theorem coneBeta_real (deg : ℝ) :
    coneBeta deg = if deg / 180 * π < π / 2 then 1 / sin (deg / 180 * π) else 1 := by
  simp [coneBeta, LtB.ltb]

/-- the branch test in degrees -/
theorem rad_lt_iff (deg : ℝ) : deg / 180 * π < π / 2 ↔ deg < 90 := by
  have := pi_pos
  constructor
  · intro h
    by_contra hn
    push Not at hn
    have : π / 2 ≤ deg / 180 * π := by
      have : (90 : ℝ) / 180 * π ≤ deg / 180 * π :=
        mul_le_mul_of_nonneg_right (by linarith) pi_pos.le
      linarith
    linarith
  · intro h
    have : deg / 180 * π < 90 / 180 * π :=
      mul_lt_mul_of_pos_right (by linarith) pi_pos
    linarith

/-- **β of the 2-D θ-cone** is `1/sin θ` for acute cones and `1` for right or obtuse cones, and it is
the reciprocal of `α₁` and of `α₂`, for every opening angle `deg ∈ (0°, 180°)`. -/
theorem coneBeta_eq (w1 w2 : E) (deg : ℝ) (hd0 : 0 < deg) (hd1 : deg < 180) (h1 : ‖w1‖ = 1)
    (h2 : ‖w2‖ = 1) (h12 : ⟪w1, w2⟫ = -cos (deg / 180 * π)) :
    coneBeta deg = (if deg < 90 then 1 / sin (deg / 180 * π) else 1) ∧
    coneBeta deg = 1 / alpha [w1, w2] w1 ∧ coneBeta deg = 1 / alpha [w1, w2] w2 := by
  have hp := pi_pos
  have h0 : 0 < deg / 180 * π := by positivity
  have hπ : deg / 180 * π < π := by
    have : deg / 180 * π < 180 / 180 * π := mul_lt_mul_of_pos_right (by linarith) hp
    linarith
  obtain ⟨ha1, ha2⟩ := alpha_theta w1 w2 _ h1 h2 h12 h0 hπ
  rw [ha1, ha2, coneBeta_real]
  by_cases hlt : deg < 90
  · have hr : deg / 180 * π < π / 2 := (rad_lt_iff deg).mpr hlt
    rw [if_pos hr, if_pos hlt, if_pos hr.le]
    exact ⟨rfl, rfl, rfl⟩
  · have hr : ¬ deg / 180 * π < π / 2 := fun h => hlt ((rad_lt_iff deg).mp h)
    have hge : π / 2 ≤ deg / 180 * π := not_lt.mp hr
    rw [if_neg hr, if_neg hlt]
    by_cases heq : deg / 180 * π = π / 2
    · rw [if_pos heq.le, heq, sin_pi_div_two]
      norm_num
    · have hgt : ¬ deg / 180 * π ≤ π / 2 := fun h => heq (le_antisymm h hge)
      rw [if_neg hgt]
      norm_num

end VOPy.ConeConst
