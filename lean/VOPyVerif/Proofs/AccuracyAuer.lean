import VOPyVerif.Proofs.AccuracySets
/-!
# C01, Auer: the invariant over rounds, abstractly

`Steps.auerRound` (every width looked up by design) is first rewritten in terms of three Boolean
relations on design indices computed from the centres and width rows of the round,

* `dcert i j` — the elimination certificate `np.all(m(c_i, c_j) > β_i + β_j)`,
* `p1brk i j` — stage 1 of `pareto_updating`: `np.all(M(c_i, c_j) < β_i + β_j)` (i is held back by j),
* `p2brk i j` — stage 2: `np.all(M(c_j, c_i) <= β_i + β_j)` (i is left in S because j may need it),

and then the invariant `AInv` is shown to be preserved by a round whose relations are sound with
respect to the true means (`ARoundSound`).  The true means enter through `slt` (strictly smaller in
every objective: what a certificate gives), `dom` (weak domination) and `good`.
-/
namespace VOPy.Accuracy
open VOPy VOPy.Steps

/-! ### `Steps.auerRound` through relations on indices -/

def dcert (centre width : Nat → Vec) (i j : Nat) : Bool :=
  auerDomCert centre (i, width i) (j, width j)

def p1brk (eps : Rat) (centre width : Nat → Vec) (i j : Nat) : Bool :=
  allLt (bigM eps (centre i) (centre j)) (vadd (width i) (width j))

def p2brk (eps : Rat) (centre width : Nat → Vec) (i j : Nat) : Bool :=
  allLe (bigM eps (centre j) (centre i)) (vadd (width i) (width j))

theorem anyOtherP_byDesign (width : Nat → Vec) (test : Nat × Vec → Bool) (i : Nat) (S : List Nat) :
    anyOtherP test i (byDesign width S) = anyOther (fun j => test (j, width j)) i S := by
  induction S with
  | nil => rfl
  | cons a S ih =>
    simp only [byDesign, List.map_cons, anyOtherP, anyOther] at ih ⊢
    rw [ih]

theorem mem_auerToDiscard {centre width : Nat → Vec} {S : List Nat} {i : Nat} :
    i ∈ auerToDiscardCore centre (byDesign width S) ↔
      i ∈ S ∧ ∃ j ∈ S, j ≠ i ∧ dcert centre width i j = true := by
  unfold auerToDiscardCore
  simp only [List.mem_map, List.mem_filter, anyOtherP_byDesign, anyOther_eq_true]
  constructor
  · rintro ⟨p, ⟨hp, h⟩, rfl⟩
    simp only [byDesign, List.mem_map] at hp
    obtain ⟨a, ha, rfl⟩ := hp
    exact ⟨ha, h⟩
  · rintro ⟨hi, h⟩
    exact ⟨(i, width i), ⟨by simp only [byDesign, List.mem_map]; exact ⟨i, hi, rfl⟩, h⟩, rfl⟩

theorem mem_auerDiscard {centre width : Nat → Vec} {S : List Nat} (hS : S.Nodup) {x : Nat} :
    x ∈ auerDiscard centre width S ↔
      x ∈ S ∧ ∀ j ∈ S, j ≠ x → dcert centre width x j = false := by
  unfold auerDiscard
  rw [mem_removeAll hS, mem_auerToDiscard]
  constructor
  · rintro ⟨hx, h⟩
    refine ⟨hx, fun j hj hne => ?_⟩
    cases hc : dcert centre width x j with
    | false => rfl
    | true => exact absurd ⟨hx, j, hj, hne, hc⟩ h
  · rintro ⟨hx, h⟩
    refine ⟨hx, ?_⟩
    rintro ⟨_, j, hj, hne, hc⟩
    rw [h j hj hne] at hc
    exact absurd hc (by simp)

theorem mem_auerP1 {eps : Rat} {centre width : Nat → Vec} {S : List Nat} {p : Nat × Vec} :
    p ∈ auerP1Core eps centre (byDesign width S) ↔
      p.2 = width p.1 ∧ p.1 ∈ S ∧ ∀ j ∈ S, j ≠ p.1 → p1brk eps centre width p.1 j = false := by
  unfold auerP1Core
  simp only [List.mem_filter, anyOtherP_byDesign, Bool.not_eq_true', anyOther_eq_false]
  constructor
  · rintro ⟨hp, h⟩
    simp only [byDesign, List.mem_map] at hp
    obtain ⟨a, ha, rfl⟩ := hp
    exact ⟨rfl, ha, h⟩
  · rintro ⟨h2, h1, h⟩
    refine ⟨?_, ?_⟩
    · simp only [byDesign, List.mem_map]
      exact ⟨p.1, h1, by rw [← h2]⟩
    · intro j hj hne
      have := h j hj hne
      unfold p1brk at this
      rw [h2]
      exact this

/-- design `i` passes stage 1 -/
def inP1 (eps : Rat) (centre width : Nat → Vec) (S : List Nat) (i : Nat) : Prop :=
  i ∈ S ∧ ∀ j ∈ S, j ≠ i → p1brk eps centre width i j = false

theorem mem_P1pts {eps : Rat} {centre width : Nat → Vec} {S : List Nat} {i : Nat} :
    i ∈ (auerP1Core eps centre (byDesign width S)).map (·.1) ↔ inP1 eps centre width S i := by
  simp only [List.mem_map, mem_auerP1, inP1]
  constructor
  · rintro ⟨p, ⟨_, h1, h⟩, rfl⟩; exact ⟨h1, h⟩
  · rintro ⟨h1, h⟩; exact ⟨(i, width i), ⟨rfl, h1, h⟩, rfl⟩

theorem mem_auerNewPareto {eps : Rat} {centre width : Nat → Vec} {S : List Nat} {i : Nat} :
    i ∈ auerNewParetoCore eps centre (byDesign width S) ↔
      inP1 eps centre width S i ∧
        ∀ j ∈ S, ¬ inP1 eps centre width S j → p2brk eps centre width i j = false := by
  unfold auerNewParetoCore
  simp only [List.mem_map, List.mem_filter, Bool.not_eq_true', List.any_eq_false, Bool.and_eq_true,
    Bool.not_eq_true', not_and, Bool.not_eq_true, List.contains_eq_mem, decide_eq_false_iff_not,
    mem_auerP1]
  constructor
  · rintro ⟨p, ⟨⟨h2, h1, h⟩, hq⟩, rfl⟩
    refine ⟨⟨h1, h⟩, fun j hj hnj => ?_⟩
    have hjm : (j, width j) ∈ byDesign width S := by
      simp only [byDesign, List.mem_map]; exact ⟨j, hj, rfl⟩
    have := hq (j, width j) hjm (fun hc => hnj (mem_P1pts.mp (by
      simpa only [List.mem_map, mem_auerP1] using hc)))
    unfold p2brk
    rw [← h2]
    exact this
  · rintro ⟨⟨h1, h⟩, hq⟩
    refine ⟨(i, width i), ⟨⟨rfl, h1, h⟩, ?_⟩, rfl⟩
    intro q hqm hqn
    simp only [byDesign, List.mem_map] at hqm
    obtain ⟨j, hj, rfl⟩ := hqm
    have hnj : ¬ inP1 eps centre width S j := by
      intro hc
      apply hqn
      have := (mem_P1pts (eps := eps) (centre := centre) (width := width) (S := S) (i := j)).mpr hc
      simpa only [List.mem_map, mem_auerP1] using this
    exact hq j hj hnj

/-! ### the abstract invariant -/

/-- facts about the true means for Auer's (componentwise) order -/
structure ATruth (K : Nat) (slt dom good : Nat → Nat → Prop) : Prop where
  slt_trans : ∀ i j k, i < K → j < K → k < K → slt i j → slt j k → slt i k
  slt_irrefl : ∀ i, i < K → ¬ slt i i
  slt_dom : ∀ i j, i < K → j < K → slt i j → dom j i
  dom_trans : ∀ i j k, i < K → j < K → k < K → dom i j → dom j k → dom i k
  good_refl : ∀ i, i < K → good i i
  good_mono : ∀ i k j, i < K → k < K → j < K → good i k → dom k j → good i j

structure AInv (K : Nat) (dom good : Nat → Nat → Prop) (S P : List Nat) : Prop where
  nodupS : S.Nodup
  nodupP : P.Nodup
  disj : ∀ x, x ∈ S → x ∉ P
  lt : ∀ x, x ∈ S ∨ x ∈ P → x < K
  covered : ∀ i, i < K → i ∉ S → i ∉ P → ∃ j, (j ∈ S ∨ j ∈ P) ∧ dom j i
  acc : ∀ i, i ∈ P → ∀ j, j < K → good i j
  accS : ∀ s, s ∈ S → ∀ p, p ∈ P → good s p

/-- soundness of one round's three relations with respect to the true means -/
structure ARoundSound (slt good : Nat → Nat → Prop) (dc b1 b2 : Rel) (S : List Nat) : Prop where
  cert_sound : ∀ i, i ∈ S → ∀ j, j ∈ S → j ≠ i → dc i j = true → slt i j
  p1_sound : ∀ i, i ∈ S → ∀ j, j ∈ S → j ≠ i → b1 i j = false → good i j
  p2_sound : ∀ i, i ∈ S → ∀ j, j ∈ S → j ≠ i → b2 i j = false → good j i

theorem ainv_init (K : Nat) (dom good : Nat → Nat → Prop) : AInv K dom good (List.range K) [] where
  nodupS := List.nodup_range
  nodupP := List.nodup_nil
  disj := by simp
  lt := by simp
  covered := fun i hi hS _ => absurd (List.mem_range.mpr hi) hS
  acc := by simp
  accS := by simp

/-- Above every element that has a certificate there is a certificate-free element that is
strictly larger in the (transitive, irreflexive) truth order. -/
theorem exists_maximal_above_of_lt (rel : Nat → Nat → Bool) (lt : Nat → Nat → Prop) (A : List Nat)
    (htrans : ∀ i ∈ A, ∀ j ∈ A, ∀ k ∈ A, lt i j → lt j k → lt i k)
    (hirr : ∀ i ∈ A, ¬ lt i i)
    (hrel : ∀ i ∈ A, ∀ j ∈ A, rel i j = true → lt i j) :
    ∀ i ∈ A, (∃ j ∈ A, rel i j = true) →
      ∃ k ∈ A, lt i k ∧ ∀ l ∈ A, rel k l = false := by
  classical
  have key : ∀ n : Nat, ∀ i ∈ A, (A.filter (fun k => decide (lt i k))).length ≤ n →
      (∃ j ∈ A, rel i j = true) → ∃ k ∈ A, lt i k ∧ ∀ l ∈ A, rel k l = false := by
    intro n
    induction n with
    | zero =>
      rintro i hi hlen ⟨j, hj, hij⟩
      have : j ∈ A.filter (fun k => decide (lt i k)) :=
        List.mem_filter.mpr ⟨hj, by simpa using hrel i hi j hj hij⟩
      have h0 : A.filter (fun k => decide (lt i k)) = [] :=
        List.eq_nil_of_length_eq_zero (Nat.le_zero.mp hlen)
      rw [h0] at this
      simp at this
    | succ n ih =>
      rintro i hi hlen ⟨j, hj, hij⟩
      have hltij := hrel i hi j hj hij
      by_cases hmax : ∀ l ∈ A, rel j l = false
      · exact ⟨j, hj, hltij, hmax⟩
      · have hex : ∃ l ∈ A, rel j l = true := by
          apply Classical.byContradiction
          intro hno
          apply hmax
          intro l hl
          cases h : rel j l with
          | false => rfl
          | true => exact absurd ⟨l, hl, h⟩ hno
        have hlt : (A.filter (fun k => decide (lt j k))).length <
            (A.filter (fun k => decide (lt i k))).length :=
          filter_length_lt
            (fun x hx hjx => by
              simp only [decide_eq_true_eq] at hjx ⊢
              exact htrans i hi j hj x hx hltij hjx)
            hj (by simpa using hltij) (by simpa using hirr j hj)
        obtain ⟨k, hk, hjk, hkmax⟩ := ih j hj (by omega) hex
        exact ⟨k, hk, htrans i hi j hj k hk hltij hjk, hkmax⟩
  intro i hi hex
  exact key _ i hi (Nat.le_refl _) hex

/-- **One Auer round preserves the invariant.** -/
theorem auer_step {K : Nat} {slt dom good : Nat → Nat → Prop} (htruth : ATruth K slt dom good)
    {eps : Rat} {centre width : Nat → Vec} {S P : List Nat}
    (hinv : AInv K dom good S P)
    (hs : ARoundSound slt good (dcert centre width) (p1brk eps centre width) (p2brk eps centre width) S) :
    AInv K dom good (auerRound eps centre width S P).1 (auerRound eps centre width S P).2 := by
  have hround : auerRound eps centre width S P =
      (removeAll (auerDiscard centre width S)
          (auerNewParetoCore eps centre (byDesign width (auerDiscard centre width S))),
       addAll P (auerNewParetoCore eps centre (byDesign width (auerDiscard centre width S)))) := rfl
  rw [hround]
  have hS1nd : (auerDiscard centre width S).Nodup := nodup_removeAll hinv.nodupS
  have hmemS1 : ∀ x, x ∈ auerDiscard centre width S ↔
      x ∈ S ∧ ∀ j ∈ S, j ≠ x → dcert centre width x j = false := fun x => mem_auerDiscard hinv.nodupS
  generalize auerDiscard centre width S = S1 at *
  have hmemNew : ∀ x, x ∈ auerNewParetoCore eps centre (byDesign width S1) ↔
      inP1 eps centre width S1 x ∧
        ∀ j ∈ S1, ¬ inP1 eps centre width S1 j → p2brk eps centre width x j = false :=
    fun x => mem_auerNewPareto
  generalize auerNewParetoCore eps centre (byDesign width S1) = new at *
  have hS1sub : ∀ x, x ∈ S1 → x ∈ S := fun x hx => ((hmemS1 x).mp hx).1
  have hNsub : ∀ x, x ∈ new → x ∈ S1 := fun x hx => ((hmemNew x).mp hx).1.1
  have hmemS2 : ∀ x, x ∈ removeAll S1 new ↔ x ∈ S1 ∧ x ∉ new := fun x => mem_removeAll hS1nd
  have hmemP2 : ∀ x, x ∈ addAll P new ↔ x ∈ P ∨ x ∈ new := fun x => mem_addAll
  have halive : ∀ x, (x ∈ removeAll S1 new ∨ x ∈ addAll P new) ↔ (x ∈ S1 ∨ x ∈ P) := by
    intro x
    rw [hmemS2, hmemP2]
    constructor
    · rintro (⟨h, _⟩ | h | h)
      · exact Or.inl h
      · exact Or.inr h
      · exact Or.inl (hNsub x h)
    · rintro (h | h)
      · by_cases hn : x ∈ new
        · exact Or.inr (Or.inr hn)
        · exact Or.inl ⟨h, hn⟩
      · exact Or.inr (Or.inl h)
  have hltS : ∀ x, x ∈ S → x < K := fun x hx => hinv.lt x (Or.inl hx)
  -- every design discarded in this round lies strictly below a surviving candidate
  have hsurv : ∀ i, i ∈ S → i ∉ S1 → ∃ k, k ∈ S1 ∧ dom k i := by
    intro i hiS hi1
    have hex : ∃ j ∈ S, (fun a b => decide (b ≠ a) && dcert centre width a b) i j = true := by
      apply Classical.byContradiction
      intro hno
      apply hi1
      rw [hmemS1]
      refine ⟨hiS, fun j hj hne => ?_⟩
      cases h : dcert centre width i j with
      | false => rfl
      | true => exact absurd ⟨j, hj, by simp [hne, h]⟩ hno
    obtain ⟨k, hkS, hik, hkmax⟩ := exists_maximal_above_of_lt
      (fun a b => decide (b ≠ a) && dcert centre width a b) slt S
      (fun a ha b hb c hc => htruth.slt_trans a b c (hltS a ha) (hltS b hb) (hltS c hc))
      (fun a ha => htruth.slt_irrefl a (hltS a ha))
      (fun a ha b hb h => by
        simp only [Bool.and_eq_true, decide_eq_true_eq] at h
        exact hs.cert_sound a ha b hb h.1 h.2)
      i hiS hex
    refine ⟨k, ?_, htruth.slt_dom i k (hltS i hiS) (hltS k hkS) hik⟩
    rw [hmemS1]
    refine ⟨hkS, fun l hl hne => ?_⟩
    have := hkmax l hl
    simpa [hne] using this
  have hcov1 : ∀ i, i < K → i ∉ S1 → i ∉ P → ∃ k, (k ∈ S1 ∨ k ∈ P) ∧ dom k i := by
    intro i hiK hi1 hiP
    by_cases hiS : i ∈ S
    · obtain ⟨k, hk, hki⟩ := hsurv i hiS hi1
      exact ⟨k, Or.inl hk, hki⟩
    · obtain ⟨j, hj, hji⟩ := hinv.covered i hiK hiS hiP
      rcases hj with hjS | hjP
      · by_cases hj1 : j ∈ S1
        · exact ⟨j, Or.inl hj1, hji⟩
        · obtain ⟨k, hk, hkj⟩ := hsurv j hjS hj1
          exact ⟨k, Or.inl hk,
            htruth.dom_trans k j i (hltS k (hS1sub k hk)) (hltS j hjS) hiK hkj hji⟩
      · exact ⟨j, Or.inr hjP, hji⟩
  -- soundness restricted to the survivors
  have hs1 : ∀ i, i ∈ S1 → ∀ j, j ∈ S1 → j ≠ i →
      p1brk eps centre width i j = false → good i j :=
    fun i hi j hj hne h => hs.p1_sound i (hS1sub i hi) j (hS1sub j hj) hne h
  have hs2 : ∀ i, i ∈ S1 → ∀ j, j ∈ S1 → j ≠ i →
      p2brk eps centre width i j = false → good j i :=
    fun i hi j hj hne h => hs.p2_sound i (hS1sub i hi) j (hS1sub j hj) hne h
  have hgoodLive : ∀ i, i ∈ new → ∀ k, (k ∈ S1 ∨ k ∈ P) → good i k := by
    intro i hi k hk
    obtain ⟨⟨hi1, hp1⟩, _⟩ := (hmemNew i).mp hi
    by_cases hki : k = i
    · subst hki; exact htruth.good_refl k (hltS k (hS1sub k hi1))
    · rcases hk with hk1 | hkP
      · exact hs1 i hi1 k hk1 hki (hp1 k hk1 hki)
      · exact hinv.accS i (hS1sub i hi1) k hkP
  refine
    { nodupS := nodup_removeAll hS1nd
      nodupP := nodup_addAll hinv.nodupP
      disj := ?_, lt := ?_, covered := ?_, acc := ?_, accS := ?_ }
  · intro x hx
    rw [hmemS2] at hx
    rw [hmemP2]
    rintro (h | h)
    · exact hinv.disj x (hS1sub x hx.1) h
    · exact hx.2 h
  · intro x hx
    rcases (halive x).mp hx with h | h
    · exact hltS x (hS1sub x h)
    · exact hinv.lt x (Or.inr h)
  · intro i hiK hi2 hiP2
    have h1 : i ∉ S1 := fun h => (not_or.mpr ⟨hi2, hiP2⟩) ((halive i).mpr (Or.inl h))
    have h2 : i ∉ P := fun h => (not_or.mpr ⟨hi2, hiP2⟩) ((halive i).mpr (Or.inr h))
    obtain ⟨k, hk, hki⟩ := hcov1 i hiK h1 h2
    exact ⟨k, (halive k).mpr hk, hki⟩
  · intro i hi j hjK
    rcases (hmemP2 i).mp hi with h | h
    · exact hinv.acc i h j hjK
    · have hiK := hltS i (hS1sub i (hNsub i h))
      by_cases hjl : j ∈ S1 ∨ j ∈ P
      · exact hgoodLive i h j hjl
      · obtain ⟨k, hk, hkj⟩ := hcov1 j hjK (fun h' => hjl (Or.inl h')) (fun h' => hjl (Or.inr h'))
        have hkK : k < K := hk.elim (fun h' => hltS k (hS1sub k h')) (fun h' => hinv.lt k (Or.inr h'))
        exact htruth.good_mono i k j hiK hkK hjK (hgoodLive i h k hk) hkj
  · intro s hs2' p hp2
    obtain ⟨hs1', hsn⟩ := (hmemS2 s).mp hs2'
    rcases (hmemP2 p).mp hp2 with h | h
    · exact hinv.accS s (hS1sub s hs1') p h
    · obtain ⟨⟨hp1, _⟩, hq⟩ := (hmemNew p).mp h
      have hps : p ≠ s := fun hc => hsn (hc ▸ h)
      by_cases hsP1 : inP1 eps centre width S1 s
      · exact hs1 s hs1' p hp1 hps (hsP1.2 p hp1 hps)
      · exact hs2 p hp1 s hs1' (fun hc => hps hc.symm) (hq s hs1' hsP1)

/-- **The invariant holds after every round** of an Auer run all of whose rounds are sound. -/
theorem auer_run_inv {K : Nat} {slt dom good : Nat → Nat → Prop} (htruth : ATruth K slt dom good)
    (eps : Rat) (centre width : Nat → Nat → Vec) (T : Nat)
    (hs : ∀ r, r < T → ARoundSound slt good (dcert (centre r) (width r)) (p1brk eps (centre r) (width r))
      (p2brk eps (centre r) (width r)) (auerRun K eps centre width r).1) :
    AInv K dom good (auerRun K eps centre width T).1 (auerRun K eps centre width T).2 := by
  induction T with
  | zero => exact ainv_init K dom good
  | succ T ih =>
    have h := ih (fun r hr => hs r (Nat.lt_succ_of_lt hr))
    exact auer_step htruth h (hs T (Nat.lt_succ_self T))

end VOPy.Accuracy
