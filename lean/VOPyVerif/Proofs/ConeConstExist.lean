import VOPyVerif.Proofs.ConeConst
import Mathlib.Analysis.InnerProductSpace.Projection.Minimal
import Mathlib.Analysis.InnerProductSpace.Continuous
import Mathlib.Analysis.Normed.Module.FiniteDimension
import Mathlib.Topology.Order.Compact
/-! Existence of the minimum-norm feasible point (`z*`, so that `u* = z*/‖z*‖` and `d₁ = ‖z*‖` are
well defined) in a complete real inner product space, e.g. `EuclideanSpace ℝ (Fin m)`: the feasible
set `{z | ⟪w, z⟫ ≥ 1 for every facet}` is closed and convex. -/
namespace VOPy.ConeConst
open scoped RealInnerProductSpace

variable {E : Type*} [NormedAddCommGroup E] [InnerProductSpace ℝ E]

theorem isClosed_feas1 (ws : List E) : IsClosed {z : E | Feas1 ws z} := by
  have : {z : E | Feas1 ws z} = ⋂ w ∈ ws, {z : E | 1 ≤ ⟪w, z⟫} := by
    ext z; simp [Feas1]
  rw [this]
  refine isClosed_biInter (fun w _ => ?_)
  exact isClosed_le continuous_const (continuous_const.inner continuous_id)

theorem convex_feas1 (ws : List E) : Convex ℝ {z : E | Feas1 ws z} := by
  intro a ha b hb s t hs ht hst w hw
  rw [inner_add_right, real_inner_smul_right, real_inner_smul_right]
  have h1 := ha w hw
  have h2 := hb w hw
  nlinarith

/-- a feasible `d₁` problem has a minimum-norm point (unique by `minNorm_unique`) -/
theorem exists_isMinNorm [CompleteSpace E] (ws : List E) (hf : ∃ z, Feas1 ws z) :
    ∃ zs, IsMinNorm ws zs := by
  obtain ⟨v, hv, hmin⟩ := exists_norm_eq_iInf_of_complete_convex (K := {z : E | Feas1 ws z}) hf
    (isClosed_feas1 ws).isComplete (convex_feas1 ws) 0
  refine ⟨v, hv, fun z hz => ?_⟩
  have hbdd : BddBelow (Set.range fun w : {z : E | Feas1 ws z} => ‖(0 : E) - w‖) :=
    ⟨0, by rintro _ ⟨w, rfl⟩; exact norm_nonneg _⟩
  have : ‖(0 : E) - v‖ ≤ ‖(0 : E) - z‖ := by
    rw [hmin]; exact ciInf_le hbdd ⟨z, hz⟩
  simpa using this

theorem isClosed_inCone (ws : List E) : IsClosed {x : E | InCone ws x} := by
  have : {x : E | InCone ws x} = ⋂ w ∈ ws, {x : E | 0 ≤ ⟪w, x⟫} := by
    ext x; simp [InCone]
  rw [this]
  refine isClosed_biInter (fun w _ => ?_)
  exact isClosed_le continuous_const (continuous_const.inner continuous_id)

/-- in finite dimension the supremum defining `α` is attained: `α` is a maximum -/
theorem alpha_attained [FiniteDimensional ℝ E] (ws : List E) (c : E) :
    ∃ x, InCone ws x ∧ ‖x‖ ≤ 1 ∧ ⟪c, x⟫ = alpha ws c := by
  have : ProperSpace E := FiniteDimensional.proper_real E
  have hK : IsCompact ({x : E | InCone ws x} ∩ Metric.closedBall 0 1) :=
    (isCompact_closedBall 0 1).inter_left (isClosed_inCone ws)
  have hne : ({x : E | InCone ws x} ∩ Metric.closedBall 0 1).Nonempty :=
    ⟨0, by simp [InCone]⟩
  have hcont : ContinuousOn (fun x : E => ⟪c, x⟫) ({x : E | InCone ws x} ∩ Metric.closedBall 0 1) :=
    (continuous_const.inner continuous_id).continuousOn
  obtain ⟨x, hx, hmax⟩ := hK.exists_isMaxOn hne hcont
  have hxn : ‖x‖ ≤ 1 := by simpa using hx.2
  refine ⟨x, hx.1, hxn, ?_⟩
  have hg : IsGreatest (alphaSet ws c) ⟪c, x⟫ := by
    refine ⟨⟨x, hx.1, hxn, rfl⟩, ?_⟩
    rintro v ⟨y, hy, hyn, rfl⟩
    exact hmax ⟨hy, by simpa using hyn⟩
  exact hg.csSup_eq.symm

end VOPy.ConeConst
